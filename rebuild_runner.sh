#!/bin/sh
# (re)extract the model and rebuild the OCaml runner
set -e
cd "$(dirname "$0")/coq" && ./mk.sh Run/Extract.vo 2>&1 | grep -v '^COQ' || true
cd ../ocaml && cp ../coq/model.ml ../coq/model.mli . && ocamlfind ocamlopt -w -a -O3 model.mli model.ml driver.ml -o runner 2>&1 | grep -v "options are only" || true
