# Words for MANIFEST.json, per claimed property.
COMMON_NOTE = ("Trusted: Coq 8.16.1 kernel; the hand-written Gallina model is tied to the Go code only by the "
               "differential correspondence run (generated + boundary + malformed streams), so a behavioural change "
               "on inputs no generator reaches escapes; extraction (ExtrOcamlBasic only), ocaml/driver.ml, the Go harness. ")
TEXT = {
    "C11": {"text": "Theorems about the model of encoder.go (all uint64/int64 values, all strings, all maps, all call "
                    "sequences) proved in Coq; the model is compared with the real encoder on boundary, permutation and "
                    "random programs every run.",
            "note": COMMON_NOTE + "utf8.Valid and sort.Slice are modelled (DFA table / insertion sort)."},
    "C12": {"text": "Theorems about the model of decoder.go (every initial byte, every head width, exact consumption, "
                    "rejections; every cut inside a consumed item is refused) proved in Coq; model compared with the real decoder on all 256 initial bytes x follow "
                    "classes x types and on item streams every run.",
            "note": COMMON_NOTE + "io.ReadFull/io.CopyN are modelled by their contract on an in-memory reader."},
}
TEXT["C13"] = {
    "text": "Theorems relating the model of deterministic.go (index arithmetic, int conversions, fuel) to an inductive "
            "definition of RFC 8949 core-deterministic item sequences, plus termination; model compared with the real "
            "checker on all byte strings of length <=2 (<=3 thorough), small-alphabet sweeps and mutated nested items.",
    "note": COMMON_NOTE + "A Go panic and an error are both 'not accepted' (the repo's own tests require panics on "
            "under-populated arrays/maps); Go stack depth of the recursion is not modelled."}
TEXT["C14"] = {
    "text": "Theorems: the model of mice.Encode (index arithmetic, both drafts, empty-payload cases) equals the draft's "
            "recursive definition for every payload and record size >= 1, and decoding its output returns the payload for "
            "every sequence of Read buffer sizes; SHA-256 is a Section variable. Model (with a Gallina SHA-256/base64, "
            "themselves validated against Go's) compared with the real encoder/decoder every run.",
    "note": COMMON_NOTE + "The hash is abstract in the theorems; io.ReadFull/binary.Read modelled by contract."}
TEXT["C15"] = {
    "text": "Theorem: for ANY stream, digest and sequence of Read sizes the model decoder outputs only a prefix of the "
            "unique record list the digest commits to, complete on clean EOF, or else an explicit SHA-256 collision is "
            "constructed; zero/oversized record sizes refused. Correspondence: honest streams x every bit flip, truncation, "
            "extension, swaps, size edits; property-level judge (prefix of authenticated data + error class).",
    "note": COMMON_NOTE + "Collision-resistance of SHA-256 is not claimed: theorems deliver collisions as disjuncts."}
TEXT["C16"] = {
    "text": "Theorems: serialize-then-parse is the identity on every valid parameterised list / list of lists, output "
            "independent of parameter order, invalid values refused, parse results are valid (so parse-serialize-parse is "
            "the identity), parser vs. an inductive draft-09 grammar; model compared with the real parser/writer on all "
            "strings up to length 4 (6 thorough) over a 14-character alphabet plus generated/mutated headers and values.",
    "note": COMMON_NOTE + "strconv.Quote/FormatInt/ParseInt and encoding/base64 are modelled (base64 validated "
            "against Go's by the C14 stream). The draft's integer digit cap is not demanded (text unavailable offline)."}
SXG_NOTE = (COMMON_NOTE + "ECDSA, X.509 and certificate fetching are oracles (per-case tables recorded by the harness from the "
            "Go standard library: a (key, message, signature) triple not produced by the signer is taken as not verifying); "
            "url.Parse is a partial Gallina model validated against net/url each run, cases outside it are skipped and counted; "
            "http.StatusText table taken from the toolchain; time.Time modelled on integers incl. the int64 wrap of time.Unix.")
TEXT["C01"] = {
    "text": "Theorems over the model of Verify/verifySignature/serializeSignedMessage: the signed message determines the signed "
            "fields (injectivity, both layouts), success implies signature, cert hash, window and MI-authenticated payload; "
            "model compared with the real verifier on honestly signed exchanges under semantic field edits, Signature "
            "parameter edits, certificate substitution, file bit flips / truncation / insertion / deletion and boundary times.",
    "note": SXG_NOTE}
TEXT["C02"] = {
    "text": "Theorems: write-then-read returns the canonical exchange, limits are enforced (no file that reads back "
            "differently), verdict invariant under the round trip, a truncated file is refused or is the same exchange with a shorter payload; model compared with the library on sign->write->read->"
            "verify flows (versions x curves x record sizes x payload lengths), at every length-field boundary, on URIs and "
            "header maps the reader refuses, and with a property-level judge that compares the implementation's verdict before "
            "Write and after ReadExchange (known finding K2: b3 + stateful in-memory request header).",
    "note": SXG_NOTE}
TEXT["C08"] = {
    "text": "Theorems: model serializers (header CBOR, signed message b1 and b2/b3, Signature header, file layout, header "
            "integrity) equal an independent spec transcription built on the generic canonical CBOR encoder; model "
            "compared byte-for-byte with DumpExchangeHeaders / DumpSignedMessage / AddSignatureHeader (mock algorithm) / "
            "Write / ComputeHeaderIntegrity every run.",
    "note": SXG_NOTE}
TEXT["C09"] = {
    "text": "Theorem: model verify succeeds iff an independent acceptance predicate (same-origin, window, lifetime, "
            "integrity scheme, method/stateful headers, Content-Type + RFC 7234 storability, banned headers) holds; "
            "model compared with the real verifier on the policy grid (times at the boundaries, methods, banned headers in "
            "random letter case, Cache-Control subsets, Expires, status codes, validity-URL variants).",
    "note": SXG_NOTE}
TEXT["C17"] = {
    "text": "Theorems: validated chains write and read back byte-for-byte (DER, OCSP, SCT), output is the canonical CBOR "
            "form [magic, {cert, ocsp?, sct?}...], invalid chains are refused in both directions, SCT list serialization "
            "is exactly the RFC 6962 vector or an error at the 65535 limits, every strict prefix of a written chain is refused; model compared with the library on generated "
            "chains (real certificates incl. one above 65535 bytes), presence patterns, mutated and hand-built inputs.",
    "note": COMMON_NOTE + "x509.ParseCertificate is an oracle (per-input table from the standard library); premise raw(parse d) = d."}
BUNDLE_NOTE = (COMMON_NOTE + "URLs are strings; url.Parse / URL.String() are a partial Gallina model (Model/UrlRef.v) validated against "
               "net/url each run, cases outside its decided class are skipped and counted; x509.ParseCertificate (signatures "
               "section authorities) is an oracle table; http.Header canonicalisation is modelled.")
TEXT["C03"] = {
    "text": "Theorems over the model of Bundle.WriteTo / bundle.Read: whatever the writer accepts (b_write = Ok; the only "
            "side condition left is that the partial URL model decides the URLs and that authority certificates parse) "
            "reads back as the normalised bundle (nothing lost, duplicated or re-attributed; variants in row-major order; "
            "bad coverage refused), the writer never panics, and the write/read cycle reaches a byte-identical fixpoint; model compared with the library on generated bundles "
            "(both versions, 0..40 exchanges, URL shapes, CBOR-boundary body sizes, primary/manifest/signatures, variant "
            "grids incl. incomplete/overlapping/multi-key) through write, read and a 3-step write/read cycle.",
    "note": BUNDLE_NOTE}
TEXT["C04"] = {
    "text": "Theorems: every output of the writer model satisfies an independent well-formedness relation of the format "
            "(magic, tiling section table with responses last, index entries delimiting exactly one response, canonical "
            "CBOR, trailing length) and the returned count equals the bytes handed over, for destinations with and without "
            "ReaderFrom; model compared byte-for-byte (and count) with WriteTo on both kinds of destination. CountingWriter.ReadFrom is modelled line by line with its contract proved (read_from_fault, read_from_err_kind).",
    "note": BUNDLE_NOTE}
TEXT["C05"] = {
    "text": "Theorems for ALL byte strings: the reader model never panics or diverges, every returned exchange is the "
            "bytes found at in-bounds, non-wrapping locations inside the responses section, unknown sections are stepped "
            "over, a truncated bundle is refused or read as the whole; model compared with bundle.Read on hand-assembled bundles with every length/offset/count field replaced "
            "by boundary values, sections reordered/duplicated/unknown/missing, truncation at every offset and bit flips.",
    "note": BUNDLE_NOTE}
TEXT["C06"] = {
    "text": "Theorems over the model of the signatures-section signer/verifier: signed-subset encode/decode round trip, "
            "authority-index invariant over any sequence of signers, exchanges for which AddPayloadIntegrity succeeded (any "
            "record size it accepts, no prior Digest value) verify inside the window and yield the original body, uncovered ones are unsigned, success binds header hash + MI-authenticated body; model "
            "compared with the library on 1..3-signer histories with real ECDSA P-256/P-384 (oracle tables checked with "
            "the standard library), before/after write->read, under exchange and signatures-section mutations and times, and on "
            "hand-assembled signed subsets that are re-signed correctly (structure edits behind a valid signature).",
    "note": SXG_NOTE + " CanSignForURL (x509 hostname check) is decided by the harness, not modelled."}
TEXT["C07"] = {
    "text": "Theorems over the model of the integrity-block signer: data-to-be-signed layout and injectivity, signature "
            "added only if it verifies under the key its own attributes record (enforced by the signer, not assumed), stack "
            "invariant over any history of succeeding and failing signing attempts, "
            "output = deterministic-CBOR block ++ untouched file, trailing-length checks, Web Bundle ID; model compared "
            "with the library and the sign-bundle binary on generated files/keys/attribute maps/strategies.",
    "note": COMMON_NOTE + "SHA-512 and Ed25519 are oracles/parameters in the theorems (Gallina SHA-512 for execution, "
            "validated against crypto/sha512); Ed25519 sign/verify answers are per-case tables from the standard library; "
            "os.File seek/stat modelled as size + last 8 bytes."}
TEXT["C18"] = {
    "text": "PARTIAL. Proved: every serializer model is invariant under permutation of its header / parameter / attribute / "
            "index maps (the model takes Go's map iteration order as an arbitrary list), and being Gallina functions the "
            "models have no hidden state. Not provable here: Go map randomisation, goroutine schedules and data races are "
            "runtime behaviour - they are OBSERVED each run: every serializer is called repeatedly, with permuted insertion "
            "orders, on fresh and on shared objects (one parsed bundle / exchange / chain / Signer), from 32 goroutines with "
            "randomised start order in a harness built with -race; outputs must equal the single model output and any race "
            "report is a violation.",
    "note": COMMON_NOTE + "Race freedom is sampled by the Go race detector, not proved; the Go memory model and scheduler are not modelled."}
TEXT["C19"] = {
    "text": "Theorem (generic over ALL chunkings of the output into Write calls, every fault position k, both fault modes): "
            "a run that stops at the first failing Write reports an error iff k < |output|, accepts a prefix of the fault-free "
            "output of at most k bytes, and counts exactly what was accepted. That the Go code checks every Write is "
            "established by the correspondence run, exhaustive in k (every k in [0, |output|], both modes, destinations with and "
            "without ReaderFrom) for bundle, signed exchange, header dump, signed message, cert chain, MI and CBOR encoders, "
            "judged by the property itself (prefix / error / count), not by equality with the model.",
    "note": COMMON_NOTE + "The theorem is about run_writes (every Write result checked and returned); a dropped error check in Go "
            "shows as a concrete k in the correspondence run."}
TEXT["C10"] = {
    "text": "PARTIAL. Proved: every parser model (CBOR decoder, structured headers, MI decoder, cert-chain reader, signed-exchange "
            "reader, bundle reader incl. signatures section, integrity-block detection) returns a value or an error on every "
            "input - never the model's Panic (Go run-time panic) or Fuel (non-termination) outcome - with fuel linear in the "
            "input; declared counts are consumed byte by byte. The models are tied to the code by the malformed-input streams of "
            "C05/C12/C15/C16 plus adversarial declared-length inputs for every format. Memory of the real allocator is "
            "MEASURED (runtime.MemStats around each call, bound 48 MiB + 24 x input), not proved.",
    "note": COMMON_NOTE + "Go runtime, allocator, stack depth and GC are not modelled; the memory bound is sampled. Known finding K1 "
            "(bundle.Read copies a shared response once per index entry) is listed in known-findings.json."}
TEXT["C20"] = {
    "text": "PARTIAL. Proved on the model: the file-path -> URL mapping of gen-bundle (percent-escaping as net/url does it) is "
            "injective and never yields '#', '?', unpaired '%', spaces or non-ASCII, so every URL it produces is accepted by the "
            "bundle reader; the expected exchange set of a directory tree (index.html at the slash URL, its own URL a 301) is "
            "a Gallina function compared with what the gen-bundle binary writes. The tool compositions (gen-certurl->dump-certurl, "
            "gen-signedexchange->dump-signedexchange -verify with SEC1/PKCS#8/encrypted keys and -o -, gen-bundle->sign-bundle "
            "both sub-commands->dump-bundle, dump-id) are exercised through the seven binaries built from the working tree; "
            "gen-bundle -har is modelled (Model/Har.v: which entries become exchanges; refused or readable artifact), inputs "
            "sign-bundle must refuse (mismatching key, record size 0 / -1 / 16385, pre-existing empty Digest) are exercised; "
            "flag/PEM/PKCS#8 parsing and http.ServeFile are standard-library glue covered only by that run.",
    "note": COMMON_NOTE + "http.ServeFile, flag, encoding/pem, x509, pkcs8 and the file system are not modelled; file names that are not "
            "valid UTF-8 or contain a '..' element (refused by http.ServeFile itself) and base URLs outside the decided class are skipped and counted."}
NOT_YET = {}
