# Words for MANIFEST.json, per claimed property.
COMMON_NOTE = ("Trusted: Coq 8.16.1 kernel; the hand-written Gallina model is tied to the Go code only by the "
               "differential correspondence run (generated + boundary + malformed streams), so a behavioural change "
               "on inputs no generator reaches escapes; extraction (ExtrOcamlBasic only), ocaml/driver.ml, the Go harness. ")
TEXT = {
    "C11": {"text": "Theorems about the model of encoder.go (all uint64/int64 values, all strings, all maps, all call "
                    "sequences) proved in Coq; the model is compared with the real encoder on boundary, permutation and "
                    "random programs every run.",
            "note": COMMON_NOTE + "utf8.Valid and sort.Slice are modelled (DFA table / insertion sort)."},
    "C12": {"text": "Theorems about the model of decoder.go (every initial byte, every head width, exact consumption, "
                    "rejections) proved in Coq; model compared with the real decoder on all 256 initial bytes x follow "
                    "classes x types and on item streams every run.",
            "note": COMMON_NOTE + "io.ReadFull/io.CopyN are modelled by their contract on an in-memory reader."},
}
TEXT["C13"] = {
    "text": "Theorems relating the model of deterministic.go (index arithmetic, int conversions, fuel) to an inductive "
            "definition of RFC 8949 core-deterministic item sequences, plus termination; model compared with the real "
            "checker on all byte strings of length <=2 (<=3 thorough), small-alphabet sweeps and mutated nested items.",
    "note": COMMON_NOTE + "A Go panic and an error are both 'not accepted' (the repo's own tests require panics on "
            "under-populated arrays/maps); Go stack depth of the recursion is not modelled."}
TEXT["C14"] = {
    "text": "Theorems: the model of mice.Encode (index arithmetic, both drafts, empty-payload cases) equals the draft's "
            "recursive definition for every payload and record size >= 1, and decoding its output returns the payload for "
            "every sequence of Read buffer sizes; SHA-256 is a Section variable. Model (with a Gallina SHA-256/base64, "
            "themselves validated against Go's) compared with the real encoder/decoder every run.",
    "note": COMMON_NOTE + "The hash is abstract in the theorems; io.ReadFull/binary.Read modelled by contract."}
TEXT["C15"] = {
    "text": "Theorem: for ANY stream, digest and sequence of Read sizes the model decoder outputs only a prefix of the "
            "unique record list the digest commits to, complete on clean EOF, or else an explicit SHA-256 collision is "
            "constructed; zero/oversized record sizes refused. Correspondence: honest streams x every bit flip, truncation, "
            "extension, swaps, size edits; property-level judge (prefix of authenticated data + error class).",
    "note": COMMON_NOTE + "Collision-resistance of SHA-256 is not claimed: theorems deliver collisions as disjuncts."}
TEXT["C16"] = {
    "text": "Theorems: serialize-then-parse is the identity on every valid parameterised list / list of lists, output "
            "independent of parameter order, invalid values refused, parse results are valid (so parse-serialize-parse is "
            "the identity), parser vs. an inductive draft-09 grammar; model compared with the real parser/writer on all "
            "strings up to length 4 (6 thorough) over a 14-character alphabet plus generated/mutated headers and values.",
    "note": COMMON_NOTE + "strconv.Quote/FormatInt/ParseInt and encoding/base64 are modelled (base64 validated "
            "against Go's by the C14 stream). The draft's integer digit cap is not demanded (text unavailable offline)."}
NOT_YET = {}
