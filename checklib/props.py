# Per-property configuration of ./check.  "coq" is the statements-only file
# whose theorems are the proof obligations; "gens" names the generator groups
# of harness/gen_*.go whose cases tie the model to the code.
CRYPTO_TB = ["SHA-256/512 are Section variables in the theorems (collision disjuncts); "
             "signature schemes are oracles: no claim that ECDSA/Ed25519/SHA-2 are secure"]

PROPS = {
    "C01": {"coq": "Properties/C01.v", "params": ["Proofs/ParamsSxg.vo"], "gens": ["C01"], "trusted_base": CRYPTO_TB},
    "C02": {"coq": "Properties/C02.v", "coq_extra": ["Properties/C02Truncation.v"], "params": ["Proofs/ParamsSxg.vo"], "gens": ["C02"], "trusted_base": CRYPTO_TB},
    "C03": {"coq": "Properties/C03.v", "params": ["Proofs/ParamsBundle.vo"], "gens": ["C03"]},
    "C04": {"coq": "Properties/C04.v", "coq_extra": ["Properties/C04ReadFrom.v"], "params": ["Proofs/ParamsBundle.vo"], "gens": ["C04"]},
    "C05": {"coq": "Properties/C05.v", "coq_extra": ["Properties/C05Truncation.v"], "params": ["Proofs/ParamsBundle.vo"], "gens": ["C05"]},
    "C06": {"coq": "Properties/C06.v", "params": ["Proofs/ParamsBundle.vo"], "gens": ["C06", "C06x"], "trusted_base": CRYPTO_TB},
    "C07": {"coq": "Properties/C07.v", "params": ["Proofs/ParamsIB.vo"], "gens": ["C07"], "trusted_base": CRYPTO_TB, "bins": True},
    "C08": {"coq": "Properties/C08.v", "params": ["Proofs/ParamsSxg.vo"], "gens": ["C08"], "trusted_base": CRYPTO_TB},
    "C09": {"coq": "Properties/C09.v", "params": ["Proofs/ParamsSxg.vo"], "gens": ["C09"], "trusted_base": CRYPTO_TB},
    "C10": {"coq": "Properties/C10.v", "gens": ["C10", "C05", "C15", "C16", "C06x"]},
    "C11": {"coq": "Properties/C11.v", "gens": ["C11"]},
    "C12": {"coq": "Properties/C12.v", "coq_extra": ["Properties/C12Truncation.v"], "gens": ["C12"]},
    "C13": {"coq": "Properties/C13.v", "gens": ["C13"]},
    "C14": {"coq": "Properties/C14.v", "params": ["Proofs/ParamsMice.vo"], "gens": ["C14"], "trusted_base": CRYPTO_TB},
    "C18": {"coq": "Properties/C18.v", "gens": ["C18"], "race": True},
    "C19": {"coq": "Properties/C19.v", "gens": ["C19"]},
    "C17": {"coq": "Properties/C17.v", "coq_extra": ["Properties/C17Truncation.v"], "params": ["Proofs/ParamsCC.vo"], "gens": ["C17"]},
    "C16": {"coq": "Properties/C16.v", "gens": ["C16"]},
    "C15": {"coq": "Properties/C15.v", "params": ["Proofs/ParamsMice.vo"], "gens": ["C15"], "trusted_base": CRYPTO_TB},
    "C20": {"coq": "Properties/C20.v", "gens": ["C20"], "bins": True},
}
