#!/bin/sh
# Build the framework from files on disk only (offline): Coq development from
# clean, extraction, OCaml runner, Go harness.
set -e
cd "$(dirname "$0")"
ROOT=$(pwd)
REPO=${VERIF_REPO:-/repo}
export GOFLAGS=-mod=mod GOPROXY=off GOSUMDB=off GOTOOLCHAIN=local
mkdir -p .work evidence
( cd coq && find . -name '*.vo' -o -name '*.vok' -o -name '*.vos' -o -name '*.glob' -o -name '.*.aux' | xargs rm -f; rm -f model.ml model.mli )
cp "$REPO/go.sum" harness/go.sum
( cd harness && CGO_ENABLED=0 go build -tags verif -o harness . && ./harness params "$REPO" > ../coq/Generated/Params.v )
( cd coq && ./mk.sh ) || echo 'WARNING: some Coq files did not build; the checks of the affected properties will report it'
cp coq/model.ml coq/model.mli ocaml/
( cd ocaml && ocamlfind ocamlopt -w -a -O3 model.mli model.ml driver.ml -o runner )
cp "$REPO/go.sum" harness/go.sum
( cd harness && CGO_ENABLED=0 go build -tags verif -o harness . && CGO_ENABLED=1 go build -race -tags verif -o harness_race . )
mkdir -p .work/bin
( cd "$REPO" && go build -o "$ROOT/.work/bin/" ./go/bundle/cmd/... ./go/signedexchange/cmd/... )
echo setup done
