(* Base definitions shared by every model: results, byte strings, fixed-width
   integer conventions, and the generic s-expression used by the line protocol.
   No proofs in this file. *)
From Coq Require Export List NArith ZArith Bool Ascii String.
Export ListNotations.
Open Scope N_scope.

(* ---- results ----------------------------------------------------------- *)
(* Ok v : normal return; Err : the Go function returned a non-nil error;
   Panic : a Go run-time panic (explicit panic, out-of-range slice/index);
   Fuel : loop did not finish within the fuel (models non-termination).   *)
Inductive R (A : Type) : Type :=
| Ok (a : A) | Err | Panic | Fuel.
Arguments Ok {A} a.
Arguments Err {A}.
Arguments Panic {A}.
Arguments Fuel {A}.

Definition bind {A B} (x : R A) (f : A -> R B) : R B :=
  match x with Ok a => f a | Err => Err | Panic => Panic | Fuel => Fuel end.
Notation "'let*' x ':=' c 'in' k" := (bind c (fun x => k))
  (at level 200, x pattern, c at level 100, k at level 200, right associativity).

Definition of_opt {A} (o : option A) : R A :=
  match o with Some a => Ok a | None => Err end.
Definition is_ok {A} (r : R A) : bool := match r with Ok _ => true | _ => false end.

(* ---- bytes ------------------------------------------------------------- *)
Definition byte := N.
Definition bytes := list N.
Definition wfb (bs : bytes) : Prop := Forall (fun b => b < 256) bs.
Definition wfbb (bs : bytes) : bool := forallb (fun b => b <? 256) bs.

Fixpoint lenN {A} (l : list A) : N :=
  match l with [] => 0 | _ :: t => N.succ (lenN t) end.

(* split l n = Some (a, b)  iff  l = a ++ b and |a| = n  (Go: l[:n], l[n:]) *)
Fixpoint splitN {A} (l : list A) (n : N) {struct l} : option (list A * list A) :=
  if n =? 0 then Some ([], l)
  else match l with
       | [] => None
       | x :: t => match splitN t (N.pred n) with
                   | Some (a, b) => Some (x :: a, b)
                   | None => None
                   end
       end.

Fixpoint bytes_eqb (a b : bytes) : bool :=
  match a, b with
  | [], [] => true
  | x :: a', y :: b' => (x =? y) && bytes_eqb a' b'
  | _, _ => false
  end.

(* bytes.Compare: lexicographic, shorter prefix first *)
Fixpoint bytes_cmp (a b : bytes) : comparison :=
  match a, b with
  | [], [] => Eq
  | [], _ :: _ => Lt
  | _ :: _, [] => Gt
  | x :: a', y :: b' =>
      match x ?= y with Eq => bytes_cmp a' b' | c => c end
  end.
Definition bytes_ltb (a b : bytes) : bool :=
  match bytes_cmp a b with Lt => true | _ => false end.

(* big-endian, arithmetic form: be k n = the k low-order bytes of n *)
Fixpoint be (k : nat) (n : N) : bytes :=
  match k with
  | O => []
  | S k' => (n / 256 ^ N.of_nat k') mod 256 :: be k' n
  end.
Definition unbe (bs : bytes) : N := fold_left (fun acc b => acc * 256 + b) bs 0.

Definition two64 : N := 18446744073709551616.
Definition two63 : N := 9223372036854775808.
Definition w64 (n : N) : N := n mod two64.
(* int64(x) for a uint64 x : two's complement reinterpretation *)
Definition to_i64 (n : N) : Z :=
  if n <? two63 then Z.of_N n else (Z.of_N n - Z.of_N two64)%Z.
(* uint64(z) for an int64 z *)
Definition of_i64 (z : Z) : N :=
  if (0 <=? z)%Z then Z.to_N z else Z.to_N (z + Z.of_N two64)%Z.

(* ---- ASCII strings as bytes (for constants appearing in the Go source) -- *)
Fixpoint s2b (s : string) : bytes :=
  match s with
  | EmptyString => []
  | String c s' => N_of_ascii c :: s2b s'
  end.

Definition lower_byte (b : N) : N := if (65 <=? b) && (b <=? 90) then b + 32 else b.
Definition upper_byte (b : N) : N := if (97 <=? b) && (b <=? 122) then b - 32 else b.
Definition lower (bs : bytes) : bytes := map lower_byte bs.

(* ---- s-expressions: the only data that crosses the line protocol ------- *)
Inductive sx : Type :=
| SZ (z : Z)              (* decimal integer *)
| SB (b : bytes)          (* byte string, printed x<hex> *)
| SL (l : list sx).       (* list *)

Definition sym (s : string) : sx := SB (s2b s).
Definition sN (n : N) : sx := SZ (Z.of_N n).
Definition sbool (b : bool) : sx := SZ (if b then 1 else 0)%Z.

Fixpoint sx_eqb (a b : sx) {struct a} : bool :=
  match a, b with
  | SZ x, SZ y => (x =? y)%Z
  | SB x, SB y => bytes_eqb x y
  | SL x, SL y =>
      (fix go (x y : list sx) : bool :=
         match x, y with
         | [], [] => true
         | a :: x', b :: y' => sx_eqb a b && go x' y'
         | _, _ => false
         end) x y
  | _, _ => false
  end.

(* observable form of a result: (ok v) / (err) / (panic) / (fuel) *)
Definition sx_of_R {A} (f : A -> sx) (r : R A) : sx :=
  match r with
  | Ok a => SL [sym "ok"; f a]
  | Err => SL [sym "err"]
  | Panic => SL [sym "panic"]
  | Fuel => SL [sym "fuel"]
  end.

(* insertion sort, parameterised by a strict "less than" *)
Section Sort.
  Context {A : Type} (lt : A -> A -> bool).
  Fixpoint insert (x : A) (l : list A) : list A :=
    match l with
    | [] => [x]
    | y :: t => if lt y x then y :: insert x t else x :: l
    end.
  Fixpoint isort (l : list A) : list A :=
    match l with [] => [] | x :: t => insert x (isort t) end.
End Sort.
