(* encoding/base64 as the Go code uses it: StdEncoding (padded), RawStdEncoding,
   RawURLEncoding, URLEncoding.  Decoding mirrors Go's non-strict decoder:
   '\r' and '\n' are skipped anywhere, trailing bits are not checked.
   No proofs here. *)
From WP Require Import Base.Prelude.
Open Scope N_scope.

Definition b64_char (url : bool) (v : N) : N :=
  if v <? 26 then 65 + v
  else if v <? 52 then 97 + (v - 26)
  else if v <? 62 then 48 + (v - 52)
  else if v =? 62 then (if url then 45 else 43)
  else (if url then 95 else 47).

Definition b64_val (url : bool) (c : N) : option N :=
  if (65 <=? c) && (c <=? 90) then Some (c - 65)
  else if (97 <=? c) && (c <=? 122) then Some (c - 97 + 26)
  else if (48 <=? c) && (c <=? 57) then Some (c - 48 + 52)
  else if c =? (if url then 45 else 43) then Some 62
  else if c =? (if url then 95 else 47) then Some 63
  else None.

Fixpoint b64_encode (pad url : bool) (bs : bytes) : bytes :=
  match bs with
  | [] => []
  | [a] =>
      [b64_char url (a / 4); b64_char url ((a mod 4) * 16)]
      ++ (if pad then [61; 61] else [])
  | [a; b] =>
      [b64_char url (a / 4); b64_char url ((a mod 4) * 16 + b / 16);
       b64_char url ((b mod 16) * 4)]
      ++ (if pad then [61] else [])
  | a :: b :: c :: r =>
      b64_char url (a / 4) :: b64_char url ((a mod 4) * 16 + b / 16)
      :: b64_char url ((b mod 16) * 4 + c / 64) :: b64_char url (c mod 64)
      :: b64_encode pad url r
  end.

Definition is_nl (c : N) : bool := (c =? 10) || (c =? 13).
Fixpoint skipnl (s : bytes) : bytes :=
  match s with c :: r => if is_nl c then skipnl r else s | [] => [] end.

(* bytes produced by a (possibly partial) quantum of 6-bit values *)
Definition emit (q : list N) : bytes :=
  match q with
  | [a; b] => [a * 4 + b / 16]
  | [a; b; c] => [a * 4 + b / 16; (b mod 16) * 16 + c / 4]
  | [a; b; c; d] => [a * 4 + b / 16; (b mod 16) * 16 + c / 4; (c mod 4) * 64 + d]
  | _ => []
  end.

(* q: values of the current quantum (at most 3), out: decoded so far *)
Fixpoint b64_go (pad url : bool) (src : bytes) (q : list N) (out : bytes) : option bytes :=
  match src with
  | [] =>
      match q with
      | [] => Some out
      | [_] => None
      | _ => if pad then None else Some (out ++ emit q)
      end
  | c :: r =>
      match b64_val url c with
      | Some v =>
          match q with
          | [a; b; c3] => b64_go pad url r [] (out ++ emit [a; b; c3; v])
          | _ => b64_go pad url r (q ++ [v]) out
          end
      | None =>
          if is_nl c then b64_go pad url r q out
          else if pad && (c =? 61) then
            match q with
            | [a; b] =>
                match skipnl r with
                | c2 :: r2 => if (c2 =? 61) && (match skipnl r2 with [] => true | _ => false end)
                              then Some (out ++ emit [a; b]) else None
                | [] => None
                end
            | [a; b; c3] =>
                match skipnl r with [] => Some (out ++ emit [a; b; c3]) | _ => None end
            | _ => None
            end
          else None
      end
  end.

Definition b64_decode (pad url : bool) (src : bytes) : option bytes := b64_go pad url src [] [].
