(* SHA-512 (FIPS 180-4) on byte lists, for executing the models only. *)
From WP Require Import Base.Prelude.
Open Scope N_scope.

Definition m64 : N := 18446744073709551615.
Definition w64b (x : N) : N := N.land x m64.
Definition rotr64 (n x : N) : N := N.lor (N.shiftr x n) (w64b (N.shiftl x (64 - n))).
Definition not64 (x : N) : N := N.lxor x m64.
Definition Ch64 (x y z : N) := N.lxor (N.land x y) (N.land (not64 x) z).
Definition Maj64 (x y z : N) := N.lxor (N.lxor (N.land x y) (N.land x z)) (N.land y z).
Definition bsig0_64 x := N.lxor (N.lxor (rotr64 28 x) (rotr64 34 x)) (rotr64 39 x).
Definition bsig1_64 x := N.lxor (N.lxor (rotr64 14 x) (rotr64 18 x)) (rotr64 41 x).
Definition ssig0_64 x := N.lxor (N.lxor (rotr64 1 x) (rotr64 8 x)) (N.shiftr x 7).
Definition ssig1_64 x := N.lxor (N.lxor (rotr64 19 x) (rotr64 61 x)) (N.shiftr x 6).

Definition K512 : list N :=
 [4794697086780616226; 8158064640168781261; 13096744586834688815; 16840607885511220156;
 4131703408338449720; 6480981068601479193; 10538285296894168987; 12329834152419229976;
 15566598209576043074; 1334009975649890238; 2608012711638119052; 6128411473006802146;
 8268148722764581231; 9286055187155687089; 11230858885718282805; 13951009754708518548;
 16472876342353939154; 17275323862435702243; 1135362057144423861; 2597628984639134821;
 3308224258029322869; 5365058923640841347; 6679025012923562964; 8573033837759648693;
 10970295158949994411; 12119686244451234320; 12683024718118986047; 13788192230050041572;
 14330467153632333762; 15395433587784984357; 489312712824947311; 1452737877330783856;
 2861767655752347644; 3322285676063803686; 5560940570517711597; 5996557281743188959;
 7280758554555802590; 8532644243296465576; 9350256976987008742; 10552545826968843579;
 11727347734174303076; 12113106623233404929; 14000437183269869457; 14369950271660146224;
 15101387698204529176; 15463397548674623760; 17586052441742319658; 1182934255886127544;
 1847814050463011016; 2177327727835720531; 2830643537854262169; 3796741975233480872;
 4115178125766777443; 5681478168544905931; 6601373596472566643; 7507060721942968483;
 8399075790359081724; 8693463985226723168; 9568029438360202098; 10144078919501101548;
 10430055236837252648; 11840083180663258601; 13761210420658862357; 14299343276471374635;
 14566680578165727644; 15097957966210449927; 16922976911328602910; 17689382322260857208;
 500013540394364858; 748580250866718886; 1242879168328830382; 1977374033974150939;
 2944078676154940804; 3659926193048069267; 4368137639120453308; 4836135668995329356;
 5532061633213252278; 6448918945643986474; 6902733635092675308; 7801388544844847127].

Definition H0_512 : list N :=
 [7640891576956012808; 13503953896175478587; 4354685564936845355; 11912009170470909681;
 5840696475078001361; 11170449401992604703; 2270897969802886507; 6620516959819538809].

Fixpoint words64 (bs : bytes) : list N :=
  match bs with
  | a :: b :: c :: d :: e :: f :: g :: h :: r =>
      (((((((a * 256 + b) * 256 + c) * 256 + d) * 256 + e) * 256 + f) * 256 + g) * 256 + h) :: words64 r
  | _ => []
  end.

Fixpoint sched64 (n : nat) (recent : list N) (acc : list N) : list N :=
  match n with
  | O => rev_append acc []
  | S n' =>
      let w := w64b (ssig1_64 (nth 1 recent 0) + nth 6 recent 0 + ssig0_64 (nth 14 recent 0) + nth 15 recent 0) in
      sched64 n' (w :: firstn 15 recent) (w :: acc)
  end.
Definition schedule64 (bw : list N) : list N := bw ++ sched64 64 (rev_append bw []) [].

Record st8_64 := { ta : N; tb : N; tc : N; td : N; te : N; tf : N; tg : N; th : N }.
Definition round64 (s : st8_64) (kw : N * N) : st8_64 :=
  let (k, w) := kw in
  let t1 := th s + bsig1_64 (te s) + Ch64 (te s) (tf s) (tg s) + k + w in
  let t2 := bsig0_64 (ta s) + Maj64 (ta s) (tb s) (tc s) in
  {| ta := w64b (t1 + t2); tb := ta s; tc := tb s; td := tc s;
     te := w64b (td s + t1); tf := te s; tg := tf s; th := tg s |}.
Definition st64_of (l : list N) : st8_64 :=
  {| ta := nth 0 l 0; tb := nth 1 l 0; tc := nth 2 l 0; td := nth 3 l 0;
     te := nth 4 l 0; tf := nth 5 l 0; tg := nth 6 l 0; th := nth 7 l 0 |}.
Definition list64_of (s : st8_64) : list N := [ta s; tb s; tc s; td s; te s; tf s; tg s; th s].

Definition compress64 (h : list N) (block : bytes) : list N :=
  let w := schedule64 (words64 block) in
  let s := fold_left round64 (combine K512 w) (st64_of h) in
  map (fun p => w64b (fst p + snd p)) (combine h (list64_of s)).

Fixpoint blocks64 (fuel : nat) (h : list N) (bs : bytes) : list N :=
  match fuel with
  | O => h
  | S f => match bs with [] => h | _ => blocks64 f (compress64 h (firstn 128 bs)) (skipn 128 bs) end
  end.

Definition pad512 (msg : bytes) : bytes :=
  let l := lenN msg in
  let k := (128 - ((l + 17) mod 128)) mod 128 in
  msg ++ [128] ++ repeat 0 (N.to_nat k) ++ be 16 (l * 8).

Definition sha512 (msg : bytes) : bytes :=
  let p := pad512 msg in
  flat_map (be 8) (blocks64 (S (List.length p / 128)) H0_512 p).
