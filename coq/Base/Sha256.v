(* SHA-256 (FIPS 180-4) on byte lists, for *executing* the models; theorems
   never depend on it (they take the hash as a Section variable).  It is
   validated against crypto/sha256 by the correspondence run. *)
From WP Require Import Base.Prelude.
Open Scope N_scope.

Definition m32 : N := 4294967295.
Definition w32 (x : N) : N := N.land x m32.
Definition rotr (n x : N) : N := N.lor (N.shiftr x n) (w32 (N.shiftl x (32 - n))).
Definition not32 (x : N) : N := N.lxor x m32.
Definition Ch (x y z : N) := N.lxor (N.land x y) (N.land (not32 x) z).
Definition Maj (x y z : N) := N.lxor (N.lxor (N.land x y) (N.land x z)) (N.land y z).
Definition bsig0 x := N.lxor (N.lxor (rotr 2 x) (rotr 13 x)) (rotr 22 x).
Definition bsig1 x := N.lxor (N.lxor (rotr 6 x) (rotr 11 x)) (rotr 25 x).
Definition ssig0 x := N.lxor (N.lxor (rotr 7 x) (rotr 18 x)) (N.shiftr x 3).
Definition ssig1 x := N.lxor (N.lxor (rotr 17 x) (rotr 19 x)) (N.shiftr x 10).

Definition K256 : list N := [
 1116352408; 1899447441; 3049323471; 3921009573; 961987163; 1508970993; 2453635748; 2870763221;
 3624381080; 310598401; 607225278; 1426881987; 1925078388; 2162078206; 2614888103; 3248222580;
 3835390401; 4022224774; 264347078; 604807628; 770255983; 1249150122; 1555081692; 1996064986;
 2554220882; 2821834349; 2952996808; 3210313671; 3336571891; 3584528711; 113926993; 338241895;
 666307205; 773529912; 1294757372; 1396182291; 1695183700; 1986661051; 2177026350; 2456956037;
 2730485921; 2820302411; 3259730800; 3345764771; 3516065817; 3600352804; 4094571909; 275423344;
 430227734; 506948616; 659060556; 883997877; 958139571; 1322822218; 1537002063; 1747873779;
 1955562222; 2024104815; 2227730452; 2361852424; 2428436474; 2756734187; 3204031479; 3329325298].

Definition H0_256 : list N :=
  [1779033703; 3144134277; 1013904242; 2773480762; 1359893119; 2600822924; 528734635; 1541459225].

(* words of a 64-byte block *)
Fixpoint words32 (bs : bytes) : list N :=
  match bs with
  | a :: b :: c :: d :: r => (((a * 256 + b) * 256 + c) * 256 + d) :: words32 r
  | _ => []
  end.

(* message schedule: [recent] holds the last 16 words, most recent first *)
Fixpoint sched (n : nat) (recent : list N) (acc : list N) : list N :=
  match n with
  | O => rev acc
  | S n' =>
      let w2 := nth 1 recent 0 in
      let w7 := nth 6 recent 0 in
      let w15 := nth 14 recent 0 in
      let w16 := nth 15 recent 0 in
      let w := w32 (ssig1 w2 + w7 + ssig0 w15 + w16) in
      sched n' (w :: firstn 15 recent) (w :: acc)
  end.

Definition schedule (blockwords : list N) : list N :=
  blockwords ++ sched 48 (rev blockwords) [].

Record st8 := { sa : N; sb : N; sc : N; sd : N; se : N; sf : N; sg : N; sh : N }.

Definition round (s : st8) (kw : N * N) : st8 :=
  let (k, w) := kw in
  let t1 := sh s + bsig1 (se s) + Ch (se s) (sf s) (sg s) + k + w in
  let t2 := bsig0 (sa s) + Maj (sa s) (sb s) (sc s) in
  {| sa := w32 (t1 + t2); sb := sa s; sc := sb s; sd := sc s;
     se := w32 (sd s + t1); sf := se s; sg := sf s; sh := sg s |}.

Definition st_of (l : list N) : st8 :=
  {| sa := nth 0 l 0; sb := nth 1 l 0; sc := nth 2 l 0; sd := nth 3 l 0;
     se := nth 4 l 0; sf := nth 5 l 0; sg := nth 6 l 0; sh := nth 7 l 0 |}.
Definition list_of (s : st8) : list N := [sa s; sb s; sc s; sd s; se s; sf s; sg s; sh s].

Definition compress (h : list N) (block : bytes) : list N :=
  let w := schedule (words32 block) in
  let s := fold_left round (combine K256 w) (st_of h) in
  map (fun p => w32 (fst p + snd p)) (combine h (list_of s)).

Fixpoint blocks (fuel : nat) (h : list N) (bs : bytes) : list N :=
  match fuel with
  | O => h
  | S f =>
      match bs with
      | [] => h
      | _ => blocks f (compress h (firstn 64 bs)) (skipn 64 bs)
      end
  end.

Definition pad256 (msg : bytes) : bytes :=
  let l := lenN msg in
  let k := (64 - ((l + 9) mod 64)) mod 64 in
  msg ++ [128] ++ repeat 0 (N.to_nat k) ++ be 8 (l * 8).

Definition sha256 (msg : bytes) : bytes :=
  let p := pad256 msg in
  let h := blocks (S (List.length p / 64)) H0_256 p in
  flat_map (be 4) h.
