(* strconv.FormatInt / Itoa / ParseInt (base 10) on byte strings. *)
From WP Require Import Base.Prelude.
Open Scope N_scope.

Fixpoint dec_digits (fuel : nat) (n : N) (acc : bytes) : bytes :=
  match fuel with
  | O => acc
  | S f =>
      let acc' := (48 + n mod 10) :: acc in
      if n / 10 =? 0 then acc' else dec_digits f (n / 10) acc'
  end.
Definition dec_of_N (n : N) : bytes := dec_digits (S (N.size_nat n)) n [].
Definition dec_of_Z (z : Z) : bytes :=
  if (z <? 0)%Z then 45 :: dec_of_N (Z.to_N (- z)) else dec_of_N (Z.to_N z).

Definition is_digit (c : N) : bool := (48 <=? c) && (c <=? 57).
(* value of a digit string (no validation) *)
Definition digits_val (ds : bytes) : N := fold_left (fun acc c => acc * 10 + (c - 48)) ds 0.
(* strconv.Atoi-like on non-negative digit strings: non-empty, all digits *)
Definition parse_uint (ds : bytes) : option N :=
  match ds with
  | [] => None
  | _ => if forallb is_digit ds then Some (digits_val ds) else None
  end.
