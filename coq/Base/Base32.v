(* encoding/base32 StdEncoding.EncodeToString (RFC 4648, padded). *)
From WP Require Import Base.Prelude.
Open Scope N_scope.

Definition b32_char (v : N) : N := if v <? 26 then 65 + v else 50 + (v - 26).

(* up to five bytes -> eight 5-bit groups; npad = number of '=' *)
Definition b32_group (bs : bytes) : bytes :=
  let n := List.length bs in
  let v := fold_left (fun acc b => acc * 256 + b) (bs ++ repeat 0 (5 - n)) 0 in
  let chars := map (fun i => b32_char ((v / 32 ^ (7 - N.of_nat i)) mod 32)) (seq 0 8) in
  let keep := match n with 1 => 2 | 2 => 4 | 3 => 5 | 4 => 7 | _ => 8 end%nat in
  firstn keep chars ++ repeat 61 (8 - keep).

Fixpoint b32_encode_fuel (fuel : nat) (bs : bytes) : bytes :=
  match fuel with
  | O => []
  | S f =>
      match bs with
      | [] => []
      | _ => b32_group (firstn 5 bs) ++ b32_encode_fuel f (skipn 5 bs)
      end
  end.
Definition b32_encode (bs : bytes) : bytes := b32_encode_fuel (S (List.length bs)) bs.
