#!/bin/sh
# Regenerate the Makefile from the files on disk and build (full .vo, never
# -vos).  With no argument: the extraction and every property file (and hence
# everything they depend on), continuing past failures so that one broken
# proof does not hide the others.
cd "$(dirname "$0")"
{ cat _CoqProject.head; find Base Model Spec Proofs Generated Properties Run -name '*.v' | sort; } > _CoqProject
coq_makefile -f _CoqProject -o Makefile.coq >/dev/null
if [ $# -eq 0 ]; then
  set -- -k Run/Extract.vo $(find Proofs -name 'Params*.v' | sed 's/\.v$/.vo/') $(find Properties -name 'C*.v' | sort | sed 's/\.v$/.vo/')
fi
exec timeout ${COQ_TIMEOUT:-3000} make -f Makefile.coq -j16 "$@"
