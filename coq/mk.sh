#!/bin/sh
# regenerate the Makefile from the files on disk and build everything (full .vo)
cd "$(dirname "$0")"
{ cat _CoqProject.head; find Base Model Spec Proofs Generated Properties Run -name '*.v' | sort; } > _CoqProject
coq_makefile -f _CoqProject -o Makefile.coq >/dev/null
exec timeout ${COQ_TIMEOUT:-3000} make -f Makefile.coq -j16 "$@"
