(* C11 - CBOR encoder emits canonical CBOR that decodes to the same values.

   "Any sequence of encoder calls yields well-formed CBOR which an independent
   decoder maps back to exactly the encoded values, with every integer, length
   and count in shortest form and text strings valid UTF-8 (invalid ones
   refused); every map is emitted with its entries sorted by the bytewise order
   of their encoded keys regardless of the order the caller supplied them, and
   a map with two equal keys is refused with an error."

   Statements only; proofs live in Proofs/Cbor*.v.  The independent decoder is
   Spec.Cbor.{shead, stokens}; UTF-8 validity is Spec.Cbor.Utf8Valid
   (declarative); the order is Spec.Cbor.blt.  Model = Model/Cbor.v.
   Name clash: Model.Cbor.TText etc. are the Go type constants (0x60 ...),
   Spec.Cbor.TText etc. are token constructors; MText/MBytes/MMap below are
   the model constants. *)
From Coq Require Import Lia Permutation Sorted.
From WP Require Import Base.Prelude Model.Cbor Spec.Cbor Spec.CborProgram.
From WP Require Import Proofs.BaseLemmas Proofs.CborHead Proofs.CborUtf8
  Proofs.CborTokens Proofs.CborMap Proofs.CborProgram Proofs.CborHeadInj.
Open Scope N_scope.

(* ---- the order used for map keys is a strict total order ---------------- *)
Theorem blt_strict_total_order :
  (forall a, ~ blt a a) /\
  (forall a b c, blt a b -> blt b c -> blt a c) /\
  (forall a b, blt a b \/ a = b \/ blt b a) /\
  (forall a b, bytes_cmp a b = Eq <-> a = b) /\
  (forall a b, blt a b <-> bytes_cmp a b = Lt).
Proof.
  exact (conj blt_irrefl (conj blt_trans (conj blt_trichotomy
          (conj bytes_cmp_eq_iff blt_cmp)))).
Qed.
Print Assumptions blt_strict_total_order.

(* ---- heads: every uint64, every major type, all boundaries at once ------ *)
Theorem head_roundtrip : forall t n r,
  major_const t -> n < two64 ->
  shead (typed_uint t n ++ r) = Some (t / 32, n, min_width n, r)
  /\ Forall (fun b => b < 256) (typed_uint t n).
Proof. exact CborHead.head_roundtrip. Qed.
Print Assumptions head_roundtrip.

(* major_const is exactly "one of the eight Go Type constants" *)
Theorem major_const_cases : forall t,
  major_const t <-> In t [TPos; TNeg; MBytes; MText; TArray; MMap; TTag; TOther].
Proof. exact CborHead.major_const_cases. Qed.
Print Assumptions major_const_cases.

(* heads are uniquely readable (prefix-free): concatenated encoder output
   cannot be split in two ways, whatever follows each head *)
Theorem head_prefix_free : forall t t' n n' r r',
  major_const t -> major_const t' -> n < two64 -> n' < two64 ->
  typed_uint t n ++ r = typed_uint t' n' ++ r' ->
  t = t' /\ n = n' /\ r = r'.
Proof. exact CborHeadInj.typed_uint_prefix_free. Qed.
Print Assumptions head_prefix_free.

(* ... and so are whole byte / text strings (head + content) *)
Theorem string_prefix_free : forall t t' bs bs' r r',
  major_const t -> major_const t' -> lenN bs < two64 -> lenN bs' < two64 ->
  enc_bytes_of t bs ++ r = enc_bytes_of t' bs' ++ r' ->
  t = t' /\ bs = bs' /\ r = r'.
Proof. exact CborHeadInj.enc_bytes_of_prefix_free. Qed.
Print Assumptions string_prefix_free.

(* encodeTypedUint IS the spec's shortest-form head encoder *)
Theorem typed_uint_is_shortest_head : forall t n,
  major_const t -> typed_uint t n = senc_head (t / 32) n.
Proof. exact typed_uint_senc_head. Qed.
Print Assumptions typed_uint_is_shortest_head.

(* ---- EncodeInt over the whole int64 range --------------------------------- *)
Theorem enc_int_correct : forall z,
  (- Z.of_N two63 <= z < Z.of_N two63)%Z ->
  exists t w,
    stokens (enc_int z) = Some [(t, w)] /\ tok_int t = Some z /\ shortest (tok_arg t) w /\
    ((0 <= z)%Z -> t = TUint (Z.to_N z)) /\ ((z < 0)%Z -> t = TNint (Z.to_N (-1 - z))).
Proof. exact CborTokens.enc_int_correct. Qed.
Print Assumptions enc_int_correct.

(* ---- UTF-8 -------------------------------------------------------------------- *)
(* Full strength, both directions, and without even assuming the elements
   are < 256 (the automaton range-checks every byte it accepts). *)
Theorem utf8_dfa_correct : forall bs, utf8_valid bs = true <-> Utf8Valid bs.
Proof. exact CborUtf8.utf8_dfa_correct. Qed.
Print Assumptions utf8_dfa_correct.

(* the spec's own executable checker (used by stokens) meets the same spec *)
Theorem sutf8_valid_correct : forall bs, sutf8_valid bs = true <-> Utf8Valid bs.
Proof. exact CborUtf8.sutf8_valid_correct. Qed.
Print Assumptions sutf8_valid_correct.

Theorem enc_text_iff_utf8 : forall bs,
  (Utf8Valid bs -> enc_text bs = Ok (enc_bytes_of MText bs)) /\
  (~ Utf8Valid bs -> enc_text bs = Err).
Proof. exact CborTokens.enc_text_iff_utf8. Qed.
Print Assumptions enc_text_iff_utf8.

Theorem enc_text_token : forall bs out,
  lenN bs < two64 -> enc_text bs = Ok out ->
  stokens out = Some [(TText bs, min_width (lenN bs))].
Proof. exact CborTokens.enc_text_token. Qed.
Print Assumptions enc_text_token.

Theorem enc_bytes_token : forall bs,
  lenN bs < two64 -> stokens (enc_bytes bs) = Some [(TBytes bs, min_width (lenN bs))].
Proof. exact CborTokens.enc_bytes_token. Qed.
Print Assumptions enc_bytes_token.

(* ---- EncodeMap ------------------------------------------------------------------ *)
Theorem enc_map_sorted : forall es out,
  enc_map es = Ok out ->
  exists s, Permutation s es /\
            StronglySorted (fun a b => blt (fst a) (fst b)) s /\
            out = enc_map_header (lenN es) ++ flat_map (fun e => fst e ++ snd e) s.
Proof. exact CborMap.enc_map_sorted. Qed.
Print Assumptions enc_map_sorted.

Theorem enc_map_perm : forall es es', Permutation es es' -> enc_map es = enc_map es'.
Proof. exact CborMap.enc_map_perm. Qed.
Print Assumptions enc_map_perm.

Theorem enc_map_dup : forall es, enc_map es = Err <-> ~ NoDup (map fst es).
Proof. exact CborMap.enc_map_dup. Qed.
Print Assumptions enc_map_dup.

Theorem strict_sorted_unique : forall s s' : list (bytes * bytes),
  StronglySorted (fun a b => blt (fst a) (fst b)) s ->
  StronglySorted (fun a b => blt (fst a) (fst b)) s' ->
  Permutation s s' -> s = s'.
Proof. exact CborMap.strict_sorted_unique. Qed.
Print Assumptions strict_sorted_unique.

(* ---- whole programs, maps nested to any depth ------------------------------ *)
(* General case (no restriction to map-free keys/values). *)
Theorem program_tokens : forall p out,
  wf_program p -> run_items p = Ok out ->
  exists toks, stokens out = Some toks /\ Forall tok_shortest toks /\
               map fst toks = tokens_of p.
Proof. exact CborProgram.program_tokens. Qed.
Print Assumptions program_tokens.

(* stronger: the output is byte-for-byte the deterministic encoding of the
   expected tokens, and consists of bytes *)
Theorem program_canonical : forall p out,
  wf_program p -> run_items p = Ok out ->
  out = senc_tokens (tokens_of p) /\ Forall tok_wf (tokens_of p).
Proof. exact CborProgram.program_canonical. Qed.
Print Assumptions program_canonical.

Theorem program_wfb : forall p out, wf_program p -> run_items p = Ok out -> wfb out.
Proof. exact CborProgram.program_wfb. Qed.
Print Assumptions program_wfb.

(* the entry order tokens_of uses for an accepted map is THE strictly
   ascending arrangement (by encoded key) of the supplied entries *)
Theorem tokens_of_map_sorted : forall es out,
  wf_item (IMap es) -> run_item (IMap es) = Ok out ->
  exists s, Permutation s (map tok_entry es) /\ StronglySorted tok_key_lt s /\
            tokens_of_item (IMap es) = TMap (lenN es) :: flat_map (fun e => fst e ++ snd e) s.
Proof. exact CborProgram.tokens_of_map_sorted. Qed.
Print Assumptions tokens_of_map_sorted.

(* the tokeniser inverts the deterministic token encoder (spec-internal) *)
Theorem stokens_senc_tokens : forall toks,
  Forall tok_wf toks -> stokens (senc_tokens toks) = Some (map with_width toks).
Proof. exact CborTokens.stokens_senc_tokens. Qed.
Print Assumptions stokens_senc_tokens.

(* ==== non-vacuity: the hypotheses are satisfiable, on boundary values ==== *)
Definition max64 : N := 18446744073709551615.

Example ex_major_const : major_const MMap /\ ~ major_const 5.
Proof. split; [split; reflexivity|]. intros [H _]. discriminate. Qed.

Example ex_head_boundaries :
  map (fun n => shead (typed_uint TPos n ++ [7]))
      [23; 24; 255; 256; 65535; 65536; 4294967295; 4294967296; two63; max64]
  = [Some (0, 23, 0, [7]); Some (0, 24, 1, [7]); Some (0, 255, 1, [7]);
     Some (0, 256, 2, [7]); Some (0, 65535, 2, [7]); Some (0, 65536, 4, [7]);
     Some (0, 4294967295, 4, [7]); Some (0, 4294967296, 8, [7]);
     Some (0, two63, 8, [7]); Some (0, max64, 8, [7])].
Proof. vm_compute. reflexivity. Qed.

Example ex_head_bytes :
  typed_uint MMap 24 = [184; 24] /\ typed_uint TArray 65536 = [154; 0; 1; 0; 0] /\
  typed_uint TPos max64 = [27; 255; 255; 255; 255; 255; 255; 255; 255].
Proof. vm_compute. repeat split. Qed.

(* a non-shortest head is a different byte string that shead still reads *)
Example ex_liberal_decoder : shead [25; 0; 23; 9] = Some (0, 23, 2, [9]) /\ ~ shortest 23 2.
Proof. split; [vm_compute; reflexivity|discriminate]. Qed.

Example ex_enc_int :
  stokens (enc_int (- Z.of_N two63)) = Some [(TNint (two63 - 1), 8)] /\
  stokens (enc_int (-1)) = Some [(TNint 0, 0)] /\
  stokens (enc_int (-25)) = Some [(TNint 24, 1)] /\
  stokens (enc_int (Z.of_N two63 - 1)) = Some [(TUint (two63 - 1), 8)] /\
  tok_int (TNint (two63 - 1)) = Some (- Z.of_N two63)%Z.
Proof. vm_compute. repeat split. Qed.

(* U+00E9, U+20AC, U+1F600, then 'A' *)
Example ex_utf8_valid : Utf8Valid [195; 169; 226; 130; 172; 240; 159; 152; 128; 65].
Proof.
  exists [233; 8364; 128512; 65]. split; [|vm_compute; reflexivity].
  repeat constructor; unfold scalar; lia.
Qed.

(* surrogate D800, overlong C0 80, > 10FFFF, truncated, stray continuation *)
Example ex_utf8_invalid :
  ~ Utf8Valid [237; 160; 128] /\ ~ Utf8Valid [192; 128] /\
  ~ Utf8Valid [244; 144; 128; 128] /\ ~ Utf8Valid [226; 130] /\ ~ Utf8Valid [128] /\
  ~ Utf8Valid [300].
Proof.
  repeat split; intros H; apply utf8_dfa_correct in H; vm_compute in H; discriminate.
Qed.

Example ex_enc_text :
  enc_text [195; 169] = Ok [98; 195; 169] /\ enc_text [195] = Err.
Proof. vm_compute. split; reflexivity. Qed.

(* keys of mixed lengths: "ab" (0x62 0x61 0x62), uint 100 (0x18 0x64), uint 10
   (0x0a), "" (0x60): sorted bytewise 0a < 18 64 < 60 < 62 61 62 *)
Definition ex_entries : list (bytes * bytes) :=
  [([98; 97; 98], [1]); ([24; 100], [2]); ([10], [3]); ([96], [4])].

Example ex_enc_map :
  enc_map ex_entries = Ok [164; 10; 3; 24; 100; 2; 96; 4; 98; 97; 98; 1] /\
  enc_map (rev ex_entries) = enc_map ex_entries /\
  enc_map (ex_entries ++ [([10], [9])]) = Err.
Proof. vm_compute. repeat split. Qed.

Example ex_blt : blt [10] [24; 100] /\ blt [24; 100] [96] /\ blt [96] [98; 97; 98]
                 /\ blt [98] [98; 0].
Proof. repeat split; apply blt_cmp; reflexivity. Qed.

(* a nested program: uint, array head, a map whose second key is itself a map
   and whose values contain text and a nested map supplied out of order *)
Definition ex_program : list item :=
  [IUint 1000; IArr 2;
   IMap [([IText [98]], [IInt (-1)]);
         ([IMap [([IUint 2], [IBool true]); ([IUint 1], [IBool false])]], [IBytes [1; 2; 3]]);
         ([IUint 24], [IArr 1; IText [195; 169]])];
   IInt (-1000)].

Example ex_program_wf : wf_program ex_program.
Proof.
  unfold wf_program, ex_program, wfb.
  repeat first [constructor | (unfold two63, two64; cbn; lia)].
Qed.

Example ex_program_runs :
  run_items ex_program =
  Ok [25; 3; 232; 130; 163; 24; 24; 129; 98; 195; 169; 97; 98; 32;
      162; 1; 244; 2; 245; 67; 1; 2; 3; 57; 3; 231].
Proof. vm_compute. reflexivity. Qed.

Example ex_program_tokens :
  tokens_of ex_program =
  [TUint 1000; TArr 2; TMap 3; TUint 24; TArr 1; TText [195; 169]; TText [98]; TNint 0;
   TMap 2; TUint 1; TBool false; TUint 2; TBool true; TBytes [1; 2; 3]; TNint 999].
Proof. vm_compute. reflexivity. Qed.

Example ex_program_decodes :
  option_map (map fst)
    (stokens [25; 3; 232; 130; 163; 24; 24; 129; 98; 195; 169; 97; 98; 32;
              162; 1; 244; 2; 245; 67; 1; 2; 3; 57; 3; 231])
  = Some (tokens_of ex_program).
Proof. vm_compute. reflexivity. Qed.

(* failing programs exist: invalid text, duplicate keys *)
Example ex_program_fails :
  run_items [IText [255]] = Err /\
  run_items [IMap [([IUint 1], [IUint 2]); ([IInt 1], [IUint 3])]] = Err.
Proof. vm_compute. split; reflexivity. Qed.
