(* C11 - CBOR encoder emits canonical CBOR that decodes to the same values.
   Statements only; proofs live in Proofs/. *)
From WP Require Import Base.Prelude Model.Cbor.
Open Scope N_scope.

Theorem c11_smoke : typed_uint TPos 500 = [25; 1; 244].
Proof. reflexivity. Qed.
Print Assumptions c11_smoke.
