(* C13 - deterministic-CBOR check agrees with RFC 8949 core deterministic rules. *)
From WP Require Import Base.Prelude Model.Cbor Model.Det.
Open Scope N_scope.

Theorem c13_smoke : det_check [131; 1; 130; 2; 3; 64] = Accept.
Proof. reflexivity. Qed.
Print Assumptions c13_smoke.
