(* C13 - The deterministic-encoding check accepts a byte string exactly when it
   is a sequence of complete CBOR items built from unsigned integers, byte/text
   strings, arrays and maps that is in RFC 8949 core deterministic form
   (shortest heads, map keys strictly ascending by encoded bytes); it accepts
   everything the encoder emits in that subset, never accepts malformed or
   truncated input, and always terminates.

   Model : Model/Det.v (det_check; Err and Panic both count as Reject).
   Spec  : Spec/Det.v  (Head, DetItem, DetSeq - from RFC 8949 4.2.1).
   Proofs: Proofs/Det{Lemmas,Basics,Sound,Complete,Enc}.v, Proofs/Det.v.     *)
From Coq Require Import Sorting.Sorted.
From WP Require Import Base.Prelude Model.Cbor Model.Det Spec.Det
  Proofs.DetBasics Proofs.DetSound Proofs.DetComplete Proofs.DetEnc Proofs.Det.
Open Scope N_scope.

(* ---- main statement ------------------------------------------------------ *)
Theorem det_iff : forall bs, wfb bs -> (det_check bs = Accept <-> DetSeq bs).
Proof. exact det_iff_proof. Qed.
Print Assumptions det_iff.

(* always terminates: the fuel 2*|bs|+2 is never exhausted (any bytes, no wfb) *)
Theorem det_terminates : forall bs, det_check bs <> Diverge.
Proof. exact det_terminates_proof. Qed.
Print Assumptions det_terminates.

(* the lengths returned by deterministicRec keep every slice expression in range
   and make every loop progress *)
Theorem det_rec_length_in_bounds : forall f input l,
  det_rec f input = Ok l -> 1 <= l <= lenN input.
Proof. exact det_rec_length_in_bounds_proof. Qed.
Print Assumptions det_rec_length_in_bounds.

(* the verdict does not depend on the fuel constant *)
Theorem det_top_any_fuel : forall bs f, wfb bs -> (det_fuel bs <= f)%nat ->
  (det_top f 0 bs = Ok tt <-> DetSeq bs).
Proof. exact det_top_any_fuel_proof. Qed.
Print Assumptions det_top_any_fuel.

(* one item, with anything after it: deterministicRec returns exactly its length *)
Theorem det_rec_item : forall item rest f, DetItem item ->
  (2 * List.length item <= f)%nat -> det_rec f (item ++ rest) = Ok (lenN item).
Proof. intros item rest f D. exact (det_rec_complete item D rest f). Qed.
Print Assumptions det_rec_item.

Theorem det_rec_item_conv : forall f input l, wfb input -> det_rec f input = Ok l ->
  exists item rest, input = item ++ rest /\ DetItem item /\ lenN item = l.
Proof. exact det_rec_sound. Qed.
Print Assumptions det_rec_item_conv.

(* ---- never accepts malformed or truncated input -------------------------- *)
Theorem not_detseq_rejected : forall bs, wfb bs -> ~ DetSeq bs -> det_check bs = Reject.
Proof. exact not_detseq_rejected_proof. Qed.
Print Assumptions not_detseq_rejected.

(* cutting a deterministic item anywhere strictly inside gives a rejected input *)
Theorem truncated_item_rejected : forall item p q,
  DetItem item -> item = p ++ q -> p <> [] -> q <> [] -> det_check p = Reject.
Proof. exact truncated_item_rejected_proof. Qed.
Print Assumptions truncated_item_rejected.

Theorem detitem_prefix_free : forall a b, DetItem a -> DetItem (a ++ b) -> b = [].
Proof. exact DetItem_prefix_free. Qed.
Print Assumptions detitem_prefix_free.

(* ---- accepts what the encoder emits (Model/Cbor.v) ----------------------- *)
Theorem encoder_uint_det : forall n, n < two64 -> DetItem (enc_uint n).
Proof. exact enc_uint_det. Qed.
Theorem encoder_bytes_det : forall s, wfb s -> lenN s < two64 -> DetItem (enc_bytes s).
Proof. exact enc_bytes_det. Qed.
Theorem encoder_text_det : forall s bs, wfb s -> lenN s < two64 ->
  enc_text s = Ok bs -> DetItem bs.
Proof. exact enc_text_det. Qed.
Theorem encoder_array_det : forall items, Forall DetItem items -> lenN items < two64 ->
  DetItem (enc_array_header (lenN items) ++ List.concat items).
Proof. exact enc_array_det. Qed.
(* EncodeMap sorts the entries and refuses duplicates: its output is deterministic *)
Theorem encoder_map_det : forall es bs,
  Forall (fun kv => DetItem (fst kv) /\ DetItem (snd kv)) es -> lenN es < two64 ->
  enc_map es = Ok bs -> DetItem bs.
Proof. exact enc_map_det. Qed.
Theorem encoder_map_accepted : forall es bs,
  Forall (fun kv => DetItem (fst kv) /\ DetItem (snd kv)) es -> lenN es < two64 ->
  enc_map es = Ok bs -> det_check bs = Accept.
Proof. exact enc_map_accepted. Qed.
Print Assumptions encoder_map_accepted.

Theorem keys_ascending_all_pairs : forall ks,
  KeysAscending ks <-> StronglySorted key_lt ks.
Proof. exact KeysAscending_strongly. Qed.
Print Assumptions keys_ascending_all_pairs.

(* ---- examples ------------------------------------------------------------ *)
(* former defects of the Go code (spin / accepted), now rejected *)
Example rej_5b : det_check [91; 255; 255; 255; 255; 255; 255; 255; 247] = Reject.
Proof. vm_compute. reflexivity. Qed.
Example rej_9b : det_check [155; 128; 0; 0; 0; 0; 0; 0; 0] = Reject.
Proof. vm_compute. reflexivity. Qed.
Example rej_bb40 : det_check [187; 64; 0; 0; 0; 0; 0; 0; 0] = Reject.
Proof. vm_compute. reflexivity. Qed.
Example rej_bb80 : det_check [187; 128; 0; 0; 0; 0; 0; 0; 0] = Reject.
Proof. vm_compute. reflexivity. Qed.

(* non-shortest head 0x18 0x05; unsorted keys; duplicate keys; truncated array;
   indefinite-length array; negative integer (not in the supported subset) *)
Example rej_nonshortest : det_check [24; 5] = Reject.
Proof. vm_compute. reflexivity. Qed.
Example rej_unsorted : det_check [162; 2; 0; 1; 0] = Reject.
Proof. vm_compute. reflexivity. Qed.
Example rej_dupkey : det_check [162; 1; 0; 1; 0] = Reject.
Proof. vm_compute. reflexivity. Qed.
Example rej_truncated : det_check [130; 1] = Reject.
Proof. vm_compute. reflexivity. Qed.
Example rej_indefinite : det_check [159; 1; 255] = Reject.
Proof. vm_compute. reflexivity. Qed.
Example rej_negint : det_check [32] = Reject.
Proof. vm_compute. reflexivity. Qed.

(* {1: [2, h'0102'], "ab": 500} followed by a second top-level item 23 *)
Definition nested_ex : bytes := [162; 1; 130; 2; 66; 1; 2; 98; 97; 98; 25; 1; 244; 23].
Example acc_nested : det_check nested_ex = Accept.
Proof. vm_compute. reflexivity. Qed.
Example acc_smoke : det_check [131; 1; 130; 2; 3; 64] = Accept.
Proof. vm_compute. reflexivity. Qed.
Example acc_empty : det_check [] = Accept.
Proof. vm_compute. reflexivity. Qed.

(* hypotheses are satisfiable on non-trivial values *)
Example nested_wfb : wfb nested_ex.
Proof. repeat constructor. Qed.
Example nested_detseq : DetSeq nested_ex.
Proof. apply det_iff; [exact nested_wfb | exact acc_nested]. Qed.
Example smoke_detseq : DetSeq [131; 1; 130; 2; 3; 64].
Proof. exists [[131; 1; 130; 2; 3; 64]]. split; [repeat constructor; exact detitem_ex | reflexivity]. Qed.
Example not_detseq_ex : ~ DetSeq [24; 5].
Proof.
  intros D. apply det_iff in D; [|repeat constructor].
  rewrite rej_nonshortest in D. discriminate.
Qed.
Example bounds_ex : det_rec 10 [130; 1; 2; 99] = Ok 3.
Proof. vm_compute. reflexivity. Qed.
Example truncated_ex : det_check [162; 1; 2; 97; 97] = Reject.
Proof.
  apply (truncated_item_rejected _ [162; 1; 2; 97; 97] [64] detitem_map_ex);
    [reflexivity | discriminate | discriminate].
Qed.
(* EncodeMap on unsorted entries {"ab": 500, 1: 2}: sorted on output, accepted *)
Definition es_ex : list (bytes * bytes) := [([98; 97; 98], [25; 1; 244]); ([1], [2])].
Example es_ex_ok : Forall (fun kv => DetItem (fst kv) /\ DetItem (snd kv)) es_ex.
Proof.
  repeat constructor; cbn [fst snd].
  - apply (DI_text [97; 98] [98]); [apply (Head_direct 3 2); reflexivity | repeat constructor].
  - apply (DI_uint 500). apply (Head_2 0 500); [reflexivity | discriminate | reflexivity].
  - apply (DI_uint 1). apply (Head_direct 0 1); reflexivity.
  - apply (DI_uint 2). apply (Head_direct 0 2); reflexivity.
Qed.
Example es_ex_enc : enc_map es_ex = Ok [162; 1; 2; 98; 97; 98; 25; 1; 244].
Proof. vm_compute. reflexivity. Qed.
Example es_ex_accepted : det_check [162; 1; 2; 98; 97; 98; 25; 1; 244] = Accept.
Proof. apply (encoder_map_accepted es_ex); [exact es_ex_ok | reflexivity | exact es_ex_enc]. Qed.
