(* C04 (CountingWriter.ReadFrom) - "The byte count the writer returns equals the
   number of bytes it handed to the destination", for the copy loop of
   go/bundle/countingwriter.go ReadFrom (destination not itself an io.ReaderFrom).

   Model = Model/CountingWriterRF.v over the destination of Model/Bundle.v:
     pieces c            a source chunk as r.Read(buf) delivers it, len(buf) = 32768;
     reads_of ps e       the sequence of Read results (data, error) for the three
                         ways a source can end (EOF alone / an error alone / EOF
                         together with the last data);
     dwrite3 silent      one Write: full count / an error / a short count WITHOUT
                         an error (silent = true, mode ShortThenErr);
     rf_loop             the loop; read_from_err its result (dest, n, which error);
     read_from           (dest, n, err == nil).
   n and cw.Written grow by the same amounts; one counter stands for both.

   Statements only; proofs are in Proofs/CountingWriterRF.v and (the agreement
   with the executable harness glue Run/RunBundle.v op_cw_readfrom)
   Proofs/CountingWriterRFGlue.v.  Everything is for ALL chunk lists, budgets,
   destination behaviours and source endings. *)
From Coq Require Import List NArith ZArith.
From WP Require Import Base.Prelude Model.Bundle Model.CountingWriterRF.
From WP Require Import Proofs.WriterFault.
From WP Require Proofs.CountingWriter Proofs.CountingWriterRF Proofs.CountingWriterRFGlue.
From WP Require Run.Sx Run.RunBundle.
Import ListNotations.
Open Scope N_scope.

(* ======================= the 32 KiB buffer ======================================= *)
Theorem pieces_concat : forall c : bytes, List.concat (pieces c) = c.
Proof. exact CountingWriterRF.pieces_concat. Qed.
Print Assumptions pieces_concat.

Theorem pieces_ok : forall c : bytes,
  Forall (fun p => p <> [] /\ lenN p <= 32768) (pieces c).
Proof. exact CountingWriterRF.pieces_ok. Qed.
Print Assumptions pieces_ok.

(* a chunk that fits the buffer arrives whole: ReadFrom then issues the same
   Write calls as a sequence of Write calls over the non-empty chunks *)
Theorem pieces_small : forall c : bytes, c <> [] -> lenN c <= 32768 -> pieces c = [c].
Proof. exact CountingWriterRF.pieces_small. Qed.
Print Assumptions pieces_small.

Theorem flat_map_pieces_small : forall chunks : list bytes,
  Forall (fun c => lenN c <= 32768) chunks ->
  flat_map pieces chunks = filter (fun c => match c with [] => false | _ => true end) chunks.
Proof. exact CountingWriterRF.flat_map_pieces_small. Qed.
Print Assumptions flat_map_pieces_small.

Theorem concat_flat_map_pieces : forall chunks : list bytes,
  List.concat (flat_map pieces chunks) = List.concat chunks.
Proof. exact CountingWriterRF.concat_flat_map_pieces. Qed.
Print Assumptions concat_flat_map_pieces.

(* ======================= ReadFrom = a sequence of Writes ========================= *)
(* what the harness glue computes *)
Theorem read_from_is_run_writes : forall (chunks : list bytes) (e : src_end) (d : dest),
  read_from false chunks e d =
  (let '(d', n, ok) := run_writes (flat_map pieces chunks) d 0 in (d', n, ok && src_end_eof e)).
Proof. exact CountingWriterRF.read_from_is_run_writes. Qed.
Print Assumptions read_from_is_run_writes.

(* the same for a destination that may answer a short count without an error *)
Theorem read_from_is_run_writes_gen :
  forall (silent : bool) (chunks : list bytes) (e : src_end) (d : dest),
  read_from silent chunks e d =
  (let '(d', n, ok) := run_writes (flat_map pieces chunks) d 0 in (d', n, ok && src_end_eof e)).
Proof. exact CountingWriterRF.read_from_is_run_writes_gen. Qed.
Print Assumptions read_from_is_run_writes_gen.

Theorem read_from_silent_irrelevant : forall (chunks : list bytes) (e : src_end) (d : dest),
  read_from true chunks e d = read_from false chunks e d.
Proof. exact CountingWriterRF.read_from_silent_irrelevant. Qed.
Print Assumptions read_from_silent_irrelevant.

(* ======================= the contract ============================================ *)
(* silent = false: a failing Write reports an error; silent = true: a failing
   Write of a ShortThenErr destination reports a short count and NO error, which
   ReadFrom turns into io.ErrShortWrite - a failure all the same *)
Theorem read_from_fault :
  forall (silent : bool) (chunks : list bytes) (e : src_end) (k : N) (m : fmode)
         (d : dest) (n : N) (ok : bool),
  read_from silent chunks e (dest0 k m) = (d, n, ok) ->
  let out := List.concat chunks in
  (exists rest, out = d_acc d ++ rest)
  /\ lenN (d_acc d) <= k
  /\ n = lenN (d_acc d)
  /\ (k < lenN out -> ok = false)
  /\ (lenN out <= k -> (ok = true <-> e <> SrcErr) /\ d_acc d = out).
Proof. exact CountingWriterRF.read_from_fault. Qed.
Print Assumptions read_from_fault.

(* which error ReadFrom returns *)
Theorem read_from_err_kind :
  forall (silent : bool) (chunks : list bytes) (e : src_end) (k : N) (m : fmode)
         (d : dest) (n : N) (r : rf_err),
  read_from_err silent chunks e (dest0 k m) = (d, n, r) ->
  let out := List.concat chunks in
  (k < lenN out ->
     r = match silent, m with true, ShortThenErr => RfShortWrite | _, _ => RfWrite end)
  /\ (lenN out <= k -> r = match e with SrcErr => RfSource | _ => RfNil end).
Proof. exact CountingWriterRF.read_from_err_kind. Qed.
Print Assumptions read_from_err_kind.

(* exactly which bytes, from any starting destination *)
Theorem read_from_exact :
  forall (silent : bool) (chunks : list bytes) (e : src_end) (d d' : dest)
         (n : N) (ok : bool) (k : N),
  read_from silent chunks e d = (d', n, ok) -> d_budget d = Some k ->
  let out := List.concat chunks in
  (k < lenN out -> ok = false /\ n <= k /\
     match d_mode d with
     | ErrOnly => d_acc d' = d_acc d ++ CountingWriter.fit_prefix (flat_map pieces chunks) k
     | ShortThenErr => d_acc d' = d_acc d ++ CountingWriter.takeN k out /\ n = k
     end)
  /\ (lenN out <= k ->
      ok = src_end_eof e /\ d_acc d' = d_acc d ++ out /\ n = lenN out).
Proof. exact CountingWriterRF.read_from_exact. Qed.
Print Assumptions read_from_exact.

Theorem read_from_nofault :
  forall (silent : bool) (chunks : list bytes) (e : src_end) (a : bytes) (m : fmode),
  read_from silent chunks e {| d_acc := a; d_budget := None; d_mode := m |} =
  ({| d_acc := a ++ List.concat chunks; d_budget := None; d_mode := m |},
   lenN (List.concat chunks), src_end_eof e).
Proof. exact CountingWriterRF.read_from_nofault. Qed.
Print Assumptions read_from_nofault.

(* ======================= the harness glue ======================================== *)
(* Run/RunBundle.v, op_cw_readfrom: chop32k on the non-empty chunks is [pieces],
   and the operation reports exactly [read_from] *)
Theorem glue_pieces_pieces : forall chunks : list bytes,
  flat_map (fun c => RunBundle.chop32k (S (N.to_nat (lenN c / 32768))) c)
           (filter (fun c => negb (match c with [] => true | _ => false end)) chunks)
  = flat_map pieces chunks.
Proof. exact CountingWriterRFGlue.glue_pieces_pieces. Qed.
Print Assumptions glue_pieces_pieces.

Theorem op_cw_readfrom_is_read_from :
  forall (cs : list sx) (chunks : list bytes) (budget mode srcerr : Z),
  Sx.omap Sx.as_b cs = Some chunks ->
  RunBundle.op_cw_readfrom [SL cs; SZ budget; SZ mode; SZ srcerr] =
  (let '(d, n, ok) := read_from false chunks (CountingWriterRFGlue.src_end_of srcerr)
                                (RunBundle.dest_of budget mode) in
   SL [SB (d_acc d); sN n; sN n; sbool ok]).
Proof. exact CountingWriterRFGlue.op_cw_readfrom_is_read_from. Qed.
Print Assumptions op_cw_readfrom_is_read_from.

(* ======================= examples ================================================ *)
(* a 70000-byte chunk (three reads: 32768, 32768, 4464), two small chunks and an
   empty one: 70005 bytes, five Write calls *)
Definition ex_big (n : N) : bytes := N.iter n (fun l => 7 :: l) [].
Definition ex_chunks : list bytes := [ex_big 70000; [1; 2; 3]; []; [4; 5]].
Definition ex_dest (b : option N) (m : fmode) : dest :=
  {| d_acc := []; d_budget := b; d_mode := m |}.
(* (bytes accepted, n, error) *)
Definition ex_run (silent : bool) (m : fmode) (e : src_end) (b : option N) : N * N * rf_err :=
  let '(d, n, r) := read_from_err silent ex_chunks e (ex_dest b m) in (lenN (d_acc d), n, r).
Definition ex_budgets : list (option N) :=
  [Some 0; Some 1; Some 32767; Some 32768; Some 32769; Some 70000; Some 70004; Some 70005; None].

Example ex_pieces :
  map (@lenN N) (flat_map pieces ex_chunks) = [32768; 32768; 4464; 3; 2]
  /\ map (@lenN N) (pieces (ex_big 65536)) = [32768; 32768]
  /\ map (@lenN N) (pieces (ex_big 100000)) = [32768; 32768; 32768; 1696]
  /\ pieces [] = [] /\ pieces [5; 6] = [[5; 6]]
  /\ lenN (List.concat ex_chunks) = 70005.
Proof. vm_compute. repeat split. Qed.

Example ex_reads :
  reads_of [[1]; [2]; [3]] SrcEOF = [([1], RNil); ([2], RNil); ([3], RNil); ([], REOF)]
  /\ reads_of [[1]; [2]; [3]] SrcErr = [([1], RNil); ([2], RNil); ([3], RNil); ([], RFail)]
  /\ reads_of [[1]; [2]; [3]] SrcDataEOF = [([1], RNil); ([2], RNil); ([3], REOF)]
  /\ reads_of [] SrcDataEOF = [([], REOF)].
Proof. repeat split. Qed.

(* destination that fails with an error and accepts nothing: only whole pieces arrive *)
Example ex_err_only :
  let fails := [(0, 0, RfWrite); (0, 0, RfWrite); (0, 0, RfWrite); (32768, 32768, RfWrite);
                (32768, 32768, RfWrite); (70000, 70000, RfWrite); (70003, 70003, RfWrite)] in
  map (ex_run false ErrOnly SrcEOF) ex_budgets = fails ++ [(70005, 70005, RfNil); (70005, 70005, RfNil)]
  /\ map (ex_run false ErrOnly SrcErr) ex_budgets = fails ++ [(70005, 70005, RfSource); (70005, 70005, RfSource)]
  /\ map (ex_run false ErrOnly SrcDataEOF) ex_budgets = fails ++ [(70005, 70005, RfNil); (70005, 70005, RfNil)]
  /\ map (ex_run true ErrOnly SrcEOF) ex_budgets = map (ex_run false ErrOnly SrcEOF) ex_budgets.
Proof. vm_compute. repeat split. Qed.

(* destination that accepts what fits and reports the error: exactly k bytes arrive *)
Example ex_short_then_err :
  let fails := [(0, 0, RfWrite); (1, 1, RfWrite); (32767, 32767, RfWrite); (32768, 32768, RfWrite);
                (32769, 32769, RfWrite); (70000, 70000, RfWrite); (70004, 70004, RfWrite)] in
  map (ex_run false ShortThenErr SrcEOF) ex_budgets = fails ++ [(70005, 70005, RfNil); (70005, 70005, RfNil)]
  /\ map (ex_run false ShortThenErr SrcErr) ex_budgets = fails ++ [(70005, 70005, RfSource); (70005, 70005, RfSource)]
  /\ map (ex_run false ShortThenErr SrcDataEOF) ex_budgets = fails ++ [(70005, 70005, RfNil); (70005, 70005, RfNil)].
Proof. vm_compute. repeat split. Qed.

(* destination that accepts what fits and reports NO error: io.ErrShortWrite, also
   when the budget ends exactly at a piece boundary (32768, 70000: the next Write
   takes 0 bytes and says nil) *)
Example ex_short_silent :
  let fails := [(0, 0, RfShortWrite); (1, 1, RfShortWrite); (32767, 32767, RfShortWrite);
                (32768, 32768, RfShortWrite); (32769, 32769, RfShortWrite);
                (70000, 70000, RfShortWrite); (70004, 70004, RfShortWrite)] in
  map (ex_run true ShortThenErr SrcEOF) ex_budgets = fails ++ [(70005, 70005, RfNil); (70005, 70005, RfNil)]
  /\ map (ex_run true ShortThenErr SrcErr) ex_budgets = fails ++ [(70005, 70005, RfSource); (70005, 70005, RfSource)]
  /\ map (ex_run true ShortThenErr SrcDataEOF) ex_budgets = fails ++ [(70005, 70005, RfNil); (70005, 70005, RfNil)].
Proof. vm_compute. repeat split. Qed.

(* the bytes themselves: an unlimited destination holds the source's bytes; a
   destination cut at 32769 holds their first 32769 *)
Example ex_bytes :
  (let '(d, n, ok) := read_from true ex_chunks SrcDataEOF (ex_dest None ShortThenErr) in
   (bytes_eqb (d_acc d) (List.concat ex_chunks), n, ok)) = (true, 70005, true)
  /\ (let '(d, n, ok) := read_from true ex_chunks SrcDataEOF (ex_dest (Some 32769) ShortThenErr) in
      (bytes_eqb (d_acc d) (CountingWriter.takeN 32769 (List.concat ex_chunks)), n, ok))
     = (true, 32769, false).
Proof. vm_compute. repeat split. Qed.

(* hypotheses of read_from_fault / read_from_err_kind are satisfiable on both sides *)
Example ex_hyps :
  dest0 32769 ShortThenErr = ex_dest (Some 32769) ShortThenErr
  /\ 32769 < lenN (List.concat ex_chunks)
  /\ lenN (List.concat ex_chunks) <= 70005
  /\ snd (read_from true ex_chunks SrcEOF (dest0 32769 ShortThenErr)) = false
  /\ snd (read_from true ex_chunks SrcEOF (dest0 70005 ShortThenErr)) = true
  /\ snd (read_from true ex_chunks SrcErr (dest0 70005 ShortThenErr)) = false.
Proof.
  split; [reflexivity|]. split; [vm_compute; reflexivity|]. split; [vm_compute; discriminate|].
  split; [|split]; vm_compute; reflexivity.
Qed.

(* the glue operation on the same input (mode 2 = short write without error, source ending 2 =
   data with EOF); the accepted bytes are compared by length *)
Example ex_glue :
  match RunBundle.op_cw_readfrom [SL (map SB ex_chunks); SZ 32769; SZ 1; SZ 2] with
  | SL [SB acc; SZ n; SZ w; SZ ok] => (Z.of_N (lenN acc), n, w, ok)
  | _ => (0, 0, 0, 0)%Z
  end = (32769, 32769, 32769, 0)%Z.
Proof. vm_compute. reflexivity. Qed.
