(* C08 - signed exchanges: what is signed and written is what the drafts prescribe.

   "For every exchange and version, the message that gets signed, the Signature
   header, the canonical CBOR of the request/response headers and the
   application/signed-exchange file layout are byte-for-byte what the
   specification prescribes, as recomputed by an independent implementation of
   the spec text ...; the header-integrity value is the SHA-256 of exactly those
   header bytes."

   Model: Model/Sxg.v (go/signedexchange/{signedexchange,signer}.go,
   version/version.go).  Independent transcription of the drafts: Spec/Sxg.v
   (generic CBOR values + canonical encoder [canon], header maps, signed
   message b1 and b2/b3, file layout, header integrity, Signature header).
   Proofs: Proofs/Sxg{Canon,Sign}.v.  Statements only here.

   Reading notes.
   - The spec functions return [option] ([None]: the drafts define no bytes);
     the model returns [R].  [to_opt] forgets which non-Ok result it was; the
     model only ever answers Ok or Err on these paths (proved below).
   - Domain facts.  Coq lists are unbounded, Go lengths are ints: [go_exchange e]
     says every string / map of [e] has length < 2^63, [int64] that a Z is a Go
     int64.  They are hypotheses, not restrictions: every Go value satisfies
     them.  For the b2/b3 message the length of the header block itself must
     fit 8 bytes (again automatic in Go); it is stated as such.
   - H (SHA-256) is abstract in the theorems; the examples instantiate it with
     Base/Sha256.sha256.

   FINDING (refuted part, see [signed_message_b2b3_nocert_refuted]): for b2/b3
   the drafts say "If cert-sha256 is set, a byte holding the value 32 followed
   by the 32 bytes of the value of cert-sha256. Otherwise a 0 byte."; the Go
   code (and the model) writes nothing in the "otherwise" case, so the signed
   message is one byte short when the Signer has no certificate.  With a
   certificate hash the message conforms ([signed_message_b2b3_conforms]).

   FINDING (reader, see [read_ignores_length_limits]): 5.3 says of sigLength
   "If this is larger than 16384 (16*1024), parsing MUST fail" (and 524288 for
   headerLength); Write enforces both, ReadExchangePrologue enforces neither. *)
From Coq Require Import Lia Permutation.
From WP Require Import Base.Prelude Base.Base64 Base.Decimal Base.Sha256.
From WP Require Import Model.Cbor Model.Http Model.StructHdr Model.Sxg.
From WP Require Import Spec.Sxg Spec.StructHdr.
From WP Require Import Proofs.SxgCanon Proofs.SxgSign.
Open Scope N_scope.

(* ---- canonical CBOR of the headers -------------------------------------------- *)
Theorem c08_headers_cbor_conforms : forall e bs, go_exchange e -> int64 (e_status e) ->
  (encode_exchange_headers e = Ok bs <-> spec_headers_cbor e = Some bs).
Proof. exact headers_cbor_conforms. Qed.
Print Assumptions c08_headers_cbor_conforms.

(* the same as one equation: Ok bytes <-> Some bytes, Err <-> None *)
Theorem c08_headers_cbor_eq : forall e, go_exchange e -> int64 (e_status e) ->
  spec_headers_cbor e = to_opt (encode_exchange_headers e).
Proof. exact headers_cbor_eq. Qed.
Print Assumptions c08_headers_cbor_eq.

(* ... and it fails (duplicate map key: two names equal after lower-casing, or
   a header literally named like a pseudo key) exactly when the spec gives none *)
Theorem c08_headers_cbor_err : forall e, go_exchange e -> int64 (e_status e) ->
  (encode_exchange_headers e = Err <-> spec_headers_cbor e = None).
Proof. exact headers_cbor_err. Qed.
Print Assumptions c08_headers_cbor_err.

Theorem c08_headers_never_panic : forall e,
  match encode_exchange_headers e with Ok _ | Err => True | _ => False end.
Proof. exact encode_exchange_headers_ok_or_err. Qed.
Print Assumptions c08_headers_never_panic.

(* Go iterates a map in arbitrary order; the bytes do not depend on it *)
Theorem c08_headers_perm_invariant : forall e e',
  Permutation (e_reqh e) (e_reqh e') -> Permutation (e_resph e) (e_resph e') ->
  e_ver e = e_ver e' -> e_uri e = e_uri e' -> e_method e = e_method e' ->
  e_status e = e_status e' ->
  encode_exchange_headers e = encode_exchange_headers e'.
Proof. exact headers_perm_invariant. Qed.
Print Assumptions c08_headers_perm_invariant.

Theorem c08_write_perm_invariant : forall e e',
  Permutation (e_reqh e) (e_reqh e') -> Permutation (e_resph e) (e_resph e') ->
  e_ver e = e_ver e' -> e_uri e = e_uri e' -> e_method e = e_method e' ->
  e_status e = e_status e' -> e_sig e = e_sig e' -> e_payload e = e_payload e' ->
  write e = write e'.
Proof. exact write_perm_invariant. Qed.
Print Assumptions c08_write_perm_invariant.

(* ---- the signed message ---------------------------------------------------------- *)
Theorem c08_signed_message_b1_conforms : forall e cert validity date expires m,
  e_ver e = V1b1 -> go_exchange e -> int64 (e_status e) ->
  int64 date -> int64 expires -> go_len validity ->
  match cert with Some c => go_len c | None => True end ->
  (signed_message e cert validity date expires = Ok m <->
   spec_message_b1 e cert validity date expires = Some m).
Proof. exact signed_message_b1_conforms. Qed.
Print Assumptions c08_signed_message_b1_conforms.

(* including the failures: un-encodable headers (duplicate key) give Err / None *)
Theorem c08_signed_message_b1_eq : forall e cert validity date expires,
  e_ver e = V1b1 -> go_exchange e -> int64 (e_status e) ->
  int64 date -> int64 expires -> go_len validity ->
  match cert with Some c => go_len c | None => True end ->
  spec_message_b1 e cert validity date expires = to_opt (signed_message e cert validity date expires).
Proof. exact signed_message_b1_eq. Qed.
Print Assumptions c08_signed_message_b1_eq.

Theorem c08_signed_message_b2b3_eq : forall e c validity date expires,
  e_ver e <> V1b1 -> go_exchange e -> int64 (e_status e) ->
  int64 date -> int64 expires -> go_len validity ->
  (forall hdr, encode_exchange_headers e = Ok hdr -> lenN hdr < two64) ->
  spec_message_b2b3 e (Some c) validity date expires
  = to_opt (signed_message e (Some c) validity date expires).
Proof. exact signed_message_b2b3_eq. Qed.
Print Assumptions c08_signed_message_b2b3_eq.

Theorem c08_signed_message_b2b3_conforms : forall e c validity date expires m,
  e_ver e <> V1b1 -> go_exchange e -> int64 (e_status e) ->
  int64 date -> int64 expires -> go_len validity ->
  (forall hdr, encode_exchange_headers e = Ok hdr -> lenN hdr < two64) ->
  (signed_message e (Some c) validity date expires = Ok m <->
   spec_message_b2b3 e (Some c) validity date expires = Some m).
Proof. exact signed_message_b2b3_conforms. Qed.
Print Assumptions c08_signed_message_b2b3_conforms.

(* REFUTED for cert-sha256 unset: whenever the library produces a b2/b3 message
   without a certificate hash, it is the spec's message minus the "Otherwise a
   0 byte" of item 4 (see also the concrete witness further down) *)
Theorem c08_signed_message_b2b3_nocert_gap : forall e validity date expires m,
  e_ver e <> V1b1 -> go_exchange e -> int64 (e_status e) ->
  int64 date -> int64 expires -> go_len validity ->
  (forall hdr, encode_exchange_headers e = Ok hdr -> lenN hdr < two64) ->
  signed_message e None validity date expires = Ok m ->
  exists rest, m = message_prefix (e_ver e) ++ rest /\
    spec_message_b2b3 e None validity date expires = Some (message_prefix (e_ver e) ++ 0 :: rest).
Proof. exact signed_message_b2b3_nocert_gap. Qed.
Print Assumptions c08_signed_message_b2b3_nocert_gap.

(* negative date / expires: no 8-byte encoding; refused by model and spec alike *)
Theorem c08_signed_message_b2b3_negative : forall e cert validity date expires,
  e_ver e <> V1b1 -> ((date < 0)%Z \/ (expires < 0)%Z) ->
  signed_message e cert validity date expires = Err /\
  spec_message_b2b3 e cert validity date expires = None.
Proof. exact signed_message_b2b3_negative. Qed.
Print Assumptions c08_signed_message_b2b3_negative.

Theorem c08_signed_message_never_panics : forall e cert validity date expires,
  match signed_message e cert validity date expires with Ok _ | Err => True | _ => False end.
Proof. exact signed_message_ok_or_err. Qed.
Print Assumptions c08_signed_message_never_panics.

(* ---- the file ---------------------------------------------------------------------- *)
(* Write first refuses what ReadExchange would refuse (write_refuses e: the fallback
   URL is not an https URL; b2: a request header named ":url"), then emits exactly
   the specified file. *)
Theorem c08_file_conforms : forall e bs, go_exchange e -> int64 (e_status e) ->
  (write e = Ok bs <-> write_refuses e = false /\ spec_file e = Some bs).
Proof. exact file_conforms. Qed.
Print Assumptions c08_file_conforms.

Theorem c08_file_eq : forall e, go_exchange e -> int64 (e_status e) ->
  to_opt (write e) = if write_refuses e then None else spec_file e.
Proof. exact file_eq. Qed.
Print Assumptions c08_file_eq.

Theorem c08_write_never_panics : forall e, match write e with Ok _ | Err => True | _ => False end.
Proof. exact write_ok_or_err. Qed.
Print Assumptions c08_write_never_panics.

(* ---- header integrity --------------------------------------------------------------- *)
Theorem c08_header_integrity_conforms : forall (H : bytes -> bytes) e v,
  go_exchange e -> int64 (e_status e) ->
  (header_integrity H e = Ok v <->
   exists hdr, spec_headers_cbor e = Some hdr /\ v = s2b "sha256-" ++ b64_encode true false (H hdr)).
Proof. exact header_integrity_conforms. Qed.
Print Assumptions c08_header_integrity_conforms.

Theorem c08_header_integrity_eq : forall (H : bytes -> bytes) e, go_exchange e -> int64 (e_status e) ->
  spec_header_integrity H e = to_opt (header_integrity H e).
Proof. exact header_integrity_eq. Qed.
Print Assumptions c08_header_integrity_eq.

(* ---- the Signature header ------------------------------------------------------------ *)
(* no domain hypothesis at all; Err on both sides exactly for non-printable URLs *)
Theorem c08_signature_header_conforms : forall (H : bytes -> bytes) e c0 cs cert_url validity date expires sig,
  signature_header_value H e (c0 :: cs) cert_url validity date expires sig
  = of_opt (spec_signature_header H (e_ver e) (c0 :: cs) cert_url validity date expires sig).
Proof. exact signature_header_conforms. Qed.
Print Assumptions c08_signature_header_conforms.

(* the Params map of signer.go in ANY iteration order serializes to the same
   text: parameters come out sorted by key *)
Theorem c08_signature_header_order_irrelevant : forall (H : bytes -> bytes) e certs cert_url validity date expires sig ps,
  Permutation ps (sig_params H (e_ver e) certs cert_url validity date expires sig) ->
  serialize_pi {| pi_label := s2b "label"; pi_params := ps |}
  = signature_header_value H e certs cert_url validity date expires sig.
Proof. exact signature_header_order_irrelevant. Qed.
Print Assumptions c08_signature_header_order_irrelevant.

Theorem c08_signature_header_ok_iff : forall (H : bytes -> bytes) e c0 cs cert_url validity date expires sig,
  (exists s, signature_header_value H e (c0 :: cs) cert_url validity date expires sig = Ok s)
  <-> forallb printable_b cert_url = true /\ forallb printable_b validity = true.
Proof. exact signature_header_ok_iff. Qed.
Print Assumptions c08_signature_header_ok_iff.

(* ==== non-vacuity and examples ======================================================== *)
Definition ex_resph : headers :=
  [(s2b "Content-Type", [s2b "text/html; charset=utf-8"]);
   (s2b "X-Multi", [s2b "a"; s2b "b"]);
   (s2b "Digest", [s2b "mi-sha256-03=dcRDgR2GM35DluAV13PzgnG6+pvQwPywfFvAu1UeFrs="]);
   (s2b "content-encoding", [s2b "mi-sha256-03"])].
Definition ex_reqh : headers := [(s2b "Accept", [s2b "*/*"]); (s2b "accept-Language", [s2b "en"; s2b "fr"])].

Definition ex (v : version) : exchange :=
  {| e_ver := v; e_uri := s2b "https://example.com/index.html";
     e_method := s2b "GET"; e_reqh := match v with V1b3 => [] | _ => ex_reqh end;
     e_status := 200%Z; e_resph := ex_resph;
     e_sig := s2b "label;sig=*AA==*"; e_payload := s2b "<!doctype html>"; e_taint := false |}.

Example ex_go : forall v, go_exchange (ex v) /\ int64 (e_status (ex v)).
Proof.
  intros v. split; [|unfold int64; cbn; lia].
  destruct v; unfold go_exchange, go_headers, go_len, ex, ex_reqh, ex_resph;
    cbn [e_uri e_method e_reqh e_resph];
    repeat first [split | constructor | (vm_compute; reflexivity)].
Qed.

(* the b3 header block, spelled out: a 5-entry map sorted by encoded key
   (shorter keys first: "digest" < ":status" < "x-multi" < "content-type" < ...) *)
Example ex_headers_b3 :
  encode_exchange_headers (ex V1b3) =
  Ok ([165]
      ++ [70] ++ s2b "digest" ++ [88; 57] ++ s2b "mi-sha256-03=dcRDgR2GM35DluAV13PzgnG6+pvQwPywfFvAu1UeFrs="
      ++ [71] ++ s2b ":status" ++ [67] ++ s2b "200"
      ++ [71] ++ s2b "x-multi" ++ [67] ++ s2b "a,b"
      ++ [76] ++ s2b "content-type" ++ [88; 24] ++ s2b "text/html; charset=utf-8"
      ++ [80] ++ s2b "content-encoding" ++ [76] ++ s2b "mi-sha256-03").
Proof. vm_compute. reflexivity. Qed.

Example ex_headers_all :
  forallb (fun v => match encode_exchange_headers (ex v), spec_headers_cbor (ex v) with
                    | Ok a, Some b => bytes_eqb a b
                    | _, _ => false
                    end) [V1b1; V1b2; V1b3] = true.
Proof. vm_compute. reflexivity. Qed.

(* a different iteration order of both maps: same bytes *)
Example ex_headers_perm :
  encode_exchange_headers
    {| e_ver := V1b2; e_uri := e_uri (ex V1b2); e_method := s2b "GET"; e_reqh := rev ex_reqh;
       e_status := 200%Z; e_resph := rev ex_resph; e_sig := []; e_payload := []; e_taint := false |}
  = encode_exchange_headers (ex V1b2).
Proof. vm_compute. reflexivity. Qed.

(* a duplicate after lower-casing, or a header named like a pseudo key: refused, spec None *)
Definition ex_dup : exchange :=
  {| e_ver := V1b3; e_uri := s2b "https://e.com/"; e_method := s2b "GET"; e_reqh := [];
     e_status := 200%Z; e_resph := [(s2b "A", [[1]]); (s2b "a", [[2]])];
     e_sig := []; e_payload := []; e_taint := false |}.
Definition ex_pseudo : exchange :=
  {| e_ver := V1b3; e_uri := s2b "https://e.com/"; e_method := s2b "GET"; e_reqh := [];
     e_status := 200%Z; e_resph := [(s2b ":Status", [s2b "404"])];
     e_sig := []; e_payload := []; e_taint := false |}.
Example ex_dup_refused :
  encode_exchange_headers ex_dup = Err /\ spec_headers_cbor ex_dup = None /\
  encode_exchange_headers ex_pseudo = Err /\ spec_headers_cbor ex_pseudo = None /\
  write ex_dup = Err /\ signed_message ex_dup (Some [1]) [] 0 0 = Err.
Proof. vm_compute. repeat split. Qed.

Definition ex_cert : bytes := s2b "not really DER".
Definition ex_validity : bytes := s2b "https://example.com/resource.validity".
Definition ex_date : Z := 1511128380.
Definition ex_expires : Z := 1511733180.

Example ex_message_b1 :
  match signed_message (ex V1b1) (Some (sha256 ex_cert)) ex_validity ex_date ex_expires,
        spec_message_b1 (ex V1b1) (Some (sha256 ex_cert)) ex_validity ex_date ex_expires with
  | Ok a, Some b => bytes_eqb a b && (lenN a =? 457)
  | _, _ => false
  end = true.
Proof. vm_compute. reflexivity. Qed.

Example ex_message_b1_nocert :
  to_opt (signed_message (ex V1b1) None ex_validity ex_date ex_expires)
  = spec_message_b1 (ex V1b1) None ex_validity ex_date ex_expires
  /\ is_ok (signed_message (ex V1b1) None ex_validity ex_date ex_expires) = true.
Proof. vm_compute. split; reflexivity. Qed.

Example ex_message_b2b3 :
  forallb (fun v =>
    match signed_message (ex v) (Some (sha256 ex_cert)) ex_validity ex_date ex_expires,
          spec_message_b2b3 (ex v) (Some (sha256 ex_cert)) ex_validity ex_date ex_expires with
    | Ok a, Some b => bytes_eqb a b
    | _, _ => false
    end) [V1b2; V1b3] = true.
Proof. vm_compute. reflexivity. Qed.

(* hypothesis of c08_signed_message_b2b3_conforms on the example *)
Example ex_message_b2b3_hyp : forall hdr, encode_exchange_headers (ex V1b3) = Ok hdr -> lenN hdr < two64.
Proof. intros hdr H. vm_compute in H. inversion H. vm_compute. reflexivity. Qed.

(* REFUTED for b2/b3 without a certificate hash: the spec's "Otherwise a 0 byte"
   is missing from the library's message (one byte shorter). *)
Theorem signed_message_b2b3_nocert_refuted :
  exists e validity date expires m m',
    e_ver e = V1b3 /\ go_exchange e /\
    signed_message e None validity date expires = Ok m /\
    spec_message_b2b3 e None validity date expires = Some m' /\
    m <> m' /\ lenN m' = lenN m + 1 /\
    (* the two differ exactly by the 0 byte after the 84-byte prefix *)
    firstn 84 m' = firstn 84 m /\ nth 84 m' 1 = 0 /\ skipn 85 m' = skipn 84 m.
Proof.
  exists (ex V1b3), ex_validity, ex_date, ex_expires.
  destruct (signed_message (ex V1b3) None ex_validity ex_date ex_expires) as [m| | |] eqn:E1;
    try (vm_compute in E1; discriminate E1).
  destruct (spec_message_b2b3 (ex V1b3) None ex_validity ex_date ex_expires) as [m'|] eqn:E2;
    try (vm_compute in E2; discriminate E2).
  exists m, m'. split; [reflexivity|]. split; [apply ex_go|]. split; [reflexivity|]. split; [reflexivity|].
  vm_compute in E1. vm_compute in E2. inversion E1; inversion E2; subst.
  split; [discriminate|]. repeat split; vm_compute; reflexivity.
Qed.
Print Assumptions signed_message_b2b3_nocert_refuted.

Example ex_file :
  forallb (fun v => match write (ex v), spec_file (ex v) with
                    | Ok a, Some b => bytes_eqb a b
                    | _, _ => false
                    end) [V1b1; V1b2; V1b3] = true.
Proof. vm_compute. reflexivity. Qed.

(* the b3 file, field by field *)
Example ex_file_b3 :
  exists hdr, encode_exchange_headers (ex V1b3) = Ok hdr /\
  write (ex V1b3) =
  Ok (s2b "sxg1-b3" ++ [0] ++ [0; 30] ++ s2b "https://example.com/index.html"
      ++ [0; 0; 16] ++ [0; 0; 160] ++ s2b "label;sig=*AA==*" ++ hdr ++ s2b "<!doctype html>").
Proof. eexists. split; vm_compute; reflexivity. Qed.

Example ex_header_integrity :
  header_integrity sha256 (ex V1b3) = Ok (s2b "sha256-lobEDbTT+xeNkQtUy2ZhbcKx7jTWipurJ/VtdVLsSFk=")
  /\ spec_header_integrity sha256 (ex V1b3) = to_opt (header_integrity sha256 (ex V1b3)).
Proof. vm_compute. split; reflexivity. Qed.

Example ex_signature_header :
  signature_header_value sha256 (ex V1b3) [ex_cert] (s2b "https://example.com/cert.cbor")
    ex_validity ex_date ex_expires [1; 2; 3]
  = Ok (s2b "label;cert-sha256=*R2W5kOJzI22JQYZk1Rg3ufDQdmt7oSnGmKPLIiXrnMY=*;cert-url=""https://example.com/cert.cbor"";date=1511128380;expires=1511733180;integrity=""digest/mi-sha256-03"";sig=*AQID*;validity-url=""https://example.com/resource.validity""")
  /\ spec_signature_header sha256 V1b3 [ex_cert] (s2b "https://example.com/cert.cbor")
       ex_validity ex_date ex_expires [1; 2; 3]
     = to_opt (signature_header_value sha256 (ex V1b3) [ex_cert] (s2b "https://example.com/cert.cbor")
                 ex_validity ex_date ex_expires [1; 2; 3]).
Proof. vm_compute. split; reflexivity. Qed.

Example ex_signature_header_b1_and_refusal :
  is_ok (signature_header_value sha256 (ex V1b1) [ex_cert] (s2b "https://e.com/c") ex_validity 1 2 []) = true
  /\ signature_header_value sha256 (ex V1b1) [ex_cert] (s2b "https://e.com/" ++ [10]) ex_validity 1 2 [] = Err
  /\ spec_signature_header sha256 V1b1 [ex_cert] (s2b "https://e.com/" ++ [10]) ex_validity 1 2 [] = None.
Proof. vm_compute. repeat split. Qed.

(* FINDING: the reader does not enforce the limits the format puts on sigLength
   (and headerLength): a b3 file announcing a 16385-byte Signature is read,
   although Write refuses to produce it and 5.3 says "parsing MUST fail". *)
Definition ex_oversig : exchange :=
  {| e_ver := V1b3; e_uri := s2b "https://e.com/"; e_method := s2b "GET"; e_reqh := [];
     e_status := 200%Z; e_resph := []; e_sig := repeat 97 (N.to_nat 16385); e_payload := [];
     e_taint := false |}.
Definition ex_oversig_hdr : bytes := [161; 71] ++ s2b ":status" ++ [67] ++ s2b "200".
Definition ex_oversig_file : bytes :=
  s2b "sxg1-b3" ++ [0] ++ [0; 14] ++ e_uri ex_oversig ++ [0; 64; 1] ++ [0; 0; 13]
  ++ e_sig ex_oversig ++ ex_oversig_hdr.
Example read_ignores_length_limits :
  encode_exchange_headers ex_oversig = Ok ex_oversig_hdr /\
  write ex_oversig = Err /\ spec_file ex_oversig = None /\
  match read ex_oversig_file with
  | Ok e' => (lenN (e_sig e') =? 16385) && (e_status e' =? 200)%Z
  | _ => false
  end = true.
Proof. repeat split; vm_compute; reflexivity. Qed.
