(* C08 - signed exchanges; placeholder until the proofs land. *)
From WP Require Import Base.Prelude Model.Sxg.
Open Scope N_scope.

Theorem c08_smoke : from_magic (header_magic V1b3) = Some V1b3.
Proof. reflexivity. Qed.
Print Assumptions c08_smoke.
