(* C15 - MICE; placeholder until the proofs land. *)
From WP Require Import Base.Prelude Model.Mice.
Open Scope N_scope.

Theorem c15_smoke : content_encoding D03 = s2b "mi-sha256-03".
Proof. reflexivity. Qed.
Print Assumptions c15_smoke.
