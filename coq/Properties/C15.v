(* C15 - MICE decoder: given a digest, only authenticated data is handed out.

   "The digest commits to the payload" is the inductive relation [Commits] of
   Spec/Mice.v.  Nothing is assumed about the hash H beyond the output format;
   in particular there is NO collision-freedom assumption: every conclusion
   has the form  "... \/ Collision H", and the proofs construct the colliding
   pair explicitly. *)
From WP Require Import Base.Prelude Base.Base64 Base.Sha256 Model.Mice Spec.Mice.
From WP Require Import Proofs.MiceLemmas Proofs.MiceEncode Proofs.MiceCommit
  Proofs.MiceDecode Proofs.MiceAuth.
Open Scope N_scope.

(* a digest commits to at most one record list *)
Theorem C15_commits_unique :
  forall (H : bytes -> bytes) (d : bytes) (r1 r2 : list bytes),
    Commits H d r1 -> Commits H d r2 -> r1 = r2 \/ Collision H.
Proof. exact commits_unique. Qed.
Print Assumptions C15_commits_unique.

(* the encoder's digest commits to the records of the payload ... *)
Theorem C15_encode_commits :
  forall (H : bytes -> bytes), (forall x, List.length (H x) = 32%nat) ->
  forall (d : draft) (rs : N) (p : bytes),
    1 <= rs -> records d rs p <> [] ->
    Commits H (digest H d rs p) (records d rs p).
Proof. exact encode_commits. Qed.
Print Assumptions C15_encode_commits.

(* ... the only case without records is draft 03 / empty payload, whose digest
   H [0] is the commitment to one empty record *)
Theorem C15_records_empty_only_03 :
  forall (d : draft) (rs : N) (p : bytes),
    1 <= rs -> records d rs p = [] -> d = D03 /\ p = [].
Proof. exact records_nonempty. Qed.
Print Assumptions C15_records_empty_only_03.

Theorem C15_encode_commits_empty03 :
  forall (H : bytes -> bytes) (rs : N),
    digest H D03 rs [] = H [0] /\ Commits H (digest H D03 rs []) [[]].
Proof. exact encode_commits_empty03. Qed.
Print Assumptions C15_encode_commits_empty03.

(* MAIN: any stream s, any header string dg, any limit, any history of Read
   calls (destination sizes 0 allowed).  If dg parses to a digest that commits
   to recs, then everything delivered before the first error is a prefix of
   concat recs, and EOF is reported only after all of it. *)
Theorem C15_decoder_releases_only_committed :
  forall (H : bytes -> bytes) (d : draft) (s dg : bytes) (maxrs : N) (sizes : list N)
         (recs : list bytes) (top : bytes) (s0 : dec) (out : bytes) (st : rstat),
    parse_digest_header d dg = Ok top -> Commits H top recs ->
    new_decoder H d s dg maxrs = Ok s0 ->
    read_trace H s0 sizes [] = (out, st) ->
    ((exists rest, List.concat recs = out ++ rest) /\ (st = REOF -> out = List.concat recs))
    \/ Collision H.
Proof. exact decoder_releases_only_committed. Qed.
Print Assumptions C15_decoder_releases_only_committed.

Theorem C15_decode_all_only_committed :
  forall (H : bytes -> bytes) (d : draft) (s dg : bytes) (maxrs k : N)
         (recs : list bytes) (top out : bytes) (st : rstat),
    parse_digest_header d dg = Ok top -> Commits H top recs ->
    decode_all H d s dg maxrs k = Ok (out, st) ->
    ((exists rest, List.concat recs = out ++ rest) /\ (st = REOF -> out = List.concat recs))
    \/ Collision H.
Proof. exact decode_all_only_committed. Qed.
Print Assumptions C15_decode_all_only_committed.

(* End to end: the header produced for payload p (by the spec = by Encode,
   C14), presented with ANY stream s: truncated, extended, reordered, altered
   records or proofs, other record size, ... *)
Theorem C15_decoder_authentic :
  forall (H : bytes -> bytes),
    (forall x, List.length (H x) = 32%nat) -> (forall x, wfb (H x)) ->
  forall (d : draft) (rs : N) (p s : bytes) (maxrs : N) (sizes : list N)
         (s0 : dec) (out : bytes) (st : rstat),
    1 <= rs ->
    new_decoder H d s (digest_header H d rs p) maxrs = Ok s0 ->
    read_trace H s0 sizes [] = (out, st) ->
    ((exists rest, p = out ++ rest) /\ (st = REOF -> out = p)) \/ Collision H.
Proof. exact decoder_authentic. Qed.
Print Assumptions C15_decoder_authentic.

Theorem C15_decode_all_authentic :
  forall (H : bytes -> bytes),
    (forall x, List.length (H x) = 32%nat) -> (forall x, wfb (H x)) ->
  forall (d : draft) (rs : N) (p s : bytes) (maxrs k : N) (out : bytes) (st : rstat),
    1 <= rs ->
    decode_all H d s (digest_header H d rs p) maxrs k = Ok (out, st) ->
    ((exists rest, p = out ++ rest) /\ (st = REOF -> out = p)) \/ Collision H.
Proof. exact decode_all_authentic. Qed.
Print Assumptions C15_decode_all_authentic.

(* a record size of 0 or above the caller's limit is refused by NewDecoder:
   nothing beyond the 8-byte size is ever read *)
Theorem C15_record_size_refused :
  forall (H : bytes -> bytes) (d : draft) (s dg : bytes) (maxrs : N) (hd rest : bytes),
    splitN s 8 = Some (hd, rest) -> (unbe hd = 0 \/ maxrs < unbe hd) ->
    new_decoder H d s dg maxrs = Err.
Proof. exact record_size_refused. Qed.
Print Assumptions C15_record_size_refused.

(* ---- the hypotheses are satisfiable ------------------------------------- *)
Definition msg : bytes := s2b "When I grow up, I want to be a watermelon".
Definition strm : bytes := Eval vm_compute in stream sha256 D03 16 msg.
Definition hdr : bytes := Eval vm_compute in digest_header sha256 D03 16 msg.
Definition top : bytes := Eval vm_compute in digest sha256 D03 16 msg.

Example hdr_parses : parse_digest_header D03 hdr = Ok top.
Proof. vm_compute. reflexivity. Qed.

Example top_commits : Commits sha256 top (records D03 16 msg).
Proof.
  change (records D03 16 msg) with
    [firstn 16 msg; firstn 16 (skipn 16 msg); skipn 32 msg].
  apply (CMore sha256 _ _ (sha256 (firstn 16 (skipn 16 msg) ++ sha256 (skipn 32 msg ++ [0]) ++ [1])));
    [discriminate|vm_compute; reflexivity|vm_compute; reflexivity|].
  apply (CMore sha256 _ _ (sha256 (skipn 32 msg ++ [0])));
    [discriminate|vm_compute; reflexivity|reflexivity|].
  apply CLast. reflexivity.
Qed.

Example size_refused_zero :
  new_decoder sha256 D03 (be 8 0 ++ skipn 8 strm) hdr 16384 = Err.
Proof.
  apply (C15_record_size_refused _ _ _ _ _ (be 8 0) (skipn 8 strm)); [reflexivity|left; reflexivity].
Qed.
Example size_refused_too_big :
  new_decoder sha256 D03 (be 8 16385 ++ skipn 8 strm) hdr 16384 = Err.
Proof.
  apply (C15_record_size_refused _ _ _ _ _ (be 8 16385) (skipn 8 strm));
    [reflexivity|right; vm_compute; reflexivity].
Qed.

(* ---- concrete runs with SHA-256: intact stream, then mutations ---------- *)
Definition run (s : bytes) := decode_all sha256 D03 s hdr 16384 7.
Definition flip (i : nat) (s : bytes) : bytes :=
  firstn i s ++ (N.lxor (nth i s 0) 1 :: skipn (S i) s).

Example intact : run strm = Ok (msg, REOF).
Proof. vm_compute. reflexivity. Qed.

(* layout: [0,8) size | [8,24) r0 | [24,56) proof1 | [56,72) r1 | [72,104) proof2 | [104,113) r2 *)
Example altered_second_record : run (flip 60 strm) = Ok (firstn 16 msg, RErr).
Proof. vm_compute. reflexivity. Qed.
Example altered_first_proof : run (flip 30 strm) = Ok ([], RErr).
Proof. vm_compute. reflexivity. Qed.
Example altered_last_record : run (flip 112 strm) = Ok (firstn 32 msg, RErr).
Proof. vm_compute. reflexivity. Qed.
Example truncated_at_record_boundary : run (firstn 56 strm) = Ok (firstn 16 msg, RErr).
Proof. vm_compute. reflexivity. Qed.
Example truncated_before_proof : run (firstn 72 strm) = Ok (firstn 16 msg, RErr).
Proof. vm_compute. reflexivity. Qed.
Example truncated_inside_last : run (firstn 110 strm) = Ok (firstn 32 msg, RErr).
Proof. vm_compute. reflexivity. Qed.
Example truncated_to_size_only : run (firstn 8 strm) = Ok ([], RErr).
Proof. vm_compute. reflexivity. Qed.
Example truncated_to_nothing : run [] = Err.
Proof. vm_compute. reflexivity. Qed.
Example extended : run (strm ++ [0]) = Ok (firstn 32 msg, RErr).
Proof. vm_compute. reflexivity. Qed.
Example records_swapped :
  run (firstn 8 strm ++ firstn 16 (skipn 56 strm) ++ firstn 32 (skipn 24 strm)
       ++ firstn 16 (skipn 8 strm) ++ skipn 72 strm) = Ok ([], RErr).
Proof. vm_compute. reflexivity. Qed.
Example other_record_size : run (be 8 17 ++ skipn 8 strm) = Ok ([], RErr).
Proof. vm_compute. reflexivity. Qed.
(* draft 02 stream truncated at the boundary after the first record *)
Example truncated_at_record_boundary_02 :
  decode_all sha256 D02 (firstn 56 (stream sha256 D02 16 msg))
             (digest_header sha256 D02 16 msg) 16384 7 = Ok (firstn 16 msg, RErr).
Proof. vm_compute. reflexivity. Qed.

(* ---- the collision disjunct cannot be dropped ---------------------------- *)
(* a "hash" that only looks at the flag byte: a forged payload is accepted
   under the digest of another one *)
Definition weakH (x : bytes) : bytes := be 32 (last x 0).
Example weak_hash_is_fooled :
  decode_all weakH D03 (stream weakH D03 4 [9; 9; 9; 9; 9]) (digest_header weakH D03 4 [1; 2; 3; 4; 5]) 16 8
  = Ok ([9; 9; 9; 9; 9], REOF).
Proof. vm_compute. reflexivity. Qed.
Example weak_hash_collides : Collision weakH.
Proof. exists [0; 1], [1; 1]. split; [discriminate|reflexivity]. Qed.

(* ========================================================================
   Callers that KEEP CALLING Read after an error or after end of stream.

   [read_trace] above stops at the first status other than ROk.  Below the
   history is arbitrary: [read_all_calls H s0 sizes] (Proofs/MiceRetry.v)
   lists, for every call, the bytes it delivered and its status, each call
   being made on the state the previous one left behind WHATEVER its status:

     read_all_calls s []       = []
     read_all_calls s (k :: t) = let '(s', o, st) := read H s k in
                                 (o, st) :: read_all_calls s' t
   ======================================================================== *)
From WP Require Import Proofs.MiceRetry.

(* the new definition extends the old one: read_trace is what one sees of
   read_all_calls up to and including the first call that is not ROk *)
Theorem C15_read_trace_is_calls_prefix :
  forall (H : bytes -> bytes) (sizes : list N) (s : dec) (acc : bytes),
    read_trace H s sizes acc = trace_of (read_all_calls H s sizes) acc.
Proof. exact read_trace_calls. Qed.
Print Assumptions C15_read_trace_is_calls_prefix.

(* MAIN: any stream s, any header string dg, any limit, any history of Read
   calls, continuing past errors and past EOF.  ALL bytes ever delivered,
   across errors, form a prefix of the committed payload, and a clean EOF at
   any point of the history comes only after the complete payload. *)
Theorem C15_reads_after_error_only_committed :
  forall (H : bytes -> bytes) (d : draft) (s dg : bytes) (maxrs : N) (sizes : list N)
         (recs : list bytes) (top : bytes) (s0 : dec),
    parse_digest_header d dg = Ok top -> Commits H top recs ->
    new_decoder H d s dg maxrs = Ok s0 ->
    let calls := read_all_calls H s0 sizes in
    ((exists rest, List.concat recs = List.concat (map fst calls) ++ rest) /\
     (forall i o, nth_error calls i = Some (o, REOF) ->
        List.concat (map fst (firstn (S i) calls)) = List.concat recs))
    \/ Collision H.
Proof. exact reads_after_error_only_committed. Qed.
Print Assumptions C15_reads_after_error_only_committed.

(* once a call has returned EOF (it delivers nothing itself), every later
   call returns no bytes and EOF.  True of EVERY decoder state, reachable or
   not, both drafts, no assumption on the hash, no digest needed. *)
Theorem C15_after_eof_only_eof :
  forall (H : bytes -> bytes) (sizes : list N) (s : dec) (i j : nat)
         (o : bytes) (x : bytes * rstat),
    nth_error (read_all_calls H s sizes) i = Some (o, REOF) ->
    (i <= j)%nat -> nth_error (read_all_calls H s sizes) j = Some x ->
    x = ([], REOF).
Proof. exact after_eof_only_eof. Qed.
Print Assumptions C15_after_eof_only_eof.

(* a failed call delivers nothing, and whatever the calls after it deliver
   continues the committed payload exactly where the calls before it stopped *)
Theorem C15_error_then_no_progress_unless_authentic :
  forall (H : bytes -> bytes) (d : draft) (s dg : bytes) (maxrs : N) (sizes : list N)
         (recs : list bytes) (top : bytes) (s0 : dec),
    parse_digest_header d dg = Ok top -> Commits H top recs ->
    new_decoder H d s dg maxrs = Ok s0 ->
    forall (pre : list (bytes * rstat)) (o : bytes) (post : list (bytes * rstat)),
      read_all_calls H s0 sizes = pre ++ (o, RErr) :: post ->
      o = [] /\
      ((exists rest, List.concat recs
                     = List.concat (map fst pre) ++ List.concat (map fst post) ++ rest)
       \/ Collision H).
Proof. exact error_then_no_progress_unless_authentic. Qed.
Print Assumptions C15_error_then_no_progress_unless_authentic.

(* end to end, honest encoder: the header produced for payload p, ANY stream *)
Theorem C15_reads_after_error_authentic :
  forall (H : bytes -> bytes),
    (forall x, List.length (H x) = 32%nat) -> (forall x, wfb (H x)) ->
  forall (d : draft) (rs : N) (p s : bytes) (maxrs : N) (sizes : list N) (s0 : dec),
    1 <= rs ->
    new_decoder H d s (digest_header H d rs p) maxrs = Ok s0 ->
    let calls := read_all_calls H s0 sizes in
    ((exists rest, p = List.concat (map fst calls) ++ rest) /\
     (forall i o, nth_error calls i = Some (o, REOF) ->
        List.concat (map fst (firstn (S i) calls)) = p))
    \/ Collision H.
Proof. exact reads_after_error_authentic. Qed.
Print Assumptions C15_reads_after_error_authentic.

(* ---- concrete histories with SHA-256 ------------------------------------- *)
(* 12-byte payload, record size 8: two records (8 + 4 bytes).
   layout: [0,8) size | [8,16) r0 | [16,48) proof1 | [48,52) r1 *)
Definition msg2 : bytes := s2b "watermelon!!".
Definition strm2 (d : draft) : bytes := stream sha256 d 8 msg2.
Definition hdr2 (d : draft) : bytes := digest_header sha256 d 8 msg2.
Definition calls_on (d : draft) (s : bytes) (sizes : list N) : option (list (bytes * rstat)) :=
  match new_decoder sha256 d s (hdr2 d) 16384 with
  | Ok s0 => Some (read_all_calls sha256 s0 sizes)
  | _ => None
  end.

Example retry_intact :
  calls_on D03 (strm2 D03) [5; 5; 5; 5; 5]
  = Some [(firstn 5 msg2, ROk); (firstn 3 (skipn 5 msg2), ROk); (skipn 8 msg2, ROk);
          ([], REOF); ([], REOF)].
Proof. vm_compute. reflexivity. Qed.

(* one bit flipped in the FINAL record: the first record is delivered, then
   every further call fails and delivers nothing - in particular the second
   Read after the validation failure does not hand out the unauthenticated
   record, and there is never a clean EOF *)
Example retry_final_record_altered :
  calls_on D03 (flip 50 (strm2 D03)) [5; 5; 5; 5; 5]
  = Some [(firstn 5 msg2, ROk); (firstn 3 (skipn 5 msg2), ROk);
          ([], RErr); ([], RErr); ([], RErr)].
Proof. vm_compute. reflexivity. Qed.
Example retry_final_record_altered_02 :
  calls_on D02 (flip 50 (strm2 D02)) [5; 5; 5; 5; 5]
  = Some [(firstn 5 msg2, ROk); (firstn 3 (skipn 5 msg2), ROk);
          ([], RErr); ([], RErr); ([], RErr)].
Proof. vm_compute. reflexivity. Qed.
(* same with one bit flipped in the proof of the final record *)
Example retry_final_proof_altered :
  calls_on D03 (flip 20 (strm2 D03)) [5; 5; 5; 5; 5]
  = Some [([], RErr); ([], RErr); ([], RErr); ([], RErr); ([], RErr)].
Proof. vm_compute. reflexivity. Qed.

(* a junk unit (8 + 32 bytes) inserted in front of the honest records: the
   first call fails; the decoder has consumed the junk and still holds the
   top-level proof, so later calls deliver the authentic payload, then EOF *)
Example retry_junk_record_in_front :
  calls_on D03 (firstn 8 (strm2 D03) ++ repeat 7 40 ++ skipn 8 (strm2 D03)) [5; 5; 5; 5; 5; 5; 5]
  = Some [([], RErr); (firstn 5 msg2, ROk); (firstn 3 (skipn 5 msg2), ROk); (skipn 8 msg2, ROk);
          ([], REOF); ([], REOF); ([], REOF)].
Proof. vm_compute. reflexivity. Qed.
Example retry_junk_record_in_front_02 :
  calls_on D02 (firstn 8 (strm2 D02) ++ repeat 7 40 ++ skipn 8 (strm2 D02)) [5; 5; 5; 5; 5; 5; 5]
  = Some [([], RErr); (firstn 5 msg2, ROk); (firstn 3 (skipn 5 msg2), ROk); (skipn 8 msg2, ROk);
          ([], REOF); ([], REOF); ([], REOF)].
Proof. vm_compute. reflexivity. Qed.
(* junk between the two honest units *)
Example retry_junk_record_in_the_middle :
  calls_on D03 (firstn 48 (strm2 D03) ++ repeat 7 40 ++ skipn 48 (strm2 D03)) [8; 8; 8; 8]
  = Some [(firstn 8 msg2, ROk); ([], RErr); (skipn 8 msg2, ROk); ([], REOF)].
Proof. vm_compute. reflexivity. Qed.

(* ---- the hypotheses of the new theorems are satisfiable: the general
   theorem instantiated on the altered stream ------------------------------- *)
Definition top2 : bytes := Eval vm_compute in digest sha256 D03 8 msg2.
Example hdr2_parses : parse_digest_header D03 (hdr2 D03) = Ok top2.
Proof. vm_compute. reflexivity. Qed.
Example top2_commits : Commits sha256 top2 [firstn 8 msg2; skipn 8 msg2].
Proof.
  apply (CMore sha256 _ _ (sha256 (skipn 8 msg2 ++ [0])));
    [discriminate|vm_compute; reflexivity|vm_compute; reflexivity|].
  apply CLast. reflexivity.
Qed.
Definition s0_altered : dec :=
  {| d_enc := D03; d_rs := 8; d_r := skipn 8 (flip 50 (strm2 D03));
     d_next := Some top2; d_out := [] |}.
Example altered_opens :
  new_decoder sha256 D03 (flip 50 (strm2 D03)) (hdr2 D03) 16384 = Ok s0_altered.
Proof. vm_compute. reflexivity. Qed.
Example retry_instance :
  let calls := read_all_calls sha256 s0_altered [5; 5; 5; 5; 5] in
  ((exists rest, msg2 = List.concat (map fst calls) ++ rest) /\
   (forall i o, nth_error calls i = Some (o, REOF) ->
      List.concat (map fst (firstn (S i) calls)) = msg2))
  \/ Collision sha256.
Proof.
  exact (C15_reads_after_error_only_committed sha256 D03 _ _ _ [5; 5; 5; 5; 5] _ _ _
           hdr2_parses top2_commits altered_opens).
Qed.
Example retry_error_split :
  read_all_calls sha256 s0_altered [5; 5; 5; 5; 5]
  = [(firstn 5 msg2, ROk); (firstn 3 (skipn 5 msg2), ROk)] ++ ([], RErr) :: [([], RErr); ([], RErr)].
Proof. vm_compute. reflexivity. Qed.
Example retry_eof_premise :
  nth_error (read_all_calls sha256
               {| d_enc := D03; d_rs := 8; d_r := skipn 8 (strm2 D03);
                  d_next := Some top2; d_out := [] |} [8; 8; 8; 8]) 2 = Some ([], REOF).
Proof. vm_compute. reflexivity. Qed.

(* ---- the collision disjunct cannot be dropped here either ----------------- *)
Example weak_hash_is_fooled_after_error :
  match new_decoder weakH D03 (be 8 4 ++ repeat 7 36 ++ [9; 9])
                    (digest_header weakH D03 4 [1; 2; 3]) 16 with
  | Ok s0 => read_all_calls weakH s0 [8; 8; 8; 8]
  | _ => []
  end = [([], RErr); ([9; 9], ROk); ([], REOF); ([], REOF)].
Proof. vm_compute. reflexivity. Qed.
