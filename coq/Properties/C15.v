(* C15 - MICE decoder: given a digest, only authenticated data is handed out.

   "The digest commits to the payload" is the inductive relation [Commits] of
   Spec/Mice.v.  Nothing is assumed about the hash H beyond the output format;
   in particular there is NO collision-freedom assumption: every conclusion
   has the form  "... \/ Collision H", and the proofs construct the colliding
   pair explicitly. *)
From WP Require Import Base.Prelude Base.Base64 Base.Sha256 Model.Mice Spec.Mice.
From WP Require Import Proofs.MiceLemmas Proofs.MiceEncode Proofs.MiceCommit
  Proofs.MiceDecode Proofs.MiceAuth.
Open Scope N_scope.

(* a digest commits to at most one record list *)
Theorem C15_commits_unique :
  forall (H : bytes -> bytes) (d : bytes) (r1 r2 : list bytes),
    Commits H d r1 -> Commits H d r2 -> r1 = r2 \/ Collision H.
Proof. exact commits_unique. Qed.
Print Assumptions C15_commits_unique.

(* the encoder's digest commits to the records of the payload ... *)
Theorem C15_encode_commits :
  forall (H : bytes -> bytes), (forall x, List.length (H x) = 32%nat) ->
  forall (d : draft) (rs : N) (p : bytes),
    1 <= rs -> records d rs p <> [] ->
    Commits H (digest H d rs p) (records d rs p).
Proof. exact encode_commits. Qed.
Print Assumptions C15_encode_commits.

(* ... the only case without records is draft 03 / empty payload, whose digest
   H [0] is the commitment to one empty record *)
Theorem C15_records_empty_only_03 :
  forall (d : draft) (rs : N) (p : bytes),
    1 <= rs -> records d rs p = [] -> d = D03 /\ p = [].
Proof. exact records_nonempty. Qed.
Print Assumptions C15_records_empty_only_03.

Theorem C15_encode_commits_empty03 :
  forall (H : bytes -> bytes) (rs : N),
    digest H D03 rs [] = H [0] /\ Commits H (digest H D03 rs []) [[]].
Proof. exact encode_commits_empty03. Qed.
Print Assumptions C15_encode_commits_empty03.

(* MAIN: any stream s, any header string dg, any limit, any history of Read
   calls (destination sizes 0 allowed).  If dg parses to a digest that commits
   to recs, then everything delivered before the first error is a prefix of
   concat recs, and EOF is reported only after all of it. *)
Theorem C15_decoder_releases_only_committed :
  forall (H : bytes -> bytes) (d : draft) (s dg : bytes) (maxrs : N) (sizes : list N)
         (recs : list bytes) (top : bytes) (s0 : dec) (out : bytes) (st : rstat),
    parse_digest_header d dg = Ok top -> Commits H top recs ->
    new_decoder H d s dg maxrs = Ok s0 ->
    read_trace H s0 sizes [] = (out, st) ->
    ((exists rest, List.concat recs = out ++ rest) /\ (st = REOF -> out = List.concat recs))
    \/ Collision H.
Proof. exact decoder_releases_only_committed. Qed.
Print Assumptions C15_decoder_releases_only_committed.

Theorem C15_decode_all_only_committed :
  forall (H : bytes -> bytes) (d : draft) (s dg : bytes) (maxrs k : N)
         (recs : list bytes) (top out : bytes) (st : rstat),
    parse_digest_header d dg = Ok top -> Commits H top recs ->
    decode_all H d s dg maxrs k = Ok (out, st) ->
    ((exists rest, List.concat recs = out ++ rest) /\ (st = REOF -> out = List.concat recs))
    \/ Collision H.
Proof. exact decode_all_only_committed. Qed.
Print Assumptions C15_decode_all_only_committed.

(* End to end: the header produced for payload p (by the spec = by Encode,
   C14), presented with ANY stream s: truncated, extended, reordered, altered
   records or proofs, other record size, ... *)
Theorem C15_decoder_authentic :
  forall (H : bytes -> bytes),
    (forall x, List.length (H x) = 32%nat) -> (forall x, wfb (H x)) ->
  forall (d : draft) (rs : N) (p s : bytes) (maxrs : N) (sizes : list N)
         (s0 : dec) (out : bytes) (st : rstat),
    1 <= rs ->
    new_decoder H d s (digest_header H d rs p) maxrs = Ok s0 ->
    read_trace H s0 sizes [] = (out, st) ->
    ((exists rest, p = out ++ rest) /\ (st = REOF -> out = p)) \/ Collision H.
Proof. exact decoder_authentic. Qed.
Print Assumptions C15_decoder_authentic.

Theorem C15_decode_all_authentic :
  forall (H : bytes -> bytes),
    (forall x, List.length (H x) = 32%nat) -> (forall x, wfb (H x)) ->
  forall (d : draft) (rs : N) (p s : bytes) (maxrs k : N) (out : bytes) (st : rstat),
    1 <= rs ->
    decode_all H d s (digest_header H d rs p) maxrs k = Ok (out, st) ->
    ((exists rest, p = out ++ rest) /\ (st = REOF -> out = p)) \/ Collision H.
Proof. exact decode_all_authentic. Qed.
Print Assumptions C15_decode_all_authentic.

(* a record size of 0 or above the caller's limit is refused by NewDecoder:
   nothing beyond the 8-byte size is ever read *)
Theorem C15_record_size_refused :
  forall (H : bytes -> bytes) (d : draft) (s dg : bytes) (maxrs : N) (hd rest : bytes),
    splitN s 8 = Some (hd, rest) -> (unbe hd = 0 \/ maxrs < unbe hd) ->
    new_decoder H d s dg maxrs = Err.
Proof. exact record_size_refused. Qed.
Print Assumptions C15_record_size_refused.

(* ---- the hypotheses are satisfiable ------------------------------------- *)
Definition msg : bytes := s2b "When I grow up, I want to be a watermelon".
Definition strm : bytes := Eval vm_compute in stream sha256 D03 16 msg.
Definition hdr : bytes := Eval vm_compute in digest_header sha256 D03 16 msg.
Definition top : bytes := Eval vm_compute in digest sha256 D03 16 msg.

Example hdr_parses : parse_digest_header D03 hdr = Ok top.
Proof. vm_compute. reflexivity. Qed.

Example top_commits : Commits sha256 top (records D03 16 msg).
Proof.
  change (records D03 16 msg) with
    [firstn 16 msg; firstn 16 (skipn 16 msg); skipn 32 msg].
  apply (CMore sha256 _ _ (sha256 (firstn 16 (skipn 16 msg) ++ sha256 (skipn 32 msg ++ [0]) ++ [1])));
    [discriminate|vm_compute; reflexivity|vm_compute; reflexivity|].
  apply (CMore sha256 _ _ (sha256 (skipn 32 msg ++ [0])));
    [discriminate|vm_compute; reflexivity|reflexivity|].
  apply CLast. reflexivity.
Qed.

Example size_refused_zero :
  new_decoder sha256 D03 (be 8 0 ++ skipn 8 strm) hdr 16384 = Err.
Proof.
  apply (C15_record_size_refused _ _ _ _ _ (be 8 0) (skipn 8 strm)); [reflexivity|left; reflexivity].
Qed.
Example size_refused_too_big :
  new_decoder sha256 D03 (be 8 16385 ++ skipn 8 strm) hdr 16384 = Err.
Proof.
  apply (C15_record_size_refused _ _ _ _ _ (be 8 16385) (skipn 8 strm));
    [reflexivity|right; vm_compute; reflexivity].
Qed.

(* ---- concrete runs with SHA-256: intact stream, then mutations ---------- *)
Definition run (s : bytes) := decode_all sha256 D03 s hdr 16384 7.
Definition flip (i : nat) (s : bytes) : bytes :=
  firstn i s ++ (N.lxor (nth i s 0) 1 :: skipn (S i) s).

Example intact : run strm = Ok (msg, REOF).
Proof. vm_compute. reflexivity. Qed.

(* layout: [0,8) size | [8,24) r0 | [24,56) proof1 | [56,72) r1 | [72,104) proof2 | [104,113) r2 *)
Example altered_second_record : run (flip 60 strm) = Ok (firstn 16 msg, RErr).
Proof. vm_compute. reflexivity. Qed.
Example altered_first_proof : run (flip 30 strm) = Ok ([], RErr).
Proof. vm_compute. reflexivity. Qed.
Example altered_last_record : run (flip 112 strm) = Ok (firstn 32 msg, RErr).
Proof. vm_compute. reflexivity. Qed.
Example truncated_at_record_boundary : run (firstn 56 strm) = Ok (firstn 16 msg, RErr).
Proof. vm_compute. reflexivity. Qed.
Example truncated_before_proof : run (firstn 72 strm) = Ok (firstn 16 msg, RErr).
Proof. vm_compute. reflexivity. Qed.
Example truncated_inside_last : run (firstn 110 strm) = Ok (firstn 32 msg, RErr).
Proof. vm_compute. reflexivity. Qed.
Example truncated_to_size_only : run (firstn 8 strm) = Ok ([], RErr).
Proof. vm_compute. reflexivity. Qed.
Example truncated_to_nothing : run [] = Err.
Proof. vm_compute. reflexivity. Qed.
Example extended : run (strm ++ [0]) = Ok (firstn 32 msg, RErr).
Proof. vm_compute. reflexivity. Qed.
Example records_swapped :
  run (firstn 8 strm ++ firstn 16 (skipn 56 strm) ++ firstn 32 (skipn 24 strm)
       ++ firstn 16 (skipn 8 strm) ++ skipn 72 strm) = Ok ([], RErr).
Proof. vm_compute. reflexivity. Qed.
Example other_record_size : run (be 8 17 ++ skipn 8 strm) = Ok ([], RErr).
Proof. vm_compute. reflexivity. Qed.
(* draft 02 stream truncated at the boundary after the first record *)
Example truncated_at_record_boundary_02 :
  decode_all sha256 D02 (firstn 56 (stream sha256 D02 16 msg))
             (digest_header sha256 D02 16 msg) 16384 7 = Ok (firstn 16 msg, RErr).
Proof. vm_compute. reflexivity. Qed.

(* ---- the collision disjunct cannot be dropped ---------------------------- *)
(* a "hash" that only looks at the flag byte: a forged payload is accepted
   under the digest of another one *)
Definition weakH (x : bytes) : bytes := be 32 (last x 0).
Example weak_hash_is_fooled :
  decode_all weakH D03 (stream weakH D03 4 [9; 9; 9; 9; 9]) (digest_header weakH D03 4 [1; 2; 3; 4; 5]) 16 8
  = Ok ([9; 9; 9; 9; 9], REOF).
Proof. vm_compute. reflexivity. Qed.
Example weak_hash_collides : Collision weakH.
Proof. exists [0; 1], [1; 1]. split; [discriminate|reflexivity]. Qed.

(* ========================================================================
   Callers that KEEP CALLING Read after an error or after end of stream.

   [read_trace] above stops at the first status other than ROk.  Below the
   history is arbitrary: [read_all_calls H s0 sizes] (Proofs/MiceRetry.v)
   lists, for every call, the bytes it delivered and its status, each call
   being made on the state the previous one left behind WHATEVER its status:

     read_all_calls s []       = []
     read_all_calls s (k :: t) = let '(s', o, st) := read H s k in
                                 (o, st) :: read_all_calls s' t
   ======================================================================== *)
From WP Require Import Proofs.MiceRetry.

(* the new definition extends the old one: read_trace is what one sees of
   read_all_calls up to and including the first call that is not ROk *)
Theorem C15_read_trace_is_calls_prefix :
  forall (H : bytes -> bytes) (sizes : list N) (s : dec) (acc : bytes),
    read_trace H s sizes acc = trace_of (read_all_calls H s sizes) acc.
Proof. exact read_trace_calls. Qed.
Print Assumptions C15_read_trace_is_calls_prefix.

(* MAIN: any stream s, any header string dg, any limit, any history of Read
   calls, continuing past errors and past EOF.  ALL bytes ever delivered,
   across errors, form a prefix of the committed payload, and a clean EOF at
   any point of the history comes only after the complete payload. *)
Theorem C15_reads_after_error_only_committed :
  forall (H : bytes -> bytes) (d : draft) (s dg : bytes) (maxrs : N) (sizes : list N)
         (recs : list bytes) (top : bytes) (s0 : dec),
    parse_digest_header d dg = Ok top -> Commits H top recs ->
    new_decoder H d s dg maxrs = Ok s0 ->
    let calls := read_all_calls H s0 sizes in
    ((exists rest, List.concat recs = List.concat (map fst calls) ++ rest) /\
     (forall i o, nth_error calls i = Some (o, REOF) ->
        List.concat (map fst (firstn (S i) calls)) = List.concat recs))
    \/ Collision H.
Proof. exact reads_after_error_only_committed. Qed.
Print Assumptions C15_reads_after_error_only_committed.

(* once a call has returned EOF (it delivers nothing itself), every later
   call returns no bytes and EOF.  True of EVERY decoder state, reachable or
   not, both drafts, no assumption on the hash, no digest needed. *)
Theorem C15_after_eof_only_eof :
  forall (H : bytes -> bytes) (sizes : list N) (s : dec) (i j : nat)
         (o : bytes) (x : bytes * rstat),
    nth_error (read_all_calls H s sizes) i = Some (o, REOF) ->
    (i <= j)%nat -> nth_error (read_all_calls H s sizes) j = Some x ->
    x = ([], REOF).
Proof. exact after_eof_only_eof. Qed.
Print Assumptions C15_after_eof_only_eof.

(* a failed call delivers nothing, and whatever the calls after it deliver
   continues the committed payload exactly where the calls before it stopped *)
Theorem C15_error_then_no_progress_unless_authentic :
  forall (H : bytes -> bytes) (d : draft) (s dg : bytes) (maxrs : N) (sizes : list N)
         (recs : list bytes) (top : bytes) (s0 : dec),
    parse_digest_header d dg = Ok top -> Commits H top recs ->
    new_decoder H d s dg maxrs = Ok s0 ->
    forall (pre : list (bytes * rstat)) (o : bytes) (post : list (bytes * rstat)),
      read_all_calls H s0 sizes = pre ++ (o, RErr) :: post ->
      o = [] /\
      ((exists rest, List.concat recs
                     = List.concat (map fst pre) ++ List.concat (map fst post) ++ rest)
       \/ Collision H).
Proof. exact error_then_no_progress_unless_authentic. Qed.
Print Assumptions C15_error_then_no_progress_unless_authentic.

(* end to end, honest encoder: the header produced for payload p, ANY stream *)
Theorem C15_reads_after_error_authentic :
  forall (H : bytes -> bytes),
    (forall x, List.length (H x) = 32%nat) -> (forall x, wfb (H x)) ->
  forall (d : draft) (rs : N) (p s : bytes) (maxrs : N) (sizes : list N) (s0 : dec),
    1 <= rs ->
    new_decoder H d s (digest_header H d rs p) maxrs = Ok s0 ->
    let calls := read_all_calls H s0 sizes in
    ((exists rest, p = List.concat (map fst calls) ++ rest) /\
     (forall i o, nth_error calls i = Some (o, REOF) ->
        List.concat (map fst (firstn (S i) calls)) = p))
    \/ Collision H.
Proof. exact reads_after_error_authentic. Qed.
Print Assumptions C15_reads_after_error_authentic.

(* ---- concrete histories with SHA-256 ------------------------------------- *)
(* 12-byte payload, record size 8: two records (8 + 4 bytes).
   layout: [0,8) size | [8,16) r0 | [16,48) proof1 | [48,52) r1 *)
Definition msg2 : bytes := s2b "watermelon!!".
Definition strm2 (d : draft) : bytes := stream sha256 d 8 msg2.
Definition hdr2 (d : draft) : bytes := digest_header sha256 d 8 msg2.
Definition calls_on (d : draft) (s : bytes) (sizes : list N) : option (list (bytes * rstat)) :=
  match new_decoder sha256 d s (hdr2 d) 16384 with
  | Ok s0 => Some (read_all_calls sha256 s0 sizes)
  | _ => None
  end.

Example retry_intact :
  calls_on D03 (strm2 D03) [5; 5; 5; 5; 5]
  = Some [(firstn 5 msg2, ROk); (firstn 3 (skipn 5 msg2), ROk); (skipn 8 msg2, ROk);
          ([], REOF); ([], REOF)].
Proof. vm_compute. reflexivity. Qed.

(* one bit flipped in the FINAL record: the first record is delivered, then
   every further call fails and delivers nothing - in particular the second
   Read after the validation failure does not hand out the unauthenticated
   record, and there is never a clean EOF *)
Example retry_final_record_altered :
  calls_on D03 (flip 50 (strm2 D03)) [5; 5; 5; 5; 5]
  = Some [(firstn 5 msg2, ROk); (firstn 3 (skipn 5 msg2), ROk);
          ([], RErr); ([], RErr); ([], RErr)].
Proof. vm_compute. reflexivity. Qed.
Example retry_final_record_altered_02 :
  calls_on D02 (flip 50 (strm2 D02)) [5; 5; 5; 5; 5]
  = Some [(firstn 5 msg2, ROk); (firstn 3 (skipn 5 msg2), ROk);
          ([], RErr); ([], RErr); ([], RErr)].
Proof. vm_compute. reflexivity. Qed.
(* same with one bit flipped in the proof of the final record *)
Example retry_final_proof_altered :
  calls_on D03 (flip 20 (strm2 D03)) [5; 5; 5; 5; 5]
  = Some [([], RErr); ([], RErr); ([], RErr); ([], RErr); ([], RErr)].
Proof. vm_compute. reflexivity. Qed.

(* a junk unit (8 + 32 bytes) inserted in front of the honest records: the
   first call fails; the decoder has consumed the junk and still holds the
   top-level proof, so later calls deliver the authentic payload, then EOF *)
Example retry_junk_record_in_front :
  calls_on D03 (firstn 8 (strm2 D03) ++ repeat 7 40 ++ skipn 8 (strm2 D03)) [5; 5; 5; 5; 5; 5; 5]
  = Some [([], RErr); (firstn 5 msg2, ROk); (firstn 3 (skipn 5 msg2), ROk); (skipn 8 msg2, ROk);
          ([], REOF); ([], REOF); ([], REOF)].
Proof. vm_compute. reflexivity. Qed.
Example retry_junk_record_in_front_02 :
  calls_on D02 (firstn 8 (strm2 D02) ++ repeat 7 40 ++ skipn 8 (strm2 D02)) [5; 5; 5; 5; 5; 5; 5]
  = Some [([], RErr); (firstn 5 msg2, ROk); (firstn 3 (skipn 5 msg2), ROk); (skipn 8 msg2, ROk);
          ([], REOF); ([], REOF); ([], REOF)].
Proof. vm_compute. reflexivity. Qed.
(* junk between the two honest units *)
Example retry_junk_record_in_the_middle :
  calls_on D03 (firstn 48 (strm2 D03) ++ repeat 7 40 ++ skipn 48 (strm2 D03)) [8; 8; 8; 8]
  = Some [(firstn 8 msg2, ROk); ([], RErr); (skipn 8 msg2, ROk); ([], REOF)].
Proof. vm_compute. reflexivity. Qed.

(* ---- the hypotheses of the new theorems are satisfiable: the general
   theorem instantiated on the altered stream ------------------------------- *)
Definition top2 : bytes := Eval vm_compute in digest sha256 D03 8 msg2.
Example hdr2_parses : parse_digest_header D03 (hdr2 D03) = Ok top2.
Proof. vm_compute. reflexivity. Qed.
Example top2_commits : Commits sha256 top2 [firstn 8 msg2; skipn 8 msg2].
Proof.
  apply (CMore sha256 _ _ (sha256 (skipn 8 msg2 ++ [0])));
    [discriminate|vm_compute; reflexivity|vm_compute; reflexivity|].
  apply CLast. reflexivity.
Qed.
Definition s0_altered : dec :=
  {| d_enc := D03; d_rs := 8; d_r := skipn 8 (flip 50 (strm2 D03));
     d_next := Some top2; d_out := [] |}.
Example altered_opens :
  new_decoder sha256 D03 (flip 50 (strm2 D03)) (hdr2 D03) 16384 = Ok s0_altered.
Proof. vm_compute. reflexivity. Qed.
Example retry_instance :
  let calls := read_all_calls sha256 s0_altered [5; 5; 5; 5; 5] in
  ((exists rest, msg2 = List.concat (map fst calls) ++ rest) /\
   (forall i o, nth_error calls i = Some (o, REOF) ->
      List.concat (map fst (firstn (S i) calls)) = msg2))
  \/ Collision sha256.
Proof.
  exact (C15_reads_after_error_only_committed sha256 D03 _ _ _ [5; 5; 5; 5; 5] _ _ _
           hdr2_parses top2_commits altered_opens).
Qed.
Example retry_error_split :
  read_all_calls sha256 s0_altered [5; 5; 5; 5; 5]
  = [(firstn 5 msg2, ROk); (firstn 3 (skipn 5 msg2), ROk)] ++ ([], RErr) :: [([], RErr); ([], RErr)].
Proof. vm_compute. reflexivity. Qed.
Example retry_eof_premise :
  nth_error (read_all_calls sha256
               {| d_enc := D03; d_rs := 8; d_r := skipn 8 (strm2 D03);
                  d_next := Some top2; d_out := [] |} [8; 8; 8; 8]) 2 = Some ([], REOF).
Proof. vm_compute. reflexivity. Qed.

(* ---- the collision disjunct cannot be dropped here either ----------------- *)
Example weak_hash_is_fooled_after_error :
  match new_decoder weakH D03 (be 8 4 ++ repeat 7 36 ++ [9; 9])
                    (digest_header weakH D03 4 [1; 2; 3]) 16 with
  | Ok s0 => read_all_calls weakH s0 [8; 8; 8; 8]
  | _ => []
  end = [([], RErr); ([9; 9], ROk); ([], REOF); ([], REOF)].
Proof. vm_compute. reflexivity. Qed.

(* ========================================================================
   A source that FAILS (an I/O error other than io.EOF) after delivering a
   prefix of the stream.

   Model/Mice.v: [new_decoder_f], [read_next_record_f], [read_f],
   [read_trace_f]: binary.Read / io.ReadFull return the error instead of
   io.EOF / io.ErrUnexpectedEOF, so NewDecoder fails on a short header and
   readNextRecord returns the error ("if err != nil { return err }") instead
   of treating the bytes it got as the final record.

   Proofs/MiceSourceFault.v.  Vocabulary defined there:
     starved s  :=  d_out s = [] /\ d_next s <> None /\ lenN (d_r s) < d_rs s + 32
     drained s  :=  s with d_r := []
     read_trace_p        = read_trace_f with [read] in place of [read_f]
     cyc_sizes fuel cur all = the sizes such a history passes ([cur], then
                           [all] again and again; a refill costs one fuel)
     read_all_calls_f    = read_all_calls with [read_f] (continues past errors)
   ======================================================================== *)
From WP Require Import Proofs.TotalityMice Proofs.MiceSourceFault.

(* ---- 1. read_f is a conservative extension of read ----------------------- *)
Theorem C15_read_next_record_f_agrees :
  forall (H : bytes -> bytes) (s : dec) (proof : bytes),
    d_rs s + 32 <= lenN (d_r s) ->
    read_next_record_f H s proof = read_next_record H s proof.
Proof. exact rnr_f_agrees. Qed.
Print Assumptions C15_read_next_record_f_agrees.

(* output pending, or decoder finished, or a full record + proof available *)
Theorem C15_read_f_agrees :
  forall (H : bytes -> bytes) (s : dec) (k : N),
    d_out s <> [] \/ d_next s = None \/ d_rs s + 32 <= lenN (d_r s) ->
    read_f H s k = read H s k.
Proof. exact read_f_agrees. Qed.
Print Assumptions C15_read_f_agrees.

(* in the one remaining case the call fails, delivers nothing and only
   consumes the input that was left *)
Theorem C15_read_f_starved :
  forall (H : bytes -> bytes) (s : dec) (k : N),
    d_out s = [] /\ d_next s <> None /\ lenN (d_r s) < d_rs s + 32 ->
    read_f H s k = ({| d_enc := d_enc s; d_rs := d_rs s; d_r := [];
                       d_next := d_next s; d_out := d_out s |}, [], RErr).
Proof. exact read_f_starved. Qed.
Print Assumptions C15_read_f_starved.

Theorem C15_read_f_cases_exhaustive :
  forall (s : dec),
    (d_out s = [] /\ d_next s <> None /\ lenN (d_r s) < d_rs s + 32) \/
    (d_out s <> [] \/ d_next s = None \/ d_rs s + 32 <= lenN (d_r s)).
Proof. exact starved_dec. Qed.
Print Assumptions C15_read_f_cases_exhaustive.

(* ---- 2. never a clean end ------------------------------------------------ *)
Theorem C15_read_f_never_eof :
  forall (H : bytes -> bytes) (s : dec) (k : N) (s' : dec) (o : bytes) (st : rstat),
    d_next s <> None -> read_f H s k = (s', o, st) ->
    st <> REOF /\ d_next s' <> None.
Proof. exact read_f_never_eof. Qed.
Print Assumptions C15_read_f_never_eof.

Theorem C15_read_trace_f_never_eof :
  forall (H : bytes -> bytes) (fuel : nat) (s : dec) (cur all : list N)
         (acc out : bytes) (st : rstat),
    d_next s <> None -> read_trace_f H fuel s cur all acc = (out, st) -> st <> REOF.
Proof. exact read_trace_f_never_eof. Qed.
Print Assumptions C15_read_trace_f_never_eof.

(* NewDecoder: fewer than 8 bytes before the failure is an error, for EVERY
   digest string (a digest that does not parse is an error anyway) ... *)
Theorem C15_new_decoder_f_short_header :
  forall (H : bytes -> bytes) (d : draft) (stream digest : bytes) (maxrs : N),
    lenN stream < 8 -> new_decoder_f H d stream digest maxrs = Err.
Proof. exact new_decoder_f_short. Qed.
Print Assumptions C15_new_decoder_f_short_header.

Theorem C15_new_decoder_f_bad_digest :
  forall (H : bytes -> bytes) (d : draft) (stream digest : bytes) (maxrs : N),
    parse_digest_header d digest = Err -> new_decoder_f H d stream digest maxrs = Err.
Proof. exact new_decoder_f_bad_digest. Qed.
Print Assumptions C15_new_decoder_f_bad_digest.

(* ... with 8 bytes or more it is NewDecoder on a clean source ... *)
Theorem C15_new_decoder_f_long :
  forall (H : bytes -> bytes) (d : draft) (stream digest : bytes) (maxrs : N),
    8 <= lenN stream ->
    new_decoder_f H d stream digest maxrs = new_decoder H d stream digest maxrs.
Proof. exact new_decoder_f_long. Qed.
Print Assumptions C15_new_decoder_f_long.

(* ... so a decoder it returns is one [new_decoder] returns, and it still
   expects a proof (the draft-03 "empty stream = empty payload" state, the only
   one with d_next = None, is never returned) *)
Theorem C15_new_decoder_f_ok :
  forall (H : bytes -> bytes) (d : draft) (stream digest : bytes) (maxrs : N) (s : dec),
    new_decoder_f H d stream digest maxrs = Ok s ->
    new_decoder H d stream digest maxrs = Ok s /\
    d_next s <> None /\ d_out s = [] /\ 8 <= lenN stream /\ 1 <= d_rs s.
Proof. exact new_decoder_f_ok. Qed.
Print Assumptions C15_new_decoder_f_ok.

Theorem C15_new_decoder_f_err_or_ok :
  forall (H : bytes -> bytes) (d : draft) (stream digest : bytes) (maxrs : N),
    new_decoder_f H d stream digest maxrs = Err \/
    exists s, new_decoder_f H d stream digest maxrs = Ok s.
Proof. exact new_decoder_f_cases. Qed.
Print Assumptions C15_new_decoder_f_err_or_ok.

Theorem C15_decoder_f_never_eof :
  forall (H : bytes -> bytes) (d : draft) (stream digest : bytes) (maxrs : N) (s0 : dec)
         (fuel : nat) (cur all : list N) (acc out : bytes) (st : rstat),
    new_decoder_f H d stream digest maxrs = Ok s0 ->
    read_trace_f H fuel s0 cur all acc = (out, st) -> st <> REOF.
Proof. exact decoder_f_never_eof. Qed.
Print Assumptions C15_decoder_f_never_eof.

(* callers that keep calling after the error never see EOF either *)
Theorem C15_calls_f_never_eof :
  forall (H : bytes -> bytes) (sizes : list N) (s : dec),
    d_next s <> None -> Forall (fun c => snd c <> REOF) (read_all_calls_f H s sizes).
Proof. exact calls_f_never_eof. Qed.
Print Assumptions C15_calls_f_never_eof.

(* ---- 3. never more than the clean-end decoder ----------------------------- *)
(* same state, same fuel, same sizes: what the failing source releases is a
   prefix of what the clean end releases, and unless the failing-source history
   ends in an error the two coincide *)
Theorem C15_read_trace_f_prefix :
  forall (H : bytes -> bytes) (fuel : nat) (s : dec) (cur all : list N) (acc : bytes)
         (outf : bytes) (stf : rstat) (outp : bytes) (stp : rstat),
    read_trace_f H fuel s cur all acc = (outf, stf) ->
    read_trace_p H fuel s cur all acc = (outp, stp) ->
    (exists rest, outp = outf ++ rest) /\
    (stf <> RErr -> outp = outf /\ stp = stf).
Proof. exact read_trace_f_prefix. Qed.
Print Assumptions C15_read_trace_f_prefix.

(* [read_trace_p] is the model's [read_trace] on the unrolled sizes, and every
   size list is the unrolling of some (fuel, cur, all) *)
Theorem C15_read_trace_p_is_read_trace :
  forall (H : bytes -> bytes) (fuel : nat) (s : dec) (cur all : list N) (acc : bytes),
    read_trace_p H fuel s cur all acc = read_trace H s (cyc_sizes fuel cur all) acc.
Proof. exact read_trace_p_sizes. Qed.
Print Assumptions C15_read_trace_p_is_read_trace.

Theorem C15_cyc_sizes_any :
  forall (sizes : list N), cyc_sizes (List.length sizes) sizes [] = sizes.
Proof. exact cyc_sizes_any. Qed.
Print Assumptions C15_cyc_sizes_any.

Theorem C15_read_trace_f_prefix_read_trace :
  forall (H : bytes -> bytes) (fuel : nat) (s : dec) (cur all : list N) (acc : bytes)
         (outf : bytes) (stf : rstat) (outp : bytes) (stp : rstat),
    read_trace_f H fuel s cur all acc = (outf, stf) ->
    read_trace H s (cyc_sizes fuel cur all) acc = (outp, stp) ->
    (exists rest, outp = outf ++ rest) /\
    (stf <> RErr -> outp = outf /\ stp = stf).
Proof. exact read_trace_f_prefix_read_trace. Qed.
Print Assumptions C15_read_trace_f_prefix_read_trace.

(* MAIN: any delivered prefix s of any stream followed by a source failure,
   any header string, any limit, any history of Read calls.  Same notion of
   commitment as C15_decoder_releases_only_committed; and never a clean end. *)
Theorem C15_decoder_f_releases_only_committed :
  forall (H : bytes -> bytes) (d : draft) (s dg : bytes) (maxrs : N)
         (fuel : nat) (cur all : list N)
         (recs : list bytes) (top : bytes) (s0 : dec) (out : bytes) (st : rstat),
    parse_digest_header d dg = Ok top -> Commits H top recs ->
    new_decoder_f H d s dg maxrs = Ok s0 ->
    read_trace_f H fuel s0 cur all [] = (out, st) ->
    st <> REOF /\
    ((exists rest, List.concat recs = out ++ rest) \/ Collision H).
Proof. exact decoder_f_releases_only_committed. Qed.
Print Assumptions C15_decoder_f_releases_only_committed.

Theorem C15_decoder_f_authentic :
  forall (H : bytes -> bytes),
    (forall x, List.length (H x) = 32%nat) -> (forall x, wfb (H x)) ->
  forall (d : draft) (rs : N) (p s : bytes) (maxrs : N) (fuel : nat) (cur all : list N)
         (s0 : dec) (out : bytes) (st : rstat),
    1 <= rs ->
    new_decoder_f H d s (digest_header H d rs p) maxrs = Ok s0 ->
    read_trace_f H fuel s0 cur all [] = (out, st) ->
    st <> REOF /\ ((exists rest, p = out ++ rest) \/ Collision H).
Proof. exact decoder_f_authentic. Qed.
Print Assumptions C15_decoder_f_authentic.

(* callers that keep calling Read after the error: once starved, every later
   call fails and hands out nothing; all bytes ever delivered are a prefix of
   what the same calls deliver with a clean end, hence committed *)
Theorem C15_starved_calls_f :
  forall (H : bytes -> bytes) (sizes : list N) (s : dec),
    starved s -> read_all_calls_f H s sizes = map (fun _ => ([], RErr)) sizes.
Proof. exact starved_calls_f. Qed.
Print Assumptions C15_starved_calls_f.

Theorem C15_calls_f_prefix :
  forall (H : bytes -> bytes) (sizes : list N) (s : dec),
    exists rest, List.concat (map fst (read_all_calls H s sizes))
                 = List.concat (map fst (read_all_calls_f H s sizes)) ++ rest.
Proof. exact calls_f_prefix. Qed.
Print Assumptions C15_calls_f_prefix.

Theorem C15_calls_f_only_committed :
  forall (H : bytes -> bytes) (d : draft) (s dg : bytes) (maxrs : N) (sizes : list N)
         (recs : list bytes) (top : bytes) (s0 : dec),
    parse_digest_header d dg = Ok top -> Commits H top recs ->
    new_decoder_f H d s dg maxrs = Ok s0 ->
    Forall (fun c => snd c <> REOF) (read_all_calls_f H s0 sizes) /\
    ((exists rest, List.concat recs
                   = List.concat (map fst (read_all_calls_f H s0 sizes)) ++ rest)
     \/ Collision H).
Proof. exact calls_f_only_committed. Qed.
Print Assumptions C15_calls_f_only_committed.

Theorem C15_calls_f_authentic :
  forall (H : bytes -> bytes),
    (forall x, List.length (H x) = 32%nat) -> (forall x, wfb (H x)) ->
  forall (d : draft) (rs : N) (p s : bytes) (maxrs : N) (sizes : list N) (s0 : dec),
    1 <= rs ->
    new_decoder_f H d s (digest_header H d rs p) maxrs = Ok s0 ->
    Forall (fun c => snd c <> REOF) (read_all_calls_f H s0 sizes) /\
    ((exists rest, p = List.concat (map fst (read_all_calls_f H s0 sizes)) ++ rest)
     \/ Collision H).
Proof. exact calls_f_authentic. Qed.
Print Assumptions C15_calls_f_authentic.

Theorem C15_read_trace_f_is_calls_prefix :
  forall (H : bytes -> bytes) (fuel : nat) (s : dec) (cur all : list N) (acc : bytes),
    read_trace_f H fuel s cur all acc
    = trace_of (read_all_calls_f H s (cyc_sizes fuel cur all)) acc.
Proof. exact read_trace_f_calls. Qed.
Print Assumptions C15_read_trace_f_is_calls_prefix.

(* ---- 4. progress to an error ---------------------------------------------- *)
(* measure s = |d_out s| + |d_r s| + [a proof is expected] (TotalityMice.v).
   Every successful call into a non-empty buffer lowers it; refilling [cur]
   from [all] costs one more unit of fuel per call, hence the factor 2. *)
Theorem C15_read_trace_f_reaches_error :
  forall (H : bytes -> bytes) (all : list N),
    all <> [] -> Forall (fun k => 1 <= k) all ->
    forall (fuel : nat) (s : dec) (cur : list N) (acc : bytes),
      d_next s <> None -> Forall (fun k => 1 <= k) cur ->
      2 * measure s <= N.of_nat fuel + (match cur with [] => 0 | _ => 1 end) ->
      snd (read_trace_f H fuel s cur all acc) = RErr.
Proof. exact read_trace_f_reaches_error. Qed.
Print Assumptions C15_read_trace_f_reaches_error.

(* no refill needed: as many units of fuel and as many sizes as the measure *)
Theorem C15_read_trace_f_reaches_error_norefill :
  forall (H : bytes -> bytes) (fuel : nat) (s : dec) (cur all : list N) (acc : bytes),
    d_next s <> None -> Forall (fun k => 1 <= k) cur ->
    measure s <= N.of_nat fuel -> measure s <= lenN cur ->
    snd (read_trace_f H fuel s cur all acc) = RErr.
Proof. exact read_trace_f_reaches_error_norefill. Qed.
Print Assumptions C15_read_trace_f_reaches_error_norefill.

Theorem C15_decoder_f_reaches_error :
  forall (H : bytes -> bytes) (d : draft) (stream digest : bytes) (maxrs : N) (s0 : dec)
         (fuel : nat) (cur all : list N) (acc : bytes),
    new_decoder_f H d stream digest maxrs = Ok s0 ->
    all <> [] -> Forall (fun k => 1 <= k) all -> Forall (fun k => 1 <= k) cur ->
    2 * lenN stream <= N.of_nat fuel ->
    snd (read_trace_f H fuel s0 cur all acc) = RErr.
Proof. exact decoder_f_reaches_error. Qed.
Print Assumptions C15_decoder_f_reaches_error.

(* "fuel > measure" alone is not enough when [cur] has to be refilled:
   measure 4, fuel 5 and 6 run out (ROk), fuel 7 = 2 * 4 - 1 reaches RErr *)
Example C15_reaches_error_needs_double_fuel :
  measure s_pending = 4 /\
  read_trace_f (fun _ => []) 5 s_pending [1] [1] [] = ([1; 2; 3], ROk) /\
  read_trace_f (fun _ => []) 6 s_pending [1] [1] [] = ([1; 2; 3], ROk) /\
  read_trace_f (fun _ => []) 7 s_pending [1] [1] [] = ([1; 2; 3], RErr).
Proof. exact reaches_error_needs_double_fuel. Qed.

(* ---- concrete runs with SHA-256: msg2, record size 8, two records ---------
   layout: [0,8) size | [8,16) r0 | [16,48) proof1 | [48,52) r1
   the source delivers the first n bytes, then fails (run_f) / ends (run_p) *)
Definition run_f (d : draft) (n fuel : nat) (sizes : list N) : option (bytes * rstat) :=
  match new_decoder_f sha256 d (firstn n (strm2 d)) (hdr2 d) 16384 with
  | Ok s0 => Some (read_trace_f sha256 fuel s0 sizes sizes [])
  | _ => None
  end.
Definition run_p (d : draft) (n fuel : nat) (sizes : list N) : option (bytes * rstat) :=
  match new_decoder sha256 d (firstn n (strm2 d)) (hdr2 d) 16384 with
  | Ok s0 => Some (read_trace_p sha256 fuel s0 sizes sizes [])
  | _ => None
  end.

Example source_fails_at_03 :
  map (fun n => run_f D03 n 40 [5]) [0; 5; 7; 8; 20; 47; 48; 50; 51; 52]%nat
  = [None; None; None; Some ([], RErr); Some ([], RErr); Some ([], RErr);
     Some (firstn 8 msg2, RErr); Some (firstn 8 msg2, RErr); Some (firstn 8 msg2, RErr);
     Some (firstn 8 msg2, RErr)].
Proof. vm_compute. reflexivity. Qed.
Example source_fails_at_02 :
  map (fun n => run_f D02 n 40 [5]) [0; 5; 7; 8; 20; 47; 48; 50; 51; 52]%nat
  = [None; None; None; Some ([], RErr); Some ([], RErr); Some ([], RErr);
     Some (firstn 8 msg2, RErr); Some (firstn 8 msg2, RErr); Some (firstn 8 msg2, RErr);
     Some (firstn 8 msg2, RErr)].
Proof. vm_compute. reflexivity. Qed.
(* the same prefixes followed by a clean end: the complete stream gives the
   payload and EOF; the failing source never releases the final record (the
   decoder cannot know the record is complete) and never reports EOF *)
Example source_ends_at_03 :
  map (fun n => run_p D03 n 40 [5]) [0; 5; 7; 8; 20; 47; 48; 50; 51; 52]%nat
  = [None; None; None; Some ([], RErr); Some ([], RErr); Some ([], RErr);
     Some (firstn 8 msg2, RErr); Some (firstn 8 msg2, RErr); Some (firstn 8 msg2, RErr);
     Some (msg2, REOF)].
Proof. vm_compute. reflexivity. Qed.
(* a third record behind: failure inside / after it *)
Example source_fails_three_records :
  map (fun n => match new_decoder_f sha256 D03 (firstn n strm) hdr 16384 with
                | Ok s0 => Some (read_trace_f sha256 300 s0 [7] [7] [])
                | _ => None
                end) [7; 8; 55; 56; 103; 104; 112; 113]%nat
  = [None; Some ([], RErr); Some ([], RErr); Some (firstn 16 msg, RErr);
     Some (firstn 16 msg, RErr); Some (firstn 32 msg, RErr); Some (firstn 32 msg, RErr);
     Some (firstn 32 msg, RErr)].
Proof. vm_compute. reflexivity. Qed.

(* ---- the hypotheses of the theorems above are satisfiable ------------------ *)
(* the decoder opened on the first n >= 8 bytes of the two-record stream *)
Definition sf_state (n : nat) : dec :=
  {| d_enc := D03; d_rs := 8; d_r := skipn 8 (firstn n (strm2 D03));
     d_next := Some top2; d_out := [] |}.
Example sf_opens_20 :
  new_decoder_f sha256 D03 (firstn 20 (strm2 D03)) (hdr2 D03) 16384 = Ok (sf_state 20).
Proof. vm_compute. reflexivity. Qed.
Example sf_opens_50 :
  new_decoder_f sha256 D03 (firstn 50 (strm2 D03)) (hdr2 D03) 16384 = Ok (sf_state 50).
Proof. vm_compute. reflexivity. Qed.
Example sf_opens_52 :
  new_decoder_f sha256 D03 (strm2 D03) (hdr2 D03) 16384 = Ok (sf_state 52).
Proof. vm_compute. reflexivity. Qed.
Example sf_short_instance :
  new_decoder_f sha256 D03 (firstn 7 (strm2 D03)) (hdr2 D03) 16384 = Err.
Proof. apply C15_new_decoder_f_short_header. vm_compute. reflexivity. Qed.
Example sf_bad_digest_instance :
  new_decoder_f sha256 D03 (strm2 D03) (hdr2 D02) 16384 = Err.
Proof. apply C15_new_decoder_f_bad_digest. vm_compute. reflexivity. Qed.
Example sf_ok_instance :
  new_decoder sha256 D03 (firstn 50 (strm2 D03)) (hdr2 D03) 16384 = Ok (sf_state 50) /\
  d_next (sf_state 50) <> None.
Proof.
  destruct (C15_new_decoder_f_ok _ _ _ _ _ _ sf_opens_50) as (X1 & X2 & _).
  split; [exact X1|exact X2].
Qed.

(* 1: a full record + proof is available in sf_state 50 (42 bytes >= 8 + 32),
   not in sf_state 20 (12 bytes), nor after the first record of sf_state 50 *)
Example sf_agrees_instance : read_f sha256 (sf_state 50) 5 = read sha256 (sf_state 50) 5.
Proof. apply C15_read_f_agrees. right. right. vm_compute. discriminate. Qed.
Example sf_starved_20 : starved (sf_state 20).
Proof. split; [reflexivity|]. split; [discriminate|vm_compute; reflexivity]. Qed.
Example sf_starved_instance :
  read_f sha256 (sf_state 20) 5 = (drained (sf_state 20), [], RErr).
Proof. exact (C15_read_f_starved sha256 _ 5 sf_starved_20). Qed.
Example sf_starved_calls_instance :
  read_all_calls_f sha256 (sf_state 20) [5; 5; 5] = [([], RErr); ([], RErr); ([], RErr)].
Proof. exact (C15_starved_calls_f sha256 [5; 5; 5] _ sf_starved_20). Qed.

(* 2 *)
Example sf_never_eof_instance :
  forall (fuel : nat) (cur all : list N) (out : bytes) (st : rstat),
    read_trace_f sha256 fuel (sf_state 52) cur all [] = (out, st) -> st <> REOF.
Proof.
  intros fuel cur all out st T.
  exact (C15_decoder_f_never_eof sha256 D03 _ _ _ _ fuel cur all [] out st sf_opens_52 T).
Qed.

(* 3: the complete stream, then a failure: [5;5;...] releases the first record
   only, the clean end releases everything *)
Example sf_trace_f_52 :
  read_trace_f sha256 40 (sf_state 52) [5] [5] [] = (firstn 8 msg2, RErr).
Proof. vm_compute. reflexivity. Qed.
Example sf_trace_p_52 :
  read_trace_p sha256 40 (sf_state 52) [5] [5] [] = (msg2, REOF).
Proof. vm_compute. reflexivity. Qed.
Example sf_prefix_instance : exists rest, msg2 = firstn 8 msg2 ++ rest.
Proof. exact (proj1 (C15_read_trace_f_prefix sha256 _ _ _ _ _ _ _ _ _ sf_trace_f_52 sf_trace_p_52)). Qed.
(* fuel runs out before the failure is met: the two histories coincide *)
Example sf_trace_f_52_short :
  read_trace_f sha256 3 (sf_state 52) [5] [5] [] = (firstn 8 msg2, ROk).
Proof. vm_compute. reflexivity. Qed.
Example sf_coincide_instance :
  forall (outp : bytes) (stp : rstat),
    read_trace_p sha256 3 (sf_state 52) [5] [5] [] = (outp, stp) ->
    outp = firstn 8 msg2 /\ stp = ROk.
Proof.
  intros outp stp Tp.
  apply (proj2 (C15_read_trace_f_prefix sha256 _ _ _ _ _ _ _ _ _ sf_trace_f_52_short Tp)).
  discriminate.
Qed.
Example sf_committed_instance :
  forall (fuel : nat) (cur all : list N) (out : bytes) (st : rstat),
    read_trace_f sha256 fuel (sf_state 50) cur all [] = (out, st) ->
    st <> REOF /\ ((exists rest, msg2 = out ++ rest) \/ Collision sha256).
Proof.
  intros fuel cur all out st T.
  exact (C15_decoder_f_releases_only_committed sha256 D03 _ _ _ fuel cur all _ _ _ out st
           hdr2_parses top2_commits sf_opens_50 T).
Qed.
Example sf_calls_52 :
  read_all_calls_f sha256 (sf_state 52) [5; 5; 5; 5; 5]
  = [(firstn 5 msg2, ROk); (firstn 3 (skipn 5 msg2), ROk); ([], RErr); ([], RErr); ([], RErr)].
Proof. vm_compute. reflexivity. Qed.
Example sf_calls_committed_instance :
  forall (sizes : list N),
    Forall (fun c => snd c <> REOF) (read_all_calls_f sha256 (sf_state 52) sizes) /\
    ((exists rest, msg2 = List.concat (map fst (read_all_calls_f sha256 (sf_state 52) sizes)) ++ rest)
     \/ Collision sha256).
Proof.
  intros sizes.
  exact (C15_calls_f_only_committed sha256 D03 _ _ _ sizes _ _ _
           hdr2_parses top2_commits sf_opens_52).
Qed.

(* 4: |stream| = 52, so 104 units of fuel are enough for any sizes >= 1 *)
Example sf_reaches_error_instance :
  snd (read_trace_f sha256 104 (sf_state 52) [3; 1] [2; 9] []) = RErr.
Proof.
  apply (C15_decoder_f_reaches_error sha256 D03 _ _ _ _ 104 [3; 1] [2; 9] [] sf_opens_52).
  - discriminate.
  - repeat constructor; discriminate.
  - repeat constructor; discriminate.
  - vm_compute. discriminate.
Qed.
Example sf_reaches_error_run :
  read_trace_f sha256 104 (sf_state 52) [3; 1] [2; 9] [] = (firstn 8 msg2, RErr).
Proof. vm_compute. reflexivity. Qed.

(* the collision disjunct cannot be dropped: the weak hash accepts a forged
   first record under the digest of another payload, failing source or not *)
Example weak_hash_is_fooled_source_fault :
  match new_decoder_f weakH D03 (stream weakH D03 4 [9; 9; 9; 9; 9])
                      (digest_header weakH D03 4 [1; 2; 3; 4; 5]) 16 with
  | Ok s0 => Some (read_trace_f weakH 20 s0 [8] [8] [])
  | _ => None
  end = Some ([9; 9; 9; 9], RErr).
Proof. vm_compute. reflexivity. Qed.

(* ---- further instances: the remaining theorems of this block --------------- *)
Example sf_rnr_agrees_instance :
  read_next_record_f sha256 (sf_state 50) top2 = read_next_record sha256 (sf_state 50) top2.
Proof. apply C15_read_next_record_f_agrees. vm_compute. discriminate. Qed.
Example sf_long_instance :
  new_decoder_f sha256 D03 (firstn 50 (strm2 D03)) (hdr2 D03) 16384
  = new_decoder sha256 D03 (firstn 50 (strm2 D03)) (hdr2 D03) 16384.
Proof. apply C15_new_decoder_f_long. vm_compute. discriminate. Qed.
(* the state after the first record of the stream cut at 50: 2 bytes left *)
Definition sf_state_mid : dec :=
  {| d_enc := D03; d_rs := 8; d_r := skipn 48 (firstn 50 (strm2 D03));
     d_next := Some (firstn 32 (skipn 16 (strm2 D03))); d_out := [] |}.
Example sf_step_50 : read_f sha256 (sf_state 50) 8 = (sf_state_mid, firstn 8 msg2, ROk).
Proof. vm_compute. reflexivity. Qed.
Example sf_step_never_eof_instance : ROk <> REOF /\ d_next sf_state_mid <> None.
Proof.
  apply (C15_read_f_never_eof sha256 (sf_state 50) 8 sf_state_mid (firstn 8 msg2) ROk); [discriminate|exact sf_step_50].
Qed.
Example sf_mid_starved : starved sf_state_mid.
Proof. split; [reflexivity|]. split; [discriminate|vm_compute; reflexivity]. Qed.
Example sf_trace_never_eof_instance :
  forall (fuel : nat) (cur all : list N) (acc out : bytes) (st : rstat),
    read_trace_f sha256 fuel sf_state_mid cur all acc = (out, st) -> st <> REOF.
Proof.
  intros fuel cur all acc out st T.
  apply (C15_read_trace_f_never_eof sha256 fuel sf_state_mid cur all acc out st); [discriminate|exact T].
Qed.
Example sf_calls_never_eof_instance :
  Forall (fun c => snd c <> REOF) (read_all_calls_f sha256 (sf_state 50) [8; 8; 8; 8]).
Proof. apply C15_calls_f_never_eof. discriminate. Qed.
Example sf_calls_prefix_run :
  List.concat (map fst (read_all_calls sha256 (sf_state 52) [8; 8; 8; 8])) = msg2 /\
  List.concat (map fst (read_all_calls_f sha256 (sf_state 52) [8; 8; 8; 8])) = firstn 8 msg2.
Proof. vm_compute. split; reflexivity. Qed.
Example sf_read_trace_52 :
  read_trace sha256 (sf_state 52) (cyc_sizes 40 [5] [5]) [] = (msg2, REOF).
Proof. vm_compute. reflexivity. Qed.
Example sf_prefix_read_trace_instance : exists rest, msg2 = firstn 8 msg2 ++ rest.
Proof.
  exact (proj1 (C15_read_trace_f_prefix_read_trace sha256 _ _ _ _ _ _ _ _ _
                  sf_trace_f_52 sf_read_trace_52)).
Qed.
Example sf_trace_is_calls_instance :
  trace_of (read_all_calls_f sha256 (sf_state 52) (cyc_sizes 40 [5] [5])) []
  = (firstn 8 msg2, RErr).
Proof. rewrite <- C15_read_trace_f_is_calls_prefix. exact sf_trace_f_52. Qed.
Example sf_norefill_instance :
  snd (read_trace_f sha256 3 sf_state_mid [1; 1; 1] [] []) = RErr.
Proof.
  apply C15_read_trace_f_reaches_error_norefill.
  - discriminate.
  - repeat constructor; discriminate.
  - vm_compute. discriminate.
  - vm_compute. discriminate.
Qed.
Example sf_reaches_error_state_instance :
  snd (read_trace_f sha256 90 (sf_state 52) [] [1] [7]) = RErr.
Proof.
  apply (C15_read_trace_f_reaches_error sha256 [1]).
  - discriminate.
  - repeat constructor; discriminate.
  - discriminate.
  - constructor.
  - vm_compute. discriminate.
Qed.

(* the end-to-end statements need a hash with 32-byte well-formed output for
   ALL inputs; a toy one (as in C14) *)
Definition sfH (x : bytes) : bytes :=
  be 32 (fold_left (fun a b => (a * 257 + b + 1) mod 2 ^ 256) x 7).
Example sfH_len : forall x, List.length (sfH x) = 32%nat.
Proof. intros x. apply be_length. Qed.
Example sfH_wf : forall x, wfb (sfH x).
Proof. intros x. apply be_wfb. Qed.
Definition sfH_state : dec :=
  {| d_enc := D02; d_rs := 8; d_r := skipn 8 (firstn 50 (stream sfH D02 8 msg2));
     d_next := Some (digest sfH D02 8 msg2); d_out := [] |}.
Example sfH_opens :
  new_decoder_f sfH D02 (firstn 50 (stream sfH D02 8 msg2)) (digest_header sfH D02 8 msg2) 16384
  = Ok sfH_state.
Proof. vm_compute. reflexivity. Qed.
Example sfH_run :
  read_trace_f sfH 40 sfH_state [5] [5] [] = (firstn 8 msg2, RErr).
Proof. vm_compute. reflexivity. Qed.
Example sf_authentic_instance :
  forall (fuel : nat) (cur all : list N) (out : bytes) (st : rstat),
    read_trace_f sfH fuel sfH_state cur all [] = (out, st) ->
    st <> REOF /\ ((exists rest, msg2 = out ++ rest) \/ Collision sfH).
Proof.
  intros fuel cur all out st T.
  apply (C15_decoder_f_authentic sfH sfH_len sfH_wf D02 8 msg2 (firstn 50 (stream sfH D02 8 msg2)) 16384 fuel cur all sfH_state out st);
    [discriminate|exact sfH_opens|exact T].
Qed.
Example sf_calls_authentic_instance :
  forall (sizes : list N),
    Forall (fun c => snd c <> REOF) (read_all_calls_f sfH sfH_state sizes) /\
    ((exists rest, msg2 = List.concat (map fst (read_all_calls_f sfH sfH_state sizes)) ++ rest)
     \/ Collision sfH).
Proof.
  intros sizes.
  apply (C15_calls_f_authentic sfH sfH_len sfH_wf D02 8 msg2 (firstn 50 (stream sfH D02 8 msg2)) 16384 sizes sfH_state);
    [discriminate|exact sfH_opens].
Qed.

(* ==== NewDecoder decides from the first eight bytes ====================================== *)
(* Whatever follows the 8-byte record-size field influences neither whether the stream is refused nor
   the decoder's initial state (beyond being what remains to be read): the model's side of "a stream
   with a refused record size is refused before any record data is read".  That the Go code takes
   exactly these 8 bytes from a plain source (0 when the digest header does not parse) is observed
   by the mi_new_consumed cases of the correspondence run. *)
From WP Require Proofs.MiceHeaderOnly.

Theorem C15_new_decoder_header_only :
  forall (H : bytes -> bytes) (d : draft) (h x y dg : bytes) (m : N),
    lenN h = 8 ->
    match new_decoder H d (h ++ x) dg m, new_decoder H d (h ++ y) dg m with
    | Ok a, Ok b => d_enc a = d_enc b /\ d_rs a = d_rs b /\ d_next a = d_next b /\ d_out a = d_out b
                    /\ d_r a = x /\ d_r b = y
    | Err, Err => True
    | _, _ => False
    end.
Proof. exact MiceHeaderOnly.new_decoder_header_only. Qed.
Print Assumptions C15_new_decoder_header_only.

Theorem C15_refusal_header_only :
  forall (H : bytes -> bytes) (d : draft) (h x y dg : bytes) (m : N),
    lenN h = 8 -> (new_decoder H d (h ++ x) dg m = Err <-> new_decoder H d (h ++ y) dg m = Err).
Proof. exact MiceHeaderOnly.new_decoder_refusal_header_only. Qed.
Print Assumptions C15_refusal_header_only.

Example ex_header_only :
  new_decoder sfH D02 ([0; 0; 0; 0; 0; 0; 64; 1] ++ [1; 2; 3]) (digest_header sfH D02 8 msg2) 16384 = Err /\
  new_decoder sfH D02 ([0; 0; 0; 0; 0; 0; 64; 1] ++ []) (digest_header sfH D02 8 msg2) 16384 = Err /\
  lenN [0; 0; 0; 0; 0; 0; 64; 1] = 8.
Proof. vm_compute. repeat split. Qed.
