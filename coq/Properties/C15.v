(* C15 - MICE decoder: given a digest, only authenticated data is handed out.

   "The digest commits to the payload" is the inductive relation [Commits] of
   Spec/Mice.v.  Nothing is assumed about the hash H beyond the output format;
   in particular there is NO collision-freedom assumption: every conclusion
   has the form  "... \/ Collision H", and the proofs construct the colliding
   pair explicitly. *)
From WP Require Import Base.Prelude Base.Base64 Base.Sha256 Model.Mice Spec.Mice.
From WP Require Import Proofs.MiceLemmas Proofs.MiceEncode Proofs.MiceCommit
  Proofs.MiceDecode Proofs.MiceAuth.
Open Scope N_scope.

(* a digest commits to at most one record list *)
Theorem C15_commits_unique :
  forall (H : bytes -> bytes) (d : bytes) (r1 r2 : list bytes),
    Commits H d r1 -> Commits H d r2 -> r1 = r2 \/ Collision H.
Proof. exact commits_unique. Qed.
Print Assumptions C15_commits_unique.

(* the encoder's digest commits to the records of the payload ... *)
Theorem C15_encode_commits :
  forall (H : bytes -> bytes), (forall x, List.length (H x) = 32%nat) ->
  forall (d : draft) (rs : N) (p : bytes),
    1 <= rs -> records d rs p <> [] ->
    Commits H (digest H d rs p) (records d rs p).
Proof. exact encode_commits. Qed.
Print Assumptions C15_encode_commits.

(* ... the only case without records is draft 03 / empty payload, whose digest
   H [0] is the commitment to one empty record *)
Theorem C15_records_empty_only_03 :
  forall (d : draft) (rs : N) (p : bytes),
    1 <= rs -> records d rs p = [] -> d = D03 /\ p = [].
Proof. exact records_nonempty. Qed.
Print Assumptions C15_records_empty_only_03.

Theorem C15_encode_commits_empty03 :
  forall (H : bytes -> bytes) (rs : N),
    digest H D03 rs [] = H [0] /\ Commits H (digest H D03 rs []) [[]].
Proof. exact encode_commits_empty03. Qed.
Print Assumptions C15_encode_commits_empty03.

(* MAIN: any stream s, any header string dg, any limit, any history of Read
   calls (destination sizes 0 allowed).  If dg parses to a digest that commits
   to recs, then everything delivered before the first error is a prefix of
   concat recs, and EOF is reported only after all of it. *)
Theorem C15_decoder_releases_only_committed :
  forall (H : bytes -> bytes) (d : draft) (s dg : bytes) (maxrs : N) (sizes : list N)
         (recs : list bytes) (top : bytes) (s0 : dec) (out : bytes) (st : rstat),
    parse_digest_header d dg = Ok top -> Commits H top recs ->
    new_decoder H d s dg maxrs = Ok s0 ->
    read_trace H s0 sizes [] = (out, st) ->
    ((exists rest, List.concat recs = out ++ rest) /\ (st = REOF -> out = List.concat recs))
    \/ Collision H.
Proof. exact decoder_releases_only_committed. Qed.
Print Assumptions C15_decoder_releases_only_committed.

Theorem C15_decode_all_only_committed :
  forall (H : bytes -> bytes) (d : draft) (s dg : bytes) (maxrs k : N)
         (recs : list bytes) (top out : bytes) (st : rstat),
    parse_digest_header d dg = Ok top -> Commits H top recs ->
    decode_all H d s dg maxrs k = Ok (out, st) ->
    ((exists rest, List.concat recs = out ++ rest) /\ (st = REOF -> out = List.concat recs))
    \/ Collision H.
Proof. exact decode_all_only_committed. Qed.
Print Assumptions C15_decode_all_only_committed.

(* End to end: the header produced for payload p (by the spec = by Encode,
   C14), presented with ANY stream s: truncated, extended, reordered, altered
   records or proofs, other record size, ... *)
Theorem C15_decoder_authentic :
  forall (H : bytes -> bytes),
    (forall x, List.length (H x) = 32%nat) -> (forall x, wfb (H x)) ->
  forall (d : draft) (rs : N) (p s : bytes) (maxrs : N) (sizes : list N)
         (s0 : dec) (out : bytes) (st : rstat),
    1 <= rs ->
    new_decoder H d s (digest_header H d rs p) maxrs = Ok s0 ->
    read_trace H s0 sizes [] = (out, st) ->
    ((exists rest, p = out ++ rest) /\ (st = REOF -> out = p)) \/ Collision H.
Proof. exact decoder_authentic. Qed.
Print Assumptions C15_decoder_authentic.

Theorem C15_decode_all_authentic :
  forall (H : bytes -> bytes),
    (forall x, List.length (H x) = 32%nat) -> (forall x, wfb (H x)) ->
  forall (d : draft) (rs : N) (p s : bytes) (maxrs k : N) (out : bytes) (st : rstat),
    1 <= rs ->
    decode_all H d s (digest_header H d rs p) maxrs k = Ok (out, st) ->
    ((exists rest, p = out ++ rest) /\ (st = REOF -> out = p)) \/ Collision H.
Proof. exact decode_all_authentic. Qed.
Print Assumptions C15_decode_all_authentic.

(* a record size of 0 or above the caller's limit is refused by NewDecoder:
   nothing beyond the 8-byte size is ever read *)
Theorem C15_record_size_refused :
  forall (H : bytes -> bytes) (d : draft) (s dg : bytes) (maxrs : N) (hd rest : bytes),
    splitN s 8 = Some (hd, rest) -> (unbe hd = 0 \/ maxrs < unbe hd) ->
    new_decoder H d s dg maxrs = Err.
Proof. exact record_size_refused. Qed.
Print Assumptions C15_record_size_refused.

(* ---- the hypotheses are satisfiable ------------------------------------- *)
Definition msg : bytes := s2b "When I grow up, I want to be a watermelon".
Definition strm : bytes := Eval vm_compute in stream sha256 D03 16 msg.
Definition hdr : bytes := Eval vm_compute in digest_header sha256 D03 16 msg.
Definition top : bytes := Eval vm_compute in digest sha256 D03 16 msg.

Example hdr_parses : parse_digest_header D03 hdr = Ok top.
Proof. vm_compute. reflexivity. Qed.

Example top_commits : Commits sha256 top (records D03 16 msg).
Proof.
  change (records D03 16 msg) with
    [firstn 16 msg; firstn 16 (skipn 16 msg); skipn 32 msg].
  apply (CMore sha256 _ _ (sha256 (firstn 16 (skipn 16 msg) ++ sha256 (skipn 32 msg ++ [0]) ++ [1])));
    [discriminate|vm_compute; reflexivity|vm_compute; reflexivity|].
  apply (CMore sha256 _ _ (sha256 (skipn 32 msg ++ [0])));
    [discriminate|vm_compute; reflexivity|reflexivity|].
  apply CLast. reflexivity.
Qed.

Example size_refused_zero :
  new_decoder sha256 D03 (be 8 0 ++ skipn 8 strm) hdr 16384 = Err.
Proof.
  apply (C15_record_size_refused _ _ _ _ _ (be 8 0) (skipn 8 strm)); [reflexivity|left; reflexivity].
Qed.
Example size_refused_too_big :
  new_decoder sha256 D03 (be 8 16385 ++ skipn 8 strm) hdr 16384 = Err.
Proof.
  apply (C15_record_size_refused _ _ _ _ _ (be 8 16385) (skipn 8 strm));
    [reflexivity|right; vm_compute; reflexivity].
Qed.

(* ---- concrete runs with SHA-256: intact stream, then mutations ---------- *)
Definition run (s : bytes) := decode_all sha256 D03 s hdr 16384 7.
Definition flip (i : nat) (s : bytes) : bytes :=
  firstn i s ++ (N.lxor (nth i s 0) 1 :: skipn (S i) s).

Example intact : run strm = Ok (msg, REOF).
Proof. vm_compute. reflexivity. Qed.

(* layout: [0,8) size | [8,24) r0 | [24,56) proof1 | [56,72) r1 | [72,104) proof2 | [104,113) r2 *)
Example altered_second_record : run (flip 60 strm) = Ok (firstn 16 msg, RErr).
Proof. vm_compute. reflexivity. Qed.
Example altered_first_proof : run (flip 30 strm) = Ok ([], RErr).
Proof. vm_compute. reflexivity. Qed.
Example altered_last_record : run (flip 112 strm) = Ok (firstn 32 msg, RErr).
Proof. vm_compute. reflexivity. Qed.
Example truncated_at_record_boundary : run (firstn 56 strm) = Ok (firstn 16 msg, RErr).
Proof. vm_compute. reflexivity. Qed.
Example truncated_before_proof : run (firstn 72 strm) = Ok (firstn 16 msg, RErr).
Proof. vm_compute. reflexivity. Qed.
Example truncated_inside_last : run (firstn 110 strm) = Ok (firstn 32 msg, RErr).
Proof. vm_compute. reflexivity. Qed.
Example truncated_to_size_only : run (firstn 8 strm) = Ok ([], RErr).
Proof. vm_compute. reflexivity. Qed.
Example truncated_to_nothing : run [] = Err.
Proof. vm_compute. reflexivity. Qed.
Example extended : run (strm ++ [0]) = Ok (firstn 32 msg, RErr).
Proof. vm_compute. reflexivity. Qed.
Example records_swapped :
  run (firstn 8 strm ++ firstn 16 (skipn 56 strm) ++ firstn 32 (skipn 24 strm)
       ++ firstn 16 (skipn 8 strm) ++ skipn 72 strm) = Ok ([], RErr).
Proof. vm_compute. reflexivity. Qed.
Example other_record_size : run (be 8 17 ++ skipn 8 strm) = Ok ([], RErr).
Proof. vm_compute. reflexivity. Qed.
(* draft 02 stream truncated at the boundary after the first record *)
Example truncated_at_record_boundary_02 :
  decode_all sha256 D02 (firstn 56 (stream sha256 D02 16 msg))
             (digest_header sha256 D02 16 msg) 16384 7 = Ok (firstn 16 msg, RErr).
Proof. vm_compute. reflexivity. Qed.

(* ---- the collision disjunct cannot be dropped ---------------------------- *)
(* a "hash" that only looks at the flag byte: a forged payload is accepted
   under the digest of another one *)
Definition weakH (x : bytes) : bytes := be 32 (last x 0).
Example weak_hash_is_fooled :
  decode_all weakH D03 (stream weakH D03 4 [9; 9; 9; 9; 9]) (digest_header weakH D03 4 [1; 2; 3; 4; 5]) 16 8
  = Ok ([9; 9; 9; 9; 9], REOF).
Proof. vm_compute. reflexivity. Qed.
Example weak_hash_collides : Collision weakH.
Proof. exists [0; 1], [1; 1]. split; [discriminate|reflexivity]. Qed.
