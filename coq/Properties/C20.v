(* C20 - command-line tools compose; placeholder until the path/URL theorems land. *)
From WP Require Import Base.Prelude Model.PathUrl.
Open Scope N_scope.

Theorem c20_smoke : escape_path (s2b "h#frag a?b%41.txt") = s2b "h%23frag%20a%3Fb%2541.txt".
Proof. reflexivity. Qed.
Print Assumptions c20_smoke.
