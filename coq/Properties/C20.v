(* C20 - command-line tools compose: gen-bundle's directory walk.

   "a bundle produced by gen-bundle from a directory ... contains, for every
   regular file, exactly one exchange whose URL is the base URL joined with the
   file's percent-encoded relative path and whose body is the file's bytes (a
   file named index.html being delivered at its directory's slash URL, with its
   own URL redirecting there) ... No file name ... makes a tool emit an artifact
   the downstream tool rejects."

   Model: Model/PathUrl.v (go/bundle/cmd/gen-bundle/fromdir.go: convertPathToURL
   puts the '/'-separated relative path into url.URL{Path: rel} and resolves it
   against the base URL, so net/url percent-escapes it; http.ServeFile is
   summarised by its contract), Model/UrlRef.v (what the bundle reader/writer
   demand of an index key: url_ref u = ROk true false false, i.e. parses,
   absolute, no fragment, no userinfo).
   Proofs: Proofs/PathUrl{Escape,Base,Tree}.v.  Statements only here.

   Part A  escape_path: invertible (hence injective), output alphabet, '%'
           always followed by two hex digits, '/' kept and never created.
   Part B  base_dir: query/fragment ignored, exact shape of its answers (and
           converse), dot segments refused, url_ref on "directory URL ++ escaped path".
   Part C  expected_exchanges: membership characterisation, index.html rules,
           exactly one exchange per regular file, every URL accepted.
   Part D  examples by vm_compute.

   FINDINGS
   - [dir_url_double_slash_refuted]: base_dir admits bases whose path begins
     with "//" (plain_path_char allows '/'), e.g. https://h//x/y ; for these
     url_ref answers RUnknown on the directory URL and on every file URL (path
     starting "//" right after the authority is outside url_ref's decided
     class).  The exact side condition is "dir does not begin with //",
     equivalently [url_ref bd = ROk true false false] ([base_dir_url_ref] gives
     the iff in both directions).  Go itself is fine there (ResolveReference
     gives https://h//x/a.txt); the gap is in the decided class only.
   - [leading_slash_refuted], [root_slash_refuted]: a relative path beginning
     with '/' (cannot come out of filepath.Rel) or the root written with a
     trailing slash leave the decided class when the base directory is "/".
   - CLASS OF BASES [base_dir_iff], [base_dir_ex]: scheme "://" authority path
     ["?" query] ["#" fragment]; query and fragment are dropped
     ([base_dir_ignores_query_fragment]); path characters letters digits
     - _ ~ / . ; a base whose path has a segment equal to "." or ".." is
     outside the class ([base_dir_dot_segment_none]: ResolveReference would
     remove it), as is a base with '%' or other characters in its path.  So
     https://example.com/site/page.html?q=1 gives https://example.com/site/ .
     '.' in the directory part is harmless for the reader's URL tests
     ([url_ref_shape], [dir_url_accepted]): url_ref never answers RErr on
     base_dir's result ([base_dir_url_ref_cases]) and RUnknown only for the
     "//" case above ([dir_url_unknown]).
   - MODEL DEVIATION [model_star_note]: Go's URL.EscapedPath() special-cases
     Path == "*" and returns "*" unescaped (golang issue 11202).  So for the one
     relative path "*" (a file called * in the root directory) gen-bundle emits
     <base dir>* whereas the model's escape_path gives %2A.  (go1.23.5:
     url.Parse("https://example.com/site/page.html").ResolveReference(
     &url.URL{Path:"*"}).String() = "https://example.com/site/*" ; "sub/*" and
     "a*" give %2A as modelled.)  Both URLs are accepted by url_ref; injectivity
     is not endangered ("%2A" is the escape of no other name); the round trip
     and all theorems below are about the model's escape_path. *)
From Coq Require Import Lia.
From WP Require Import Base.Prelude Model.Url Model.UrlRef Model.Cbor Model.PathUrl.
From WP Require Import Proofs.BaseLemmas Proofs.PathUrlEscape Proofs.PathUrlBase Proofs.PathUrlTree.
Open Scope N_scope.

(* ======================= Part A : escape_path =========================== *)

(* A1. unescaping the escaped path gives the path back: all byte strings *)
Theorem escape_roundtrip (p : bytes) : wfb p -> unescape_path (escape_path p) = Some p.
Proof. exact (PathUrlEscape.escape_roundtrip p). Qed.
Print Assumptions escape_roundtrip.

Theorem escape_injective (p q : bytes) :
  wfb p -> wfb q -> escape_path p = escape_path q -> p = q.
Proof. exact (PathUrlEscape.escape_injective p q). Qed.
Print Assumptions escape_injective.

Example escape_roundtrip_ex :
  wfb (s2b "h#frag a?b%41.txt" ++ [195; 169; 255; 0]) /\
  unescape_path (escape_path (s2b "h#frag a?b%41.txt" ++ [195; 169; 255; 0]))
  = Some (s2b "h#frag a?b%41.txt" ++ [195; 169; 255; 0]).
Proof. split; [apply wfbb_wfb|]; vm_compute; reflexivity. Qed.

(* A2. the output: 7-bit, printable, no '#', '?', space, DEL; precisely, every
   character is one that path_safe lets through (letters, digits,
   - _ . ~ $ & + , / : ; = @) or '%'; every '%' is followed by two hex digits;
   every character is one url.URL.String() leaves alone *)
Theorem escape_clean (p : bytes) :
  wfb p ->
  Forall (fun c => c < 128 /\ c <> 35 (* # *) /\ c <> 63 (* ? *) /\ c <> 32 /\ 32 < c /\ c <> 127)
         (escape_path p).
Proof. exact (PathUrlEscape.escape_clean p). Qed.
Print Assumptions escape_clean.

Theorem escape_alphabet (p : bytes) :
  wfb p -> Forall (fun c => path_safe c = true \/ c = 37) (escape_path p).
Proof. exact (PathUrlEscape.escape_alphabet p). Qed.
Print Assumptions escape_alphabet.

Theorem path_safe_chars (c : N) :
  path_safe c = true <->
  is_alpha_u c = true \/ is_digit_u c = true \/
  In c [45; 95; 46; 126; 36; 38; 43; 44; 47; 58; 59; 61; 64].
Proof.
  unfold path_safe. rewrite !orb_true_iff, existsb_exists. split.
  - intros [[H|H]|[x [Hx E]]]; auto. apply N.eqb_eq in E. subst x. auto.
  - intros [H|[H|H]]; auto. right. exists c. split; [exact H|apply N.eqb_refl].
Qed.
Print Assumptions path_safe_chars.

Theorem escape_escapes_ok (p : bytes) : wfb p -> escapes_ok (escape_path p) = true.
Proof. exact (PathUrlEscape.escape_escapes_ok p). Qed.
Print Assumptions escape_escapes_ok.

Theorem escape_stable (p : bytes) : wfb p -> forallb stable_char (escape_path p) = true.
Proof. exact (PathUrlEscape.escape_stable p). Qed.
Print Assumptions escape_stable.

Theorem escape_no_ctl (p : bytes) : wfb p -> existsb is_ctl (escape_path p) = false.
Proof. exact (PathUrlEscape.escape_no_ctl p). Qed.
Print Assumptions escape_no_ctl.

(* A3. '/' is never escaped, escaping works component by component, and an
   escaped component contains no new '/' *)
Theorem escape_app (a b : bytes) : escape_path (a ++ b) = escape_path a ++ escape_path b.
Proof. exact (PathUrlEscape.escape_path_app a b). Qed.
Print Assumptions escape_app.

Theorem escape_preserves_slashes (a b : bytes) :
  escape_path (a ++ [47] ++ b) = escape_path a ++ [47] ++ escape_path b.
Proof. exact (PathUrlEscape.escape_preserves_slashes a b). Qed.
Print Assumptions escape_preserves_slashes.

Theorem escape_no_new_slash (p : bytes) : wfb p -> ~ In 47 p -> ~ In 47 (escape_path p).
Proof. exact (PathUrlEscape.escape_no_new_slash p). Qed.
Print Assumptions escape_no_new_slash.

Example escape_no_new_slash_ex :
  wfb (s2b "a b%2F") /\ ~ In 47 (s2b "a b%2F") /\ escape_path (s2b "a b%2F") = s2b "a%20b%252F".
Proof.
  split; [apply wfbb_wfb; reflexivity|]. split; [|reflexivity].
  apply none_sat_not_in. reflexivity.
Qed.

(* ======================= Part B : base_dir, url_ref ===================== *)
(* The class of base URLs base_dir decides:
     base = scheme "://" authority path ["?" query] ["#" fragment]
   scheme: what getScheme accepts (a letter, then letters/digits/+-.);
   authority: hostchars[":"digits], non-empty; path: empty or beginning with
   '/', characters letters digits - _ ~ / . , no segment equal to "." or "..".
   base_dir base = lower(scheme) "://" authority dir, dir = the path up to and
   including its last '/', or "/" for the empty path.  (Go:
   baseURL.ResolveReference(&url.URL{Path: rel}) keeps neither the query nor
   the fragment of the base, drops the last path segment, and would remove
   "." / ".." segments - which is why those stay outside the class.)

   Abbreviations (Proofs/PathUrlBase.v), spelled out in the statements below
   where short:
     no_qf s      := ~ In 63 s /\ ~ In 35 s                  neither '?' nor '#'
     qf_ok qf     := qf = [] \/ exists c r, qf = c :: r /\ (c = 63 \/ c = 35)
     dots seg     := seg = [46] \/ seg = [46; 46]            "." or ".."
     ends47 a     := a = [] \/ exists a', a = a' ++ [47]
     begins47 b   := b = [] \/ exists b', b = 47 :: b'
     dot_segment_in p := exists a seg b, p = a ++ seg ++ b /\ dots seg /\ ends47 a /\ begins47 b *)

(* B0. the query and the fragment of the base are ignored *)
Theorem base_dir_ignores_query_fragment (b q : bytes) :
  (~ In 63 b /\ ~ In 35 b) ->
  base_dir (b ++ [63] ++ q) = base_dir b /\ base_dir (b ++ [35] ++ q) = base_dir b.
Proof. exact (PathUrlBase.base_dir_ignores_query_fragment b q). Qed.
Print Assumptions base_dir_ignores_query_fragment.

Example base_dir_ignores_query_fragment_ex :
  let b := s2b "https://example.com/site/" in
  (~ In 63 b /\ ~ In 35 b) /\
  base_dir (b ++ [63] ++ s2b "q=1#f?x") = Some b /\ base_dir (b ++ [35] ++ s2b "frag?x#y") = Some b.
Proof.
  cbv zeta. split; [split; apply none_sat_not_in; reflexivity|]. split; reflexivity.
Qed.

(* in general: only what is left of the first '?' / '#' matters, and every
   string is that part followed by nothing or by something beginning with '?' / '#' *)
Theorem base_dir_strip (base : bytes) : base_dir base = base_dir (strip_query_fragment base).
Proof. exact (PathUrlBase.base_dir_strip base). Qed.
Print Assumptions base_dir_strip.

Theorem strip_query_fragment_spec (s : bytes) :
  exists qf, s = strip_query_fragment s ++ qf /\
             (qf = [] \/ exists c r, qf = c :: r /\ (c = 63 \/ c = 35)) /\
             (~ In 63 (strip_query_fragment s) /\ ~ In 35 (strip_query_fragment s)).
Proof. exact (PathUrlBase.strip_decomp s). Qed.
Print Assumptions strip_query_fragment_spec.

(* has_dot_segment, declaratively: some segment of the path is "." or ".." *)
Theorem has_dot_segment_iff (p : bytes) :
  has_dot_segment p [] = true <->
  exists a seg b, p = a ++ seg ++ b /\ (seg = [46] \/ seg = [46; 46]) /\
                  (a = [] \/ exists a', a = a' ++ [47]) /\ (b = [] \/ exists b', b = 47 :: b').
Proof. exact (PathUrlBase.has_dot_segment_iff p). Qed.
Print Assumptions has_dot_segment_iff.

(* B1. what base_dir answers: lower(scheme) "://" authority dir, where dir
   begins and ends with '/' and consists of letters, digits, - _ ~ / . ; the
   base is scheme "://" authority [dir t] qf with t the (dropped) last segment,
   qf the (dropped) query/fragment, and no dot segment in the path dir t *)
Theorem base_dir_shape (base bd : bytes) :
  base_dir base = Some bd ->
  exists sch auth dir qf,
    bd = lower sch ++ s2b "://" ++ auth ++ dir /\
    (forallb scheme_char sch = true /\ exists c t, sch = c :: t /\ is_alpha_u c = true) /\
    authority_known auth = true /\ auth <> [] /\ ~ In 47 auth /\
    ((exists d, dir = 47 :: d) /\ (exists d, dir = d ++ [47]) /\ forallb plain_path_char dir = true) /\
    (qf = [] \/ exists c r, qf = c :: r /\ (c = 63 \/ c = 35)) /\
    ((base = sch ++ s2b "://" ++ auth ++ qf /\ dir = [47]) \/
     (exists t, base = sch ++ s2b "://" ++ auth ++ dir ++ t ++ qf /\ ~ In 47 t /\
                forallb plain_path_char t = true /\ has_dot_segment (dir ++ t) [] = false)).
Proof. exact (PathUrlBase.base_dir_shape base bd). Qed.
Print Assumptions base_dir_shape.

(* ... and conversely *)
Theorem base_dir_complete (sch auth dir t qf : bytes) :
  (forallb scheme_char sch = true /\ exists c t, sch = c :: t /\ is_alpha_u c = true) ->
  authority_known auth = true -> auth <> [] ->
  ((exists d, dir = 47 :: d) /\ (exists d, dir = d ++ [47]) /\ forallb plain_path_char dir = true) ->
  forallb plain_path_char t = true -> ~ In 47 t -> has_dot_segment (dir ++ t) [] = false ->
  (qf = [] \/ exists c r, qf = c :: r /\ (c = 63 \/ c = 35)) ->
  base_dir (sch ++ s2b "://" ++ auth ++ dir ++ t ++ qf) = Some (lower sch ++ s2b "://" ++ auth ++ dir).
Proof. exact (PathUrlBase.base_dir_complete sch auth dir t qf). Qed.
Print Assumptions base_dir_complete.

Theorem base_dir_complete_nopath (sch auth qf : bytes) :
  (forallb scheme_char sch = true /\ exists c t, sch = c :: t /\ is_alpha_u c = true) ->
  authority_known auth = true -> auth <> [] ->
  (qf = [] \/ exists c r, qf = c :: r /\ (c = 63 \/ c = 35)) ->
  base_dir (sch ++ s2b "://" ++ auth ++ qf) = Some (lower sch ++ s2b "://" ++ auth ++ [47]).
Proof. exact (PathUrlBase.base_dir_complete_nopath sch auth qf). Qed.
Print Assumptions base_dir_complete_nopath.

(* both directions in one statement: the domain of base_dir, and its value *)
Theorem base_dir_iff (base bd : bytes) :
  base_dir base = Some bd <->
  exists sch auth dir qf,
    bd = lower sch ++ s2b "://" ++ auth ++ dir /\
    (forallb scheme_char sch = true /\ exists c t, sch = c :: t /\ is_alpha_u c = true) /\
    authority_known auth = true /\ auth <> [] /\
    ((exists d, dir = 47 :: d) /\ (exists d, dir = d ++ [47]) /\ forallb plain_path_char dir = true) /\
    (qf = [] \/ exists c r, qf = c :: r /\ (c = 63 \/ c = 35)) /\
    ((base = sch ++ s2b "://" ++ auth ++ qf /\ dir = [47]) \/
     (exists t, base = sch ++ s2b "://" ++ auth ++ dir ++ t ++ qf /\ ~ In 47 t /\
                forallb plain_path_char t = true /\ has_dot_segment (dir ++ t) [] = false)).
Proof. exact (PathUrlBase.base_dir_iff base bd). Qed.
Print Assumptions base_dir_iff.

Example base_dir_complete_ex :
  let sch := s2b "HTTPS" in let auth := s2b "example.com:8443" in
  let dir := s2b "/v1.2/site/" in let t := s2b "page.html" in let qf := s2b "?q=1#frag" in
  (forallb scheme_char sch = true /\ exists c t, sch = c :: t /\ is_alpha_u c = true) /\
  authority_known auth = true /\ auth <> [] /\
  ((exists d, dir = 47 :: d) /\ (exists d, dir = d ++ [47]) /\ forallb plain_path_char dir = true) /\
  forallb plain_path_char t = true /\ ~ In 47 t /\ has_dot_segment (dir ++ t) [] = false /\
  (qf = [] \/ exists c r, qf = c :: r /\ (c = 63 \/ c = 35)) /\
  sch ++ s2b "://" ++ auth ++ dir ++ t ++ qf = s2b "HTTPS://example.com:8443/v1.2/site/page.html?q=1#frag" /\
  lower sch ++ s2b "://" ++ auth ++ dir = s2b "https://example.com:8443/v1.2/site/".
Proof.
  cbv zeta. split; [split; [reflexivity|exists 72, (s2b "TTPS"); split; reflexivity]|].
  split; [reflexivity|]. split; [discriminate|].
  split; [split; [eexists; reflexivity|split; [exists (s2b "/v1.2/site"); reflexivity|reflexivity]]|].
  split; [reflexivity|]. split; [apply none_sat_not_in; reflexivity|]. split; [reflexivity|].
  split; [right; exists 63, (s2b "q=1#frag"); split; [reflexivity|left; reflexivity]|].
  split; reflexivity.
Qed.

(* B1'. a "." or ".." segment anywhere in the base's path: outside the class
   (None), whatever the rest of the path looks like.  base = scheme "://" auth
   a "/" seg b with seg = "." or "..", b empty or beginning with '/', '?', '#' *)
Theorem base_dir_dot_segment_none (sch auth a seg b : bytes) :
  (forallb scheme_char sch = true /\ exists c t, sch = c :: t /\ is_alpha_u c = true) ->
  ~ In 47 auth -> (~ In 63 auth /\ ~ In 35 auth) -> (~ In 63 a /\ ~ In 35 a) ->
  (seg = [46] \/ seg = [46; 46]) ->
  (b = [] \/ exists c r, b = c :: r /\ (c = 47 \/ c = 63 \/ c = 35)) ->
  base_dir (sch ++ s2b "://" ++ auth ++ a ++ [47] ++ seg ++ b) = None.
Proof. exact (PathUrlBase.base_dir_dot_segment_none sch auth a seg b). Qed.
Print Assumptions base_dir_dot_segment_none.

Example base_dir_dot_segment_none_ex :
  let sch := s2b "https" in let auth := s2b "example.com" in
  let a := s2b "/a" in let seg := s2b ".." in let b := s2b "/b/" in
  (forallb scheme_char sch = true /\ exists c t, sch = c :: t /\ is_alpha_u c = true) /\
  ~ In 47 auth /\ (~ In 63 auth /\ ~ In 35 auth) /\ (~ In 63 a /\ ~ In 35 a) /\
  (seg = [46] \/ seg = [46; 46]) /\
  (b = [] \/ exists c r, b = c :: r /\ (c = 47 \/ c = 63 \/ c = 35)) /\
  sch ++ s2b "://" ++ auth ++ a ++ [47] ++ seg ++ b = s2b "https://example.com/a/../b/".
Proof.
  cbv zeta. split; [split; [reflexivity|exists 104, (s2b "ttps"); split; reflexivity]|].
  split; [apply none_sat_not_in; reflexivity|].
  split; [split; apply none_sat_not_in; reflexivity|].
  split; [split; apply none_sat_not_in; reflexivity|].
  split; [right; reflexivity|].
  split; [right; exists 47, (s2b "b/"); split; [reflexivity|left; reflexivity]|reflexivity].
Qed.

Example base_dir_ex :
  base_dir (s2b "HTTPS://example.com:8443/site/page") = Some (s2b "https://example.com:8443/site/") /\
  base_dir (s2b "https://example.com/site/page.html") = Some (s2b "https://example.com/site/") /\
  base_dir (s2b "https://example.com/site/?q=1") = Some (s2b "https://example.com/site/") /\
  base_dir (s2b "https://example.com/site/#frag") = Some (s2b "https://example.com/site/") /\
  base_dir (s2b "https://example.com/site/page.html?q=a/b#f/g") = Some (s2b "https://example.com/site/") /\
  base_dir (s2b "https://example.com?q=1") = Some (s2b "https://example.com/") /\
  base_dir (s2b "https://example.com/a/../b/") = None /\      (* ".." segment *)
  base_dir (s2b "https://example.com/./") = None /\           (* "." segment *)
  base_dir (s2b "https://example.com/a/..") = None /\
  base_dir (s2b "https://example.com/a/.?q") = None /\
  base_dir (s2b "https://example.com/v1.2/x") = Some (s2b "https://example.com/v1.2/") /\
  base_dir (s2b "https://example.com/.../..a/b..") = Some (s2b "https://example.com/.../..a/") /\
  base_dir (s2b "https://example.com") = Some (s2b "https://example.com/") /\
  base_dir (s2b "https://example.com/a/b/") = Some (s2b "https://example.com/a/b/") /\
  base_dir (s2b "https://example.com/a.b/c") = Some (s2b "https://example.com/a.b/") /\
  base_dir (s2b "https://example.com/a%20b/c") = None /\      (* '%' is outside the decided class *)
  base_dir (s2b "https:///x") = None /\
  base_dir (s2b "/relative") = None.
Proof. vm_compute. repeat split. Qed.

(* B2. url_ref on anything of that shape followed by stable characters with
   well-formed escapes: all schemes, authorities with a port included.  d is
   any string over the plain alphabet - '.' included, dot segments included:
   url_ref (url.Parse + String()) does not look at them *)
Theorem url_ref_shape (sch auth d x : bytes) :
  (forallb scheme_char sch = true /\ exists c t, sch = c :: t /\ is_alpha_u c = true) ->
  authority_known auth = true -> auth <> [] ->
  forallb plain_path_char d = true ->
  forallb stable_char x = true -> escapes_ok x = true ->
  url_ref (lower sch ++ s2b "://" ++ auth ++ (47 :: d) ++ x) =
  if starts47 (d ++ x) then RUnknown else ROk true false false.
Proof. exact (PathUrlBase.url_ref_shape sch auth d x). Qed.
Print Assumptions url_ref_shape.

Example url_ref_shape_ex :
  forallb plain_path_char (s2b "v1.2/site.d/") = true /\
  url_ref (s2b "https://example.com/v1.2/site.d/a%20b.txt") = ROk true false false.
Proof. split; reflexivity. Qed.

(* B3. base_dir's answer and url_ref's verdict on it: accepted unless dir
   begins with "//", in which case (and only then) RUnknown; never RErr *)
Theorem base_dir_url_ref (base bd : bytes) :
  base_dir base = Some bd ->
  exists sch auth dir,
    bd = lower sch ++ s2b "://" ++ auth ++ dir /\
    (forallb scheme_char sch = true /\ exists c t, sch = c :: t /\ is_alpha_u c = true) /\
    authority_known auth = true /\ auth <> [] /\ ~ In 47 auth /\
    ((exists d, dir = 47 :: d) /\ (exists d, dir = d ++ [47]) /\ forallb plain_path_char dir = true) /\
    (url_ref bd = ROk true false false <-> (forall t, dir <> 47 :: 47 :: t)) /\
    (url_ref bd = RUnknown <-> (exists t, dir = 47 :: 47 :: t)).
Proof. exact (PathUrlBase.base_dir_url_ref base bd). Qed.
Print Assumptions base_dir_url_ref.

Theorem base_dir_url_ref_cases (base bd : bytes) :
  base_dir base = Some bd -> url_ref bd = ROk true false false \/ url_ref bd = RUnknown.
Proof. exact (PathUrlBase.base_dir_url_ref_cases base bd). Qed.
Print Assumptions base_dir_url_ref_cases.

(* B4. the index keys gen-bundle produces are what the bundle reader demands:
   for the base directory URL in the decided class, every wfb relative path
   not beginning with '/' gives an accepted file URL and directory URL.  The
   widened class changes nothing here: '.' in the directory part is a stable
   character for url_ref, and the one undecided case remains a base path
   beginning with "//" *)
Theorem dir_url_accepted (base bd r : bytes) :
  base_dir base = Some bd ->
  url_ref bd = ROk true false false ->
  wfb r -> (forall t, r <> 47 :: t) ->
  url_ref (bd ++ escape_path r) = ROk true false false /\
  (r <> [] -> url_ref (bd ++ escape_path r ++ [47]) = ROk true false false).
Proof. exact (PathUrlBase.dir_url_accepted base bd r). Qed.
Print Assumptions dir_url_accepted.

(* the same under the weakest premise - url_ref decides the directory URL *)
Theorem dir_url_accepted_min (base bd r : bytes) :
  base_dir base = Some bd ->
  url_ref bd <> RUnknown ->
  wfb r -> (forall t, r <> 47 :: t) ->
  url_ref bd = ROk true false false /\
  url_ref (bd ++ escape_path r) = ROk true false false /\
  (r <> [] -> url_ref (bd ++ escape_path r ++ [47]) = ROk true false false).
Proof. exact (PathUrlBase.dir_url_accepted_min base bd r). Qed.
Print Assumptions dir_url_accepted_min.

(* and when it does not (base path beginning with "//"), it decides none of
   the URLs below: the premise of [dir_url_accepted_min] is exact *)
Theorem dir_url_unknown (base bd r : bytes) :
  base_dir base = Some bd -> url_ref bd = RUnknown -> wfb r ->
  url_ref (bd ++ escape_path r) = RUnknown.
Proof. exact (PathUrlBase.dir_url_unknown base bd r). Qed.
Print Assumptions dir_url_unknown.

Example dir_url_accepted_ex :
  let base := s2b "https://example.com:8443/v1.2/site/page.html?q=1#top" in
  let bd := s2b "https://example.com:8443/v1.2/site/" in
  let r := s2b "sub dir/h#frag?.txt" ++ [195; 169] in
  base_dir base = Some bd /\ url_ref bd = ROk true false false /\ url_ref bd <> RUnknown /\
  wfb r /\ (forall t, r <> 47 :: t) /\
  bd ++ escape_path r = s2b "https://example.com:8443/v1.2/site/sub%20dir/h%23frag%3F.txt%C3%A9" /\
  url_ref (bd ++ escape_path r) = ROk true false false.
Proof.
  cbv zeta. split; [reflexivity|]. split; [reflexivity|]. split; [discriminate|].
  split; [apply wfbb_wfb; reflexivity|]. split; [intros t E; discriminate E|].
  split; reflexivity.
Qed.

(* the unescaped name would not do: '#' starts a fragment, which the reader rejects *)
Example unescaped_name_rejected :
  url_ref (s2b "https://example.com/site/h#frag.txt") = ROk true true false.
Proof. reflexivity. Qed.

(* corner cases that fall outside url_ref's decided class *)
Theorem dir_url_double_slash_refuted :
  exists base bd r,
    base_dir base = Some bd /\ wfb r /\ (forall t, r <> 47 :: t) /\
    url_ref bd = RUnknown /\ url_ref (bd ++ escape_path r) = RUnknown.
Proof.
  exists (s2b "https://h//x/y"), (s2b "https://h//x/"), (s2b "a.txt").
  split; [reflexivity|]. split; [apply wfbb_wfb; reflexivity|].
  split; [intros t E; discriminate E|]. split; reflexivity.
Qed.
Print Assumptions dir_url_double_slash_refuted.

Theorem leading_slash_refuted :
  exists base bd r,
    base_dir base = Some bd /\ url_ref bd = ROk true false false /\ wfb r /\
    url_ref (bd ++ escape_path r) = RUnknown.
Proof.
  exists (s2b "https://h/"), (s2b "https://h/"), (s2b "/a").
  split; [reflexivity|]. split; [reflexivity|]. split; [apply wfbb_wfb; reflexivity|reflexivity].
Qed.
Print Assumptions leading_slash_refuted.

Theorem root_slash_refuted :
  exists base bd,
    base_dir base = Some bd /\ url_ref bd = ROk true false false /\
    url_ref (bd ++ escape_path [] ++ [47]) = RUnknown.
Proof.
  exists (s2b "https://h/"), (s2b "https://h/"). repeat split.
Qed.
Print Assumptions root_slash_refuted.

(* ======================= Part C : the exchanges ========================== *)
(* PathUrlTree.dir_url bd rel   = bd for the root (rel = []), else bd ++ escape_path rel ++ "/"
   PathUrlTree.index_path d     = "index.html" for the root, else d ++ "/index.html"
   PathUrlTree.ex_url (u, s, b) = u *)

(* C1. (a) a regular file not named index.html: (URL, 200, its bytes);
       (b) a regular file named index.html: (its URL, 301, no body);
       (c) a directory that directly contains a regular file index.html:
           (slash URL, 200, that file's bytes);
       (d) nothing else *)
Theorem expected_exchanges_spec (base bd : bytes) (tree : list fentry) (xs : list (bytes * Z * bytes)) :
  expected_exchanges base tree = Some xs -> base_dir base = Some bd ->
  forall x, In x xs <->
    (exists f, In f tree /\ f_dir f = false /\ basename (f_rel f) [] <> index_html /\
               x = (bd ++ escape_path (f_rel f), 200%Z, f_content f)) \/
    (exists f, In f tree /\ f_dir f = false /\ basename (f_rel f) [] = index_html /\
               x = (bd ++ escape_path (f_rel f), 301%Z, [])) \/
    (exists f content, In f tree /\ f_dir f = true /\ dir_index tree (f_rel f) = Some content /\
               x = (dir_url bd (f_rel f), 200%Z, content)).
Proof. exact (PathUrlTree.expected_exchanges_spec base bd tree xs). Qed.
Print Assumptions expected_exchanges_spec.

(* when there is an answer at all *)
Theorem expected_exchanges_defined (base : bytes) (tree : list fentry) (xs : list (bytes * Z * bytes)) :
  expected_exchanges base tree = Some xs <->
  exists bd, base_dir base = Some bd /\
             (forall f, In f tree -> has_dotdot_elem (f_rel f) [] = false /\ utf8_valid (f_rel f) = true) /\
             xs = flat_map (contrib bd tree) tree.
Proof. exact (PathUrlTree.expected_unfold base tree xs). Qed.
Print Assumptions expected_exchanges_defined.

(* C2. dir_index: the content is that of a regular file at d/index.html; with
   distinct relative paths, of THE regular file there *)
Theorem dir_index_sound (tree : list fentry) (d content : bytes) :
  dir_index tree d = Some content ->
  exists g, In g tree /\ f_dir g = false /\ f_rel g = index_path d /\ f_content g = content.
Proof. exact (PathUrlTree.dir_index_sound tree d content). Qed.
Print Assumptions dir_index_sound.

Theorem dir_index_complete (tree : list fentry) (d : bytes) (g : fentry) :
  NoDup (map f_rel tree) ->
  In g tree -> f_dir g = false -> f_rel g = index_path d ->
  dir_index tree d = Some (f_content g).
Proof. exact (PathUrlTree.dir_index_complete tree d g). Qed.
Print Assumptions dir_index_complete.

(* that file is itself "named index.html" (so its own exchange is the 301 of
   (b)), and its own URL is the directory's slash URL ++ "index.html" *)
Theorem index_file_named_index (d : bytes) : basename (index_path d) [] = index_html.
Proof. exact (PathUrlTree.index_path_basename d). Qed.
Print Assumptions index_file_named_index.

Theorem index_file_url (bd d : bytes) :
  bd ++ escape_path (index_path d) = dir_url bd d ++ index_html.
Proof. exact (PathUrlTree.index_file_url bd d). Qed.
Print Assumptions index_file_url.

(* C3. (e) distinct relative paths give distinct file URLs *)
Theorem file_urls_injective (bd p q : bytes) :
  wfb p -> wfb q -> bd ++ escape_path p = bd ++ escape_path q -> p = q.
Proof. exact (PathUrlTree.file_urls_injective bd p q). Qed.
Print Assumptions file_urls_injective.

Theorem file_urls_nodup (bd : bytes) (tree : list fentry) :
  NoDup (map f_rel tree) -> (forall f, In f tree -> wfb (f_rel f)) ->
  NoDup (map (fun f => bd ++ escape_path (f_rel f)) (filter (fun f => negb (f_dir f)) tree)).
Proof. exact (PathUrlTree.file_urls_nodup bd tree). Qed.
Print Assumptions file_urls_nodup.

(* relative paths as filepath.Walk/Rel produce them *)
Definition tree_ok (tree : list fentry) : Prop :=
  NoDup (map f_rel tree) /\
  forall f, In f tree -> (forall t, f_rel f <> t ++ [47]) /\ (f_dir f = false -> f_rel f <> []).

(* all URLs of the bundle are pairwise distinct (files and directories) *)
Theorem expected_urls_nodup (base : bytes) (tree : list fentry) (xs : list (bytes * Z * bytes)) :
  expected_exchanges base tree = Some xs -> tree_ok tree ->
  NoDup (map (fun x => fst (fst x)) xs).
Proof. exact (PathUrlTree.expected_urls_nodup base tree xs). Qed.
Print Assumptions expected_urls_nodup.

(* exactly one exchange per regular file: it sits at one position of the list
   and no other exchange has its URL *)
Theorem exactly_one_exchange_per_file
        (base bd : bytes) (tree : list fentry) (xs : list (bytes * Z * bytes)) (f : fentry) :
  expected_exchanges base tree = Some xs -> base_dir base = Some bd -> tree_ok tree ->
  In f tree -> f_dir f = false ->
  exists l1 x l2,
    xs = l1 ++ x :: l2 /\
    x = (if bytes_eqb (basename (f_rel f) []) index_html
         then (bd ++ escape_path (f_rel f), 301%Z, [])
         else (bd ++ escape_path (f_rel f), 200%Z, f_content f)) /\
    (forall y, In y (l1 ++ l2) -> fst (fst y) <> bd ++ escape_path (f_rel f)).
Proof. exact (PathUrlTree.exactly_one_exchange_per_file base bd tree xs f). Qed.
Print Assumptions exactly_one_exchange_per_file.

(* C4. no file name makes gen-bundle emit a URL the reader rejects: whenever
   the model answers (names are valid UTF-8 without ".." elements), every URL
   is accepted *)
Theorem expected_urls_accepted (base bd : bytes) (tree : list fentry) (xs : list (bytes * Z * bytes)) :
  expected_exchanges base tree = Some xs -> base_dir base = Some bd ->
  url_ref bd = ROk true false false ->
  (forall f, In f tree -> forall t, f_rel f <> 47 :: t) ->
  Forall (fun x => url_ref (fst (fst x)) = ROk true false false) xs.
Proof. exact (PathUrlTree.expected_urls_accepted base bd tree xs). Qed.
Print Assumptions expected_urls_accepted.

(* the same under the weakest premise on the base: url_ref decides bd *)
Theorem expected_urls_accepted_min (base bd : bytes) (tree : list fentry) (xs : list (bytes * Z * bytes)) :
  expected_exchanges base tree = Some xs -> base_dir base = Some bd ->
  url_ref bd <> RUnknown ->
  (forall f, In f tree -> forall t, f_rel f <> 47 :: t) ->
  Forall (fun x => url_ref (fst (fst x)) = ROk true false false) xs.
Proof. exact (PathUrlTree.expected_urls_accepted_min base bd tree xs). Qed.
Print Assumptions expected_urls_accepted_min.

(* ======================= Part D : examples =============================== *)
Definition file (name content : string) : fentry :=
  {| f_rel := s2b name; f_dir := false; f_content := s2b content |}.
Definition dir (name : string) : fentry :=
  {| f_rel := s2b name; f_dir := true; f_content := [] |}.

Definition base_ex : bytes := s2b "https://example.com/site/page.html".

(* awkward names; the base's last path segment (page.html) is dropped *)
Definition names_tree : list fentry :=
  [ dir ""; file "h#frag.txt" "1"; file "a?b" "2"; file "p%41" "3"; file "b c.html" "4";
    {| f_rel := [195; 169] ++ s2b ".txt"; f_dir := false; f_content := s2b "5" |};   (* e-acute *)
    file "x:y" "6" ].

Example names_exchanges :
  expected_exchanges base_ex names_tree =
  Some [ (s2b "https://example.com/site/h%23frag.txt", 200%Z, s2b "1");
         (s2b "https://example.com/site/a%3Fb", 200%Z, s2b "2");
         (s2b "https://example.com/site/p%2541", 200%Z, s2b "3");
         (s2b "https://example.com/site/b%20c.html", 200%Z, s2b "4");
         (s2b "https://example.com/site/%C3%A9.txt", 200%Z, s2b "5");
         (s2b "https://example.com/site/x:y", 200%Z, s2b "6") ].
Proof. vm_compute. reflexivity. Qed.

Example names_accepted :
  match expected_exchanges base_ex names_tree with
  | Some xs => forallb (fun x => match url_ref (fst (fst x)) with ROk true false false => true | _ => false end) xs
  | None => false
  end = true.
Proof. vm_compute. reflexivity. Qed.

(* root index.html and sub/index.html *)
Definition index_tree : list fentry :=
  [ dir ""; file "index.html" "ROOT"; dir "empty"; dir "sub";
    file "sub/a.txt" "A"; file "sub/index.html" "SUB" ].

Example index_exchanges :
  expected_exchanges base_ex index_tree =
  Some [ (s2b "https://example.com/site/", 200%Z, s2b "ROOT");
         (s2b "https://example.com/site/index.html", 301%Z, []);
         (s2b "https://example.com/site/sub/", 200%Z, s2b "SUB");
         (s2b "https://example.com/site/sub/a.txt", 200%Z, s2b "A");
         (s2b "https://example.com/site/sub/index.html", 301%Z, []) ].
Proof. vm_compute. reflexivity. Qed.

(* the hypotheses of C3/C4 hold of that tree *)
Example index_tree_ok : tree_ok index_tree.
Proof.
  split.
  - repeat constructor; cbn [In map index_tree f_rel dir file];
      intros H; repeat (destruct H as [H|H]; [vm_compute in H; discriminate H|]); exact H.
  - intros f Hf. cbn [In index_tree] in Hf.
    repeat (destruct Hf as [Hf|Hf];
            [subst f; split;
             [intros t E; apply (f_equal (@rev N)) in E; rewrite rev_app_distr in E;
              vm_compute in E; discriminate E
             |intros E; try discriminate E; intros E'; discriminate E']|]).
    destruct Hf.
Qed.

Example index_tree_rel_ok : forall f, In f index_tree -> forall t, f_rel f <> 47 :: t.
Proof.
  intros f Hf t E. cbn [In index_tree] in Hf.
  repeat (destruct Hf as [Hf|Hf]; [subst f; vm_compute in E; discriminate E|]). destruct Hf.
Qed.

(* query and fragment of the base make no difference; dots in the directory part are kept *)
Example index_exchanges_query :
  expected_exchanges (s2b "https://example.com/site/page.html?q=1#top") index_tree =
  expected_exchanges base_ex index_tree /\
  expected_exchanges (s2b "https://example.com/v1.2/?q") [dir ""; file "a.b/c d.txt" "X"] =
  Some [ (s2b "https://example.com/v1.2/a.b/c%20d.txt", 200%Z, s2b "X") ] /\
  expected_exchanges (s2b "https://example.com/v1.2/../") [dir ""; file "a" "X"] = None.
Proof. vm_compute. repeat split; reflexivity. Qed.

(* names outside the decided domain: http.ServeFile refuses ".." elements,
   http.Dir refuses names that are not UTF-8 *)
Example dotdot_undecided : expected_exchanges base_ex [dir ""; file "a/../b" "x"] = None.
Proof. reflexivity. Qed.
Example non_utf8_undecided :
  expected_exchanges base_ex [dir ""; {| f_rel := [255]; f_dir := false; f_content := [] |}] = None.
Proof. reflexivity. Qed.

(* the model's escape of the one-character path "*" (Go gives "*", see header) *)
Example model_star_note : escape_path (s2b "*") = s2b "%2A" /\ escape_path (s2b "sub/*") = s2b "sub/%2A".
Proof. split; reflexivity. Qed.

(* ======================= Part E : gen-bundle from a HAR capture ================= *)
(* "HAR captures (GET / non-GET entries, banned and pseudo headers, base64 bodies)
   ... No file name, file content or flag value within the documented ranges makes
   a tool emit an artifact the downstream tool rejects."

   Model: Model/Har.v (go/bundle/cmd/gen-bundle/fromhar.go: nvpToHeader,
   contentToBody, the loop of fromHar), then Bundle.WriteTo (b_write) and
   bundle.Read (b_read) as in C03.  Proofs: Proofs/HarImport.v.

   E1  nvpToHeader: the filtered header map, exactly.
   E2  fromHar: which entries become exchanges (har_kept, by index; the rule
       har_rule, which determines it uniquely), the result, exactly when it is an
       error, totality.
   E3  composition: what gen-bundle emits from a capture is read back by
       bundle.Read as the normalised kept exchanges; "refused or readable".
   E4  examples.

   NOTES
   - the body is decoded BEFORE the entry is filtered: a damaged base64 body of an
     entry that would be dropped anyway (POST, status 1000, duplicate) fails the
     whole import (from_har_err_iff quantifies over all entries; har_bad_body_ex).
   - the Variants rule looks at the latest KEPT entry of the URL: an entry without
     Variants between two entries with Variants is dropped and does not disqualify
     the later one (har_variants_ex); a URL is kept twice only if all its kept
     entries carry Variants (har_kept_same_url_variants), so the flag recorded for
     a URL ("seen", updated at every kept entry) never actually changes.
   - the writer may still refuse (non-ASCII header value, b2 with a repeated URL,
     b1 variant sets that are incomplete, URL with fragment ...): that is a
     refusal, not a bad artifact (har_refused_or_readable).
   - premises of the read-back besides the successful write: the Go slice bound and
     b_write_taint = false (the URLs lie in the class the url.Parse model decides;
     a restriction of the model - the glue answers "unknown" otherwise). *)
From Coq Require Import Sorted.
From WP Require Import Base.Base64 Model.Http Model.Sxg Model.Bundle Model.Har.
From WP Require Import Proofs.BundleRoundtripResp Proofs.BundleRoundtrip Proofs.BundleRoundtripNorm
  Proofs.HarImport.

(* ---- E1 : nvpToHeader ---------------------------------------------------------- *)
(* Header.Values / map lookup for any predicate: the values of the surviving
   pairs whose canonical key is k, in input order *)
Theorem har_nvp_to_header_lookup : forall banned l k,
  hdr_lookup (nvp_to_header banned l) k
  = map snd (filter (fun nv => negb (pseudo_name (fst nv) || banned (fst nv))
                               && bytes_eqb (canonical_key (fst nv)) k) l).
Proof. exact HarImport.nvp_to_header_lookup. Qed.
Print Assumptions har_nvp_to_header_lookup.

Theorem har_nvp_to_header_keys : forall banned l k,
  In k (map fst (nvp_to_header banned l))
  <-> exists nv, In nv l /\ pseudo_name (fst nv) = false /\ banned (fst nv) = false
                 /\ canonical_key (fst nv) = k.
Proof. exact HarImport.nvp_to_header_keys. Qed.
Print Assumptions har_nvp_to_header_keys.

(* a Go map: every key once and with at least one value *)
Theorem har_nvp_to_header_wf : forall banned l,
  NoDup (map fst (nvp_to_header banned l)) /\ Forall (fun kv => snd kv <> []) (nvp_to_header banned l).
Proof. exact HarImport.nvp_to_header_wf. Qed.
Print Assumptions har_nvp_to_header_wf.

(* response headers (banned = IsUncachedHeader): no key of the result starts with
   ':' or is an uncached header; every other input pair is there under its
   canonical key; Values(n) are the values of the surviving pairs with n's
   canonical key, in order; Values of a pseudo / banned name is empty *)
Theorem har_nvp_to_header_no_pseudo_no_banned : forall l,
  let h := nvp_to_header is_uncached_header l in
  (forall k vs, In (k, vs) h -> pseudo_name k = false /\ is_uncached_header k = false)
  /\ (forall n v, In (n, v) l -> pseudo_name n = false -> is_uncached_header n = false ->
        In (canonical_key n) (map fst h) /\ In v (hdr_values h n))
  /\ (forall n, pseudo_name n = false -> is_uncached_header n = false ->
        hdr_values h n
        = map snd (filter (fun nv => bytes_eqb (canonical_key (fst nv)) (canonical_key n)
                                     && negb (pseudo_name (fst nv)) && negb (is_uncached_header (fst nv))) l))
  /\ (forall n, pseudo_name n = true \/ is_uncached_header n = true -> hdr_values h n = []).
Proof. exact HarImport.nvp_to_header_no_pseudo_no_banned. Qed.
Print Assumptions har_nvp_to_header_no_pseudo_no_banned.

(* resh["Variants"] *)
Theorem har_has_variants_iff : forall e,
  har_has_variants e = true
  <-> exists nv, In nv (h_resh e) /\ pseudo_name (fst nv) = false /\ is_uncached_header (fst nv) = false
                 /\ canonical_key (fst nv) = s2b "Variants".
Proof. exact HarImport.har_has_variants_iff. Qed.
Print Assumptions har_has_variants_iff.

(* ---- E2 : the loop ------------------------------------------------------------- *)
(* har_kept es i : entry number i becomes an exchange.  The rule, exactly as the
   loop implements it (har_rule K es i, with K the kept set itself):
     es[i] = e, e is a GET with 100 <= status <= 999, and
     - no kept entry before i has e's URL, or
     - the LATEST kept entry j < i with e's URL has a Variants header and so has e. *)
Theorem har_kept_rule : forall es i, har_kept es i <-> har_rule (har_kept es) es i.
Proof. exact HarImport.har_kept_rule. Qed.
Print Assumptions har_kept_rule.

(* the rule has one solution *)
Theorem har_kept_unique : forall es (K : nat -> Prop),
  (forall i, K i <-> har_rule K es i) -> forall i, K i <-> har_kept es i.
Proof. exact HarImport.har_kept_unique. Qed.
Print Assumptions har_kept_unique.

Theorem har_kept_same_url_variants : forall es j i ei ej,
  (i < j)%nat -> har_kept es i -> har_kept es j ->
  nth_error es i = Some ei -> nth_error es j = Some ej -> h_url ei = h_url ej ->
  har_has_variants ei = true /\ har_has_variants ej = true.
Proof. exact HarImport.har_kept_same_url_variants. Qed.
Print Assumptions har_kept_same_url_variants.

(* if every body decodes, the result is the list of kept entries in order (idx:
   the kept positions, increasing), each mapped to
   har_exchange e = {url, status, nvp_to_header is_uncached_header resh, decoded body} *)
Theorem har_from_har_spec : forall es,
  (forall e, In e es -> har_body_ok e) ->
  exists idx ents,
    StronglySorted lt idx /\ (forall i, In i idx <-> har_kept es i)
    /\ map (nth_error es) idx = map Some ents
    /\ from_har es [] [] = Ok (map har_exchange ents).
Proof. exact HarImport.from_har_spec. Qed.
Print Assumptions har_from_har_spec.

(* the same with the list computed (har_kept_entries), and its relation to har_kept *)
Theorem har_from_har_spec_fn : forall es,
  (forall e, In e es -> har_body_ok e) ->
  from_har es [] [] = Ok (map har_exchange (har_kept_entries es)).
Proof. exact HarImport.from_har_spec_fn. Qed.
Print Assumptions har_from_har_spec_fn.

Theorem har_kept_entries_idx : forall es,
  StronglySorted lt (har_kept_idx es)
  /\ (forall i, In i (har_kept_idx es) <-> har_kept es i)
  /\ map (nth_error es) (har_kept_idx es) = map Some (har_kept_entries es).
Proof. exact HarImport.har_kept_entries_idx. Qed.
Print Assumptions har_kept_entries_idx.

(* an error exactly when some entry - kept or not - has a body that is not base64 *)
Theorem har_from_har_err_iff : forall es,
  from_har es [] [] = Err
  <-> exists e, In e es /\ h_b64 e = true /\ b64_decode true false (h_text e) = None.
Proof. exact HarImport.from_har_err_iff. Qed.
Print Assumptions har_from_har_err_iff.

Theorem har_from_har_total : forall es, from_har es [] [] <> Panic /\ from_har es [] [] <> Fuel.
Proof. exact HarImport.from_har_total. Qed.
Print Assumptions har_from_har_total.

(* success determines both the premise and the list *)
Theorem har_from_har_ok_inv : forall es xs,
  from_har es [] [] = Ok xs ->
  (forall e, In e es -> har_body_ok e) /\ xs = map har_exchange (har_kept_entries es).
Proof. exact HarImport.from_har_ok_inv. Qed.
Print Assumptions har_from_har_ok_inv.

(* without Variants headers every URL comes out once *)
Theorem har_no_variants_single_urls : forall es,
  (forall e, In e (har_kept_entries es) -> har_has_variants e = false) ->
  NoDup (map bx_url (map har_exchange (har_kept_entries es))).
Proof. exact HarImport.har_no_variants_single_urls. Qed.
Print Assumptions har_no_variants_single_urls.

(* ---- E3 : composition with WriteTo / Read ---------------------------------------- *)
(* har_bundle v p xs = {| b_ver := v; b_primary := p; b_manifest := None; b_sigs := None;
                          b_exchanges := xs; b_taint := false |}  (what the tool builds) *)
Theorem har_write_never_panic : forall v p es xs,
  from_har es [] [] = Ok xs -> b_write (har_bundle v p xs) <> Panic.
Proof. exact HarImport.har_write_never_panic. Qed.
Print Assumptions har_write_never_panic.

Theorem har_artifact_readable : forall v p es xs bs,
  from_har es [] [] = Ok xs ->
  b_write (har_bundle v p xs) = Ok bs -> lenN bs < two63 -> b_write_taint (har_bundle v p xs) = false ->
  b_read (fun _ => true) bs = Ok (norm (har_bundle v p xs)).
Proof. exact HarImport.har_artifact_readable. Qed.
Print Assumptions har_artifact_readable.

(* spelled out; captures without Variants: the exchanges come back sorted by URL *)
Theorem har_artifact_contents : forall v p es xs bs,
  from_har es [] [] = Ok xs ->
  b_write (har_bundle v p xs) = Ok bs -> lenN bs < two63 -> b_write_taint (har_bundle v p xs) = false ->
  xs = map har_exchange (har_kept_entries es)
  /\ exists b', b_read (fun _ => true) bs = Ok b'
     /\ b_ver b' = v /\ b_primary b' = p /\ b_manifest b' = None /\ b_sigs b' = None /\ b_taint b' = false
     /\ b_exchanges b' = b_exchanges (norm (har_bundle v p xs))
     /\ ((forall e, In e (har_kept_entries es) -> har_has_variants e = false) ->
         b_exchanges b' = map xnorm (isort x_ltb xs)).
Proof. exact HarImport.har_artifact_contents. Qed.
Print Assumptions har_artifact_contents.

(* refused or readable: for every capture, version and primary URL the tool either
   refuses (import error on a body; writer error) or emits bytes, and the bytes it
   emits are read back as the normalised kept exchanges.  No third outcome. *)
Theorem har_refused_or_readable : forall v p es,
  (from_har es [] [] = Err /\ exists e, In e es /\ har_body_bad e)
  \/ (let xs := map har_exchange (har_kept_entries es) in
      from_har es [] [] = Ok xs /\
      (b_write (har_bundle v p xs) = Err
       \/ exists bs, b_write (har_bundle v p xs) = Ok bs /\
            (lenN bs < two63 -> b_write_taint (har_bundle v p xs) = false ->
             b_read (fun _ => true) bs = Ok (norm (har_bundle v p xs))))).
Proof. exact HarImport.har_refused_or_readable. Qed.
Print Assumptions har_refused_or_readable.

(* ---- E4 : examples ---------------------------------------------------------------- *)
Definition har_h (n v : string) : bytes * bytes := (s2b n, s2b v).
Definition har_entry (u m : string) (st : Z) (hs : list (bytes * bytes)) (txt : string) (b64 : bool) : hentry :=
  {| h_url := s2b u; h_method := s2b m; h_status := st; h_resh := hs; h_text := s2b txt; h_b64 := b64 |}.

(* 0: GET with a pseudo header, a banned header and a repeated header in two spellings
   1: POST   2: GET with status 1000   3: second GET for URL 0, no Variants
   4: GET with a base64 body (the PNG signature) *)
Definition har_cap : list hentry :=
  [ har_entry "https://example.com/a" "GET" 200
      [har_h ":status" "200"; har_h "content-type" "text/html"; har_h "Set-Cookie" "k=v"; har_h "x-a" "1"; har_h "X-A" "2"]
      "<p>hi</p>" false;
    har_entry "https://example.com/form" "POST" 200 [har_h "content-type" "text/plain"] "posted" false;
    har_entry "https://example.com/odd" "GET" 1000 [har_h "content-type" "text/plain"] "odd" false;
    har_entry "https://example.com/a" "GET" 200 [har_h "content-type" "text/plain"] "second" false;
    har_entry "https://example.com/img" "GET" 200 [har_h "Content-Type" "image/png"] "iVBORw0KGgo=" true ].

Example har_cap_kept : map (har_keptb har_cap) (seq 0 5) = [true; false; false; false; true].
Proof. vm_compute. reflexivity. Qed.

Example har_cap_bodies_ok : forall e, In e har_cap -> har_body_ok e.
Proof.
  intros e H. cbn [In har_cap] in H.
  repeat (destruct H as [H|H]; [subst e; intros B; vm_compute in B |- *; discriminate|]). destruct H.
Qed.

Example har_cap_import :
  from_har har_cap [] [] =
  Ok [ {| bx_url := s2b "https://example.com/a"; bx_status := 200;
          bx_hdr := [(s2b "Content-Type", [s2b "text/html"]); (s2b "X-A", [s2b "1"; s2b "2"])];
          bx_body := s2b "<p>hi</p>" |};
       {| bx_url := s2b "https://example.com/img"; bx_status := 200;
          bx_hdr := [(s2b "Content-Type", [s2b "image/png"])];
          bx_body := [137; 80; 78; 71; 13; 10; 26; 10] |} ].
Proof. vm_compute. reflexivity. Qed.

(* the hypotheses of har_artifact_readable / har_artifact_contents hold of it (b2 and
   b1), and the reader returns the two exchanges (headers normalised: one
   comma-joined value per name, ordered by encoded lower-case name) *)
Definition har_cap_bundle (v : bversion) : bundle :=
  har_bundle v (Some (s2b "https://example.com/a")) (map har_exchange (har_kept_entries har_cap)).

Example har_cap_hyps :
  (exists bs, b_write (har_cap_bundle BV2) = Ok bs /\ lenN bs < two63) /\
  b_write_taint (har_cap_bundle BV2) = false /\
  (exists bs, b_write (har_cap_bundle BV1) = Ok bs /\ lenN bs < two63) /\
  b_write_taint (har_cap_bundle BV1) = false /\
  (forall e, In e (har_kept_entries har_cap) -> har_has_variants e = false).
Proof.
  split; [|split; [|split; [|split]]].
  - destruct (b_write (har_cap_bundle BV2)) as [bs| | |] eqn:E; try (vm_compute in E; discriminate E).
    exists bs. split; [reflexivity|].
    assert (L : lenN bs = 241) by (vm_compute in E; inversion E; vm_compute; reflexivity).
    rewrite L. reflexivity.
  - vm_compute. reflexivity.
  - destruct (b_write (har_cap_bundle BV1)) as [bs| | |] eqn:E; try (vm_compute in E; discriminate E).
    exists bs. split; [reflexivity|].
    assert (L : lenN bs = 233) by (vm_compute in E; inversion E; vm_compute; reflexivity).
    rewrite L. reflexivity.
  - vm_compute. reflexivity.
  - intros e H. vm_compute in H. repeat (destruct H as [H|H]; [subst e; vm_compute; reflexivity|]). destruct H.
Qed.

Example har_cap_readback :
  match b_write (har_cap_bundle BV2) with
  | Ok bs => b_read (fun _ => true) bs
  | _ => Err
  end =
  Ok {| b_ver := BV2; b_primary := Some (s2b "https://example.com/a"); b_manifest := None; b_sigs := None;
        b_exchanges :=
          [ {| bx_url := s2b "https://example.com/a"; bx_status := 200;
               bx_hdr := [(s2b "X-A", [s2b "1,2"]); (s2b "Content-Type", [s2b "text/html"])];
               bx_body := s2b "<p>hi</p>" |};
            {| bx_url := s2b "https://example.com/img"; bx_status := 200;
               bx_hdr := [(s2b "Content-Type", [s2b "image/png"])];
               bx_body := [137; 80; 78; 71; 13; 10; 26; 10] |} ];
        b_taint := false |}.
Proof. vm_compute. reflexivity. Qed.

(* the Variants rule: 0 kept; 1 (same URL, no Variants) dropped; 2 (Variants, and
   the latest kept entry 0 has Variants) kept; 3 kept; 4 dropped although it has
   Variants, because the kept entry 3 of its URL has none.  b1 takes the variant
   set, b2 refuses the repeated URL: a refusal, not a bad artifact. *)
Definition har_capv : list hentry :=
  [ har_entry "https://example.com/v" "GET" 200
      [har_h "variants" "Accept-Language;en;fr"; har_h "variant-key" "en"; har_h "content-type" "text/plain"] "hello" false;
    har_entry "https://example.com/v" "GET" 200 [har_h "content-type" "text/plain"] "no variants" false;
    har_entry "https://example.com/v" "GET" 200
      [har_h "Variants" "Accept-Language;en;fr"; har_h "Variant-Key" "fr"] "bonjour" false;
    har_entry "https://example.com/w" "GET" 200 [] "w1" false;
    har_entry "https://example.com/w" "GET" 200
      [har_h "Variants" "Accept-Language;en;fr"; har_h "Variant-Key" "fr"] "w2" false ].
Definition har_capv_bundle (v : bversion) : bundle :=
  har_bundle v (Some (s2b "https://example.com/v")) (map har_exchange (har_kept_entries har_capv)).

Example har_variants_ex :
  map (har_keptb har_capv) (seq 0 5) = [true; false; true; true; false] /\
  b_write_taint (har_capv_bundle BV1) = false /\
  match b_write (har_capv_bundle BV1) with
  | Ok bs => match b_read (fun _ => true) bs with
             | Ok b' => Some (map (fun x => (bx_url x, bx_body x)) (b_exchanges b'))
             | _ => None end
  | _ => None
  end = Some [ (s2b "https://example.com/v", s2b "hello"); (s2b "https://example.com/v", s2b "bonjour");
               (s2b "https://example.com/w", s2b "w1") ] /\
  b_write (har_capv_bundle BV2) = Err.
Proof. vm_compute. repeat split; reflexivity. Qed.

(* refusals.  A header value with byte 233 passes the import and is refused by the
   writer; a damaged base64 body fails the import - even on a POST entry, which
   would have been dropped. *)
Definition har_cap_latin1 : list hentry :=
  [ {| h_url := s2b "https://example.com/a"; h_method := s2b "GET"; h_status := 200%Z;
       h_resh := [(s2b "x-name", [99; 233])]; h_text := []; h_b64 := false |} ].

Example har_latin1_refused :
  from_har har_cap_latin1 [] [] =
  Ok [ {| bx_url := s2b "https://example.com/a"; bx_status := 200;
          bx_hdr := [(s2b "X-Name", [[99; 233]])]; bx_body := [] |} ] /\
  b_write (har_bundle BV2 None (map har_exchange (har_kept_entries har_cap_latin1))) = Err /\
  b_write (har_bundle BV1 (Some (s2b "https://example.com/a"))
             (map har_exchange (har_kept_entries har_cap_latin1))) = Err.
Proof. vm_compute. repeat split; reflexivity. Qed.

Example har_bad_body_ex :
  from_har [har_entry "https://example.com/form" "POST" 200 [] "iVBORw0KGgo" true] [] [] = Err /\
  from_har [har_entry "https://example.com/form" "POST" 200 [] "iVBORw0KGgo=" true] [] [] = Ok [] /\
  from_har (har_cap ++ [har_entry "https://example.com/z" "GET" 200 [] "a?b=" true]) [] [] = Err.
Proof. vm_compute. repeat split; reflexivity. Qed.

(* nvpToHeader on the first entry's headers *)
Example har_nvp_ex :
  let h := nvp_to_header is_uncached_header (h_resh (har_entry "" "" 0
             [har_h ":status" "200"; har_h "content-type" "text/html"; har_h "Set-Cookie" "k=v"; har_h "x-a" "1"; har_h "X-A" "2"]
             "" false)) in
  h = [(s2b "Content-Type", [s2b "text/html"]); (s2b "X-A", [s2b "1"; s2b "2"])] /\
  hdr_values h (s2b "x-a") = [s2b "1"; s2b "2"] /\ hdr_values h (s2b "set-cookie") = [] /\
  hdr_values h (s2b ":status") = [].
Proof. vm_compute. repeat split; reflexivity. Qed.
