(* C20 - command-line tools compose: gen-bundle's directory walk.

   "a bundle produced by gen-bundle from a directory ... contains, for every
   regular file, exactly one exchange whose URL is the base URL joined with the
   file's percent-encoded relative path and whose body is the file's bytes (a
   file named index.html being delivered at its directory's slash URL, with its
   own URL redirecting there) ... No file name ... makes a tool emit an artifact
   the downstream tool rejects."

   Model: Model/PathUrl.v (go/bundle/cmd/gen-bundle/fromdir.go: convertPathToURL
   puts the '/'-separated relative path into url.URL{Path: rel} and resolves it
   against the base URL, so net/url percent-escapes it; http.ServeFile is
   summarised by its contract), Model/UrlRef.v (what the bundle reader/writer
   demand of an index key: url_ref u = ROk true false false, i.e. parses,
   absolute, no fragment, no userinfo).
   Proofs: Proofs/PathUrl{Escape,Base,Tree}.v.  Statements only here.

   Part A  escape_path: invertible (hence injective), output alphabet, '%'
           always followed by two hex digits, '/' kept and never created.
   Part B  base_dir: exact shape of its answers (and converse), url_ref on
           "directory URL ++ escaped path".
   Part C  expected_exchanges: membership characterisation, index.html rules,
           exactly one exchange per regular file, every URL accepted.
   Part D  examples by vm_compute.

   FINDINGS
   - [dir_url_double_slash_refuted]: base_dir admits bases whose path begins
     with "//" (plain_path_char allows '/'), e.g. https://h//x/y ; for these
     url_ref answers RUnknown on the directory URL and on every file URL (path
     starting "//" right after the authority is outside url_ref's decided
     class).  The exact side condition is "dir does not begin with //",
     equivalently [url_ref bd = ROk true false false] ([base_dir_url_ref] gives
     the iff in both directions).  Go itself is fine there (ResolveReference
     gives https://h//x/a.txt); the gap is in the decided class only.
   - [leading_slash_refuted], [root_slash_refuted]: a relative path beginning
     with '/' (cannot come out of filepath.Rel) or the root written with a
     trailing slash leave the decided class when the base directory is "/".
   - MODEL NOTE [base_dir_ex]: plain_path_char has no '.', so a base such as
     https://example.com/site/page.html is outside base_dir's class (None) and
     all theorems with the hypothesis [base_dir base = Some bd] say nothing
     about it; the examples below use https://example.com/site/page .  (Go:
     the last segment is dropped just the same, base dir = .../site/ .)
   - MODEL DEVIATION [model_star_note]: Go's URL.EscapedPath() special-cases
     Path == "*" and returns "*" unescaped (golang issue 11202).  So for the one
     relative path "*" (a file called * in the root directory) gen-bundle emits
     <base dir>* whereas the model's escape_path gives %2A.  (go1.23.5:
     url.Parse("https://example.com/site/page.html").ResolveReference(
     &url.URL{Path:"*"}).String() = "https://example.com/site/*" ; "sub/*" and
     "a*" give %2A as modelled.)  Both URLs are accepted by url_ref; injectivity
     is not endangered ("%2A" is the escape of no other name); the round trip
     and all theorems below are about the model's escape_path. *)
From Coq Require Import Lia.
From WP Require Import Base.Prelude Model.Url Model.UrlRef Model.Cbor Model.PathUrl.
From WP Require Import Proofs.BaseLemmas Proofs.PathUrlEscape Proofs.PathUrlBase Proofs.PathUrlTree.
Open Scope N_scope.

(* ======================= Part A : escape_path =========================== *)

(* A1. unescaping the escaped path gives the path back: all byte strings *)
Theorem escape_roundtrip (p : bytes) : wfb p -> unescape_path (escape_path p) = Some p.
Proof. exact (PathUrlEscape.escape_roundtrip p). Qed.
Print Assumptions escape_roundtrip.

Theorem escape_injective (p q : bytes) :
  wfb p -> wfb q -> escape_path p = escape_path q -> p = q.
Proof. exact (PathUrlEscape.escape_injective p q). Qed.
Print Assumptions escape_injective.

Example escape_roundtrip_ex :
  wfb (s2b "h#frag a?b%41.txt" ++ [195; 169; 255; 0]) /\
  unescape_path (escape_path (s2b "h#frag a?b%41.txt" ++ [195; 169; 255; 0]))
  = Some (s2b "h#frag a?b%41.txt" ++ [195; 169; 255; 0]).
Proof. split; [apply wfbb_wfb|]; vm_compute; reflexivity. Qed.

(* A2. the output: 7-bit, printable, no '#', '?', space, DEL; precisely, every
   character is one that path_safe lets through (letters, digits,
   - _ . ~ $ & + , / : ; = @) or '%'; every '%' is followed by two hex digits;
   every character is one url.URL.String() leaves alone *)
Theorem escape_clean (p : bytes) :
  wfb p ->
  Forall (fun c => c < 128 /\ c <> 35 (* # *) /\ c <> 63 (* ? *) /\ c <> 32 /\ 32 < c /\ c <> 127)
         (escape_path p).
Proof. exact (PathUrlEscape.escape_clean p). Qed.
Print Assumptions escape_clean.

Theorem escape_alphabet (p : bytes) :
  wfb p -> Forall (fun c => path_safe c = true \/ c = 37) (escape_path p).
Proof. exact (PathUrlEscape.escape_alphabet p). Qed.
Print Assumptions escape_alphabet.

Theorem path_safe_chars (c : N) :
  path_safe c = true <->
  is_alpha_u c = true \/ is_digit_u c = true \/
  In c [45; 95; 46; 126; 36; 38; 43; 44; 47; 58; 59; 61; 64].
Proof.
  unfold path_safe. rewrite !orb_true_iff, existsb_exists. split.
  - intros [[H|H]|[x [Hx E]]]; auto. apply N.eqb_eq in E. subst x. auto.
  - intros [H|[H|H]]; auto. right. exists c. split; [exact H|apply N.eqb_refl].
Qed.
Print Assumptions path_safe_chars.

Theorem escape_escapes_ok (p : bytes) : wfb p -> escapes_ok (escape_path p) = true.
Proof. exact (PathUrlEscape.escape_escapes_ok p). Qed.
Print Assumptions escape_escapes_ok.

Theorem escape_stable (p : bytes) : wfb p -> forallb stable_char (escape_path p) = true.
Proof. exact (PathUrlEscape.escape_stable p). Qed.
Print Assumptions escape_stable.

Theorem escape_no_ctl (p : bytes) : wfb p -> existsb is_ctl (escape_path p) = false.
Proof. exact (PathUrlEscape.escape_no_ctl p). Qed.
Print Assumptions escape_no_ctl.

(* A3. '/' is never escaped, escaping works component by component, and an
   escaped component contains no new '/' *)
Theorem escape_app (a b : bytes) : escape_path (a ++ b) = escape_path a ++ escape_path b.
Proof. exact (PathUrlEscape.escape_path_app a b). Qed.
Print Assumptions escape_app.

Theorem escape_preserves_slashes (a b : bytes) :
  escape_path (a ++ [47] ++ b) = escape_path a ++ [47] ++ escape_path b.
Proof. exact (PathUrlEscape.escape_preserves_slashes a b). Qed.
Print Assumptions escape_preserves_slashes.

Theorem escape_no_new_slash (p : bytes) : wfb p -> ~ In 47 p -> ~ In 47 (escape_path p).
Proof. exact (PathUrlEscape.escape_no_new_slash p). Qed.
Print Assumptions escape_no_new_slash.

Example escape_no_new_slash_ex :
  wfb (s2b "a b%2F") /\ ~ In 47 (s2b "a b%2F") /\ escape_path (s2b "a b%2F") = s2b "a%20b%252F".
Proof.
  split; [apply wfbb_wfb; reflexivity|]. split; [|reflexivity].
  apply none_sat_not_in. reflexivity.
Qed.

(* ======================= Part B : base_dir, url_ref ===================== *)

(* B1. what base_dir answers: lower(scheme) "://" authority dir, where the
   scheme is what getScheme accepts (a letter, then letters/digits/+-.), the
   authority is hostchars[":"digits], non-empty, and dir begins and ends with
   '/' and consists of letters, digits, - _ ~ /.  dir is the base's path up to
   its last '/', or "/" when the base has no path: the last segment is dropped. *)
Theorem base_dir_shape (base bd : bytes) :
  base_dir base = Some bd ->
  exists sch auth dir,
    bd = lower sch ++ s2b "://" ++ auth ++ dir /\
    (forallb scheme_char sch = true /\ exists c t, sch = c :: t /\ is_alpha_u c = true) /\
    authority_known auth = true /\ auth <> [] /\ ~ In 47 auth /\
    ((exists d, dir = 47 :: d) /\ (exists d, dir = d ++ [47]) /\ forallb plain_path_char dir = true) /\
    ((base = sch ++ s2b "://" ++ auth /\ dir = [47]) \/
     (exists t, base = sch ++ s2b "://" ++ auth ++ dir ++ t /\ ~ In 47 t)).
Proof. exact (PathUrlBase.base_dir_shape base bd). Qed.
Print Assumptions base_dir_shape.

(* ... and conversely *)
Theorem base_dir_complete (sch auth dir t : bytes) :
  (forallb scheme_char sch = true /\ exists c t, sch = c :: t /\ is_alpha_u c = true) ->
  authority_known auth = true -> auth <> [] ->
  ((exists d, dir = 47 :: d) /\ (exists d, dir = d ++ [47]) /\ forallb plain_path_char dir = true) ->
  forallb plain_path_char t = true -> ~ In 47 t ->
  base_dir (sch ++ s2b "://" ++ auth ++ dir ++ t) = Some (lower sch ++ s2b "://" ++ auth ++ dir).
Proof. exact (PathUrlBase.base_dir_complete sch auth dir t). Qed.
Print Assumptions base_dir_complete.

Example base_dir_ex :
  base_dir (s2b "HTTPS://example.com:8443/site/page") = Some (s2b "https://example.com:8443/site/") /\
  base_dir (s2b "https://example.com/site/page.html") = None /\   (* '.' in the base path: see header *)
  base_dir (s2b "https://example.com") = Some (s2b "https://example.com/") /\
  base_dir (s2b "https://example.com/a/b/") = Some (s2b "https://example.com/a/b/") /\
  base_dir (s2b "https://example.com/a.b/c") = None /\      (* '.' is outside the decided class *)
  base_dir (s2b "https:///x") = None /\
  base_dir (s2b "/relative") = None.
Proof. vm_compute. repeat split. Qed.

(* B2. url_ref on anything of that shape followed by stable characters with
   well-formed escapes: all schemes, authorities with a port included *)
Theorem url_ref_shape (sch auth d x : bytes) :
  (forallb scheme_char sch = true /\ exists c t, sch = c :: t /\ is_alpha_u c = true) ->
  authority_known auth = true -> auth <> [] ->
  forallb plain_path_char d = true ->
  forallb stable_char x = true -> escapes_ok x = true ->
  url_ref (lower sch ++ s2b "://" ++ auth ++ (47 :: d) ++ x) =
  if starts47 (d ++ x) then RUnknown else ROk true false false.
Proof. exact (PathUrlBase.url_ref_shape sch auth d x). Qed.
Print Assumptions url_ref_shape.

(* B3. base_dir's answer and url_ref's verdict on it: accepted unless dir
   begins with "//", in which case (and only then) RUnknown *)
Theorem base_dir_url_ref (base bd : bytes) :
  base_dir base = Some bd ->
  exists sch auth dir,
    bd = lower sch ++ s2b "://" ++ auth ++ dir /\
    (forallb scheme_char sch = true /\ exists c t, sch = c :: t /\ is_alpha_u c = true) /\
    authority_known auth = true /\ auth <> [] /\ ~ In 47 auth /\
    ((exists d, dir = 47 :: d) /\ (exists d, dir = d ++ [47]) /\ forallb plain_path_char dir = true) /\
    (url_ref bd = ROk true false false <-> (forall t, dir <> 47 :: 47 :: t)) /\
    (url_ref bd = RUnknown <-> (exists t, dir = 47 :: 47 :: t)).
Proof. exact (PathUrlBase.base_dir_url_ref base bd). Qed.
Print Assumptions base_dir_url_ref.

(* B4. the index keys gen-bundle produces are what the bundle reader demands:
   for the base directory URL in the decided class, every wfb relative path
   not beginning with '/' gives an accepted file URL and directory URL *)
Theorem dir_url_accepted (base bd r : bytes) :
  base_dir base = Some bd ->
  url_ref bd = ROk true false false ->
  wfb r -> (forall t, r <> 47 :: t) ->
  url_ref (bd ++ escape_path r) = ROk true false false /\
  (r <> [] -> url_ref (bd ++ escape_path r ++ [47]) = ROk true false false).
Proof. exact (PathUrlBase.dir_url_accepted base bd r). Qed.
Print Assumptions dir_url_accepted.

Example dir_url_accepted_ex :
  let base := s2b "https://example.com:8443/site/page" in
  let bd := s2b "https://example.com:8443/site/" in
  let r := s2b "sub dir/h#frag?.txt" ++ [195; 169] in
  base_dir base = Some bd /\ url_ref bd = ROk true false false /\
  wfb r /\ (forall t, r <> 47 :: t) /\
  bd ++ escape_path r = s2b "https://example.com:8443/site/sub%20dir/h%23frag%3F.txt%C3%A9" /\
  url_ref (bd ++ escape_path r) = ROk true false false.
Proof.
  cbv zeta. split; [reflexivity|]. split; [reflexivity|].
  split; [apply wfbb_wfb; reflexivity|]. split; [intros t E; discriminate E|].
  split; reflexivity.
Qed.

(* the unescaped name would not do: '#' starts a fragment, which the reader rejects *)
Example unescaped_name_rejected :
  url_ref (s2b "https://example.com/site/h#frag.txt") = ROk true true false.
Proof. reflexivity. Qed.

(* corner cases that fall outside url_ref's decided class *)
Theorem dir_url_double_slash_refuted :
  exists base bd r,
    base_dir base = Some bd /\ wfb r /\ (forall t, r <> 47 :: t) /\
    url_ref bd = RUnknown /\ url_ref (bd ++ escape_path r) = RUnknown.
Proof.
  exists (s2b "https://h//x/y"), (s2b "https://h//x/"), (s2b "a.txt").
  split; [reflexivity|]. split; [apply wfbb_wfb; reflexivity|].
  split; [intros t E; discriminate E|]. split; reflexivity.
Qed.
Print Assumptions dir_url_double_slash_refuted.

Theorem leading_slash_refuted :
  exists base bd r,
    base_dir base = Some bd /\ url_ref bd = ROk true false false /\ wfb r /\
    url_ref (bd ++ escape_path r) = RUnknown.
Proof.
  exists (s2b "https://h/"), (s2b "https://h/"), (s2b "/a").
  split; [reflexivity|]. split; [reflexivity|]. split; [apply wfbb_wfb; reflexivity|reflexivity].
Qed.
Print Assumptions leading_slash_refuted.

Theorem root_slash_refuted :
  exists base bd,
    base_dir base = Some bd /\ url_ref bd = ROk true false false /\
    url_ref (bd ++ escape_path [] ++ [47]) = RUnknown.
Proof.
  exists (s2b "https://h/"), (s2b "https://h/"). repeat split.
Qed.
Print Assumptions root_slash_refuted.

(* ======================= Part C : the exchanges ========================== *)
(* PathUrlTree.dir_url bd rel   = bd for the root (rel = []), else bd ++ escape_path rel ++ "/"
   PathUrlTree.index_path d     = "index.html" for the root, else d ++ "/index.html"
   PathUrlTree.ex_url (u, s, b) = u *)

(* C1. (a) a regular file not named index.html: (URL, 200, its bytes);
       (b) a regular file named index.html: (its URL, 301, no body);
       (c) a directory that directly contains a regular file index.html:
           (slash URL, 200, that file's bytes);
       (d) nothing else *)
Theorem expected_exchanges_spec (base bd : bytes) (tree : list fentry) (xs : list (bytes * Z * bytes)) :
  expected_exchanges base tree = Some xs -> base_dir base = Some bd ->
  forall x, In x xs <->
    (exists f, In f tree /\ f_dir f = false /\ basename (f_rel f) [] <> index_html /\
               x = (bd ++ escape_path (f_rel f), 200%Z, f_content f)) \/
    (exists f, In f tree /\ f_dir f = false /\ basename (f_rel f) [] = index_html /\
               x = (bd ++ escape_path (f_rel f), 301%Z, [])) \/
    (exists f content, In f tree /\ f_dir f = true /\ dir_index tree (f_rel f) = Some content /\
               x = (dir_url bd (f_rel f), 200%Z, content)).
Proof. exact (PathUrlTree.expected_exchanges_spec base bd tree xs). Qed.
Print Assumptions expected_exchanges_spec.

(* when there is an answer at all *)
Theorem expected_exchanges_defined (base : bytes) (tree : list fentry) (xs : list (bytes * Z * bytes)) :
  expected_exchanges base tree = Some xs <->
  exists bd, base_dir base = Some bd /\
             (forall f, In f tree -> has_dotdot_elem (f_rel f) [] = false /\ utf8_valid (f_rel f) = true) /\
             xs = flat_map (contrib bd tree) tree.
Proof. exact (PathUrlTree.expected_unfold base tree xs). Qed.
Print Assumptions expected_exchanges_defined.

(* C2. dir_index: the content is that of a regular file at d/index.html; with
   distinct relative paths, of THE regular file there *)
Theorem dir_index_sound (tree : list fentry) (d content : bytes) :
  dir_index tree d = Some content ->
  exists g, In g tree /\ f_dir g = false /\ f_rel g = index_path d /\ f_content g = content.
Proof. exact (PathUrlTree.dir_index_sound tree d content). Qed.
Print Assumptions dir_index_sound.

Theorem dir_index_complete (tree : list fentry) (d : bytes) (g : fentry) :
  NoDup (map f_rel tree) ->
  In g tree -> f_dir g = false -> f_rel g = index_path d ->
  dir_index tree d = Some (f_content g).
Proof. exact (PathUrlTree.dir_index_complete tree d g). Qed.
Print Assumptions dir_index_complete.

(* that file is itself "named index.html" (so its own exchange is the 301 of
   (b)), and its own URL is the directory's slash URL ++ "index.html" *)
Theorem index_file_named_index (d : bytes) : basename (index_path d) [] = index_html.
Proof. exact (PathUrlTree.index_path_basename d). Qed.
Print Assumptions index_file_named_index.

Theorem index_file_url (bd d : bytes) :
  bd ++ escape_path (index_path d) = dir_url bd d ++ index_html.
Proof. exact (PathUrlTree.index_file_url bd d). Qed.
Print Assumptions index_file_url.

(* C3. (e) distinct relative paths give distinct file URLs *)
Theorem file_urls_injective (bd p q : bytes) :
  wfb p -> wfb q -> bd ++ escape_path p = bd ++ escape_path q -> p = q.
Proof. exact (PathUrlTree.file_urls_injective bd p q). Qed.
Print Assumptions file_urls_injective.

Theorem file_urls_nodup (bd : bytes) (tree : list fentry) :
  NoDup (map f_rel tree) -> (forall f, In f tree -> wfb (f_rel f)) ->
  NoDup (map (fun f => bd ++ escape_path (f_rel f)) (filter (fun f => negb (f_dir f)) tree)).
Proof. exact (PathUrlTree.file_urls_nodup bd tree). Qed.
Print Assumptions file_urls_nodup.

(* relative paths as filepath.Walk/Rel produce them *)
Definition tree_ok (tree : list fentry) : Prop :=
  NoDup (map f_rel tree) /\
  forall f, In f tree -> (forall t, f_rel f <> t ++ [47]) /\ (f_dir f = false -> f_rel f <> []).

(* all URLs of the bundle are pairwise distinct (files and directories) *)
Theorem expected_urls_nodup (base : bytes) (tree : list fentry) (xs : list (bytes * Z * bytes)) :
  expected_exchanges base tree = Some xs -> tree_ok tree ->
  NoDup (map (fun x => fst (fst x)) xs).
Proof. exact (PathUrlTree.expected_urls_nodup base tree xs). Qed.
Print Assumptions expected_urls_nodup.

(* exactly one exchange per regular file: it sits at one position of the list
   and no other exchange has its URL *)
Theorem exactly_one_exchange_per_file
        (base bd : bytes) (tree : list fentry) (xs : list (bytes * Z * bytes)) (f : fentry) :
  expected_exchanges base tree = Some xs -> base_dir base = Some bd -> tree_ok tree ->
  In f tree -> f_dir f = false ->
  exists l1 x l2,
    xs = l1 ++ x :: l2 /\
    x = (if bytes_eqb (basename (f_rel f) []) index_html
         then (bd ++ escape_path (f_rel f), 301%Z, [])
         else (bd ++ escape_path (f_rel f), 200%Z, f_content f)) /\
    (forall y, In y (l1 ++ l2) -> fst (fst y) <> bd ++ escape_path (f_rel f)).
Proof. exact (PathUrlTree.exactly_one_exchange_per_file base bd tree xs f). Qed.
Print Assumptions exactly_one_exchange_per_file.

(* C4. no file name makes gen-bundle emit a URL the reader rejects: whenever
   the model answers (names are valid UTF-8 without ".." elements), every URL
   is accepted *)
Theorem expected_urls_accepted (base bd : bytes) (tree : list fentry) (xs : list (bytes * Z * bytes)) :
  expected_exchanges base tree = Some xs -> base_dir base = Some bd ->
  url_ref bd = ROk true false false ->
  (forall f, In f tree -> forall t, f_rel f <> 47 :: t) ->
  Forall (fun x => url_ref (fst (fst x)) = ROk true false false) xs.
Proof. exact (PathUrlTree.expected_urls_accepted base bd tree xs). Qed.
Print Assumptions expected_urls_accepted.

(* ======================= Part D : examples =============================== *)
Definition file (name content : string) : fentry :=
  {| f_rel := s2b name; f_dir := false; f_content := s2b content |}.
Definition dir (name : string) : fentry :=
  {| f_rel := s2b name; f_dir := true; f_content := [] |}.

Definition base_ex : bytes := s2b "https://example.com/site/page".

(* awkward names; the base's last path segment (page) is dropped *)
Definition names_tree : list fentry :=
  [ dir ""; file "h#frag.txt" "1"; file "a?b" "2"; file "p%41" "3"; file "b c.html" "4";
    {| f_rel := [195; 169] ++ s2b ".txt"; f_dir := false; f_content := s2b "5" |};   (* e-acute *)
    file "x:y" "6" ].

Example names_exchanges :
  expected_exchanges base_ex names_tree =
  Some [ (s2b "https://example.com/site/h%23frag.txt", 200%Z, s2b "1");
         (s2b "https://example.com/site/a%3Fb", 200%Z, s2b "2");
         (s2b "https://example.com/site/p%2541", 200%Z, s2b "3");
         (s2b "https://example.com/site/b%20c.html", 200%Z, s2b "4");
         (s2b "https://example.com/site/%C3%A9.txt", 200%Z, s2b "5");
         (s2b "https://example.com/site/x:y", 200%Z, s2b "6") ].
Proof. vm_compute. reflexivity. Qed.

Example names_accepted :
  match expected_exchanges base_ex names_tree with
  | Some xs => forallb (fun x => match url_ref (fst (fst x)) with ROk true false false => true | _ => false end) xs
  | None => false
  end = true.
Proof. vm_compute. reflexivity. Qed.

(* root index.html and sub/index.html *)
Definition index_tree : list fentry :=
  [ dir ""; file "index.html" "ROOT"; dir "empty"; dir "sub";
    file "sub/a.txt" "A"; file "sub/index.html" "SUB" ].

Example index_exchanges :
  expected_exchanges base_ex index_tree =
  Some [ (s2b "https://example.com/site/", 200%Z, s2b "ROOT");
         (s2b "https://example.com/site/index.html", 301%Z, []);
         (s2b "https://example.com/site/sub/", 200%Z, s2b "SUB");
         (s2b "https://example.com/site/sub/a.txt", 200%Z, s2b "A");
         (s2b "https://example.com/site/sub/index.html", 301%Z, []) ].
Proof. vm_compute. reflexivity. Qed.

(* the hypotheses of C3/C4 hold of that tree *)
Example index_tree_ok : tree_ok index_tree.
Proof.
  split.
  - repeat constructor; cbn [In map index_tree f_rel dir file];
      intros H; repeat (destruct H as [H|H]; [vm_compute in H; discriminate H|]); exact H.
  - intros f Hf. cbn [In index_tree] in Hf.
    repeat (destruct Hf as [Hf|Hf];
            [subst f; split;
             [intros t E; apply (f_equal (@rev N)) in E; rewrite rev_app_distr in E;
              vm_compute in E; discriminate E
             |intros E; try discriminate E; intros E'; discriminate E']|]).
    destruct Hf.
Qed.

Example index_tree_rel_ok : forall f, In f index_tree -> forall t, f_rel f <> 47 :: t.
Proof.
  intros f Hf t E. cbn [In index_tree] in Hf.
  repeat (destruct Hf as [Hf|Hf]; [subst f; vm_compute in E; discriminate E|]). destruct Hf.
Qed.

(* names outside the decided domain: http.ServeFile refuses ".." elements,
   http.Dir refuses names that are not UTF-8 *)
Example dotdot_undecided : expected_exchanges base_ex [dir ""; file "a/../b" "x"] = None.
Proof. reflexivity. Qed.
Example non_utf8_undecided :
  expected_exchanges base_ex [dir ""; {| f_rel := [255]; f_dir := false; f_content := [] |}] = None.
Proof. reflexivity. Qed.

(* the model's escape of the one-character path "*" (Go gives "*", see header) *)
Example model_star_note : escape_path (s2b "*") = s2b "%2A" /\ escape_path (s2b "sub/*") = s2b "sub/%2A".
Proof. split; reflexivity. Qed.
