(* C12 - truncation ("a source that stops early") is never mistaken for a different value: every cut inside a CBOR item is refused.
   Statements only; proofs in Proofs/Truncation*.v.  Tr f (Proofs/TruncationBase.v): a stream parser is
   truncation-exact when a success consumed a definite head h, the answer does not depend on what follows h,
   and every strict prefix of h is refused.  consumed bs rest = |bs| - |rest|. *)
From Coq Require Import Lia.
From WP Require Import Base.Prelude Model.Cbor Model.Http Model.CertChain Model.Bundle Model.Sxg.
From WP Require Import Spec.BundleRead.
From WP Require Import Proofs.BaseLemmas Proofs.CborDecode Proofs.CertChainWrite
  Proofs.BundleReadLayout Proofs.BundleRoundtrip Proofs.BundleRoundtripNorm
  Proofs.SxgReadDefs.
From WP Require Proofs.TruncationBase Proofs.TruncationCertChain Proofs.TruncationSxg
  Proofs.TruncationBundleRead Proofs.TruncationBundle.
Open Scope N_scope.

Definition consumed (bs rest : bytes) : nat := (List.length bs - List.length rest)%nat.
(* ==== 1. the CBOR decoder (C12) ========================================================= *)
(* a cut anywhere inside the item the call consumed: refused *)
Theorem decode_uint_truncated : forall bs n rest p,
  decode_uint bs = Ok (n, rest) -> (p < consumed bs rest)%nat -> decode_uint (firstn p bs) = Err.
Proof. exact TruncationBase.decode_uint_truncated. Qed.
Print Assumptions decode_uint_truncated.

Theorem decode_bytes_truncated : forall bs s rest p,
  decode_bytes bs = Ok (s, rest) -> (p < consumed bs rest)%nat -> decode_bytes (firstn p bs) = Err.
Proof. exact TruncationBase.decode_bytes_truncated. Qed.
Print Assumptions decode_bytes_truncated.

Theorem decode_text_truncated : forall bs s rest p,
  decode_text bs = Ok (s, rest) -> (p < consumed bs rest)%nat -> decode_text (firstn p bs) = Err.
Proof. exact TruncationBase.decode_text_truncated. Qed.
Print Assumptions decode_text_truncated.

Theorem decode_array_header_truncated : forall bs n rest p,
  decode_array_header bs = Ok (n, rest) -> (p < consumed bs rest)%nat ->
  decode_array_header (firstn p bs) = Err.
Proof. exact TruncationBase.decode_array_header_truncated. Qed.
Print Assumptions decode_array_header_truncated.

Theorem decode_map_header_truncated : forall bs n rest p,
  decode_map_header bs = Ok (n, rest) -> (p < consumed bs rest)%nat ->
  decode_map_header (firstn p bs) = Err.
Proof. exact TruncationBase.decode_map_header_truncated. Qed.
Print Assumptions decode_map_header_truncated.

(* the complement: the item complete, the cut behind it - the same value, and the
   unread rest is what is left of it *)
Theorem decode_uint_cut_behind : forall bs n rest p,
  decode_uint bs = Ok (n, rest) -> (consumed bs rest <= p)%nat ->
  decode_uint (firstn p bs) = Ok (n, firstn (p - consumed bs rest) rest).
Proof. exact TruncationBase.decode_uint_cut_behind. Qed.
Print Assumptions decode_uint_cut_behind.

Theorem decode_bytes_cut_behind : forall bs s rest p,
  decode_bytes bs = Ok (s, rest) -> (consumed bs rest <= p)%nat ->
  decode_bytes (firstn p bs) = Ok (s, firstn (p - consumed bs rest) rest).
Proof. exact TruncationBase.decode_bytes_cut_behind. Qed.
Print Assumptions decode_bytes_cut_behind.

Theorem decode_text_cut_behind : forall bs s rest p,
  decode_text bs = Ok (s, rest) -> (consumed bs rest <= p)%nat ->
  decode_text (firstn p bs) = Ok (s, firstn (p - consumed bs rest) rest).
Proof. exact TruncationBase.decode_text_cut_behind. Qed.
Print Assumptions decode_text_cut_behind.

Theorem decode_array_header_cut_behind : forall bs n rest p,
  decode_array_header bs = Ok (n, rest) -> (consumed bs rest <= p)%nat ->
  decode_array_header (firstn p bs) = Ok (n, firstn (p - consumed bs rest) rest).
Proof. exact TruncationBase.decode_array_header_cut_behind. Qed.
Print Assumptions decode_array_header_cut_behind.

Theorem decode_map_header_cut_behind : forall bs n rest p,
  decode_map_header bs = Ok (n, rest) -> (consumed bs rest <= p)%nat ->
  decode_map_header (firstn p bs) = Ok (n, firstn (p - consumed bs rest) rest).
Proof. exact TruncationBase.decode_map_header_cut_behind. Qed.
Print Assumptions decode_map_header_cut_behind.

(* [consumed] counts a real head of the input: bs = h ++ rest, |h| = consumed, and
   the answer does not depend on what follows h  (one statement per call) *)
Theorem decode_uint_consumed_head : forall bs n rest,
  decode_uint bs = Ok (n, rest) ->
  exists h, bs = h ++ rest /\ List.length h = consumed bs rest /\
            forall x, decode_uint (h ++ x) = Ok (n, x).
Proof. exact (TruncationBase.consumed_head _ TruncationBase.Tr_decode_uint). Qed.
Print Assumptions decode_uint_consumed_head.

Theorem decode_bytes_consumed_head : forall bs s rest,
  decode_bytes bs = Ok (s, rest) ->
  exists h, bs = h ++ rest /\ List.length h = consumed bs rest /\
            forall x, decode_bytes (h ++ x) = Ok (s, x).
Proof. exact (TruncationBase.consumed_head _ TruncationBase.Tr_decode_bytes). Qed.
Print Assumptions decode_bytes_consumed_head.

Theorem decode_text_consumed_head : forall bs s rest,
  decode_text bs = Ok (s, rest) ->
  exists h, bs = h ++ rest /\ List.length h = consumed bs rest /\
            forall x, decode_text (h ++ x) = Ok (s, x).
Proof. exact (TruncationBase.consumed_head _ TruncationBase.Tr_decode_text). Qed.
Print Assumptions decode_text_consumed_head.

Theorem decode_array_header_consumed_head : forall bs n rest,
  decode_array_header bs = Ok (n, rest) ->
  exists h, bs = h ++ rest /\ List.length h = consumed bs rest /\
            forall x, decode_array_header (h ++ x) = Ok (n, x).
Proof. exact (TruncationBase.consumed_head _ TruncationBase.Tr_decode_array_header). Qed.
Print Assumptions decode_array_header_consumed_head.

Theorem decode_map_header_consumed_head : forall bs n rest,
  decode_map_header bs = Ok (n, rest) ->
  exists h, bs = h ++ rest /\ List.length h = consumed bs rest /\
            forall x, decode_map_header (h ++ x) = Ok (n, x).
Proof. exact (TruncationBase.consumed_head _ TruncationBase.Tr_decode_map_header). Qed.
Print Assumptions decode_map_header_consumed_head.

(* what the encoder wrote, cut anywhere inside: refused *)
Theorem enc_uint_truncated : forall n rest p,
  n < two64 -> (p < List.length (enc_uint n))%nat ->
  decode_uint (firstn p (enc_uint n ++ rest)) = Err.
Proof. exact TruncationBase.enc_uint_truncated. Qed.
Print Assumptions enc_uint_truncated.

Theorem enc_bytes_truncated : forall s rest p,
  lenN s < two63 -> (p < List.length (enc_bytes s))%nat ->
  decode_bytes (firstn p (enc_bytes s ++ rest)) = Err.
Proof. exact TruncationBase.enc_bytes_truncated. Qed.
Print Assumptions enc_bytes_truncated.

Theorem enc_text_truncated : forall s out rest p,
  lenN s < two63 -> enc_text s = Ok out -> (p < List.length out)%nat ->
  decode_text (firstn p (out ++ rest)) = Err.
Proof. exact TruncationBase.enc_text_truncated. Qed.
Print Assumptions enc_text_truncated.

Definition cuts (bs : bytes) : list nat := seq 0 (List.length bs).
Definition is_err {A} (r : R A) : bool := match r with Err => true | _ => false end.
(* C12: text "EUR sign" followed by one more byte; a 300-byte string (2-byte length) *)
Example ex_cbor_hyps :
  decode_text ([99; 226; 130; 172] ++ [0]) = Ok ([226; 130; 172], [0]) /\
  consumed ([99; 226; 130; 172] ++ [0]) [0] = 4%nat /\
  forallb (fun p => is_err (decode_text (firstn p ([99; 226; 130; 172] ++ [0])))) [0; 1; 2; 3]%nat = true /\
  decode_text (firstn 4 ([99; 226; 130; 172] ++ [0])) = Ok ([226; 130; 172], []) /\
  decode_uint [25; 1; 0; 7] = Ok (256, [7]) /\ consumed [25; 1; 0; 7] [7] = 3%nat /\
  decode_uint [25; 1] = Err /\ decode_uint [25] = Err /\ decode_uint [] = Err /\
  decode_array_header [152; 30; 1] = Ok (30, [1]) /\ decode_array_header [152] = Err /\
  decode_map_header [185; 1; 0] = Ok (256, []) /\ decode_map_header [185; 1] = Err /\
  (let s := repeat 7 300 in
   decode_bytes (enc_bytes s) = Ok (s, []) /\ lenN s < two63 /\
   forallb (fun p => is_err (decode_bytes (firstn p (enc_bytes s)))) (cuts (enc_bytes s)) = true).
Proof. vm_compute. repeat split. Qed.

