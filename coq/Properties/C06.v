(* C06 - placeholder until the proofs land. *)
From WP Require Import Base.Prelude Model.IntegrityBlock.
Open Scope N_scope.

Theorem c06_smoke : lenN (web_bundle_id (repeat 7 32)) = 56.
Proof. reflexivity. Qed.
Print Assumptions c06_smoke.
