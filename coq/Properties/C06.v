(* C06 - Bundle signatures: covered exchanges verify, any alteration is detected.

   "After the signatures-section signer has processed a bundle, every exchange
   whose host the certificate covers verifies at any time inside the validity
   window and yields the original (pre-integrity-encoding) body, exchanges it
   does not cover are reported as unsigned, and this stays true after writing
   and re-reading the bundle and for any sequence of signers appended one after
   another (each vouched subset pointing at its own signer's leaf certificate).
   Any change to a covered exchange's body, status or header fields, to the
   signed subset, the signature bytes or the authority index makes verification
   fail rather than succeed with altered content; expired, not-yet-valid or
   longer-than-7-day signatures are refused."

   Statements only; proofs live in Proofs/BundleSig{Base,Roundtrip,Cover,Tamper,Spec}.v.
   Model = Model/BundleSig.v (bundle/signature/{signer,verifier}.go and
   Exchange.AddPayloadIntegrity).  Spec side = Spec/BundleSig.v (signed-subset
   CDDL as tokens, signed message, window) over Spec/Cbor.v and Spec/Mice.v
   (Commits, Collision).  SHA-256 (H256), the key identification of a DER
   certificate (x509_key) and signature verification (sig_ok) are universally
   quantified; H256 is only required to return 32 bytes where MICE needs it.
   NO collision-freedom is assumed: conclusions read "... \/ Collision H256".
   Which hosts a certificate covers (CanSignForURL -> x509.VerifyHostname) is
   outside the model: "covered" = the exchange was passed to AddExchange.
   Writing and re-reading: the signatures section round-trips to the same
   [signatures] value (signatures_section_roundtrip below), and the exchanges
   themselves are the business of C03/C04/C05 (bundle write/read round trip).
   Size side conditions (ss_ok, hdr_small): lenN is unbounded while Go lengths
   are below 2^63; they always hold at run time. *)
From Coq Require Import Lia Permutation Sorted.
From WP Require Import Base.Prelude Base.Sha256.
From WP Require Import Model.Cbor Model.Http Model.Url Model.Mice Model.CertChain Model.Bundle
  Model.Sxg Model.BundleSig.
From WP Require Import Spec.Cbor Spec.Mice Spec.BundleSig.
From WP Require Import Proofs.BaseLemmas.
From WP Require Proofs.SxgVerifyMsg Proofs.SxgVerifySound.
From WP Require Import Proofs.BundleSigBase Proofs.BundleSigRoundtrip Proofs.BundleSigCover
  Proofs.BundleSigTamper Proofs.BundleSigSpec Proofs.BundleSigSection.
From WP Require Import Proofs.CertChainWrite.
Open Scope N_scope.

(* ==== the signed message ============================================================= *)
Theorem generate_signed_message_injective : forall (signed signed' : bytes) (v v' : bversion),
  generate_signed_message signed v = generate_signed_message signed' v' ->
  signed = signed' /\ v = v'.
Proof. exact BundleSigBase.generate_signed_message_injective. Qed.
Print Assumptions generate_signed_message_injective.

Theorem signed_message_spec : forall (signed : bytes) (v : bversion),
  generate_signed_message signed v =
  signed_message (match v with BV1 => false | BV2 => true end) signed.
Proof. exact BundleSigSpec.signed_message_spec. Qed.
Print Assumptions signed_message_spec.

(* ==== any sequence of signers: authority indices ========================================= *)
(* apply_signers folds UpdateSignatures over a list of (chain, signed, sig),
   starting from a nil *Signatures (Proofs/BundleSigBase.v) *)
Theorem authority_index_invariant : forall (l : list signer) (final : signatures) (i : nat)
    (s : signer) (leaf : augcert) (rest : list augcert),
  apply_signers None l = Some final ->
  nth_error l i = Some s -> s_certs s = leaf :: rest ->
  exists v, nth_error (sg_vouched final) i = Some v /\
            vs_authority v = lenN (all_certs (firstn i l)) /\
            vs_signed v = s_signed s /\ vs_sig v = s_sig s /\
            vs_authority v < lenN (sg_auth final) /\
            nth_error (sg_auth final) (N.to_nat (vs_authority v)) = Some leaf.
Proof. exact BundleSigBase.authority_index_invariant. Qed.
Print Assumptions authority_index_invariant.

Theorem signers_layout : forall (l : list signer) (final : signatures),
  apply_signers None l = Some final ->
  sg_auth final = all_certs l /\ sg_vouched final = vouched_from 0 l.
Proof. exact BundleSigBase.apply_signers_none. Qed.
Print Assumptions signers_layout.

(* what earlier signers wrote is never modified by later ones *)
Theorem later_signers_preserve : forall (l1 l2 : list signer) (mid final : signatures),
  apply_signers None l1 = Some mid -> apply_signers None (l1 ++ l2) = Some final ->
  exists a v, sg_auth final = sg_auth mid ++ a /\ sg_vouched final = sg_vouched mid ++ v.
Proof. exact BundleSigBase.later_signers_preserve. Qed.
Print Assumptions later_signers_preserve.

(* ==== SignedSubset.Encode / decodeSignedSubset ============================================ *)
(* ss_ok s: 0 <= date, expires < 2^63; url.Parse accepts the validity URL (URL
   model: url_parse <> UErr); validity, auth, URLs, variants, hashes,
   integrity strings shorter than 2^63; every URL has at least one
   resource-integrity pair (a zero-pair value is written but refused by the
   decoder: array length 1 < 3).  Valid UTF-8 and pairwise distinct URLs are
   NOT assumed: they follow from Encode succeeding.
   Result: the same subset with the hash list in canonical order sh
   (strictly ascending encoded URL), and the taint flag = "the URL model
   could not classify the validity URL". *)
Theorem signed_subset_roundtrip : forall (s : signed_subset) (bs : bytes),
  ss_ok s -> encode_subset s = Ok bs ->
  exists sh, Permutation sh (ss_hashes s) /\ url_sorted sh /\
             decode_signed_subset bs = Ok (with_hashes s sh, url_taint (ss_validity s)).
Proof. exact BundleSigRoundtrip.signed_subset_roundtrip. Qed.
Print Assumptions signed_subset_roundtrip.

Theorem encode_subset_injective : forall (s s' : signed_subset) (bs : bytes),
  ss_ok s -> ss_ok s' -> encode_subset s = Ok bs -> encode_subset s' = Ok bs ->
  ss_validity s = ss_validity s' /\ ss_auth s = ss_auth s' /\ ss_date s = ss_date s' /\
  ss_expires s = ss_expires s' /\ Permutation (ss_hashes s) (ss_hashes s').
Proof. exact BundleSigRoundtrip.encode_subset_injective. Qed.
Print Assumptions encode_subset_injective.

(* the bytes are the deterministic CBOR of the draft's signed-subset map *)
Theorem encode_subset_spec : forall (s : signed_subset) (bs : bytes),
  (0 <= ss_date s)%Z -> (0 <= ss_expires s)%Z ->
  encode_subset s = Ok bs -> SubsetBytes (ssubset_of s) bs.
Proof. exact BundleSigSpec.encode_subset_spec. Qed.
Print Assumptions encode_subset_spec.

Theorem encode_subset_total : forall (s : signed_subset),
  utf8_valid (ss_validity s) = true -> Forall ent_utf8 (ss_hashes s) ->
  NoDup (map (fun e : hentry => enc_bytes_of Model.Cbor.TText (fst e)) (ss_hashes s)) ->
  exists bs, encode_subset s = Ok bs.
Proof. exact BundleSigRoundtrip.encode_subset_total. Qed.
Print Assumptions encode_subset_total.

(* ==== verifyVouchedSubset / NewVerifier: what acceptance means ============================== *)
(* window, auth-sha256 binding, signature check: all three behind every
   accepted vouched subset *)
Theorem window : forall (H256 : bytes -> bytes) (x509_key : bytes -> option (option N))
    (sig_ok : N -> bytes -> bytes -> bool) (v : vouched) (auths : list augcert) (tsec tnsec : Z)
    (ver : bversion) (ss : signed_subset) (cert : augcert) (t : bool),
  verify_vouched H256 x509_key sig_ok v auths tsec tnsec ver = Ok (ss, cert, t) ->
  vs_authority v < lenN auths /\
  nth_error auths (N.to_nat (vs_authority v)) = Some cert /\
  (exists kid, x509_key (ac_cert cert) = Some (Some kid) /\
               sig_ok kid (generate_signed_message (vs_signed v) ver) (vs_sig v) = true) /\
  decode_signed_subset (vs_signed v) = Ok (ss, t) /\
  ss_auth ss = H256 (ac_cert cert) /\
  verify_timestamps (ss_date ss) (ss_expires ss) tsec tnsec = true.
Proof. exact BundleSigBase.verify_vouched_sound. Qed.
Print Assumptions window.

(* verifyTimestamps = date <= t <= expires (to the nanosecond) and
   expires - date <= 604800, for int64 date / expires (any, including values
   that wrap in time.Unix: those are never accepted) and |tsec| < 2^62 *)
Theorem verify_timestamps_window : forall (d x tsec tnsec : Z),
  SxgVerifyMsg.i64 d -> SxgVerifyMsg.i64 x -> SxgVerifySound.time_ok tsec tnsec ->
  (verify_timestamps d x tsec tnsec = true <-> Window d x tsec tnsec).
Proof. exact BundleSigSpec.verify_timestamps_window. Qed.
Print Assumptions verify_timestamps_window.

(* the refusals: index out of range, signature not accepted, auth-sha256
   mismatch, outside the window (expired / not yet valid / > 7 days) *)
Theorem verify_vouched_refuses : forall (H256 : bytes -> bytes) (x509_key : bytes -> option (option N))
    (sig_ok : N -> bytes -> bytes -> bool) (v : vouched) (auths : list augcert) (tsec tnsec : Z)
    (ver : bversion),
  (lenN auths <= vs_authority v ->
   verify_vouched H256 x509_key sig_ok v auths tsec tnsec ver = Err) /\
  (forall cert kid, nth_error auths (N.to_nat (vs_authority v)) = Some cert ->
     x509_key (ac_cert cert) = Some (Some kid) ->
     sig_ok kid (generate_signed_message (vs_signed v) ver) (vs_sig v) = false ->
     verify_vouched H256 x509_key sig_ok v auths tsec tnsec ver = Err) /\
  (forall cert ss t, nth_error auths (N.to_nat (vs_authority v)) = Some cert ->
     decode_signed_subset (vs_signed v) = Ok (ss, t) ->
     (ss_auth ss <> H256 (ac_cert cert) \/
      verify_timestamps (ss_date ss) (ss_expires ss) tsec tnsec = false) ->
     verify_vouched H256 x509_key sig_ok v auths tsec tnsec ver = Err).
Proof. exact BundleSigBase.verify_vouched_refuses. Qed.
Print Assumptions verify_vouched_refuses.

Theorem outside_window_refused : forall (H256 : bytes -> bytes) (x509_key : bytes -> option (option N))
    (sig_ok : N -> bytes -> bytes -> bool) (v : vouched) (auths : list augcert) (tsec tnsec : Z)
    (ver : bversion) (cert : augcert) (ss : signed_subset) (t : bool),
  nth_error auths (N.to_nat (vs_authority v)) = Some cert ->
  decode_signed_subset (vs_signed v) = Ok (ss, t) ->
  SxgVerifyMsg.i64 (ss_date ss) -> SxgVerifyMsg.i64 (ss_expires ss) -> SxgVerifySound.time_ok tsec tnsec ->
  ~ Window (ss_date ss) (ss_expires ss) tsec tnsec ->
  verify_vouched H256 x509_key sig_ok v auths tsec tnsec ver = Err.
Proof.
  intros H256 x509_key sig_ok v auths tsec tnsec ver cert ss t Hn Hd Id Ix It Hw.
  destruct (BundleSigBase.verify_vouched_refuses H256 x509_key sig_ok v auths tsec tnsec ver) as [_ [_ R]].
  apply (R cert ss t Hn Hd). right.
  destruct (verify_timestamps (ss_date ss) (ss_expires ss) tsec tnsec) eqn:E; [|reflexivity].
  exfalso. apply Hw. apply BundleSigSpec.verify_timestamps_window; assumption.
Qed.
Print Assumptions outside_window_refused.

Theorem new_verifier_ok_iff : forall (H256 : bytes -> bytes) (x509_key : bytes -> option (option N))
    (sig_ok : N -> bytes -> bytes -> bool) (sigs : signatures) (tsec tnsec : Z) (ver : bversion)
    (vss : list (signed_subset * augcert * bool)),
  new_verifier H256 x509_key sig_ok sigs tsec tnsec ver = Ok vss <->
  Forall2 (fun v r => verify_vouched H256 x509_key sig_ok v (sg_auth sigs) tsec tnsec ver = Ok r)
          (sg_vouched sigs) vss.
Proof. exact BundleSigBase.new_verifier_ok_iff. Qed.
Print Assumptions new_verifier_ok_iff.

(* ==== VerifyExchange ========================================================================= *)
Theorem verify_exchange_binds : forall (H256 : bytes -> bytes)
    (vss : list (signed_subset * augcert * bool)) (x : bexchange) (p a : bytes),
  verify_exchange H256 vss x = VxOk p a ->
  existsb (fun e => snd e) vss = false /\
  exists pre ss cert t post r dg,
    vss = pre ++ (ss, cert, t) :: post /\
    Forall (fun e => ~ lists_url (bx_url x) e) pre /\
    (exists hp hq, ss_hashes ss = hp ++ (bx_url x, {| rh_variants := []; rh_hashes := [r] |}) :: hq /\
                   ~ exists rh', In (bx_url x, rh') hp) /\
    a = ac_cert cert /\
    header_sha256 H256 x = Ok (ri_hsha r) /\
    ri_integ r = integrity_identifier D03 /\
    dg = hdr_get (bx_hdr x) (s2b "Digest") /\ dg <> [] /\
    decode_all H256 D03 (bx_body x) dg 16384 512 = Ok (p, REOF) /\
    (forall top recs, parse_digest_header D03 dg = Ok top -> Commits H256 top recs ->
                      p = List.concat recs \/ Collision H256).
Proof. exact BundleSigBase.verify_exchange_binds. Qed.
Print Assumptions verify_exchange_binds.

Theorem uncovered_unsigned : forall (H256 : bytes -> bytes)
    (vss : list (signed_subset * augcert * bool)) (x : bexchange),
  existsb (fun e => snd e) vss = false ->
  Forall (fun e => ~ lists_url (bx_url x) e) vss ->
  verify_exchange H256 vss x = VxUnsigned.
Proof. exact BundleSigBase.uncovered_unsigned. Qed.
Print Assumptions uncovered_unsigned.

Theorem unsigned_uncovered : forall (H256 : bytes -> bytes)
    (vss : list (signed_subset * augcert * bool)) (x : bexchange),
  verify_exchange H256 vss x = VxUnsigned ->
  existsb (fun e => snd e) vss = false /\ Forall (fun e => ~ lists_url (bx_url x) e) vss.
Proof. exact BundleSigBase.unsigned_uncovered. Qed.
Print Assumptions unsigned_uncovered.

(* ==== completeness: what the signer produced verifies ========================================== *)
(* AddPayloadIntegrity succeeds exactly on an exchange without any Digest value (not
   even an empty one) and a record size 1..16384 (what every verifier accepts), and
   then returns the MI-encoded exchange; otherwise it returns an error *)
Theorem add_payload_integrity_ok : forall (H256 : bytes -> bytes) (x : bexchange) (rs : N),
  1 <= rs -> rs <= 16384 -> hdr_values (bx_hdr x) (s2b "Digest") = [] ->
  add_payload_integrity H256 x rs = Ok (with_integrity H256 x rs, integrity_identifier D03).
Proof. exact BundleSigCover.add_payload_integrity_ok. Qed.
Print Assumptions add_payload_integrity_ok.

Theorem add_payload_integrity_ok_inv : forall (H256 : bytes -> bytes) (x : bexchange) (rs : N)
    (x' : bexchange) (integ : bytes),
  add_payload_integrity H256 x rs = Ok (x', integ) ->
  hdr_values (bx_hdr x) (s2b "Digest") = [] /\ 1 <= rs /\ rs <= 16384 /\
  x' = with_integrity H256 x rs /\ integ = integrity_identifier D03.
Proof. exact BundleSigCover.add_payload_integrity_ok_inv. Qed.
Print Assumptions add_payload_integrity_ok_inv.

Theorem add_payload_integrity_ok_iff : forall (H256 : bytes -> bytes) (x : bexchange) (rs : N)
    (x' : bexchange) (integ : bytes),
  add_payload_integrity H256 x rs = Ok (x', integ) <->
  hdr_values (bx_hdr x) (s2b "Digest") = [] /\ 1 <= rs /\ rs <= 16384 /\
  x' = with_integrity H256 x rs /\ integ = integrity_identifier D03.
Proof. exact BundleSigCover.add_payload_integrity_ok_iff. Qed.
Print Assumptions add_payload_integrity_ok_iff.

Theorem add_payload_integrity_refuses : forall (H256 : bytes -> bytes) (x : bexchange) (rs : N),
  hdr_values (bx_hdr x) (s2b "Digest") <> [] \/ rs < 1 \/ 16384 < rs ->
  add_payload_integrity H256 x rs = Err.
Proof. exact BundleSigCover.add_payload_integrity_refuses. Qed.
Print Assumptions add_payload_integrity_refuses.

Theorem add_payload_integrity_ok_or_err : forall (H256 : bytes -> bytes) (x : bexchange) (rs : N),
  add_payload_integrity H256 x rs = Err \/
  add_payload_integrity H256 x rs = Ok (with_integrity H256 x rs, integrity_identifier D03).
Proof. exact BundleSigCover.add_payload_integrity_ok_or_err. Qed.
Print Assumptions add_payload_integrity_ok_or_err.

(* one signer's vouched subset is accepted inside its window *)
Theorem signer_subset_verifies : forall (H256 : bytes -> bytes) (x509_key : bytes -> option (option N))
    (sig_ok : N -> bytes -> bytes -> bool) (ss : signed_subset) (signed : bytes) (v : vouched)
    (auths : list augcert) (leaf : augcert) (kid : N) (tsec tnsec : Z) (ver : bversion),
  ss_ok ss -> encode_subset ss = Ok signed ->
  ss_auth ss = H256 (ac_cert leaf) ->
  vs_signed v = signed ->
  vs_authority v < lenN auths -> nth_error auths (N.to_nat (vs_authority v)) = Some leaf ->
  x509_key (ac_cert leaf) = Some (Some kid) ->
  sig_ok kid (generate_signed_message signed ver) (vs_sig v) = true ->
  verify_timestamps (ss_date ss) (ss_expires ss) tsec tnsec = true ->
  exists sh, Permutation sh (ss_hashes ss) /\ url_sorted sh /\ NoDup (map fst sh) /\
    verify_vouched H256 x509_key sig_ok v auths tsec tnsec ver =
    Ok (with_hashes ss sh, leaf, url_taint (ss_validity ss)).
Proof. exact BundleSigCover.signer_subset_verifies. Qed.
Print Assumptions signer_subset_verifies.

Theorem new_verifier_accepts : forall (H256 : bytes -> bytes) (x509_key : bytes -> option (option N))
    (sig_ok : N -> bytes -> bytes -> bool) (sigs : signatures) (tsec tnsec : Z) (ver : bversion),
  Forall (subset_good H256 x509_key sig_ok (sg_auth sigs) tsec tnsec ver) (sg_vouched sigs) ->
  exists vss, new_verifier H256 x509_key sig_ok sigs tsec tnsec ver = Ok vss /\
              List.length vss = List.length (sg_vouched sigs).
Proof. exact BundleSigCover.new_verifier_accepts. Qed.
Print Assumptions new_verifier_accepts.

(* MAIN.  ss0 = NewSigner; ss = ss0 after AddExchange of every covered exchange;
   (x', integ) is what AddPayloadIntegrity returned for x with record size rs and is
   among them; signed = Encode ss sits in the i-th vouched subset, which points at
   the signer's leaf.  If NewVerifier accepts sigs at the given time, the covered
   exchange verifies: ORIGINAL body, the signer's OWN leaf - unless an earlier
   subset already lists its URL (first match wins).  No premise on rs or on the
   Digest header: AddPayloadIntegrity's success implies them
   (add_payload_integrity_ok_inv). *)
Theorem covered_verifies : forall (H256 : bytes -> bytes),
  (forall m, List.length (H256 m) = 32%nat) -> (forall m, wfb (H256 m)) ->
  forall (x509_key : bytes -> option (option N)) (sig_ok : N -> bytes -> bytes -> bool)
    (certs : list augcert) (validity : bytes) (date duration : Z)
    (ss0 ss : signed_subset) (xs : list (bexchange * bytes)) (signed : bytes)
    (sigs : signatures) (i : nat) (v : vouched) (leaf : augcert)
    (tsec tnsec : Z) (ver : bversion) (vss : list (signed_subset * augcert * bool))
    (x x' : bexchange) (rs : N) (integ : bytes),
  new_signer H256 certs validity date duration = Ok ss0 ->
  add_all H256 ss0 xs = Ok ss -> ss_ok ss -> encode_subset ss = Ok signed ->
  nth_error (sg_vouched sigs) i = Some v -> vs_signed v = signed ->
  nth_error (sg_auth sigs) (N.to_nat (vs_authority v)) = Some leaf ->
  new_verifier H256 x509_key sig_ok sigs tsec tnsec ver = Ok vss ->
  existsb (fun e => snd e) vss = false ->
  add_payload_integrity H256 x rs = Ok (x', integ) ->
  In (x', integ) xs ->
  Forall (fun e => ~ lists_url (bx_url x) e) (firstn i vss) ->
  verify_exchange H256 vss x' = VxOk (bx_body x) (ac_cert leaf).
Proof. exact BundleSigCover.covered_verifies. Qed.
Print Assumptions covered_verifies.

(* the underlying statement about with_integrity (a pure function, which does not
   check anything): here the three conditions are premises *)
Theorem covered_verifies_gen : forall (H256 : bytes -> bytes),
  (forall m, List.length (H256 m) = 32%nat) -> (forall m, wfb (H256 m)) ->
  forall (x509_key : bytes -> option (option N)) (sig_ok : N -> bytes -> bytes -> bool)
    (certs : list augcert) (validity : bytes) (date duration : Z)
    (ss0 ss : signed_subset) (xs : list (bexchange * bytes)) (signed : bytes)
    (sigs : signatures) (i : nat) (v : vouched) (leaf : augcert)
    (tsec tnsec : Z) (ver : bversion) (vss : list (signed_subset * augcert * bool))
    (x : bexchange) (rs : N),
  new_signer H256 certs validity date duration = Ok ss0 ->
  add_all H256 ss0 xs = Ok ss -> ss_ok ss -> encode_subset ss = Ok signed ->
  nth_error (sg_vouched sigs) i = Some v -> vs_signed v = signed ->
  nth_error (sg_auth sigs) (N.to_nat (vs_authority v)) = Some leaf ->
  new_verifier H256 x509_key sig_ok sigs tsec tnsec ver = Ok vss ->
  existsb (fun e => snd e) vss = false ->
  1 <= rs -> rs <= 16384 -> hdr_values (bx_hdr x) (s2b "Digest") = [] ->
  In (with_integrity H256 x rs, integrity_identifier D03) xs ->
  Forall (fun e => ~ lists_url (bx_url x) e) (firstn i vss) ->
  verify_exchange H256 vss (with_integrity H256 x rs) = VxOk (bx_body x) (ac_cert leaf).
Proof. exact BundleSigCover.covered_verifies_gen. Qed.
Print Assumptions covered_verifies_gen.

(* ==== writing and re-reading the signatures section ============================================ *)
(* sigs_ok: every authority DER is accepted by x509.ParseCertificate (x509_ok),
   sizes below 2^63 / counts and authority indices below 2^64 *)
Theorem signatures_section_roundtrip : forall (x509_ok : bytes -> bool) (s : signatures) (bs : bytes),
  sigs_ok x509_ok s -> signatures_section s = Ok bs -> parse_signatures x509_ok bs = Ok s.
Proof. exact BundleSigSection.signatures_section_roundtrip. Qed.
Print Assumptions signatures_section_roundtrip.

Theorem signatures_section_never_fails : forall (s : signatures),
  signatures_section s = Ok (section_bytes s).
Proof. exact BundleSigSection.signatures_section_ok. Qed.
Print Assumptions signatures_section_never_fails.

(* hence the verifier built from the re-read section is the same verifier *)
Theorem verifier_after_reread : forall (H256 : bytes -> bytes) (x509_key : bytes -> option (option N))
    (sig_ok : N -> bytes -> bytes -> bool) (x509_ok : bytes -> bool) (s s' : signatures) (bs : bytes)
    (tsec tnsec : Z) (ver : bversion),
  sigs_ok x509_ok s -> signatures_section s = Ok bs -> parse_signatures x509_ok bs = Ok s' ->
  new_verifier H256 x509_key sig_ok s' tsec tnsec ver = new_verifier H256 x509_key sig_ok s tsec tnsec ver.
Proof.
  intros H256 x509_key sig_ok x509_ok s s' bs tsec tnsec ver Hok Hw Hr.
  rewrite (BundleSigSection.signatures_section_roundtrip x509_ok s bs Hok Hw) in Hr.
  injection Hr as <-. reflexivity.
Qed.
Print Assumptions verifier_after_reread.

(* ==== alterations ================================================================================ *)
Theorem header_tamper_detected : forall (H256 : bytes -> bytes)
    (vss : list (signed_subset * augcert * bool)) (x x' : bexchange) (p a p' a' : bytes),
  hdr_small x -> hdr_small x' -> bx_url x' = bx_url x ->
  verify_exchange H256 vss x = VxOk p a -> verify_exchange H256 vss x' = VxOk p' a' ->
  a' = a /\
  ((bx_status x' = bx_status x /\
    Permutation (map hfield (bx_hdr x')) (map hfield (bx_hdr x))) \/ Collision H256).
Proof. exact BundleSigTamper.header_tamper_detected. Qed.
Print Assumptions header_tamper_detected.

Theorem body_tamper_detected : forall (H256 : bytes -> bytes)
    (vss : list (signed_subset * augcert * bool)) (x x' : bexchange)
    (p a p' a' top : bytes) (recs : list bytes),
  hdr_get (bx_hdr x') (s2b "Digest") = hdr_get (bx_hdr x) (s2b "Digest") ->
  parse_digest_header D03 (hdr_get (bx_hdr x) (s2b "Digest")) = Ok top -> Commits H256 top recs ->
  verify_exchange H256 vss x = VxOk p a -> verify_exchange H256 vss x' = VxOk p' a' ->
  (p = List.concat recs /\ p' = List.concat recs) \/ Collision H256.
Proof. exact BundleSigTamper.body_tamper_detected. Qed.
Print Assumptions body_tamper_detected.

Theorem encode_response_header_injective : forall (st st' : Z) (h h' : headers) (bs : bytes),
  pairs_small (hfields st h) -> pairs_small (hfields st' h') ->
  encode_response_header st h = Ok bs -> encode_response_header st' h' = Ok bs ->
  st = st' /\ Permutation (map hfield h) (map hfield h').
Proof. exact BundleSigTamper.encode_response_header_injective. Qed.
Print Assumptions encode_response_header_injective.

(* signature bytes, signed bytes, version string *)
Theorem vouched_binds : forall (H256 : bytes -> bytes) (x509_key : bytes -> option (option N))
    (sig_ok : N -> bytes -> bytes -> bool) (signed_by : N -> bytes -> Prop) (v : vouched)
    (auths : list augcert) (tsec tnsec : Z) (ver : bversion) (ss : signed_subset) (cert : augcert)
    (t : bool),
  (forall kid m s, sig_ok kid m s = true -> signed_by kid m) ->
  verify_vouched H256 x509_key sig_ok v auths tsec tnsec ver = Ok (ss, cert, t) ->
  exists kid, x509_key (ac_cert cert) = Some (Some kid) /\
              nth_error auths (N.to_nat (vs_authority v)) = Some cert /\
              signed_by kid (generate_signed_message (vs_signed v) ver) /\
              (forall signed0 ver0, (forall m, signed_by kid m -> m = generate_signed_message signed0 ver0) ->
                                    vs_signed v = signed0 /\ ver = ver0) /\
              decode_signed_subset (vs_signed v) = Ok (ss, t) /\ ss_auth ss = H256 (ac_cert cert).
Proof. exact BundleSigTamper.vouched_binds. Qed.
Print Assumptions vouched_binds.

Theorem authority_index_tamper : forall (H256 : bytes -> bytes) (x509_key : bytes -> option (option N))
    (sig_ok : N -> bytes -> bytes -> bool) (v : vouched) (j : N) (auths : list augcert)
    (tsec tnsec : Z) (ver : bversion) (ss ss' : signed_subset) (cert cert' : augcert) (t t' : bool),
  verify_vouched H256 x509_key sig_ok v auths tsec tnsec ver = Ok (ss, cert, t) ->
  verify_vouched H256 x509_key sig_ok
    {| vs_authority := j; vs_sig := vs_sig v; vs_signed := vs_signed v |} auths tsec tnsec ver
    = Ok (ss', cert', t') ->
  ss' = ss /\ H256 (ac_cert cert') = H256 (ac_cert cert) /\
  (ac_cert cert' = ac_cert cert \/ Collision H256).
Proof. exact BundleSigTamper.authority_index_tamper. Qed.
Print Assumptions authority_index_tamper.

Theorem signed_bytes_bind_subset : forall (H256 : bytes -> bytes) (x509_key : bytes -> option (option N))
    (sig_ok : N -> bytes -> bytes -> bool) (s : signed_subset) (signed : bytes) (v : vouched)
    (auths : list augcert) (tsec tnsec : Z) (ver : bversion) (ss : signed_subset) (cert : augcert)
    (t : bool),
  ss_ok s -> encode_subset s = Ok signed -> vs_signed v = signed ->
  verify_vouched H256 x509_key sig_ok v auths tsec tnsec ver = Ok (ss, cert, t) ->
  ss_validity ss = ss_validity s /\ ss_auth ss = ss_auth s /\ ss_date ss = ss_date s /\
  ss_expires ss = ss_expires s /\ Permutation (ss_hashes ss) (ss_hashes s).
Proof. exact BundleSigTamper.signed_bytes_bind_subset. Qed.
Print Assumptions signed_bytes_bind_subset.

(* ==== executions: two signers in sequence on a three-exchange bundle ========================== *)
(* toy key identification: the first DER byte; toy signature of msg under key
   kid: SHA-256 (kid :: msg) *)
Definition toy_key (der : bytes) : option (option N) :=
  match der with k :: _ => Some (Some k) | [] => None end.
Definition toy_sign (kid : N) (msg : bytes) : bytes := sha256 (kid :: msg).
Definition toy_ok (kid : N) (msg sg : bytes) : bool := bytes_eqb sg (toy_sign kid msg).

Definition mk_x (url body : string) : bexchange :=
  {| bx_url := s2b url; bx_status := 200%Z;
     bx_hdr := [(s2b "Content-Type", [s2b "text/plain"])]; bx_body := s2b body |}.
Definition x1 := mk_x "https://a.example/one" "the first body, longer than one sixteen-byte record".
Definition x2 := mk_x "https://b.example/two" "second".
Definition x3 := mk_x "https://c.example/three" "not covered by anyone".

Definition leafA : augcert := {| ac_cert := [65; 1; 2; 3]; ac_ocsp := Some [7]; ac_sct := None |}.
Definition interA : augcert := {| ac_cert := [90; 9]; ac_ocsp := None; ac_sct := None |}.
Definition leafB : augcert := {| ac_cert := [66; 4; 5]; ac_ocsp := Some [8]; ac_sct := Some [1] |}.
Definition date0 : Z := 1700000000.
Definition week : Z := 604800.

(* one signer: AddPayloadIntegrity (record size 16), NewSigner, AddExchange,
   Encode, sign, UpdateSignatures *)
Definition run_signer (sigs : option signatures) (certs : list augcert) (kid : N) (validity : string)
    (x : bexchange) : R (signatures * bexchange) :=
  let* (x', integ) := add_payload_integrity sha256 x 16 in
  let* s0 := new_signer sha256 certs (s2b validity) date0 week in
  let* s1 := add_exchange sha256 s0 x' integ in
  let* signed := encode_subset s1 in
  Ok (update_signatures sigs certs signed (toy_sign kid (generate_signed_message signed BV2)), x').

Definition ex_run : R (signatures * bexchange * bexchange) :=
  let* (sg1, x1') := run_signer None [leafA; interA] 65 "https://a.example/validity" x1 in
  let* (sg2, x2') := run_signer (Some sg1) [leafB] 66 "https://b.example/validity" x2 in
  Ok (sg2, x1', x2').

Definition flip_last (b : bytes) : bytes :=
  match rev b with c :: r => rev (N.lxor c 1 :: r) | [] => [] end.
Definition with_body (x : bexchange) (b : bytes) : bexchange :=
  {| bx_url := bx_url x; bx_status := bx_status x; bx_hdr := bx_hdr x; bx_body := b |}.
Definition with_status (x : bexchange) (s : Z) : bexchange :=
  {| bx_url := bx_url x; bx_status := s; bx_hdr := bx_hdr x; bx_body := bx_body x |}.

Example ex_two_signers :
  match ex_run with
  | Ok (sigs, x1', x2') =>
      (* authority indices 0 and 2; three authorities *)
      map vs_authority (sg_vouched sigs) = [0; 2] /\ sg_auth sigs = [leafA; interA; leafB] /\
      match new_verifier sha256 toy_key toy_ok sigs (date0 + 5) 0 BV2 with
      | Ok vss =>
          verify_exchange sha256 vss x1' = VxOk (bx_body x1) (ac_cert leafA) /\
          verify_exchange sha256 vss x2' = VxOk (bx_body x2) (ac_cert leafB) /\
          verify_exchange sha256 vss x3 = VxUnsigned /\
          (* a flipped body bit, another status, the un-encoded body *)
          verify_exchange sha256 vss (with_body x1' (flip_last (bx_body x1'))) = VxErr /\
          verify_exchange sha256 vss (with_status x1' 404) = VxErr /\
          verify_exchange sha256 vss x1 = VxErr
      | _ => False
      end /\
      (* the signatures section, written and read back, is the same value *)
      match signatures_section sigs with
      | Ok bs => parse_signatures (fun _ => true) bs = Ok sigs
      | _ => False
      end /\
      (* at date and at expires exactly: accepted; one nanosecond / second
         outside: refused; wrong version string: refused *)
      is_ok (new_verifier sha256 toy_key toy_ok sigs date0 0 BV2) = true /\
      is_ok (new_verifier sha256 toy_key toy_ok sigs (date0 + week) 0 BV2) = true /\
      new_verifier sha256 toy_key toy_ok sigs (date0 + week) 1 BV2 = Err /\
      new_verifier sha256 toy_key toy_ok sigs (date0 - 1) 999999999 BV2 = Err /\
      new_verifier sha256 toy_key toy_ok sigs (date0 + 5) 0 BV1 = Err /\
      (* a signature bit, a signed-subset bit, the authority index *)
      match sg_vouched sigs with
      | [va; vb] =>
          new_verifier sha256 toy_key toy_ok
            {| sg_auth := sg_auth sigs;
               sg_vouched := [{| vs_authority := 0; vs_sig := flip_last (vs_sig va); vs_signed := vs_signed va |}; vb] |}
            (date0 + 5) 0 BV2 = Err /\
          new_verifier sha256 toy_key toy_ok
            {| sg_auth := sg_auth sigs;
               sg_vouched := [{| vs_authority := 0; vs_sig := vs_sig va; vs_signed := flip_last (vs_signed va) |}; vb] |}
            (date0 + 5) 0 BV2 = Err /\
          new_verifier sha256 toy_key toy_ok
            {| sg_auth := sg_auth sigs;
               sg_vouched := [va; {| vs_authority := 0; vs_sig := vs_sig vb; vs_signed := vs_signed vb |}] |}
            (date0 + 5) 0 BV2 = Err /\
          new_verifier sha256 toy_key toy_ok
            {| sg_auth := sg_auth sigs;
               sg_vouched := [va; {| vs_authority := 3; vs_sig := vs_sig vb; vs_signed := vs_signed vb |}] |}
            (date0 + 5) 0 BV2 = Err
      | _ => False
      end
  | _ => False
  end.
Proof. vm_compute. repeat split. Qed.

(* a signature valid for more than 7 days is refused even inside [date, expires] *)
Example ex_too_long :
  match (let* s0 := new_signer sha256 [leafB] (s2b "https://b.example/validity") date0 (week + 1) in
         let* signed := encode_subset s0 in
         Ok (update_signatures None [leafB] signed (toy_sign 66 (generate_signed_message signed BV2)))) with
  | Ok sigs => new_verifier sha256 toy_key toy_ok sigs (date0 + 5) 0 BV2 = Err
  | _ => False
  end.
Proof. vm_compute. reflexivity. Qed.

(* the hypotheses of signed_subset_roundtrip hold on a subset with two URLs
   supplied out of order, and the round trip puts them in order *)
Definition ex_subset : signed_subset :=
  {| ss_validity := s2b "https://a.example/validity"; ss_auth := sha256 [65; 1; 2; 3];
     ss_date := date0; ss_expires := (date0 + week)%Z;
     ss_hashes := [(s2b "https://a.example/zz", {| rh_variants := []; rh_hashes := [{| ri_hsha := [1; 2]; ri_integ := s2b "digest/mi-sha256-03" |}] |});
                   (s2b "https://a.example/a", {| rh_variants := [9]; rh_hashes := [{| ri_hsha := [3]; ri_integ := s2b "x" |}; {| ri_hsha := []; ri_integ := [] |}] |})] |}.

Example ex_subset_ok : ss_ok ex_subset.
Proof.
  unfold ss_ok, ex_subset. cbn [ss_date ss_expires ss_validity ss_auth ss_hashes].
  split; [vm_compute; split; [discriminate|reflexivity]|].
  split; [vm_compute; split; [discriminate|reflexivity]|].
  split; [vm_compute; discriminate|].
  split; [vm_compute; reflexivity|]. split; [vm_compute; reflexivity|]. split; [vm_compute; reflexivity|].
  repeat constructor; cbn [fst snd rh_hashes rh_variants ri_hsha ri_integ]; try discriminate;
    vm_compute; reflexivity.
Qed.

Example ex_subset_roundtrip :
  match encode_subset ex_subset with
  | Ok bs => decode_signed_subset bs = Ok (with_hashes ex_subset (rev (ss_hashes ex_subset)), false)
  | _ => False
  end.
Proof. vm_compute. reflexivity. Qed.

(* a URL with no resource-integrity pair is written but not read back: the
   side condition "at least one pair" of ss_ok is needed *)
Example ex_zero_pairs_not_read_back :
  match encode_subset {| ss_validity := s2b "https://a.example/v"; ss_auth := [1]; ss_date := date0;
                         ss_expires := date0;
                         ss_hashes := [(s2b "https://a.example/", {| rh_variants := []; rh_hashes := [] |})] |} with
  | Ok bs => decode_signed_subset bs = Err
  | _ => False
  end.
Proof. vm_compute. reflexivity. Qed.

(* REPAIRED FINDING (was covered_verifies_needs_no_digest_key_refuted).
   AddPayloadIntegrity used to test Header.Get("Digest") != "", so an exchange that
   already carried an EMPTY Digest value passed, Add appended the real digest as a
   second value, and VerifyExchange (which reads the first value) failed: signing
   succeeded, the exchange never verified.  It tests len(Header.Values("Digest")) now:
   refused.  Record sizes no verifier accepts (0, > 16384) are refused as well. *)
Definition x_empty_digest : bexchange :=
  {| bx_url := s2b "https://b.example/two"; bx_status := 200%Z;
     bx_hdr := [(s2b "Digest", [[]])]; bx_body := s2b "second" |}.
Example ex_empty_digest_refused :
  hdr_get (bx_hdr x_empty_digest) (s2b "Digest") = [] /\
  hdr_values (bx_hdr x_empty_digest) (s2b "Digest") = [[]] /\
  add_payload_integrity sha256 x_empty_digest 16 = Err /\
  run_signer None [leafB] 66 "https://b.example/validity" x_empty_digest = Err.
Proof. vm_compute. repeat split. Qed.

Example ex_record_sizes :
  add_payload_integrity sha256 x2 0 = Err /\
  add_payload_integrity sha256 x2 16385 = Err /\
  add_payload_integrity sha256 x2 16384 = Ok (with_integrity sha256 x2 16384, integrity_identifier D03) /\
  add_payload_integrity sha256 x2 1 = Ok (with_integrity sha256 x2 1, integrity_identifier D03).
Proof. vm_compute. repeat split. Qed.

(* the hash-format hypotheses of covered_verifies hold for SHA-256 in the form
   needed on any concrete input; a toy hash satisfies them for all inputs *)
Definition toyH (m : bytes) : bytes :=
  be 32 (fold_left (fun a b => (a * 257 + b + 1) mod 2 ^ 256) m 7).
Example toyH_format : (forall m, List.length (toyH m) = 32%nat) /\ (forall m, wfb (toyH m)).
Proof. split; intros m; [apply be_length|apply be_wfb]. Qed.

(* the size / parse hypotheses are satisfiable *)
Example ex_sigs_ok :
  sigs_ok (fun _ => true)
    {| sg_auth := [leafA; interA; leafB];
       sg_vouched := [{| vs_authority := 0; vs_sig := [1]; vs_signed := [2] |};
                      {| vs_authority := 2; vs_sig := []; vs_signed := [3; 4] |}] |}.
Proof.
  unfold sigs_ok, vouched_ok, aug_lt, opt_len_lt. cbn [sg_auth sg_vouched].
  split; [reflexivity|]. split; [reflexivity|].
  split; [repeat constructor|].
  split; repeat (apply Forall_cons || apply Forall_nil);
    cbn [ac_cert ac_ocsp ac_sct leafA interA leafB vs_authority vs_sig vs_signed];
    repeat split; reflexivity || exact I.
Qed.

Example ex_hdr_small : hdr_small x1 /\ hdr_small (with_integrity sha256 x1 16).
Proof.
  split; (split; [vm_compute; reflexivity|]);
    repeat (apply Forall_cons || apply Forall_nil); split; vm_compute; reflexivity.
Qed.
