(* C01 - Whenever verification of a signed exchange succeeds at time t, the
   request URL, status, response headers (plus method and request headers in
   versions b1/b2) and the payload handed back are bit-for-bit the ones over
   which the certificate's private key produced the signature, and t lies inside
   the signed [date, expires] window.  Consequently no modification that changes
   any of these can make verification succeed.

   Model: Model/Sxg.v (signedexchange.go, signer.go, verifier.go).  SHA-256, the
   X.509 parser, signature verification, the status table and certificate
   fetching are parameters; nothing is assumed about them except, where stated,
   (Hlen) SHA-256 outputs are 32 bytes long and (Unforgeable) a signature the
   oracle accepts under key kid on message m was produced by the holder of kid.
   Payload integrity is "or SHA-256 collides" (explicit [Collision]).

   Size side conditions ([esized], [params_ok]) are explicit: Go's encoders
   truncate lengths and integers that do not fit 64 bits, and the b2/b3 layout
   writes cert-sha256 without a length, so it must be 32 bytes long
   (signed_message_cert_sha_len_refuted shows that this cannot be dropped).      *)
From Coq Require Import Lia Permutation.
From WP Require Import Base.Prelude Base.Sha256 Model.Cbor Model.Http Model.Mice Model.StructHdr
                       Model.CertChain Model.Sxg.
From WP Require Import Spec.Mice Spec.SxgPolicy.
From WP Require Import Proofs.SxgVerifyMsg Proofs.SxgVerifySound Proofs.SxgVerifyExample.
Open Scope N_scope.

(* ---- (1) the signed message determines the signed fields ------------------------- *)
(* [sfields], [fields_of]: version, cert-sha256, validity-url, date, expires,
   request URL, method and request header map (b1/b2), status, response header
   map; header maps are finite maps lower-cased name -> comma-joined value:
   [sf_equiv] compares them up to Permutation, [sf_map] says no name occurs
   twice. *)
Theorem C01_signed_message_injective :
  forall (e e' : exchange) (cs cs' : option bytes) (v v' : bytes) (d x d' x' : Z) (m : bytes),
    esized e -> esized e' ->
    params_ok (e_ver e) cs v d x -> params_ok (e_ver e') cs' v' d' x' ->
    signed_message e cs v d x = Ok m -> signed_message e' cs' v' d' x' = Ok m ->
    sf_equiv (fields_of e cs v d x) (fields_of e' cs' v' d' x') /\
    sf_map (fields_of e cs v d x) /\ sf_map (fields_of e' cs' v' d' x').
Proof. exact signed_message_injective. Qed.
Print Assumptions C01_signed_message_injective.

(* the version is part of the message (context string): no side condition *)
Theorem C01_signed_message_version :
  forall (e e' : exchange) (cs cs' : option bytes) (v v' : bytes) (d x d' x' : Z) (m : bytes),
    signed_message e cs v d x = Ok m -> signed_message e' cs' v' d' x' = Ok m ->
    e_ver e = e_ver e'.
Proof. exact signed_message_version. Qed.
Print Assumptions C01_signed_message_version.

(* the exact shape of the side conditions *)
Example C01_params_ok_b1 cs v d x :
  params_ok V1b1 cs v d x <->
  (match cs with Some c => lenN c < two64 | None => True end /\
   lenN v < two64 /\ i64 d /\ i64 x).
Proof. reflexivity. Qed.
Example C01_params_ok_b3 cs v d x :
  params_ok V1b3 cs v d x <->
  (match cs with Some c => lenN c = 32 | None => lenN v < 2 ^ 56 end /\
   lenN v < two64 /\ (d < Z.of_N two64)%Z /\ (x < Z.of_N two64)%Z).
Proof. reflexivity. Qed.

(* b2/b3 without |cert-sha256| = 32: two different (cert-sha256, validity-url)
   pairs with the same message.  (Exchange.Verify always passes a SHA-256
   output, so this is about what a signer may be made to sign.) *)
Definition w24 : bytes := s2b "https://a.example/valid/".
Theorem C01_signed_message_cert_sha_len_refuted :
  exists (e : exchange) (cs cs' : option bytes) (v v' : bytes) (d x : Z) (m : bytes),
    esized e /\
    signed_message e cs v d x = Ok m /\ signed_message e cs' v' d x = Ok m /\
    params_ok (e_ver e) cs' v' d x /\ cs <> cs' /\ v <> v'.
Proof.
  exists (plain V1b3 200 std_headers []), (Some []), (Some (be 8 32 ++ w24)),
         (w24 ++ [0; 0; 0; 0; 0; 0; 0; 0]), [], toy_date, toy_expires.
  eexists. split; [|split; [vm_compute; reflexivity|split; [vm_compute; reflexivity|]]].
  - apply esizedb_ok. vm_compute. reflexivity.
  - split; [|split; discriminate]. vm_compute. repeat split; reflexivity.
Qed.
Print Assumptions C01_signed_message_cert_sha_len_refuted.

(* ---- (2) the header CBOR determines method / :url / status / header maps ---------- *)
Theorem C01_headers_cbor_injective :
  forall (e e' : exchange) (bs : bytes),
    e_ver e = e_ver e' -> esized e -> esized e' ->
    encode_exchange_headers e = Ok bs -> encode_exchange_headers e' = Ok bs ->
    ((has_request (e_ver e) = true ->
        e_method e = e_method e' /\ Permutation (hraw (e_reqh e)) (hraw (e_reqh e'))) /\
     (e_ver e = V1b1 -> e_uri e = e_uri e') /\
     e_status e = e_status e' /\ Permutation (hraw (e_resph e)) (hraw (e_resph e'))) /\
    hdr_nodup e /\ hdr_nodup e'.
Proof. exact headers_cbor_injective. Qed.
Print Assumptions C01_headers_cbor_injective.

(* ... and is prefix-free (what makes the b1 map parse uniquely) *)
Theorem C01_headers_cbor_prefix_free :
  forall (e e' : exchange) (bs bs' r r' : bytes),
    e_ver e = e_ver e' -> esized e -> esized e' ->
    encode_exchange_headers e = Ok bs -> encode_exchange_headers e' = Ok bs' ->
    bs ++ r = bs' ++ r' -> hdr_equiv e e' /\ hdr_nodup e /\ hdr_nodup e' /\ r = r'.
Proof. exact headers_cbor_prefix_free. Qed.
Print Assumptions C01_headers_cbor_prefix_free.

(* across versions the header bytes alone do not tell b1's ":url" entry from a
   b2 request header called ":url" (the version is bound by the context string
   of the signed message, C01_signed_message_version) *)
Theorem C01_headers_cbor_cross_version_refuted :
  exists (e e' : exchange) (bs : bytes),
    encode_exchange_headers e = Ok bs /\ encode_exchange_headers e' = Ok bs /\
    e_uri e <> e_uri e' /\ hraw (e_reqh e) <> hraw (e_reqh e').
Proof.
  exists (plain V1b1 200 std_headers []),
         (with_uri (with_reqh (plain V1b2 200 std_headers [])
                              [(s2b ":url", [s2b "https://example.com/index.html"])])
                   (s2b "https://other.example/")).
  eexists. split; [vm_compute; reflexivity|split; [vm_compute; reflexivity|]].
  split; vm_compute; discriminate.
Qed.

(* ---- (3) what a successful Verify exposes ------------------------------------------- *)
Theorem C01_verify_sound :
  forall (H256 : bytes -> bytes) (x509_key : bytes -> option (option N))
         (sig_ok : N -> bytes -> bytes -> bool) (status_known : Z -> bool) (fetch : bytes -> R bytes)
         (e : exchange) (tsec tnsec : Z) (p : bytes),
    verify H256 x509_key sig_ok status_known fetch e tsec tnsec = Valid p ->
    exists sigs s pi chain main rest kid m,
      parse_parameterised_list (e_sig e) = Ok sigs /\ In pi sigs /\
      extract_signature pi = Some s /\
      fetch (s_cert_url s) = Ok chain /\
      cc_read (fun der => match x509_key der with Some _ => true | None => false end) chain
        = Ok (main :: rest) /\
      x509_key (ac_cert main) = Some (Some kid) /\
      H256 (ac_cert main) = s_cert_sha s /\
      signed_message e (Some (H256 (ac_cert main))) (s_validity s) (s_date s) (s_expires s) = Ok m /\
      sig_ok kid m (s_sig s) = true /\
      verify_timestamps (s_date s) (s_expires s) tsec tnsec = true /\
      verify_payload H256 e s = Some p.
Proof. exact verify_sound. Qed.
Print Assumptions C01_verify_sound.

(* verifyTimestamps is the window, to the nanosecond: for int64 date/expires
   (what the Signature parser yields) and a clock within +-2^62 s of the epoch *)
Theorem C01_verify_timestamps_spec :
  forall d x tsec tnsec : Z,
    (- 9223372036854775808 <= d < 9223372036854775808)%Z ->
    (- 9223372036854775808 <= x < 9223372036854775808)%Z ->
    (- 4611686018427387904 <= tsec < 4611686018427387904)%Z -> (0 <= tnsec < 1000000000)%Z ->
    (verify_timestamps d x tsec tnsec = true <->
     (x - d <= 604800 /\
      d * 1000000000 <= tsec * 1000000000 + tnsec /\
      tsec * 1000000000 + tnsec <= x * 1000000000)%Z).
Proof.
  intros d x tsec tnsec Hd Hx Ht Hn. apply verify_timestamps_spec; [exact Hd|exact Hx|split; assumption].
Qed.
Print Assumptions C01_verify_timestamps_spec.

(* ... and on the exact domain where time.Unix does not wrap, for any date/expires *)
Theorem C01_verify_timestamps_nowrap :
  forall d x tsec tnsec : Z,
    (- 9223372036854775808 <= d + 62135596800 < 9223372036854775808)%Z ->
    (- 9223372036854775808 <= x + 62135596800 < 9223372036854775808)%Z ->
    (- 9223372036854775808 <= tsec + 62135596800 < 9223372036854775808)%Z ->
    (0 <= tnsec < 1000000000)%Z ->
    (verify_timestamps d x tsec tnsec = true <-> InWindow d x tsec tnsec).
Proof. exact verify_timestamps_nowrap. Qed.
Print Assumptions C01_verify_timestamps_nowrap.

(* ---- (4) C01 itself ------------------------------------------------------------------ *)
Section C01.
  Variable H256 : bytes -> bytes.
  Variable x509_key : bytes -> option (option N).
  Variable sig_ok : N -> bytes -> bytes -> bool.
  Variable status_known : Z -> bool.
  Variable fetch : bytes -> R bytes.
  (* "the holder of key kid signed message m" *)
  Variable Signed : N -> bytes -> Prop.
  Hypothesis Unforgeable : forall kid m sg, sig_ok kid m sg = true -> Signed kid m.
  Hypothesis Hlen : forall x, List.length (H256 x) = 32%nat.

  Theorem C01_verify_binds :
    forall (e : exchange) (tsec tnsec : Z) (p : bytes),
      esized e -> lenN (e_sig e) < two64 -> time_ok tsec tnsec ->
      verify H256 x509_key sig_ok status_known fetch e tsec tnsec = Valid p ->
      exists kid m s,
        Signed kid m /\
        signed_message e (Some (s_cert_sha s)) (s_validity s) (s_date s) (s_expires s) = Ok m /\
        (* whatever the key holder serialised into m, it is this exchange *)
        (forall e0 cs v d x,
            esized e0 -> params_ok (e_ver e0) cs v d x -> signed_message e0 cs v d x = Ok m ->
            sf_equiv (fields_of e0 cs v d x)
                     (fields_of e (Some (s_cert_sha s)) (s_validity s) (s_date s) (s_expires s))) /\
        sf_map (fields_of e (Some (s_cert_sha s)) (s_validity s) (s_date s) (s_expires s)) /\
        (* t lies in the signed window *)
        (s_expires s - s_date s <= 604800 /\
         s_date s * 1000000000 <= tsec * 1000000000 + tnsec /\
         tsec * 1000000000 + tnsec <= s_expires s * 1000000000)%Z /\
        (* the payload is the one the signed digest entry commits to *)
        (exists dg top,
            In (lower (canonical_key (digest_field_of (e_ver e))), dg) (hraw (e_resph e)) /\
            parse_digest_header (mice_draft_of (e_ver e)) dg = Ok top /\
            forall recs, Commits H256 top recs -> p = List.concat recs \/ Collision H256).
  Proof. exact (verify_binds H256 x509_key sig_ok status_known fetch Signed Unforgeable Hlen). Qed.

  Theorem C01_tamper_rejected :
    forall (e e' : exchange) (cs : option bytes) (v : bytes) (d x : Z) (m0 : bytes)
           (tsec tnsec : Z) (p : bytes),
      (* the key holder signed one message only: that of exchange e *)
      (forall kid m', Signed kid m' -> m' = m0) ->
      signed_message e cs v d x = Ok m0 -> esized e -> params_ok (e_ver e) cs v d x ->
      esized e' -> lenN (e_sig e') < two64 -> time_ok tsec tnsec ->
      verify H256 x509_key sig_ok status_known fetch e' tsec tnsec = Valid p ->
      exists s,
        sf_equiv (fields_of e cs v d x)
                 (fields_of e' (Some (s_cert_sha s)) (s_validity s) (s_date s) (s_expires s)) /\
        (forall dg top recs,
            In (lower (canonical_key (digest_field_of (e_ver e))), dg) (hraw (e_resph e)) ->
            parse_digest_header (mice_draft_of (e_ver e)) dg = Ok top ->
            Commits H256 top recs -> p = List.concat recs \/ Collision H256).
  Proof. exact (tamper_rejected H256 x509_key sig_ok status_known fetch Signed Unforgeable Hlen). Qed.

  (* contrapositive: an exchange differing from e in any signed field, under
     whatever Signature header, does not verify *)
  Corollary C01_tamper_rejected_fields :
    forall (e e' : exchange) (cs : option bytes) (v : bytes) (d x : Z) (m0 : bytes)
           (tsec tnsec : Z) (p : bytes),
      (forall kid m', Signed kid m' -> m' = m0) ->
      signed_message e cs v d x = Ok m0 -> esized e -> params_ok (e_ver e) cs v d x ->
      esized e' -> lenN (e_sig e') < two64 -> time_ok tsec tnsec ->
      (forall s, ~ sf_equiv (fields_of e cs v d x)
                    (fields_of e' (Some (s_cert_sha s)) (s_validity s) (s_date s) (s_expires s))) ->
      verify H256 x509_key sig_ok status_known fetch e' tsec tnsec <> Valid p.
  Proof. exact (tamper_rejected_fields H256 x509_key sig_ok status_known fetch Signed Unforgeable Hlen). Qed.
End C01.
Print Assumptions C01_verify_binds.
Print Assumptions C01_tamper_rejected.
Print Assumptions C01_tamper_rejected_fields.

(* ---- (5) the hypotheses are satisfiable: concrete exchanges, SHA-256 ----------------- *)
(* toy oracles of Proofs/SxgVerifyExample.v: key id = first certificate byte,
   signature of m under kid = sha256 (kid :: m) *)
Example ex3_verifies : toy_verify ex3 toy_date 0 = Valid toy_body.
Proof. vm_compute. reflexivity. Qed.
Example ex2_verifies : toy_verify ex2 toy_date 0 = Valid toy_body.
Proof. vm_compute. reflexivity. Qed.
Example ex1_verifies : toy_verify ex1 toy_date 0 = Valid toy_body.
Proof. vm_compute. reflexivity. Qed.

Example ex_versions : (e_ver ex1, e_ver ex2, e_ver ex3) = (V1b1, V1b2, V1b3).
Proof. reflexivity. Qed.

(* sizes *)
Lemma ex_sized : esized ex1 /\ esized ex2 /\ esized ex3.
Proof.
  repeat split; apply esizedb_ok; vm_compute; reflexivity.
Qed.
Example ex_sig_sized : lenN (e_sig ex1) < two64 /\ lenN (e_sig ex2) < two64 /\ lenN (e_sig ex3) < two64.
Proof. repeat split; vm_compute; reflexivity. Qed.
Example ex_time_ok : time_ok toy_date 0.
Proof. unfold time_ok, toy_date. lia. Qed.

(* a hash with provably 32-byte outputs that computes SHA-256 *)
Definition h32 (x : bytes) : bytes := firstn 32 (sha256 x ++ repeat 0 32).
Lemma h32_len x : List.length (h32 x) = 32%nat.
Proof.
  unfold h32. rewrite firstn_length, app_length, repeat_length. lia.
Qed.
Definition toy_signed (kid : N) (m : bytes) : Prop := exists sg, toy_sig_ok kid m sg = true.
Lemma toy_unforgeable kid m sg : toy_sig_ok kid m sg = true -> toy_signed kid m.
Proof. intros H. exists sg. exact H. Qed.
Example ex3_verifies_h32 : verify h32 toy_x509 toy_sig_ok toy_status toy_fetch ex3 toy_date 0 = Valid toy_body.
Proof. vm_compute. reflexivity. Qed.

(* verify_binds applies to ex3: all its premises hold together *)
Example ex3_binds :
  exists kid m s,
    toy_signed kid m /\
    signed_message ex3 (Some (s_cert_sha s)) (s_validity s) (s_date s) (s_expires s) = Ok m /\
    (s_date s * 1000000000 <= toy_date * 1000000000 + 0 <= s_expires s * 1000000000)%Z.
Proof.
  destruct (C01_verify_binds h32 toy_x509 toy_sig_ok toy_status toy_fetch toy_signed toy_unforgeable h32_len
              ex3 toy_date 0 toy_body (proj2 (proj2 ex_sized)) (proj2 (proj2 ex_sig_sized)) ex_time_ok
              ex3_verifies_h32) as (kid & m & s & Sg & Hm & _ & _ & Hw & _).
  exists kid, m, s. split; [exact Sg|]. split; [exact Hm|]. lia.
Qed.

(* tampering: each of these differs from ex3 in one signed field, or in the
   payload, or in the time, and is refused *)
Example tamper_payload_byte :
  toy_verify (with_payload ex3 (firstn 20 (e_payload ex3) ++ [N.lxor (nth 20 (e_payload ex3) 0) 1]
                                 ++ skipn 21 (e_payload ex3))) toy_date 0 = Invalid.
Proof. vm_compute. reflexivity. Qed.
Example tamper_payload_truncated :
  toy_verify (with_payload ex3 (firstn 60 (e_payload ex3))) toy_date 0 = Invalid.
Proof. vm_compute. reflexivity. Qed.
Example tamper_status : toy_verify (with_status ex3 404) toy_date 0 = Invalid.
Proof. vm_compute. reflexivity. Qed.
Example tamper_url :
  toy_verify (with_uri ex3 (s2b "https://example.com/other.html")) toy_date 0 = Invalid.
Proof. vm_compute. reflexivity. Qed.
Example tamper_response_header :
  toy_verify (with_resph ex3 (hdr_add (e_resph ex3) (s2b "X-Injected") (s2b "1"))) toy_date 0 = Invalid.
Proof. vm_compute. reflexivity. Qed.
Example tamper_method_b2 : toy_verify (with_method ex2 (s2b "HEAD")) toy_date 0 = Invalid.
Proof. vm_compute. reflexivity. Qed.
Example tamper_request_header_b1 :
  toy_verify (with_reqh ex1 [(s2b "Accept", [s2b "*/*"])]) toy_date 0 = Invalid.
Proof. vm_compute. reflexivity. Qed.
Example tamper_version : toy_verify
  {| e_ver := V1b2; e_uri := e_uri ex3; e_method := e_method ex3; e_reqh := e_reqh ex3;
     e_status := e_status ex3; e_resph := e_resph ex3; e_sig := e_sig ex3;
     e_payload := e_payload ex3; e_taint := false |} toy_date 0 = Invalid.
Proof. vm_compute. reflexivity. Qed.
Example outside_window_before : toy_verify ex3 (toy_date - 1) 999999999 = Invalid.
Proof. vm_compute. reflexivity. Qed.
Example outside_window_after : toy_verify ex3 toy_expires 1 = Invalid.
Proof. vm_compute. reflexivity. Qed.
(* b3 does not sign the request method / headers (there is no request) *)
Example b3_method_unsigned : toy_verify (with_method ex3 (s2b "POST")) toy_date 0 = Valid toy_body.
Proof. vm_compute. reflexivity. Qed.
(* a header map is a finite map: its order is irrelevant *)
Example header_order_irrelevant : toy_verify (with_resph ex3 (rev (e_resph ex3))) toy_date 0 = Valid toy_body.
Proof. vm_compute. reflexivity. Qed.

(* ---- non-vacuity of the injectivity theorems ------------------------------------------ *)
(* two different in-memory exchanges (response header map listed in another
   order) with the same signed message: the theorem's premises hold and its
   conclusion is a proper Permutation *)
Definition ex3r : exchange := with_resph ex3 (rev (e_resph ex3)).
Definition m3 : bytes :=
  Eval vm_compute in
    match signed_message ex3 (Some (sha256 toy_cert)) toy_validity toy_date toy_expires with
    | Ok m => m | _ => [] end.
Example same_message_two_exchanges :
  signed_message ex3 (Some (sha256 toy_cert)) toy_validity toy_date toy_expires = Ok m3 /\
  signed_message ex3r (Some (sha256 toy_cert)) toy_validity toy_date toy_expires = Ok m3 /\
  e_resph ex3 <> e_resph ex3r /\
  esized ex3 /\ esized ex3r /\
  params_ok V1b3 (Some (sha256 toy_cert)) toy_validity toy_date toy_expires.
Proof.
  split; [vm_compute; reflexivity|]. split; [vm_compute; reflexivity|].
  split; [vm_compute; discriminate|].
  split; [apply esizedb_ok; vm_compute; reflexivity|]. split; [apply esizedb_ok; vm_compute; reflexivity|].
  vm_compute. repeat split; discriminate || reflexivity.
Qed.
Example same_message_two_exchanges_b1 :
  exists m, signed_message ex1 (Some (sha256 toy_cert)) toy_validity toy_date toy_expires = Ok m /\
            signed_message (with_resph ex1 (rev (e_resph ex1))) (Some (sha256 toy_cert)) toy_validity
                           toy_date toy_expires = Ok m /\
            params_ok V1b1 (Some (sha256 toy_cert)) toy_validity toy_date toy_expires.
Proof.
  eexists. split; [vm_compute; reflexivity|]. split; [vm_compute; reflexivity|].
  vm_compute. repeat split; discriminate || reflexivity.
Qed.

(* ---- non-vacuity of tamper_rejected ---------------------------------------------------- *)
(* a signature oracle under which key 7 signed m3 and nothing else *)
Definition only_m3_sig_ok (kid : N) (m sg : bytes) : bool :=
  (kid =? 7) && bytes_eqb m m3 && bytes_eqb sg (sha256 (kid :: m)).
Definition only_m3_signed (kid : N) (m : bytes) : Prop := m = m3.
Lemma only_m3_unforgeable kid m sg : only_m3_sig_ok kid m sg = true -> only_m3_signed kid m.
Proof.
  unfold only_m3_sig_ok, only_m3_signed. intros H.
  apply andb_true_iff in H. destruct H as [H _]. apply andb_true_iff in H. destruct H as [_ H].
  apply Proofs.BaseLemmas.bytes_eqb_eq. exact H.
Qed.
Example ex3_verifies_only_m3 :
  verify h32 toy_x509 only_m3_sig_ok toy_status toy_fetch ex3 toy_date 0 = Valid toy_body.
Proof. vm_compute. reflexivity. Qed.
(* all premises of C01_tamper_rejected hold together (e = e' = ex3) *)
Example tamper_rejected_nonvacuous :
  exists s,
    sf_equiv (fields_of ex3 (Some (h32 toy_cert)) toy_validity toy_date toy_expires)
             (fields_of ex3 (Some (s_cert_sha s)) (s_validity s) (s_date s) (s_expires s)).
Proof.
  destruct (C01_tamper_rejected h32 toy_x509 only_m3_sig_ok toy_status toy_fetch only_m3_signed
              only_m3_unforgeable h32_len ex3 ex3 (Some (h32 toy_cert)) toy_validity toy_date toy_expires m3
              toy_date 0 toy_body) as (s & Q & _).
  - intros kid m' H. exact H.
  - vm_compute. reflexivity.
  - apply esizedb_ok. vm_compute. reflexivity.
  - vm_compute. repeat split; discriminate || reflexivity.
  - apply esizedb_ok. vm_compute. reflexivity.
  - vm_compute. reflexivity.
  - unfold time_ok, toy_date. lia.
  - exact ex3_verifies_only_m3.
  - exists s. exact Q.
Qed.
(* and with that oracle every tampered variant above is refused as well *)
Example tamper_status_only_m3 :
  verify h32 toy_x509 only_m3_sig_ok toy_status toy_fetch (with_status ex3 404) toy_date 0 = Invalid.
Proof. vm_compute. reflexivity. Qed.
