(* C07 - placeholder until the proofs land. *)
From WP Require Import Base.Prelude Model.IntegrityBlock.
Open Scope N_scope.

Theorem c07_smoke : lenN (web_bundle_id (repeat 7 32)) = 56.
Proof. reflexivity. Qed.
Print Assumptions c07_smoke.
