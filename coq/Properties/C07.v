(* C07 - Integrity-block signing: verifiable signature, untouched bundle, right ID.

   "Signing a bundle file with an integrity block produces exactly the
   deterministic-CBOR block [magic, version, signature list] followed by the
   untouched original file bytes; each listed signature verifies, under the
   Ed25519 public key stored in its own attributes, over the specified
   data-to-be-signed (SHA-512 of the original file, the block as it stood
   before that signature was added, the attributes, each length-prefixed),
   newest first, and the reported Web Bundle ID is the lowercase unpadded
   base32 of that key plus the 00 01 02 suffix.  The signer returns an error
   and adds nothing when the signature it obtained does not verify under the
   public key it is about to record, when the file already carries an
   integrity block, or when the trailing length field exceeds the file size."

   Statements only; proofs live in Proofs/IntegrityBlock{Base,Cbor,Sign,Id,Spec}.v.
   Model = Model/IntegrityBlock.v (integrityblock.go, integrityblock-signer.go,
   web-bundle-id.go, cmd/sign-bundle/integrityblock.go).  Spec side =
   Spec/IntegrityBlock.v (CDDL of the explainer as tokens, dtbs, RFC 4648
   base32 at bit level) over Spec/Cbor.v (senc_tokens, stokens, blt) and
   Spec/Det.v (DetItem).  SHA-512 (H512), the signing strategy (strat_sign) and
   ed25519.Verify (ed_ok) are universally quantified.
   Size side conditions: lenN is an unbounded N while Go lengths are below
   2^63; hypotheses "... < two64" / "lenN file < two63" always hold at run
   time.  wfb x = every element of x is a byte (< 256).
   MText is the model's Go constant TypeText (Spec.Cbor.TText is a token). *)
From Coq Require Import Lia Permutation Sorted.
From WP Require Import Base.Prelude Base.Base32 Base.Sha512.
From WP Require Import Model.Cbor Model.Det Model.IntegrityBlock.
From WP Require Import Spec.Cbor Spec.Det Spec.IntegrityBlock.
From WP Require Import Proofs.BaseLemmas Proofs.CborHead Proofs.CborTokens.
From WP Require Import Proofs.IntegrityBlockBase Proofs.IntegrityBlockCbor
  Proofs.IntegrityBlockSign Proofs.IntegrityBlockId Proofs.IntegrityBlockSpec.
Open Scope N_scope.

(* ==== ObtainIntegrityBlock ========================================================= *)
(* success exactly when the trailing 8-byte big-endian length equals the file
   size; the result is then the fresh empty block *)
Theorem obtain_ok_iff : forall (file : bytes) (b : iblock),
  wfb file -> lenN file < two63 ->
  (obtain file = Ok b <->
   8 <= lenN file /\
   (exists pre trail, file = pre ++ trail /\ lenN trail = 8 /\ unbe trail = lenN file) /\
   b = empty_block).
Proof. exact IntegrityBlockSign.obtain_ok_iff. Qed.
Print Assumptions obtain_ok_iff.

(* trailing length (a uint64, including values >= 2^63 that the int64
   conversion turns negative) above the file size: error *)
Theorem obtain_refuses_larger : forall (file pre trail : bytes),
  wfb file -> lenN file < two63 -> file = pre ++ trail -> lenN trail = 8 ->
  lenN file < unbe trail -> obtain file = Err.
Proof. exact IntegrityBlockSign.obtain_refuses_larger. Qed.
Print Assumptions obtain_refuses_larger.

(* trailing length below the file size = an integrity block is already there *)
Theorem obtain_refuses_existing_block : forall (file pre trail : bytes),
  lenN file < two63 -> file = pre ++ trail -> lenN trail = 8 ->
  unbe trail < lenN file -> obtain file = Err.
Proof. exact IntegrityBlockSign.obtain_refuses_existing_block. Qed.
Print Assumptions obtain_refuses_existing_block.

Theorem obtain_short_file : forall (file : bytes), lenN file < 8 -> obtain file = Err.
Proof. exact IntegrityBlockSign.obtain_short_file. Qed.
Print Assumptions obtain_short_file.

(* any list at all (no wfb, no size bound): an error or the empty block *)
Theorem obtain_never_panics : forall (file : bytes),
  obtain file = Err \/ obtain file = Ok empty_block.
Proof. exact IntegrityBlockSign.obtain_never_panics. Qed.
Print Assumptions obtain_never_panics.

(* ==== the attributes map ============================================================ *)
Theorem attrs_cbor_perm : forall (a a' : attrs), Permutation a a' -> attrs_cbor a = attrs_cbor a'.
Proof. exact IntegrityBlockBase.attrs_cbor_perm. Qed.
Print Assumptions attrs_cbor_perm.

(* canonical: header with the entry count, then text(name) bytes(value) in
   strictly ascending bytewise order of the encoded names; names are valid
   UTF-8 and pairwise distinct; the whole is a deterministic item *)
Theorem attrs_cbor_canonical : forall (a : attrs) (ab : bytes),
  attrs_cbor a = Ok ab ->
  AttrBytes a ab /\
  (exists s, Permutation s a /\
     StronglySorted (fun x y => blt (enc_bytes_of MText (fst x)) (enc_bytes_of MText (fst y))) s /\
     ab = enc_map_header (lenN a) ++ flat_map attr_entry_bytes s) /\
  keys_utf8 a = true /\ NoDup (map fst a) /\
  (attrs_wf a -> DetItem ab).
Proof.
  intros a ab H. split; [apply attrs_cbor_spec; exact H|].
  split; [apply attrs_cbor_sorted; exact H|].
  destruct (attrs_cbor_encodable a ab H) as [H1 H2]. split; [exact H1|]. split; [exact H2|].
  intros W. eapply attrs_cbor_det; eassumption.
Qed.
Print Assumptions attrs_cbor_canonical.

(* encodable exactly when the names are valid UTF-8 and distinct *)
Theorem attrs_cbor_total : forall (a : attrs),
  attrs_small a -> keys_utf8 a = true -> NoDup (map fst a) -> exists ab, attrs_cbor a = Ok ab.
Proof. exact IntegrityBlockCbor.attrs_cbor_total. Qed.
Print Assumptions attrs_cbor_total.

Theorem attrs_cbor_injective : forall (a a' : attrs) (ab : bytes),
  attrs_small a -> attrs_small a' ->
  attrs_cbor a = Ok ab -> attrs_cbor a' = Ok ab -> Permutation a a'.
Proof. exact IntegrityBlockBase.attrs_cbor_injective. Qed.
Print Assumptions attrs_cbor_injective.

(* ==== data to be signed =============================================================== *)
(* no size hypothesis: the uint64 conversion of the lengths is invisible in
   the eight bytes written *)
Theorem dtbs_layout : forall (h blk : bytes) (a : attrs) (d : bytes),
  data_to_be_signed h blk a = Ok d ->
  exists ab, attrs_cbor a = Ok ab /\
    d = be 8 (lenN h) ++ h ++ be 8 (lenN blk) ++ blk ++ be 8 (lenN ab) ++ ab /\
    d = Spec.IntegrityBlock.dtbs h blk ab.
Proof.
  intros h blk a d H. apply dtbs_ok_iff in H. destruct H as [ab [H1 H2]].
  exists ab. split; [exact H1|]. split; [exact H2|]. rewrite <- dtbs_bytes_spec. exact H2.
Qed.
Print Assumptions dtbs_layout.

Theorem dtbs_iff : forall (h blk : bytes) (a : attrs) (d : bytes),
  data_to_be_signed h blk a = Ok d <->
  exists ab, attrs_cbor a = Ok ab /\ d = Spec.IntegrityBlock.dtbs h blk ab.
Proof. exact IntegrityBlockSpec.dtbs_spec. Qed.
Print Assumptions dtbs_iff.

(* the signed bytes determine the hash, the block and the attributes *)
Theorem dtbs_injective : forall (h blk : bytes) (a : attrs) (h' blk' : bytes) (a' : attrs) (d : bytes),
  lenN h < two64 -> lenN h' < two64 -> lenN blk < two64 -> lenN blk' < two64 ->
  attrs_small a -> attrs_small a' ->
  data_to_be_signed h blk a = Ok d -> data_to_be_signed h' blk' a' = Ok d ->
  h = h' /\ blk = blk' /\ Permutation a a' /\ NoDup (map fst a).
Proof. exact IntegrityBlockBase.dtbs_injective. Qed.
Print Assumptions dtbs_injective.

(* ==== IntegrityBlock.CborBytes ========================================================== *)
(* 83, 48 magic, 44 version, array head |stack|, then per signature
   82 attributes-map bstr(signature) *)
Theorem block_cbor_layout : forall (b : iblock) (bs : bytes),
  block_cbor b = Ok bs <->
  exists items, StackBytes (ib_stack b) items /\
    bs = [131] ++ (72 :: ib_magic) ++ (68 :: ib_version_b1) ++
         enc_array_header (lenN (ib_stack b)) ++ List.concat items.
Proof. exact IntegrityBlockCbor.block_cbor_layout. Qed.
Print Assumptions block_cbor_layout.

(* the same in the vocabulary of the explainer's CDDL: the deterministic token
   encoding of [magic, version, [[attributes, signature]...]] with every
   attributes map in canonical order *)
Theorem block_cbor_spec : forall (b : iblock) (bs : bytes),
  block_cbor b = Ok bs -> BlockBytes (map ssig_of (ib_stack b)) bs.
Proof. exact IntegrityBlockSpec.block_cbor_spec. Qed.
Print Assumptions block_cbor_spec.

(* and the independent tokeniser reads exactly these tokens back, every head
   in shortest form *)
Theorem block_cbor_reads_back : forall (b : iblock) (bs : bytes),
  lenN (ib_stack b) < two64 ->
  Forall (fun s => ssig_small (ssig_of s)) (ib_stack b) ->
  block_cbor b = Ok bs ->
  exists st', Canon (map ssig_of (ib_stack b)) st' /\
              bs = senc_tokens (block_tokens st') /\
              stokens bs = Some (map with_width (block_tokens st')) /\
              Forall tok_shortest (map with_width (block_tokens st')).
Proof. exact IntegrityBlockSpec.block_cbor_reads_back. Qed.
Print Assumptions block_cbor_reads_back.

(* the block is ONE deterministic CBOR item and cbor.Deterministic accepts it *)
Theorem block_cbor_det : forall (b : iblock) (bs : bytes),
  block_wf b -> block_cbor b = Ok bs -> DetItem bs /\ det_check bs = Accept.
Proof.
  intros b bs W H. split; [eapply block_cbor_detitem|eapply IntegrityBlockCbor.block_cbor_det]; eassumption.
Qed.
Print Assumptions block_cbor_det.

(* with UTF-8, pairwise distinct attribute names the serialization succeeds
   and the deterministic check passes: on well-formed blocks neither can fail *)
Theorem block_cbor_total : forall (b : iblock),
  block_wf b -> Forall (fun s => attrs_encodable (is_attrs s)) (ib_stack b) ->
  exists bs, block_cbor b = Ok bs /\ det_check bs = Accept.
Proof. exact IntegrityBlockCbor.block_cbor_total. Qed.
Print Assumptions block_cbor_total.

(* ==== SignAndAddNewSignature ============================================================ *)
Theorem sign_and_add_checked : forall (strat_sign : bytes -> R bytes)
    (ed_ok : bytes -> bytes -> bytes -> bool) (hash : bytes) (b : iblock) (pk : bytes) (a : attrs)
    (b' : iblock),
  sign_and_add strat_sign ed_ok hash b pk a = Ok b' ->
  exists blk dtbs sg,
    block_cbor b = Ok blk /\ data_to_be_signed hash blk a = Ok dtbs /\
    strat_sign dtbs = Ok sg /\ ed_ok pk dtbs sg = true /\
    ib_stack b' = {| is_attrs := a; is_sig := sg |} :: ib_stack b.
Proof. exact IntegrityBlockSign.sign_and_add_checked. Qed.
Print Assumptions sign_and_add_checked.

Theorem sign_and_add_ok_iff : forall (strat_sign : bytes -> R bytes)
    (ed_ok : bytes -> bytes -> bytes -> bool) (hash : bytes) (b : iblock) (pk : bytes) (a : attrs)
    (b' : iblock),
  sign_and_add strat_sign ed_ok hash b pk a = Ok b' <->
  exists blk dtbs sg,
    block_cbor b = Ok blk /\ det_check blk = Accept /\
    data_to_be_signed hash blk a = Ok dtbs /\
    strat_sign dtbs = Ok sg /\ ed_ok pk dtbs sg = true /\ b' = push b a sg.
Proof. exact IntegrityBlockSign.sign_and_add_ok_iff. Qed.
Print Assumptions sign_and_add_ok_iff.

(* The signature obtained does not verify under the key about to be recorded:
   error.  "Adds nothing": sign_and_add is a pure function, its argument b is
   a value and cannot change; the only block carrying the new signature is the
   one returned inside Ok, and here nothing is returned.  (In Go the append to
   SignatureStack is the last statement, after every error return.) *)
Theorem sign_and_add_mismatch : forall (strat_sign : bytes -> R bytes)
    (ed_ok : bytes -> bytes -> bytes -> bool) (hash : bytes) (b : iblock) (pk : bytes) (a : attrs)
    (blk dtbs sg : bytes),
  block_cbor b = Ok blk -> data_to_be_signed hash blk a = Ok dtbs ->
  strat_sign dtbs = Ok sg -> ed_ok pk dtbs sg = false ->
  sign_and_add strat_sign ed_ok hash b pk a = Err.
Proof. exact IntegrityBlockSign.sign_and_add_mismatch. Qed.
Print Assumptions sign_and_add_mismatch.

Theorem sign_and_add_mismatch_never_ok : forall (strat_sign : bytes -> R bytes)
    (ed_ok : bytes -> bytes -> bytes -> bool) (hash : bytes) (b : iblock) (pk : bytes) (a : attrs),
  (forall blk dtbs sg, block_cbor b = Ok blk -> data_to_be_signed hash blk a = Ok dtbs ->
                       strat_sign dtbs = Ok sg -> ed_ok pk dtbs sg = false) ->
  forall b', sign_and_add strat_sign ed_ok hash b pk a <> Ok b'.
Proof. exact IntegrityBlockSign.sign_and_add_mismatch_never_ok. Qed.
Print Assumptions sign_and_add_mismatch_never_ok.

(* ==== any sequence of signing operations =================================================== *)
(* Valid_stack ed_ok hash st pks (Proofs/IntegrityBlockSign.v):
     st = s :: rest, pks = pk :: pks'  requires
       block_cbor {rest} = Ok blk, det_check blk = Accept,
       data_to_be_signed hash blk (is_attrs s) = Ok dtbs, ed_ok pk dtbs (is_sig s) = true,
       and Valid_stack for rest, pks'.
   sign_all folds sign_and_add over a list of (public key, attributes). *)
Theorem stack_invariant : forall (strat_sign : bytes -> R bytes)
    (ed_ok : bytes -> bytes -> bytes -> bool) (hash : bytes) (ops : list (bytes * attrs)) (b' : iblock),
  sign_all strat_sign ed_ok hash empty_block ops = Ok b' ->
  Valid_stack ed_ok hash (ib_stack b') (rev (map fst ops)) /\
  map is_attrs (ib_stack b') = rev (map snd ops) /\
  lenN (ib_stack b') = lenN ops.
Proof. exact IntegrityBlockSign.stack_invariant. Qed.
Print Assumptions stack_invariant.

(* from any valid block: earlier signatures are kept as they are, below the new ones *)
Theorem stack_invariant_from : forall (strat_sign : bytes -> R bytes)
    (ed_ok : bytes -> bytes -> bytes -> bool) (hash : bytes) (ops : list (bytes * attrs))
    (b : iblock) (pks : list bytes) (b' : iblock),
  Valid_stack ed_ok hash (ib_stack b) pks ->
  sign_all strat_sign ed_ok hash b ops = Ok b' ->
  exists newer,
    ib_stack b' = newer ++ ib_stack b /\
    map is_attrs newer = rev (map snd ops) /\
    Valid_stack ed_ok hash (ib_stack b') (rev (map fst ops) ++ pks).
Proof. intros s e h ops. exact (IntegrityBlockSign.sign_all_invariant s e h ops). Qed.
Print Assumptions stack_invariant_from.

(* when every operation records its key under "ed25519PublicKey", each
   signature verifies under the key stored in its own attributes *)
Theorem stack_invariant_self : forall (strat_sign : bytes -> R bytes)
    (ed_ok : bytes -> bytes -> bytes -> bool) (hash : bytes) (ops : list (bytes * attrs)) (b' : iblock),
  Forall (fun op => In (pk_attr_name, fst op) (snd op)) ops ->
  sign_all strat_sign ed_ok hash empty_block ops = Ok b' ->
  Valid_self ed_ok hash (ib_stack b') /\ lenN (ib_stack b') = lenN ops.
Proof. exact IntegrityBlockSign.stack_invariant_self. Qed.
Print Assumptions stack_invariant_self.

(* ... and that key is unambiguous *)
Theorem attr_value_unique : forall (a : attrs) (ab k v v' : bytes),
  attrs_cbor a = Ok ab -> In (k, v) a -> In (k, v') a -> v = v'.
Proof. exact IntegrityBlockSign.attr_value_unique. Qed.
Print Assumptions attr_value_unique.

(* ==== SignWithIntegrityBlock ================================================================ *)
Theorem sign_file_layout : forall (H512 : bytes -> bytes) (strat_sign : bytes -> R bytes)
    (ed_ok : bytes -> bytes -> bytes -> bool) (file pk out : bytes),
  sign_file H512 strat_sign ed_ok file pk = Ok out ->
  exists blk sg dtbs,
    out = blk ++ file /\
    block_cbor (one_sig_block pk sg) = Ok blk /\ blk = one_sig_bytes pk sg /\
    det_check blk = Accept /\
    block_cbor empty_block = Ok empty_block_bytes /\
    data_to_be_signed (H512 file) empty_block_bytes (pk_attrs pk) = Ok dtbs /\
    strat_sign dtbs = Ok sg /\ ed_ok pk dtbs sg = true /\
    Valid_self ed_ok (H512 file) (ib_stack (one_sig_block pk sg)).
Proof. exact IntegrityBlockSign.sign_file_layout. Qed.
Print Assumptions sign_file_layout.

Theorem sign_file_ok_iff : forall (H512 : bytes -> bytes) (strat_sign : bytes -> R bytes)
    (ed_ok : bytes -> bytes -> bytes -> bool) (file pk out : bytes),
  sign_file H512 strat_sign ed_ok file pk = Ok out <->
  obtain file = Ok empty_block /\
  exists sg, strat_sign (sign_file_dtbs H512 file pk) = Ok sg /\
             ed_ok pk (sign_file_dtbs H512 file pk) sg = true /\
             det_check (one_sig_bytes pk sg) = Accept /\
             out = one_sig_bytes pk sg ++ file.
Proof. exact IntegrityBlockSign.sign_file_ok_iff. Qed.
Print Assumptions sign_file_ok_iff.

Theorem sign_file_err_cases : forall (H512 : bytes -> bytes) (strat_sign : bytes -> R bytes)
    (ed_ok : bytes -> bytes -> bytes -> bool) (file pk : bytes),
  (obtain file = Err -> sign_file H512 strat_sign ed_ok file pk = Err) /\
  (strat_sign (sign_file_dtbs H512 file pk) = Err -> sign_file H512 strat_sign ed_ok file pk = Err) /\
  (forall sg, strat_sign (sign_file_dtbs H512 file pk) = Ok sg ->
              ed_ok pk (sign_file_dtbs H512 file pk) sg = false ->
              sign_file H512 strat_sign ed_ok file pk = Err) /\
  (forall pre trail, wfb file -> lenN file < two63 -> file = pre ++ trail -> lenN trail = 8 ->
                     unbe trail <> lenN file -> sign_file H512 strat_sign ed_ok file pk = Err).
Proof.
  intros H s e file pk. split; [apply sign_file_err_obtain|]. split; [apply sign_file_err_strategy|].
  split; [intros sg; apply sign_file_err_verify|]. intros pre trail. apply sign_file_refusals.
Qed.
Print Assumptions sign_file_err_cases.

(* completeness: nothing else can fail *)
Theorem sign_file_complete : forall (H512 : bytes -> bytes) (strat_sign : bytes -> R bytes)
    (ed_ok : bytes -> bytes -> bytes -> bool) (file pk sg : bytes),
  obtain file = Ok empty_block ->
  wfb pk -> lenN pk < two64 -> wfb sg -> lenN sg < two64 ->
  strat_sign (sign_file_dtbs H512 file pk) = Ok sg ->
  ed_ok pk (sign_file_dtbs H512 file pk) sg = true ->
  sign_file H512 strat_sign ed_ok file pk = Ok (one_sig_bytes pk sg ++ file).
Proof. exact IntegrityBlockSign.sign_file_complete. Qed.
Print Assumptions sign_file_complete.

Theorem sign_file_never_panics : forall (H512 : bytes -> bytes) (strat_sign : bytes -> R bytes)
    (ed_ok : bytes -> bytes -> bytes -> bool) (file pk : bytes),
  (forall m, strat_sign m <> Panic /\ strat_sign m <> Fuel) ->
  sign_file H512 strat_sign ed_ok file pk = Err \/
  exists out, sign_file H512 strat_sign ed_ok file pk = Ok out.
Proof. exact IntegrityBlockSign.sign_file_never_panics. Qed.
Print Assumptions sign_file_never_panics.

(* ==== Web Bundle ID ============================================================================ *)
Theorem id_correct : forall (pk : bytes), web_bundle_id pk = lower (b32_encode (pk ++ [0; 1; 2])).
Proof. exact IntegrityBlockId.id_correct. Qed.
Print Assumptions id_correct.

(* Base/Base32.v is RFC 4648 base32 (bit-level spec) on whole 5-byte groups ... *)
Theorem b32_encode_rfc4648 : forall (k : nat) (bs : bytes),
  wfb bs -> List.length bs = (5 * k)%nat ->
  b32_encode bs = sb32 bs /\ sb32 bs = sb32_nopad bs.
Proof. exact IntegrityBlockSpec.b32_encode_rfc4648. Qed.
Print Assumptions b32_encode_rfc4648.

(* ... so for a 32-byte key the ID is the spec's unpadded lower-case base32 *)
Theorem id_spec : forall (pk : bytes),
  wfb pk -> List.length pk = 32%nat -> web_bundle_id pk = bundle_id pk.
Proof. exact IntegrityBlockSpec.web_bundle_id_spec. Qed.
Print Assumptions id_spec.

(* 56 characters from a-z2-7, no '=' (35 bytes = 7 whole groups) *)
Theorem id_length_56 : forall (pk : bytes),
  List.length pk = 32%nat ->
  lenN (web_bundle_id pk) = 56 /\ Forall id_char (web_bundle_id pk) /\ ~ In 61 (web_bundle_id pk).
Proof. exact IntegrityBlockId.id_length_56. Qed.
Print Assumptions id_length_56.

Theorem id_injective : forall (pk pk' : bytes),
  wfb pk -> wfb pk' -> List.length pk = 32%nat -> List.length pk' = 32%nat ->
  web_bundle_id pk = web_bundle_id pk' -> pk = pk'.
Proof. exact IntegrityBlockId.id_injective. Qed.
Print Assumptions id_injective.

(* ==== non-vacuity / executions ==================================================================== *)
(* a toy "Ed25519": the signature of msg under pk is SHA-512(pk ++ msg) *)
Definition toy_ok (pk msg sg : bytes) : bool := bytes_eqb sg (sha512 (pk ++ msg)).
Definition toy_pk : bytes := map N.of_nat (seq 1 32).
Definition toy_pk2 : bytes := map N.of_nat (seq 101 32).
Definition toy_sign (pk : bytes) (msg : bytes) : R bytes := Ok (sha512 (pk ++ msg)).

(* an unsigned "bundle": 24 content bytes then its own length (32) big-endian *)
Definition ex_file : bytes := map N.of_nat (seq 200 24) ++ be 8 32.

Example ex_obtain :
  obtain ex_file = Ok empty_block /\ wfb ex_file /\ lenN ex_file < two63 /\
  obtain (map N.of_nat (seq 0 7)) = Err /\                               (* too short *)
  obtain ([1; 2; 3] ++ ex_file) = Err /\                                 (* block already present *)
  obtain (map N.of_nat (seq 200 24) ++ be 8 33) = Err /\                 (* trailing > size *)
  obtain (map N.of_nat (seq 200 24) ++ be 8 two63) = Err /\              (* trailing = 2^63 *)
  obtain (map N.of_nat (seq 200 24) ++ be 8 (two64 - 1)) = Err /\        (* int64(-1) *)
  obtain (map N.of_nat (seq 200 24) ++ be 8 (two64 - 32)) = Err.         (* int64(-32) *)
Proof.
  split; [vm_compute; reflexivity|]. split; [apply wfbb_wfb; vm_compute; reflexivity|].
  split; [vm_compute; reflexivity|]. vm_compute. repeat split.
Qed.

Example ex_obtain_hyps :
  exists pre trail, ex_file = pre ++ trail /\ lenN trail = 8 /\ unbe trail = lenN ex_file.
Proof. exists (map N.of_nat (seq 200 24)), (be 8 32). vm_compute. repeat split. Qed.

(* the whole flow, executed *)
Definition ex_sg : bytes := sha512 (toy_pk ++ sign_file_dtbs sha512 ex_file toy_pk).
Example ex_sign_file :
  sign_file sha512 (toy_sign toy_pk) toy_ok ex_file toy_pk = Ok (one_sig_bytes toy_pk ex_sg ++ ex_file) /\
  lenN ex_sg = 64 /\
  firstn 19 (one_sig_bytes toy_pk ex_sg) =
    [131; 72; 240; 159; 150; 139; 240; 159; 147; 166; 68; 49; 98; 0; 0; 129; 130; 161; 112] /\
  det_check (one_sig_bytes toy_pk ex_sg) = Accept /\
  lenN (one_sig_bytes toy_pk ex_sg) = 135.
Proof. vm_compute. repeat split. Qed.

(* the strategy signs with another key than the one it reports: refused *)
Example ex_sign_file_mismatch :
  sign_file sha512 (toy_sign toy_pk2) toy_ok ex_file toy_pk = Err /\
  sign_file sha512 (toy_sign toy_pk) toy_ok ([1; 2; 3] ++ ex_file) toy_pk = Err /\
  sign_file sha512 (fun _ => Err) toy_ok ex_file toy_pk = Err.
Proof. vm_compute. repeat split. Qed.

(* three signing operations (extra attributes, different attribute orders)
   from the empty block: all accepted, newest first *)
Definition ex_ops : list (bytes * attrs) :=
  [(toy_pk, [(pk_attr_name, toy_pk)]);
   (toy_pk, [(s2b "note", [1; 2; 3]); (pk_attr_name, toy_pk)]);
   (toy_pk, [(pk_attr_name, toy_pk); (s2b "a", [])])].

Example ex_three_signatures :
  match sign_all (toy_sign toy_pk) toy_ok (sha512 ex_file) empty_block ex_ops with
  | Ok b' => map is_attrs (ib_stack b') = rev (map snd ex_ops) /\
             match block_cbor b' with Ok bs => det_check bs = Accept | _ => False end
  | _ => False
  end.
Proof. vm_compute. split; reflexivity. Qed.

(* the second operation names a key the strategy does not hold: the whole
   sequence stops with an error at that step *)
Example ex_three_signatures_mismatch :
  sign_all (toy_sign toy_pk) toy_ok (sha512 ex_file) empty_block
    [(toy_pk, [(pk_attr_name, toy_pk)]); (toy_pk2, [(pk_attr_name, toy_pk2)])] = Err.
Proof. vm_compute. reflexivity. Qed.

Example ex_ops_self : Forall (fun op => In (pk_attr_name, fst op) (snd op)) ex_ops.
Proof. unfold ex_ops. repeat (apply Forall_cons || apply Forall_nil); cbn [In fst snd]; auto. Qed.

(* attributes in a different order give the same bytes; a duplicate or a
   non-UTF-8 name is refused *)
Example ex_attrs :
  attrs_cbor [(s2b "note", [1; 2; 3]); (pk_attr_name, [9])] =
  attrs_cbor [(pk_attr_name, [9]); (s2b "note", [1; 2; 3])] /\
  attrs_cbor [(s2b "note", [1; 2; 3]); (pk_attr_name, [9])] =
    Ok ([162; 100] ++ s2b "note" ++ [67; 1; 2; 3] ++ [112] ++ pk_attr_name ++ [65; 9]) /\
  attrs_cbor [(s2b "n", [1]); (s2b "n", [2])] = Err /\
  attrs_cbor [([255], [1])] = Err.
Proof. vm_compute. repeat split. Qed.

Example ex_block_wf : block_wf (one_sig_block toy_pk (repeat 7 64)).
Proof.
  apply one_sig_block_wf; try (vm_compute; reflexivity);
    apply wfbb_wfb; vm_compute; reflexivity.
Qed.

(* the Go test vector (webbundleid_test.go): the public key of the test
   private key, derived with Go's crypto/ed25519 *)
Definition go_test_pk : bytes :=
  [228; 213; 22; 201; 133; 154; 248; 99; 86; 163; 81; 102; 125; 189; 0; 67; 97; 16; 26; 146;
   212; 2; 114; 254; 43; 206; 129; 187; 59; 113; 63; 45].
Example ex_go_test_id :
  web_bundle_id go_test_pk = s2b "4tkrnsmftl4ggvvdkfth3piainqragus2qbhf7rlz2a3wo3rh4wqaaic" /\
  bundle_id go_test_pk = s2b "4tkrnsmftl4ggvvdkfth3piainqragus2qbhf7rlz2a3wo3rh4wqaaic" /\
  List.length go_test_pk = 32%nat /\ wfbb go_test_pk = true.
Proof. vm_compute. repeat split. Qed.

(* RFC 4648 vectors: the model's encoder agrees with the bit-level spec also
   on partial groups (padded) *)
Example ex_b32_vectors :
  map b32_encode [s2b ""; s2b "f"; s2b "fo"; s2b "foo"; s2b "foob"; s2b "fooba"; s2b "foobar"] =
  map sb32 [s2b ""; s2b "f"; s2b "fo"; s2b "foo"; s2b "foob"; s2b "fooba"; s2b "foobar"].
Proof. vm_compute. reflexivity. Qed.
