(* C07 - Integrity-block signing: verifiable signature, untouched bundle, right ID.

   "Signing a bundle file with an integrity block produces exactly the
   deterministic-CBOR block [magic, version, signature list] followed by the
   untouched original file bytes; each listed signature verifies, under the
   Ed25519 public key stored in its own attributes, over the specified
   data-to-be-signed (SHA-512 of the original file, the block as it stood
   before that signature was added, the attributes, each length-prefixed),
   newest first, and the reported Web Bundle ID is the lowercase unpadded
   base32 of that key plus the 00 01 02 suffix.  The signer returns an error
   and adds nothing when the signature it obtained does not verify under the
   public key it is about to record, when the file already carries an
   integrity block, or when the trailing length field exceeds the file size."

   Since the repair of SignAndAddNewSignature (it refuses attributes whose
   "ed25519PublicKey" entry is not the key the signature is verified with, and
   VerifyEd25519Signature refuses a key that is not 32 bytes) "the key stored
   in its own attributes" is enforced by the signer, not assumed of the caller:
   stack_invariant_self and attempts_invariant below have no premise on the
   attributes.

   Statements only; proofs live in Proofs/IntegrityBlock{Base,Cbor,Sign,Id,Spec}.v.
   Model = Model/IntegrityBlock.v (integrityblock.go, integrityblock-signer.go,
   web-bundle-id.go, cmd/sign-bundle/integrityblock.go).  Spec side =
   Spec/IntegrityBlock.v (CDDL of the explainer as tokens, dtbs, RFC 4648
   base32 at bit level) over Spec/Cbor.v (senc_tokens, stokens, blt) and
   Spec/Det.v (DetItem).  SHA-512 (H512), the signing strategy (strat_sign) and
   ed25519.Verify (ed_ok) are universally quantified.
   Size side conditions: lenN is an unbounded N while Go lengths are below
   2^63; hypotheses "... < two64" / "lenN file < two63" always hold at run
   time.  wfb x = every element of x is a byte (< 256).
   MText is the model's Go constant TypeText (Spec.Cbor.TText is a token). *)
From Coq Require Import Lia Permutation Sorted.
From WP Require Import Base.Prelude Base.Base32 Base.Sha512.
From WP Require Import Model.Cbor Model.Det Model.IntegrityBlock.
From WP Require Import Spec.Cbor Spec.Det Spec.IntegrityBlock.
From WP Require Import Proofs.BaseLemmas Proofs.CborHead Proofs.CborTokens.
From WP Require Import Proofs.IntegrityBlockBase Proofs.IntegrityBlockCbor
  Proofs.IntegrityBlockSign Proofs.IntegrityBlockId Proofs.IntegrityBlockSpec.
Open Scope N_scope.

(* ==== ObtainIntegrityBlock ========================================================= *)
(* success exactly when the trailing 8-byte big-endian length equals the file
   size; the result is then the fresh empty block *)
Theorem obtain_ok_iff : forall (file : bytes) (b : iblock),
  wfb file -> lenN file < two63 ->
  (obtain file = Ok b <->
   8 <= lenN file /\
   (exists pre trail, file = pre ++ trail /\ lenN trail = 8 /\ unbe trail = lenN file) /\
   b = empty_block).
Proof. exact IntegrityBlockSign.obtain_ok_iff. Qed.
Print Assumptions obtain_ok_iff.

(* trailing length (a uint64, including values >= 2^63 that the int64
   conversion turns negative) above the file size: error *)
Theorem obtain_refuses_larger : forall (file pre trail : bytes),
  wfb file -> lenN file < two63 -> file = pre ++ trail -> lenN trail = 8 ->
  lenN file < unbe trail -> obtain file = Err.
Proof. exact IntegrityBlockSign.obtain_refuses_larger. Qed.
Print Assumptions obtain_refuses_larger.

(* trailing length below the file size = an integrity block is already there *)
Theorem obtain_refuses_existing_block : forall (file pre trail : bytes),
  lenN file < two63 -> file = pre ++ trail -> lenN trail = 8 ->
  unbe trail < lenN file -> obtain file = Err.
Proof. exact IntegrityBlockSign.obtain_refuses_existing_block. Qed.
Print Assumptions obtain_refuses_existing_block.

Theorem obtain_short_file : forall (file : bytes), lenN file < 8 -> obtain file = Err.
Proof. exact IntegrityBlockSign.obtain_short_file. Qed.
Print Assumptions obtain_short_file.

(* any list at all (no wfb, no size bound): an error or the empty block *)
Theorem obtain_never_panics : forall (file : bytes),
  obtain file = Err \/ obtain file = Ok empty_block.
Proof. exact IntegrityBlockSign.obtain_never_panics. Qed.
Print Assumptions obtain_never_panics.

(* ==== the attributes map ============================================================ *)
Theorem attrs_cbor_perm : forall (a a' : attrs), Permutation a a' -> attrs_cbor a = attrs_cbor a'.
Proof. exact IntegrityBlockBase.attrs_cbor_perm. Qed.
Print Assumptions attrs_cbor_perm.

(* canonical: header with the entry count, then text(name) bytes(value) in
   strictly ascending bytewise order of the encoded names; names are valid
   UTF-8 and pairwise distinct; the whole is a deterministic item *)
Theorem attrs_cbor_canonical : forall (a : attrs) (ab : bytes),
  attrs_cbor a = Ok ab ->
  AttrBytes a ab /\
  (exists s, Permutation s a /\
     StronglySorted (fun x y => blt (enc_bytes_of MText (fst x)) (enc_bytes_of MText (fst y))) s /\
     ab = enc_map_header (lenN a) ++ flat_map attr_entry_bytes s) /\
  keys_utf8 a = true /\ NoDup (map fst a) /\
  (attrs_wf a -> DetItem ab).
Proof.
  intros a ab H. split; [apply attrs_cbor_spec; exact H|].
  split; [apply attrs_cbor_sorted; exact H|].
  destruct (attrs_cbor_encodable a ab H) as [H1 H2]. split; [exact H1|]. split; [exact H2|].
  intros W. eapply attrs_cbor_det; eassumption.
Qed.
Print Assumptions attrs_cbor_canonical.

(* encodable exactly when the names are valid UTF-8 and distinct *)
Theorem attrs_cbor_total : forall (a : attrs),
  attrs_small a -> keys_utf8 a = true -> NoDup (map fst a) -> exists ab, attrs_cbor a = Ok ab.
Proof. exact IntegrityBlockCbor.attrs_cbor_total. Qed.
Print Assumptions attrs_cbor_total.

Theorem attrs_cbor_injective : forall (a a' : attrs) (ab : bytes),
  attrs_small a -> attrs_small a' ->
  attrs_cbor a = Ok ab -> attrs_cbor a' = Ok ab -> Permutation a a'.
Proof. exact IntegrityBlockBase.attrs_cbor_injective. Qed.
Print Assumptions attrs_cbor_injective.

(* ==== data to be signed =============================================================== *)
(* no size hypothesis: the uint64 conversion of the lengths is invisible in
   the eight bytes written *)
Theorem dtbs_layout : forall (h blk : bytes) (a : attrs) (d : bytes),
  data_to_be_signed h blk a = Ok d ->
  exists ab, attrs_cbor a = Ok ab /\
    d = be 8 (lenN h) ++ h ++ be 8 (lenN blk) ++ blk ++ be 8 (lenN ab) ++ ab /\
    d = Spec.IntegrityBlock.dtbs h blk ab.
Proof.
  intros h blk a d H. apply dtbs_ok_iff in H. destruct H as [ab [H1 H2]].
  exists ab. split; [exact H1|]. split; [exact H2|]. rewrite <- dtbs_bytes_spec. exact H2.
Qed.
Print Assumptions dtbs_layout.

Theorem dtbs_iff : forall (h blk : bytes) (a : attrs) (d : bytes),
  data_to_be_signed h blk a = Ok d <->
  exists ab, attrs_cbor a = Ok ab /\ d = Spec.IntegrityBlock.dtbs h blk ab.
Proof. exact IntegrityBlockSpec.dtbs_spec. Qed.
Print Assumptions dtbs_iff.

(* the signed bytes determine the hash, the block and the attributes *)
Theorem dtbs_injective : forall (h blk : bytes) (a : attrs) (h' blk' : bytes) (a' : attrs) (d : bytes),
  lenN h < two64 -> lenN h' < two64 -> lenN blk < two64 -> lenN blk' < two64 ->
  attrs_small a -> attrs_small a' ->
  data_to_be_signed h blk a = Ok d -> data_to_be_signed h' blk' a' = Ok d ->
  h = h' /\ blk = blk' /\ Permutation a a' /\ NoDup (map fst a).
Proof. exact IntegrityBlockBase.dtbs_injective. Qed.
Print Assumptions dtbs_injective.

(* ==== IntegrityBlock.CborBytes ========================================================== *)
(* 83, 48 magic, 44 version, array head |stack|, then per signature
   82 attributes-map bstr(signature) *)
Theorem block_cbor_layout : forall (b : iblock) (bs : bytes),
  block_cbor b = Ok bs <->
  exists items, StackBytes (ib_stack b) items /\
    bs = [131] ++ (72 :: ib_magic) ++ (68 :: ib_version_b1) ++
         enc_array_header (lenN (ib_stack b)) ++ List.concat items.
Proof. exact IntegrityBlockCbor.block_cbor_layout. Qed.
Print Assumptions block_cbor_layout.

(* the same in the vocabulary of the explainer's CDDL: the deterministic token
   encoding of [magic, version, [[attributes, signature]...]] with every
   attributes map in canonical order *)
Theorem block_cbor_spec : forall (b : iblock) (bs : bytes),
  block_cbor b = Ok bs -> BlockBytes (map ssig_of (ib_stack b)) bs.
Proof. exact IntegrityBlockSpec.block_cbor_spec. Qed.
Print Assumptions block_cbor_spec.

(* and the independent tokeniser reads exactly these tokens back, every head
   in shortest form *)
Theorem block_cbor_reads_back : forall (b : iblock) (bs : bytes),
  lenN (ib_stack b) < two64 ->
  Forall (fun s => ssig_small (ssig_of s)) (ib_stack b) ->
  block_cbor b = Ok bs ->
  exists st', Canon (map ssig_of (ib_stack b)) st' /\
              bs = senc_tokens (block_tokens st') /\
              stokens bs = Some (map with_width (block_tokens st')) /\
              Forall tok_shortest (map with_width (block_tokens st')).
Proof. exact IntegrityBlockSpec.block_cbor_reads_back. Qed.
Print Assumptions block_cbor_reads_back.

(* the block is ONE deterministic CBOR item and cbor.Deterministic accepts it *)
Theorem block_cbor_det : forall (b : iblock) (bs : bytes),
  block_wf b -> block_cbor b = Ok bs -> DetItem bs /\ det_check bs = Accept.
Proof.
  intros b bs W H. split; [eapply block_cbor_detitem|eapply IntegrityBlockCbor.block_cbor_det]; eassumption.
Qed.
Print Assumptions block_cbor_det.

(* with UTF-8, pairwise distinct attribute names the serialization succeeds
   and the deterministic check passes: on well-formed blocks neither can fail *)
Theorem block_cbor_total : forall (b : iblock),
  block_wf b -> Forall (fun s => attrs_encodable (is_attrs s)) (ib_stack b) ->
  exists bs, block_cbor b = Ok bs /\ det_check bs = Accept.
Proof. exact IntegrityBlockCbor.block_cbor_total. Qed.
Print Assumptions block_cbor_total.

(* ==== SignAndAddNewSignature ============================================================ *)
Theorem sign_and_add_checked : forall (strat_sign : bytes -> R bytes)
    (ed_ok : bytes -> bytes -> bytes -> bool) (hash : bytes) (b : iblock) (pk : bytes) (a : attrs)
    (b' : iblock),
  sign_and_add strat_sign ed_ok hash b pk a = Ok b' ->
  exists blk dtbs sg,
    block_cbor b = Ok blk /\ data_to_be_signed hash blk a = Ok dtbs /\
    strat_sign dtbs = Ok sg /\ ed_ok pk dtbs sg = true /\
    ib_stack b' = {| is_attrs := a; is_sig := sg |} :: ib_stack b.
Proof. exact IntegrityBlockSign.sign_and_add_checked. Qed.
Print Assumptions sign_and_add_checked.

(* attr_pk a = the value the lookup of "ed25519PublicKey" finds in a (first
   entry of that name; [] when there is none) *)
Theorem sign_and_add_ok_iff : forall (strat_sign : bytes -> R bytes)
    (ed_ok : bytes -> bytes -> bytes -> bool) (hash : bytes) (b : iblock) (pk : bytes) (a : attrs)
    (b' : iblock),
  sign_and_add strat_sign ed_ok hash b pk a = Ok b' <->
  attr_pk a = pk /\ lenN pk = 32 /\
  exists blk dtbs sg,
    block_cbor b = Ok blk /\ det_check blk = Accept /\
    data_to_be_signed hash blk a = Ok dtbs /\
    strat_sign dtbs = Ok sg /\ ed_ok pk dtbs sg = true /\ b' = push b a sg.
Proof. exact IntegrityBlockSign.sign_and_add_ok_iff. Qed.
Print Assumptions sign_and_add_ok_iff.

(* a successful call was given attributes in which the lookup of
   "ed25519PublicKey" finds an entry, whose value is the 32-byte key the
   signature has been verified with *)
Theorem sign_and_add_ok_attr : forall (strat_sign : bytes -> R bytes)
    (ed_ok : bytes -> bytes -> bytes -> bool) (hash : bytes) (b : iblock) (pk : bytes) (a : attrs)
    (b' : iblock),
  sign_and_add strat_sign ed_ok hash b pk a = Ok b' ->
  find (fun kv => bytes_eqb (fst kv) pk_attr_name) a = Some (pk_attr_name, pk) /\ lenN pk = 32.
Proof. exact IntegrityBlockSign.sign_and_add_ok_attr. Qed.
Print Assumptions sign_and_add_ok_attr.

(* the attributes are an association list; a name occurring twice (impossible
   in the Go map) is refused by the encoder, so on success the entry is the
   only one of that name - no NoDup premise anywhere *)
Theorem sign_and_add_ok_attr_unique : forall (strat_sign : bytes -> R bytes)
    (ed_ok : bytes -> bytes -> bytes -> bool) (hash : bytes) (b : iblock) (pk : bytes) (a : attrs)
    (b' : iblock),
  sign_and_add strat_sign ed_ok hash b pk a = Ok b' ->
  In (pk_attr_name, pk) a /\ (forall v, In (pk_attr_name, v) a -> v = pk) /\ lenN pk = 32.
Proof. exact IntegrityBlockSign.sign_and_add_ok_attr_unique. Qed.
Print Assumptions sign_and_add_ok_attr_unique.

Theorem sign_and_add_ok_nodup : forall (strat_sign : bytes -> R bytes)
    (ed_ok : bytes -> bytes -> bytes -> bool) (hash : bytes) (b : iblock) (pk : bytes) (a : attrs)
    (b' : iblock),
  sign_and_add strat_sign ed_ok hash b pk a = Ok b' -> NoDup (map fst a).
Proof. exact IntegrityBlockSign.sign_and_add_ok_nodup. Qed.
Print Assumptions sign_and_add_ok_nodup.

(* ---- refusals.  "Adds nothing": sign_and_add is a pure function, its argument
   b is a value and cannot change; the only block carrying the new signature is
   the one returned inside Ok, and in all of these nothing is returned.  (In Go
   the append to SignatureStack is the last statement, after every error
   return; attempts_invariant below states it for a signer that is used again
   after a failing call.) *)

(* the attributes carry another key, or none: error (the first test, before
   anything is serialized or signed) *)
Theorem sign_and_add_wrong_attr_err : forall (strat_sign : bytes -> R bytes)
    (ed_ok : bytes -> bytes -> bytes -> bool) (hash : bytes) (b : iblock) (pk : bytes) (a : attrs),
  attr_pk a <> pk -> sign_and_add strat_sign ed_ok hash b pk a = Err.
Proof. exact IntegrityBlockSign.sign_and_add_wrong_attr_err. Qed.
Print Assumptions sign_and_add_wrong_attr_err.

(* the same by list membership, for any association list: some entry of that
   name with another value / no entry (name, pk) at all *)
Theorem sign_and_add_other_key_in_err : forall (strat_sign : bytes -> R bytes)
    (ed_ok : bytes -> bytes -> bytes -> bool) (hash : bytes) (b : iblock) (pk v : bytes) (a : attrs),
  In (pk_attr_name, v) a -> v <> pk -> sign_and_add strat_sign ed_ok hash b pk a = Err.
Proof. exact IntegrityBlockSign.sign_and_add_other_key_in_err. Qed.
Print Assumptions sign_and_add_other_key_in_err.

Theorem sign_and_add_not_recorded_err : forall (strat_sign : bytes -> R bytes)
    (ed_ok : bytes -> bytes -> bytes -> bool) (hash : bytes) (b : iblock) (pk : bytes) (a : attrs),
  ~ In (pk_attr_name, pk) a -> pk <> [] -> sign_and_add strat_sign ed_ok hash b pk a = Err.
Proof. exact IntegrityBlockSign.sign_and_add_not_recorded_err. Qed.
Print Assumptions sign_and_add_not_recorded_err.

Theorem sign_and_add_no_key_err : forall (strat_sign : bytes -> R bytes)
    (ed_ok : bytes -> bytes -> bytes -> bool) (hash : bytes) (b : iblock) (pk : bytes) (a : attrs),
  (forall v, ~ In (pk_attr_name, v) a) -> pk <> [] -> sign_and_add strat_sign ed_ok hash b pk a = Err.
Proof. exact IntegrityBlockSign.sign_and_add_no_key_err. Qed.
Print Assumptions sign_and_add_no_key_err.

(* pk <> [] is needed for "= Err": with no entry and the empty key the
   attribute test passes (bytes.Equal(nil, []byte{})), the strategy is called,
   and only then the key-length test refuses; a panicking strategy panics *)
Theorem sign_and_add_no_key_needs_nonempty :
  exists (strat : bytes -> R bytes) (ed_ok : bytes -> bytes -> bytes -> bool) (hash : bytes) (a : attrs),
    (forall v, ~ In (pk_attr_name, v) a) /\
    sign_and_add strat ed_ok hash empty_block [] a = Panic.
Proof. exact IntegrityBlockSign.sign_and_add_no_key_needs_nonempty. Qed.
Print Assumptions sign_and_add_no_key_needs_nonempty.

(* a repeated name never gets through, whichever entry comes first *)
Theorem sign_and_add_dup_name_err : forall (strat_sign : bytes -> R bytes)
    (ed_ok : bytes -> bytes -> bytes -> bool) (hash : bytes) (b : iblock) (pk : bytes) (a : attrs),
  ~ NoDup (map fst a) -> sign_and_add strat_sign ed_ok hash b pk a = Err.
Proof. exact IntegrityBlockSign.sign_and_add_dup_name_err. Qed.
Print Assumptions sign_and_add_dup_name_err.

(* a key that is not 32 bytes long is never recorded, whatever ed_ok answers;
   the test sits in VerifyEd25519Signature, after the strategy has signed, so
   the result is the error provided the strategy does not itself panic *)
Theorem sign_and_add_bad_key_length_never_ok : forall (strat_sign : bytes -> R bytes)
    (ed_ok : bytes -> bytes -> bytes -> bool) (hash : bytes) (b : iblock) (pk : bytes) (a : attrs),
  lenN pk <> 32 -> forall b', sign_and_add strat_sign ed_ok hash b pk a <> Ok b'.
Proof. exact IntegrityBlockSign.sign_and_add_bad_key_length_never_ok. Qed.
Print Assumptions sign_and_add_bad_key_length_never_ok.

Theorem sign_and_add_bad_key_length_err : forall (strat_sign : bytes -> R bytes)
    (ed_ok : bytes -> bytes -> bytes -> bool) (hash : bytes) (b : iblock) (pk : bytes) (a : attrs),
  (forall m, strat_sign m <> Panic /\ strat_sign m <> Fuel) ->
  lenN pk <> 32 -> sign_and_add strat_sign ed_ok hash b pk a = Err.
Proof. exact IntegrityBlockSign.sign_and_add_bad_key_length_err. Qed.
Print Assumptions sign_and_add_bad_key_length_err.

Theorem sign_and_add_bad_key_length : forall (strat_sign : bytes -> R bytes)
    (ed_ok : bytes -> bytes -> bytes -> bool) (hash : bytes) (b : iblock) (pk : bytes) (a : attrs)
    (blk dtbs sg : bytes),
  block_cbor b = Ok blk -> data_to_be_signed hash blk a = Ok dtbs ->
  strat_sign dtbs = Ok sg -> lenN pk <> 32 ->
  sign_and_add strat_sign ed_ok hash b pk a = Err.
Proof. exact IntegrityBlockSign.sign_and_add_bad_key_length. Qed.
Print Assumptions sign_and_add_bad_key_length.

Theorem sign_and_add_bad_key_length_needs_no_panic :
  exists (strat : bytes -> R bytes) (ed_ok : bytes -> bytes -> bytes -> bool) (hash pk : bytes),
    lenN pk <> 32 /\ sign_and_add strat ed_ok hash empty_block pk [(pk_attr_name, pk)] = Panic.
Proof. exact IntegrityBlockSign.sign_and_add_bad_key_length_needs_no_panic. Qed.
Print Assumptions sign_and_add_bad_key_length_needs_no_panic.

(* The signature obtained does not verify under the key about to be recorded:
   error.  "Adds nothing": sign_and_add is a pure function, its argument b is
   a value and cannot change; the only block carrying the new signature is the
   one returned inside Ok, and here nothing is returned.  (In Go the append to
   SignatureStack is the last statement, after every error return.) *)
Theorem sign_and_add_mismatch : forall (strat_sign : bytes -> R bytes)
    (ed_ok : bytes -> bytes -> bytes -> bool) (hash : bytes) (b : iblock) (pk : bytes) (a : attrs)
    (blk dtbs sg : bytes),
  block_cbor b = Ok blk -> data_to_be_signed hash blk a = Ok dtbs ->
  strat_sign dtbs = Ok sg -> ed_ok pk dtbs sg = false ->
  sign_and_add strat_sign ed_ok hash b pk a = Err.
Proof. exact IntegrityBlockSign.sign_and_add_mismatch. Qed.
Print Assumptions sign_and_add_mismatch.

Theorem sign_and_add_mismatch_never_ok : forall (strat_sign : bytes -> R bytes)
    (ed_ok : bytes -> bytes -> bytes -> bool) (hash : bytes) (b : iblock) (pk : bytes) (a : attrs),
  (forall blk dtbs sg, block_cbor b = Ok blk -> data_to_be_signed hash blk a = Ok dtbs ->
                       strat_sign dtbs = Ok sg -> ed_ok pk dtbs sg = false) ->
  forall b', sign_and_add strat_sign ed_ok hash b pk a <> Ok b'.
Proof. exact IntegrityBlockSign.sign_and_add_mismatch_never_ok. Qed.
Print Assumptions sign_and_add_mismatch_never_ok.

(* nothing else: an error or a new block, unless the strategy panics *)
Theorem sign_and_add_ok_or_err : forall (strat_sign : bytes -> R bytes)
    (ed_ok : bytes -> bytes -> bytes -> bool) (hash : bytes) (b : iblock) (pk : bytes) (a : attrs),
  (forall m, strat_sign m <> Panic /\ strat_sign m <> Fuel) ->
  sign_and_add strat_sign ed_ok hash b pk a = Err \/
  exists b', sign_and_add strat_sign ed_ok hash b pk a = Ok b'.
Proof. exact IntegrityBlockSign.sign_and_add_ok_or_err. Qed.
Print Assumptions sign_and_add_ok_or_err.

(* ==== any sequence of signing operations =================================================== *)
(* Valid_stack ed_ok hash st pks (Proofs/IntegrityBlockSign.v):
     st = s :: rest, pks = pk :: pks'  requires
       block_cbor {rest} = Ok blk, det_check blk = Accept,
       data_to_be_signed hash blk (is_attrs s) = Ok dtbs, ed_ok pk dtbs (is_sig s) = true,
       and Valid_stack for rest, pks'.
   sign_all folds sign_and_add over a list of (public key, attributes). *)
Theorem stack_invariant : forall (strat_sign : bytes -> R bytes)
    (ed_ok : bytes -> bytes -> bytes -> bool) (hash : bytes) (ops : list (bytes * attrs)) (b' : iblock),
  sign_all strat_sign ed_ok hash empty_block ops = Ok b' ->
  Valid_stack ed_ok hash (ib_stack b') (rev (map fst ops)) /\
  map is_attrs (ib_stack b') = rev (map snd ops) /\
  lenN (ib_stack b') = lenN ops.
Proof. exact IntegrityBlockSign.stack_invariant. Qed.
Print Assumptions stack_invariant.

(* from any valid block: earlier signatures are kept as they are, below the new ones *)
Theorem stack_invariant_from : forall (strat_sign : bytes -> R bytes)
    (ed_ok : bytes -> bytes -> bytes -> bool) (hash : bytes) (ops : list (bytes * attrs))
    (b : iblock) (pks : list bytes) (b' : iblock),
  Valid_stack ed_ok hash (ib_stack b) pks ->
  sign_all strat_sign ed_ok hash b ops = Ok b' ->
  exists newer,
    ib_stack b' = newer ++ ib_stack b /\
    map is_attrs newer = rev (map snd ops) /\
    Valid_stack ed_ok hash (ib_stack b') (rev (map fst ops) ++ pks).
Proof. intros s e h ops. exact (IntegrityBlockSign.sign_all_invariant s e h ops). Qed.
Print Assumptions stack_invariant_from.

(* Valid_self ed_ok hash st: there are keys pks with Valid_stack ed_ok hash st pks
   and, position by position, recorded_key (is_attrs s) pk, i.e.
     find (name = "ed25519PublicKey") (is_attrs s) = Some ("ed25519PublicKey", pk):
   each signature verifies under the key found in ITS OWN attributes.
   No premise on the operations: sign_and_add enforces it. *)
Theorem stack_invariant_self : forall (strat_sign : bytes -> R bytes)
    (ed_ok : bytes -> bytes -> bytes -> bool) (hash : bytes) (ops : list (bytes * attrs)) (b' : iblock),
  sign_all strat_sign ed_ok hash empty_block ops = Ok b' ->
  Valid_self ed_ok hash (ib_stack b') /\ lenN (ib_stack b') = lenN ops /\
  Forall (fun op => recorded_key (snd op) (fst op) /\ lenN (fst op) = 32) ops.
Proof. exact IntegrityBlockSign.stack_invariant_self. Qed.
Print Assumptions stack_invariant_self.

Theorem stack_invariant_self_from : forall (strat_sign : bytes -> R bytes)
    (ed_ok : bytes -> bytes -> bytes -> bool) (hash : bytes) (ops : list (bytes * attrs))
    (b b' : iblock),
  Valid_self ed_ok hash (ib_stack b) ->
  sign_all strat_sign ed_ok hash b ops = Ok b' ->
  Valid_self ed_ok hash (ib_stack b') /\
  exists newer, ib_stack b' = newer ++ ib_stack b /\ map is_attrs newer = rev (map snd ops).
Proof. exact IntegrityBlockSign.stack_invariant_self_from. Qed.
Print Assumptions stack_invariant_self_from.

(* the invariant read with list membership and with the keys computed from
   the stack; both equivalent, neither needs NoDup of the names (Valid_stack
   has encoded every attributes map, which refuses repeated names) *)
Theorem Valid_self_iff_in : forall (ed_ok : bytes -> bytes -> bytes -> bool) (hash : bytes)
    (st : list isig),
  Valid_self ed_ok hash st <->
  exists pks, Valid_stack ed_ok hash st pks /\
              Forall2 (fun s pk => In (pk_attr_name, pk) (is_attrs s)) st pks.
Proof. exact IntegrityBlockSign.Valid_self_iff_in. Qed.
Print Assumptions Valid_self_iff_in.

Theorem Valid_self_keys : forall (ed_ok : bytes -> bytes -> bytes -> bool) (hash : bytes)
    (st : list isig),
  Valid_self ed_ok hash st <->
  Valid_stack ed_ok hash st (map (fun s => attr_pk (is_attrs s)) st) /\
  Forall (fun s => recorded_key (is_attrs s) (attr_pk (is_attrs s))) st.
Proof. exact IntegrityBlockSign.Valid_self_keys. Qed.
Print Assumptions Valid_self_keys.

(* ... and that key is unambiguous *)
Theorem attr_value_unique : forall (a : attrs) (ab k v v' : bytes),
  attrs_cbor a = Ok ab -> In (k, v) a -> In (k, v') a -> v = v'.
Proof. exact IntegrityBlockSign.attr_value_unique. Qed.
Print Assumptions attr_value_unique.

(* ==== any history of calls on one signer, failing calls included ========================== *)
(* attempt = (strategy held by the signer at that call, key, attributes);
   attempts hash b ts = the signer's block after the calls ts in order, where a
   call that does not return Ok leaves the block as it is;
   accepted hash b ts = the calls that returned Ok, oldest first;
   key32 s = the key found in s's attributes is 32 bytes long.
   From any block satisfying the invariant - the empty one does - and for ANY
   list of calls: every listed signature verifies under the key in its own
   attributes over the data-to-be-signed of the block as it stood before, the
   earlier signatures are untouched below one new signature per successful
   call, newest first. *)
Theorem attempts_invariant : forall (ed_ok : bytes -> bytes -> bytes -> bool) (hash : bytes)
    (ts : list attempt) (b : iblock),
  Valid_self ed_ok hash (ib_stack b) ->
  Valid_self ed_ok hash (ib_stack (attempts ed_ok hash b ts)) /\
  exists newer,
    ib_stack (attempts ed_ok hash b ts) = newer ++ ib_stack b /\
    map is_attrs newer = rev (map at_attrs (accepted ed_ok hash b ts)) /\
    Forall key32 newer /\
    Forall (fun t => recorded_key (at_attrs t) (at_pk t) /\ lenN (at_pk t) = 32)
           (accepted ed_ok hash b ts).
Proof. exact IntegrityBlockSign.attempts_invariant. Qed.
Print Assumptions attempts_invariant.

Theorem attempts_from_empty : forall (ed_ok : bytes -> bytes -> bytes -> bool) (hash : bytes)
    (ts : list attempt),
  Valid_self ed_ok hash (ib_stack (attempts ed_ok hash empty_block ts)) /\
  map is_attrs (ib_stack (attempts ed_ok hash empty_block ts)) =
    rev (map at_attrs (accepted ed_ok hash empty_block ts)) /\
  Forall key32 (ib_stack (attempts ed_ok hash empty_block ts)).
Proof. exact IntegrityBlockSign.attempts_from_empty. Qed.
Print Assumptions attempts_from_empty.

(* a call that does not return Ok leaves the signer's block unchanged *)
Theorem attempt_step_fail : forall (ed_ok : bytes -> bytes -> bytes -> bool) (hash : bytes)
    (b : iblock) (t : attempt),
  (forall b', try_sign ed_ok hash b t <> Ok b') -> attempt_step ed_ok hash b t = b.
Proof. exact IntegrityBlockSign.attempt_step_fail. Qed.
Print Assumptions attempt_step_fail.

(* the failing calls could as well not have been made; a history without
   failures under one strategy is sign_all *)
Theorem attempts_accepted : forall (ed_ok : bytes -> bytes -> bytes -> bool) (hash : bytes)
    (ts : list attempt) (b : iblock),
  attempts ed_ok hash b (accepted ed_ok hash b ts) = attempts ed_ok hash b ts /\
  accepted ed_ok hash b (accepted ed_ok hash b ts) = accepted ed_ok hash b ts.
Proof. exact IntegrityBlockSign.attempts_accepted. Qed.
Print Assumptions attempts_accepted.

Theorem sign_all_attempts : forall (ed_ok : bytes -> bytes -> bytes -> bool)
    (strat : bytes -> R bytes) (hash : bytes) (ops : list (bytes * attrs)) (b b' : iblock),
  sign_all strat ed_ok hash b ops = Ok b' ->
  attempts ed_ok hash b (map (with_strat strat) ops) = b' /\
  accepted ed_ok hash b (map (with_strat strat) ops) = map (with_strat strat) ops.
Proof. exact IntegrityBlockSign.sign_all_attempts. Qed.
Print Assumptions sign_all_attempts.

(* ==== SignWithIntegrityBlock ================================================================ *)
Theorem sign_file_layout : forall (H512 : bytes -> bytes) (strat_sign : bytes -> R bytes)
    (ed_ok : bytes -> bytes -> bytes -> bool) (file pk out : bytes),
  sign_file H512 strat_sign ed_ok file pk = Ok out ->
  exists blk sg dtbs,
    out = blk ++ file /\
    block_cbor (one_sig_block pk sg) = Ok blk /\ blk = one_sig_bytes pk sg /\
    det_check blk = Accept /\
    block_cbor empty_block = Ok empty_block_bytes /\
    data_to_be_signed (H512 file) empty_block_bytes (pk_attrs pk) = Ok dtbs /\
    strat_sign dtbs = Ok sg /\ ed_ok pk dtbs sg = true /\
    Valid_self ed_ok (H512 file) (ib_stack (one_sig_block pk sg)) /\
    recorded_key (pk_attrs pk) pk /\ lenN pk = 32.
Proof. exact IntegrityBlockSign.sign_file_layout. Qed.
Print Assumptions sign_file_layout.

Theorem sign_file_ok_iff : forall (H512 : bytes -> bytes) (strat_sign : bytes -> R bytes)
    (ed_ok : bytes -> bytes -> bytes -> bool) (file pk out : bytes),
  sign_file H512 strat_sign ed_ok file pk = Ok out <->
  obtain file = Ok empty_block /\ lenN pk = 32 /\
  exists sg, strat_sign (sign_file_dtbs H512 file pk) = Ok sg /\
             ed_ok pk (sign_file_dtbs H512 file pk) sg = true /\
             det_check (one_sig_bytes pk sg) = Accept /\
             out = one_sig_bytes pk sg ++ file.
Proof. exact IntegrityBlockSign.sign_file_ok_iff. Qed.
Print Assumptions sign_file_ok_iff.

Theorem sign_file_err_cases : forall (H512 : bytes -> bytes) (strat_sign : bytes -> R bytes)
    (ed_ok : bytes -> bytes -> bytes -> bool) (file pk : bytes),
  (obtain file = Err -> sign_file H512 strat_sign ed_ok file pk = Err) /\
  (strat_sign (sign_file_dtbs H512 file pk) = Err -> sign_file H512 strat_sign ed_ok file pk = Err) /\
  (forall sg, strat_sign (sign_file_dtbs H512 file pk) = Ok sg ->
              ed_ok pk (sign_file_dtbs H512 file pk) sg = false ->
              sign_file H512 strat_sign ed_ok file pk = Err) /\
  (forall pre trail, wfb file -> lenN file < two63 -> file = pre ++ trail -> lenN trail = 8 ->
                     unbe trail <> lenN file -> sign_file H512 strat_sign ed_ok file pk = Err) /\
  (lenN pk <> 32 -> forall out, sign_file H512 strat_sign ed_ok file pk <> Ok out) /\
  ((forall m, strat_sign m <> Panic /\ strat_sign m <> Fuel) -> lenN pk <> 32 ->
   sign_file H512 strat_sign ed_ok file pk = Err).
Proof.
  intros H s e file pk. split; [apply sign_file_err_obtain|]. split; [apply sign_file_err_strategy|].
  split; [intros sg; apply sign_file_err_verify|].
  split; [intros pre trail; apply sign_file_refusals|].
  split; [apply sign_file_bad_key_length_never_ok|apply sign_file_err_key_length].
Qed.
Print Assumptions sign_file_err_cases.

(* completeness: nothing else can fail *)
Theorem sign_file_complete : forall (H512 : bytes -> bytes) (strat_sign : bytes -> R bytes)
    (ed_ok : bytes -> bytes -> bytes -> bool) (file pk sg : bytes),
  obtain file = Ok empty_block ->
  wfb pk -> lenN pk = 32 -> wfb sg -> lenN sg < two64 ->
  strat_sign (sign_file_dtbs H512 file pk) = Ok sg ->
  ed_ok pk (sign_file_dtbs H512 file pk) sg = true ->
  sign_file H512 strat_sign ed_ok file pk = Ok (one_sig_bytes pk sg ++ file).
Proof. exact IntegrityBlockSign.sign_file_complete. Qed.
Print Assumptions sign_file_complete.

Theorem sign_file_never_panics : forall (H512 : bytes -> bytes) (strat_sign : bytes -> R bytes)
    (ed_ok : bytes -> bytes -> bytes -> bool) (file pk : bytes),
  (forall m, strat_sign m <> Panic /\ strat_sign m <> Fuel) ->
  sign_file H512 strat_sign ed_ok file pk = Err \/
  exists out, sign_file H512 strat_sign ed_ok file pk = Ok out.
Proof. exact IntegrityBlockSign.sign_file_never_panics. Qed.
Print Assumptions sign_file_never_panics.

(* ==== Web Bundle ID ============================================================================ *)
Theorem id_correct : forall (pk : bytes), web_bundle_id pk = lower (b32_encode (pk ++ [0; 1; 2])).
Proof. exact IntegrityBlockId.id_correct. Qed.
Print Assumptions id_correct.

(* Base/Base32.v is RFC 4648 base32 (bit-level spec) on whole 5-byte groups ... *)
Theorem b32_encode_rfc4648 : forall (k : nat) (bs : bytes),
  wfb bs -> List.length bs = (5 * k)%nat ->
  b32_encode bs = sb32 bs /\ sb32 bs = sb32_nopad bs.
Proof. exact IntegrityBlockSpec.b32_encode_rfc4648. Qed.
Print Assumptions b32_encode_rfc4648.

(* ... so for a 32-byte key the ID is the spec's unpadded lower-case base32 *)
Theorem id_spec : forall (pk : bytes),
  wfb pk -> List.length pk = 32%nat -> web_bundle_id pk = bundle_id pk.
Proof. exact IntegrityBlockSpec.web_bundle_id_spec. Qed.
Print Assumptions id_spec.

(* 56 characters from a-z2-7, no '=' (35 bytes = 7 whole groups) *)
Theorem id_length_56 : forall (pk : bytes),
  List.length pk = 32%nat ->
  lenN (web_bundle_id pk) = 56 /\ Forall id_char (web_bundle_id pk) /\ ~ In 61 (web_bundle_id pk).
Proof. exact IntegrityBlockId.id_length_56. Qed.
Print Assumptions id_length_56.

Theorem id_injective : forall (pk pk' : bytes),
  wfb pk -> wfb pk' -> List.length pk = 32%nat -> List.length pk' = 32%nat ->
  web_bundle_id pk = web_bundle_id pk' -> pk = pk'.
Proof. exact IntegrityBlockId.id_injective. Qed.
Print Assumptions id_injective.

(* ==== non-vacuity / executions ==================================================================== *)
(* a toy "Ed25519": the signature of msg under pk is SHA-512(pk ++ msg) *)
Definition toy_ok (pk msg sg : bytes) : bool := bytes_eqb sg (sha512 (pk ++ msg)).
Definition toy_pk : bytes := map N.of_nat (seq 1 32).
Definition toy_pk2 : bytes := map N.of_nat (seq 101 32).
Definition toy_sign (pk : bytes) (msg : bytes) : R bytes := Ok (sha512 (pk ++ msg)).

(* an unsigned "bundle": 24 content bytes then its own length (32) big-endian *)
Definition ex_file : bytes := map N.of_nat (seq 200 24) ++ be 8 32.

Example ex_obtain :
  obtain ex_file = Ok empty_block /\ wfb ex_file /\ lenN ex_file < two63 /\
  obtain (map N.of_nat (seq 0 7)) = Err /\                               (* too short *)
  obtain ([1; 2; 3] ++ ex_file) = Err /\                                 (* block already present *)
  obtain (map N.of_nat (seq 200 24) ++ be 8 33) = Err /\                 (* trailing > size *)
  obtain (map N.of_nat (seq 200 24) ++ be 8 two63) = Err /\              (* trailing = 2^63 *)
  obtain (map N.of_nat (seq 200 24) ++ be 8 (two64 - 1)) = Err /\        (* int64(-1) *)
  obtain (map N.of_nat (seq 200 24) ++ be 8 (two64 - 32)) = Err.         (* int64(-32) *)
Proof.
  split; [vm_compute; reflexivity|]. split; [apply wfbb_wfb; vm_compute; reflexivity|].
  split; [vm_compute; reflexivity|]. vm_compute. repeat split.
Qed.

Example ex_obtain_hyps :
  exists pre trail, ex_file = pre ++ trail /\ lenN trail = 8 /\ unbe trail = lenN ex_file.
Proof. exists (map N.of_nat (seq 200 24)), (be 8 32). vm_compute. repeat split. Qed.

(* the whole flow, executed *)
Definition ex_sg : bytes := sha512 (toy_pk ++ sign_file_dtbs sha512 ex_file toy_pk).
Example ex_sign_file :
  sign_file sha512 (toy_sign toy_pk) toy_ok ex_file toy_pk = Ok (one_sig_bytes toy_pk ex_sg ++ ex_file) /\
  lenN ex_sg = 64 /\
  firstn 19 (one_sig_bytes toy_pk ex_sg) =
    [131; 72; 240; 159; 150; 139; 240; 159; 147; 166; 68; 49; 98; 0; 0; 129; 130; 161; 112] /\
  det_check (one_sig_bytes toy_pk ex_sg) = Accept /\
  lenN (one_sig_bytes toy_pk ex_sg) = 135.
Proof. vm_compute. repeat split. Qed.

(* the strategy signs with another key than the one it reports: refused *)
Example ex_sign_file_mismatch :
  sign_file sha512 (toy_sign toy_pk2) toy_ok ex_file toy_pk = Err /\
  sign_file sha512 (toy_sign toy_pk) toy_ok ([1; 2; 3] ++ ex_file) toy_pk = Err /\
  sign_file sha512 (fun _ => Err) toy_ok ex_file toy_pk = Err.
Proof. vm_compute. repeat split. Qed.

(* a 31-byte key: the toy oracle would accept the signature (Go's
   ed25519.Verify would panic); refused on the length *)
Definition toy_pk31 : bytes := map N.of_nat (seq 1 31).
Example ex_sign_file_bad_key_length :
  sign_file sha512 (toy_sign toy_pk31) toy_ok ex_file toy_pk31 = Err /\
  lenN toy_pk31 <> 32 /\ lenN toy_pk = 32 /\
  (forall pk m, toy_sign pk m <> Panic /\ toy_sign pk m <> Fuel) /\
  toy_ok toy_pk31 (sign_file_dtbs sha512 ex_file toy_pk31)
         (sha512 (toy_pk31 ++ sign_file_dtbs sha512 ex_file toy_pk31)) = true.
Proof.
  split; [vm_compute; reflexivity|]. split; [vm_compute; discriminate|].
  split; [vm_compute; reflexivity|]. split; [intros pk m; split; discriminate|].
  vm_compute. reflexivity.
Qed.

(* three signing operations (extra attributes, different attribute orders)
   from the empty block: all accepted, newest first *)
Definition ex_ops : list (bytes * attrs) :=
  [(toy_pk, [(pk_attr_name, toy_pk)]);
   (toy_pk, [(s2b "note", [1; 2; 3]); (pk_attr_name, toy_pk)]);
   (toy_pk, [(pk_attr_name, toy_pk); (s2b "a", [])])].

Example ex_three_signatures :
  match sign_all (toy_sign toy_pk) toy_ok (sha512 ex_file) empty_block ex_ops with
  | Ok b' => map is_attrs (ib_stack b') = rev (map snd ex_ops) /\
             match block_cbor b' with Ok bs => det_check bs = Accept | _ => False end
  | _ => False
  end.
Proof. vm_compute. split; reflexivity. Qed.

(* the second operation names a key the strategy does not hold: the whole
   sequence stops with an error at that step *)
Example ex_three_signatures_mismatch :
  sign_all (toy_sign toy_pk) toy_ok (sha512 ex_file) empty_block
    [(toy_pk, [(pk_attr_name, toy_pk)]); (toy_pk2, [(pk_attr_name, toy_pk2)])] = Err.
Proof. vm_compute. reflexivity. Qed.

(* what stack_invariant_self concludes about the operations, seen directly *)
Example ex_ops_self :
  Forall (fun op => recorded_key (snd op) (fst op) /\ lenN (fst op) = 32) ex_ops.
Proof.
  unfold ex_ops. repeat (apply Forall_cons || apply Forall_nil); cbn [fst snd]; split;
    vm_compute; reflexivity.
Qed.

(* ---- a history with failing calls interleaved ---- *)
Definition ex_a1 : attrs := [(pk_attr_name, toy_pk)].
Definition ex_a2 : attrs := [(s2b "note", [1; 2; 3]); (pk_attr_name, toy_pk)].
Definition ex_a3 : attrs := [(pk_attr_name, toy_pk2); (s2b "a", [])].
Definition ex_good1 : attempt := {| at_strat := toy_sign toy_pk; at_pk := toy_pk; at_attrs := ex_a1 |}.
Definition ex_good2 : attempt := {| at_strat := toy_sign toy_pk; at_pk := toy_pk; at_attrs := ex_a2 |}.
Definition ex_good3 : attempt := {| at_strat := toy_sign toy_pk2; at_pk := toy_pk2; at_attrs := ex_a3 |}.
(* the signature verifies under toy_pk, the attributes name toy_pk2 *)
Definition ex_wrong_attr : attempt :=
  {| at_strat := toy_sign toy_pk; at_pk := toy_pk; at_attrs := [(pk_attr_name, toy_pk2)] |}.
(* attributes and key agree, the toy oracle accepts, the key has 31 bytes *)
Definition ex_bad_length : attempt :=
  {| at_strat := toy_sign toy_pk31; at_pk := toy_pk31; at_attrs := [(pk_attr_name, toy_pk31)] |}.
Definition ex_history : list attempt :=
  [ex_good1; ex_wrong_attr; ex_good2; ex_bad_length; ex_good3].
Definition ex_hash : bytes := sha512 ex_file.

(* the stack after every call: 1, 1, 2, 2, 3 signatures; at the end exactly
   the three good ones, newest first, as if the failing calls had not been made *)
Example ex_history_result :
  let b' := attempts toy_ok ex_hash empty_block ex_history in
  map (fun n => lenN (ib_stack (attempts toy_ok ex_hash empty_block (firstn n ex_history))))
      [0; 1; 2; 3; 4; 5]%nat = [0; 1; 1; 2; 2; 3] /\
  map is_attrs (ib_stack b') = [ex_a3; ex_a2; ex_a1] /\
  map (fun s => attr_pk (is_attrs s)) (ib_stack b') = [toy_pk2; toy_pk; toy_pk] /\
  map op_of (accepted toy_ok ex_hash empty_block ex_history) = map op_of [ex_good1; ex_good2; ex_good3] /\
  b' = attempts toy_ok ex_hash empty_block [ex_good1; ex_good2; ex_good3] /\
  Forall (fun s => lenN (is_sig s) = 64) (ib_stack b') /\
  match block_cbor b' with Ok bs => det_check bs = Accept | _ => False end.
Proof. vm_compute. repeat split; repeat constructor. Qed.

(* the two failing calls fail for the reason their names say, at the block
   they were made on (one / two signatures), and change nothing *)
Example ex_history_failures :
  let b1 := attempts toy_ok ex_hash empty_block [ex_good1] in
  let b2 := attempts toy_ok ex_hash empty_block [ex_good1; ex_wrong_attr; ex_good2] in
  attr_pk (at_attrs ex_wrong_attr) <> at_pk ex_wrong_attr /\
  try_sign toy_ok ex_hash b1 ex_wrong_attr = Err /\
  attempt_step toy_ok ex_hash b1 ex_wrong_attr = b1 /\
  attr_pk (at_attrs ex_bad_length) = at_pk ex_bad_length /\ lenN (at_pk ex_bad_length) <> 32 /\
  (exists blk dtbs sg, block_cbor b2 = Ok blk /\
     data_to_be_signed ex_hash blk (at_attrs ex_bad_length) = Ok dtbs /\
     at_strat ex_bad_length dtbs = Ok sg /\ toy_ok (at_pk ex_bad_length) dtbs sg = true) /\
  try_sign toy_ok ex_hash b2 ex_bad_length = Err /\
  attempt_step toy_ok ex_hash b2 ex_bad_length = b2.
Proof.
  cbv zeta. split; [vm_compute; discriminate|]. split; [vm_compute; reflexivity|].
  split; [vm_compute; reflexivity|]. split; [vm_compute; reflexivity|].
  split; [vm_compute; discriminate|].
  split; [|split; vm_compute; reflexivity].
  do 3 eexists. split; [vm_compute; reflexivity|]. split; [vm_compute; reflexivity|].
  split; vm_compute; reflexivity.
Qed.

(* the theorem applied: the final stack satisfies the invariant *)
Example ex_history_valid :
  Valid_self toy_ok ex_hash (ib_stack (attempts toy_ok ex_hash empty_block ex_history)).
Proof. exact (proj1 (attempts_from_empty toy_ok ex_hash ex_history)). Qed.

(* a non-empty starting block satisfying the invariant (hypothesis of
   attempts_invariant / stack_invariant_self_from) *)
Example ex_valid_self_start :
  Valid_self toy_ok ex_hash (ib_stack (attempts toy_ok ex_hash empty_block [ex_good1])) /\
  lenN (ib_stack (attempts toy_ok ex_hash empty_block [ex_good1])) = 1.
Proof.
  split; [exact (proj1 (attempts_from_empty toy_ok ex_hash [ex_good1]))|vm_compute; reflexivity].
Qed.

(* the name twice in the association list: the lookup takes the first entry;
   the call fails either way (attribute test / attributes do not encode) *)
Example ex_dup_name :
  let strat := fun _ : bytes => Ok [1] in
  let ed_ok := fun _ _ _ : bytes => true in
  let pk := repeat 1 32 in let pk2 := repeat 2 32 in
  attr_pk [(pk_attr_name, pk2); (pk_attr_name, pk)] = pk2 /\
  sign_and_add strat ed_ok [] empty_block pk [(pk_attr_name, pk2); (pk_attr_name, pk)] = Err /\
  attr_pk [(pk_attr_name, pk); (pk_attr_name, pk2)] = pk /\
  attrs_cbor [(pk_attr_name, pk); (pk_attr_name, pk2)] = Err /\
  sign_and_add strat ed_ok [] empty_block pk [(pk_attr_name, pk); (pk_attr_name, pk2)] = Err /\
  (exists b', sign_and_add strat ed_ok [] empty_block pk [(pk_attr_name, pk)] = Ok b').
Proof. exact IntegrityBlockSign.sign_and_add_dup_name_cases. Qed.

(* hypotheses of the membership forms of the refusals *)
Example ex_refusal_hyps :
  In (pk_attr_name, toy_pk2) (at_attrs ex_wrong_attr) /\ toy_pk2 <> toy_pk /\
  ~ In (pk_attr_name, toy_pk) (at_attrs ex_wrong_attr) /\ toy_pk <> [] /\
  (forall v, ~ In (pk_attr_name, v) [(s2b "note", [1])]) /\
  ~ NoDup (map fst [(s2b "n", [1]); (s2b "n", [2])]).
Proof.
  split; [left; reflexivity|]. split; [vm_compute; discriminate|].
  split; [intros [E|[]]; vm_compute in E; discriminate|]. split; [vm_compute; discriminate|].
  split; [intros v [E|[]]; vm_compute in E; discriminate|].
  intros H. inversion H as [|x l Hn _]; subst. apply Hn. left. reflexivity.
Qed.

(* attributes in a different order give the same bytes; a duplicate or a
   non-UTF-8 name is refused *)
Example ex_attrs :
  attrs_cbor [(s2b "note", [1; 2; 3]); (pk_attr_name, [9])] =
  attrs_cbor [(pk_attr_name, [9]); (s2b "note", [1; 2; 3])] /\
  attrs_cbor [(s2b "note", [1; 2; 3]); (pk_attr_name, [9])] =
    Ok ([162; 100] ++ s2b "note" ++ [67; 1; 2; 3] ++ [112] ++ pk_attr_name ++ [65; 9]) /\
  attrs_cbor [(s2b "n", [1]); (s2b "n", [2])] = Err /\
  attrs_cbor [([255], [1])] = Err.
Proof. vm_compute. repeat split. Qed.

Example ex_block_wf : block_wf (one_sig_block toy_pk (repeat 7 64)).
Proof.
  apply one_sig_block_wf; try (vm_compute; reflexivity);
    apply wfbb_wfb; vm_compute; reflexivity.
Qed.

(* the Go test vector (webbundleid_test.go): the public key of the test
   private key, derived with Go's crypto/ed25519 *)
Definition go_test_pk : bytes :=
  [228; 213; 22; 201; 133; 154; 248; 99; 86; 163; 81; 102; 125; 189; 0; 67; 97; 16; 26; 146;
   212; 2; 114; 254; 43; 206; 129; 187; 59; 113; 63; 45].
Example ex_go_test_id :
  web_bundle_id go_test_pk = s2b "4tkrnsmftl4ggvvdkfth3piainqragus2qbhf7rlz2a3wo3rh4wqaaic" /\
  bundle_id go_test_pk = s2b "4tkrnsmftl4ggvvdkfth3piainqragus2qbhf7rlz2a3wo3rh4wqaaic" /\
  List.length go_test_pk = 32%nat /\ wfbb go_test_pk = true.
Proof. vm_compute. repeat split. Qed.

(* RFC 4648 vectors: the model's encoder agrees with the bit-level spec also
   on partial groups (padded) *)
Example ex_b32_vectors :
  map b32_encode [s2b ""; s2b "f"; s2b "fo"; s2b "foo"; s2b "foob"; s2b "fooba"; s2b "foobar"] =
  map sb32 [s2b ""; s2b "f"; s2b "fo"; s2b "foo"; s2b "foob"; s2b "fooba"; s2b "foobar"].
Proof. vm_compute. reflexivity. Qed.
