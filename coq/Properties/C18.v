(* C18 - every serializer is a pure function of its logical input.   [PARTIAL]

   "Every serializer is a pure function of its logical input: repeating the
   call, changing the insertion order of header, parameter or attribute maps,
   interleaving it with unrelated calls, or running many calls concurrently on
   shared read-only inputs (certificates, keys, version constants, parsed
   bundles) always yields byte-identical output (randomized ECDSA signature
   bytes aside), and concurrent use causes no data race."

   What is proved here, and what is not.

   (i)  ORDER-INDEPENDENCE (proved, all inputs).  The models take every Go map
        (http.Header, structured-header Params, SignatureAttributesMap,
        subset-hashes, the entries handed to cbor EncodeMap) as an association
        list in the arbitrary order Go's map iteration produced.  For every
        serializer F and every such map argument m:
             Permutation m m'  ->  F (.. m ..) = F (.. m' ..)
        as an equation between results: the same bytes on success, the same
        failure otherwise.  One theorem per serializer below ([*_perm]).
        Two of them need "each key occurs once" ([NoDup] of the names), which
        every Go map satisfies; without it the model's first-match lookups
        would see the order ([hdr_lookup_needs_nodup], and the duplicate-key
        remark at [serialize_pi_perm]).
        Serializers WITHOUT a map input have nothing to permute: MICE
        [encode] (payload, record size), [cc_write] (a list, order is
        meaningful; per certificate the keys are three fixed strings, see
        [encode_augcert_order]), [signatures_section], [section_table].

   (ii) REPETITION / INTERLEAVING (by construction, no theorem).  Each model
        is a Gallina function of its logical inputs; it has no state that a
        previous, interleaved or concurrent call could have changed, so
        [F a = F a] holds by reflexivity and says nothing.  The content of the
        claim is that the GO code has no such state either; that is what the
        correspondence run checks (same case repeated, interleaved decoders,
        many goroutines on shared inputs), not Coq.  Randomised ECDSA bytes
        enter the models as an argument ([sig]), never as an effect.

   (iii) SHARED CONSTANTS (proved for a small model of slices, Proofs/GoSlice.v).
        Go's [append] writes into the backing array of its first argument
        when there is spare capacity.  The package-level constants the
        serializers append to / from (bundle magic and version bytes, the
        integrity-block magic and version, the web-bundle-id suffix) are
        composite literals, hence cap = len, hence [append] must allocate and
        the constant is never written ([constant_never_mutated]).  The one
        place where a CALLER's slice used to be written -
        GetWebBundleId before commit 44d0b33 - is exhibited
        ([append_spare_mutates_refuted], [id_input_old_spare_mutates]) together
        with the proof that the fixed code cannot do it
        ([fresh_then_append_safe]).

   NOT PROVED (outside a Gallina model): goroutine scheduling, the Go memory
   model, "no data race".  These are observed by running the Go code under
   the race detector in the correspondence run.  Hence PARTIAL.

   Statements only; proofs are in Proofs/Cbor*.v (C11), Proofs/SxgCanon.v,
   Proofs/SxgSign.v (C08), Proofs/SHRoundtrip.v (C16), Proofs/IntegrityBlockBase.v
   (C07), Proofs/Purity.v and Proofs/GoSlice.v (new). *)
From Coq Require Import Lia Permutation.
From WP Require Import Base.Prelude Base.Base64 Base.Sha256.
From WP Require Import Model.Cbor Model.Http Model.StructHdr Model.CertChain Model.Sxg
  Model.Bundle Model.BundleSig Model.IntegrityBlock.
From WP Require Import Spec.StructHdr.
From WP Require Import Proofs.CborMap Proofs.SxgCanon Proofs.SxgSign Proofs.SHRoundtrip
  Proofs.IntegrityBlockBase Proofs.BundleSigRoundtrip Proofs.Purity.
From WP Require Proofs.GoSlice.
Open Scope N_scope.

(* ================================================================================== *)
(* (i) order-independence                                                             *)
(* ================================================================================== *)

(* ---- CBOR: EncodeMap (C11) ----------------------------------------------------- *)
Theorem enc_map_perm : forall es es' : list (bytes * bytes),
  Permutation es es' -> enc_map es = enc_map es'.
Proof. exact CborMap.enc_map_perm. Qed.
Print Assumptions enc_map_perm.

(* ---- signed exchanges (C08) ------------------------------------------------------ *)
Theorem encode_exchange_headers_perm : forall e e',
  Permutation (e_reqh e) (e_reqh e') -> Permutation (e_resph e) (e_resph e') ->
  e_ver e = e_ver e' -> e_uri e = e_uri e' -> e_method e = e_method e' ->
  e_status e = e_status e' ->
  encode_exchange_headers e = encode_exchange_headers e'.
Proof. exact headers_perm_invariant. Qed.
Print Assumptions encode_exchange_headers_perm.

Theorem write_perm : forall e e',
  Permutation (e_reqh e) (e_reqh e') -> Permutation (e_resph e) (e_resph e') ->
  e_ver e = e_ver e' -> e_uri e = e_uri e' -> e_method e = e_method e' ->
  e_status e = e_status e' -> e_sig e = e_sig e' -> e_payload e = e_payload e' ->
  write e = write e'.
Proof. exact write_perm_invariant. Qed.
Print Assumptions write_perm.

Theorem signed_message_perm : forall e e' (cert : option bytes) (validity : bytes) (date expires : Z),
  Permutation (e_reqh e) (e_reqh e') -> Permutation (e_resph e) (e_resph e') ->
  e_ver e = e_ver e' -> e_uri e = e_uri e' -> e_method e = e_method e' ->
  e_status e = e_status e' ->
  signed_message e cert validity date expires = signed_message e' cert validity date expires.
Proof. exact Purity.signed_message_perm. Qed.
Print Assumptions signed_message_perm.

Theorem header_integrity_perm : forall (H256 : bytes -> bytes) e e',
  Permutation (e_reqh e) (e_reqh e') -> Permutation (e_resph e) (e_resph e') ->
  e_ver e = e_ver e' -> e_uri e = e_uri e' -> e_method e = e_method e' ->
  e_status e = e_status e' ->
  header_integrity H256 e = header_integrity H256 e'.
Proof. exact Purity.header_integrity_perm. Qed.
Print Assumptions header_integrity_perm.

(* ---- structured headers (C16): Params is a Go map ------------------------------ *)
(* [keys] = the parameter names.  A Go map has each name once; with a repeated
   name the stable insertion sort of the model would keep the two in supplied
   order, and the theorem would be false - but such a list is no Go map. *)
Theorem serialize_pi_perm : forall p p',
  pi_label p = pi_label p' -> Permutation (pi_params p) (pi_params p') ->
  NoDup (keys (pi_params p)) -> serialize_pi p = serialize_pi p'.
Proof. exact serialize_unique. Qed.
Print Assumptions serialize_pi_perm.

(* signer.go builds the seven Signature parameters in a map literal: any
   iteration order of that map gives the header the model computes *)
Theorem signature_header_value_perm :
  forall (H : bytes -> bytes) e certs cert_url validity date expires sig ps,
  Permutation ps (sig_params H (e_ver e) certs cert_url validity date expires sig) ->
  serialize_pi {| pi_label := s2b "label"; pi_params := ps |}
  = signature_header_value H e certs cert_url validity date expires sig.
Proof. exact signature_header_order_irrelevant. Qed.
Print Assumptions signature_header_value_perm.

(* ---- integrity block (C07): SignatureAttributesMap ------------------------------- *)
Theorem attrs_cbor_perm : forall a a' : attrs, Permutation a a' -> attrs_cbor a = attrs_cbor a'.
Proof. exact IntegrityBlockBase.attrs_cbor_perm. Qed.
Print Assumptions attrs_cbor_perm.

Theorem data_to_be_signed_perm : forall (hash block : bytes) (a a' : attrs),
  Permutation a a' -> data_to_be_signed hash block a = data_to_be_signed hash block a'.
Proof. exact Purity.data_to_be_signed_perm. Qed.
Print Assumptions data_to_be_signed_perm.

(* [isig_perm s s']: same signature bytes, attribute maps equal up to order *)
Theorem block_cbor_perm : forall b b' : iblock,
  Forall2 isig_perm (ib_stack b) (ib_stack b') -> block_cbor b = block_cbor b'.
Proof. exact Purity.block_cbor_perm. Qed.
Print Assumptions block_cbor_perm.

(* ---- bundles ----------------------------------------------------------------------- *)
Theorem encode_response_header_perm : forall (status : Z) (h h' : headers),
  Permutation h h' -> encode_response_header status h = encode_response_header status h'.
Proof. exact Purity.encode_response_header_perm. Qed.
Print Assumptions encode_response_header_perm.

(* [bx_perm x x']: same URL, status, body; header maps equal up to order *)
Theorem encode_response_perm : forall x x', bx_perm x x' -> encode_response x = encode_response x'.
Proof. exact Purity.encode_response_perm. Qed.
Print Assumptions encode_response_perm.

(* Bundle.WriteTo: the header map of ANY of the exchanges in another order.
   [hdr_is_map x] = no header name twice in x (true of a Go map); it is needed
   because the writer looks up "Variants" and "Variant-Key" by name. *)
Theorem b_write_perm : forall b b' : bundle,
  b_ver b = b_ver b' -> b_primary b = b_primary b' -> b_manifest b = b_manifest b' ->
  b_sigs b = b_sigs b' ->
  Forall2 bx_perm (b_exchanges b) (b_exchanges b') -> Forall hdr_is_map (b_exchanges b) ->
  b_write b = b_write b'.
Proof. exact Purity.b_write_perm. Qed.
Print Assumptions b_write_perm.

Theorem hdr_lookup_perm : forall (h h' : headers) (k : bytes),
  Permutation h h' -> NoDup (map fst h) -> hdr_lookup h k = hdr_lookup h' k.
Proof. exact Purity.hdr_lookup_perm. Qed.
Print Assumptions hdr_lookup_perm.

(* the premise cannot be dropped from the MODEL's lookup *)
Theorem hdr_lookup_needs_nodup :
  Permutation [([1], [[10]]); ([1], [[20]])] [([1], [[20]]); ([1], [[10]])] /\
  hdr_lookup [([1], [[10]]); ([1], [[20]])] [1] <> hdr_lookup [([1], [[20]]); ([1], [[10]])] [1].
Proof. exact Purity.hdr_lookup_needs_nodup. Qed.
Print Assumptions hdr_lookup_needs_nodup.

(* ---- bundle signatures: subset-hashes is a Go map (URL -> hashes) -------------- *)
Theorem encode_subset_perm : forall s s' : signed_subset,
  ss_validity s = ss_validity s' -> ss_auth s = ss_auth s' -> ss_date s = ss_date s' ->
  ss_expires s = ss_expires s' -> Permutation (ss_hashes s) (ss_hashes s') ->
  encode_subset s = encode_subset s'.
Proof. exact Purity.encode_subset_perm. Qed.
Print Assumptions encode_subset_perm.

(* the header hash that goes into the subset does not see the header order *)
Theorem header_sha256_perm : forall (H256 : bytes -> bytes) x x',
  bx_perm x x' -> header_sha256 H256 x = header_sha256 H256 x'.
Proof. exact Purity.header_sha256_perm. Qed.
Print Assumptions header_sha256_perm.

(* ---- certificate chains: fixed keys, no map input ------------------------------ *)
(* whichever order "cert" / "ocsp" / "sct" are appended in, same bytes *)
Theorem encode_augcert_order : forall (a : augcert) (es : list (bytes * bytes)),
  Permutation es (augcert_entries a) -> enc_map es = encode_augcert a.
Proof. exact Purity.encode_augcert_order. Qed.
Print Assumptions encode_augcert_order.

(* ================================================================================== *)
(* (iii) shared constants: Go slices and append                                       *)
(* ================================================================================== *)
(* In this part numbers are [nat] (positions in an array). *)

Theorem append_contents : forall (s : GoSlice.slice) (xs : list N),
  GoSlice.contents (fst (GoSlice.append s xs)) = (GoSlice.contents s ++ xs)%list.
Proof. exact GoSlice.append_contents. Qed.
Print Assumptions append_contents.

(* no spare capacity: append allocates, the original backing array (second
   component) is as before, the result lives in a fresh array *)
Theorem append_full_allocates : forall (s : GoSlice.slice) (xs : list N),
  GoSlice.cap s = GoSlice.len s -> xs <> [] ->
  snd (GoSlice.append s xs) = GoSlice.arr s /\
  GoSlice.arr (fst (GoSlice.append s xs)) = (GoSlice.contents s ++ xs)%list /\
  GoSlice.off (fst (GoSlice.append s xs)) = 0%nat.
Proof. exact GoSlice.append_full_allocates. Qed.
Print Assumptions append_full_allocates.

(* spare capacity: the cells after the window are overwritten with xs *)
Theorem append_spare_overwrites : forall (s : GoSlice.slice) (xs : list N),
  GoSlice.wf s -> (GoSlice.len s + List.length xs <= GoSlice.cap s)%nat ->
  firstn (List.length xs) (skipn (GoSlice.off s + GoSlice.len s) (snd (GoSlice.append s xs))) = xs /\
  firstn (GoSlice.off s + GoSlice.len s) (snd (GoSlice.append s xs))
  = firstn (GoSlice.off s + GoSlice.len s) (GoSlice.arr s) /\
  skipn (GoSlice.off s + GoSlice.len s + List.length xs) (snd (GoSlice.append s xs))
  = skipn (GoSlice.off s + GoSlice.len s + List.length xs) (GoSlice.arr s).
Proof. exact GoSlice.append_spare_overwrites. Qed.
Print Assumptions append_spare_overwrites.

(* REFUTED: "append never changes what another slice reads".  This is the
   pre-fix GetWebBundleId (append to the caller's key slice). *)
Theorem append_spare_mutates_refuted :
  exists (key other : GoSlice.slice) (xs : list N),
    GoSlice.wf key /\ GoSlice.wf other /\ GoSlice.arr other = GoSlice.arr key /\
    (GoSlice.len key + List.length xs <= GoSlice.cap key)%nat /\
    (GoSlice.len key < GoSlice.cap key)%nat /\
    GoSlice.contents other = [9; 9; 9] /\
    GoSlice.contents {| GoSlice.arr := snd (GoSlice.append key xs);
                        GoSlice.off := GoSlice.off other; GoSlice.len := GoSlice.len other |}
    = [0; 1; 2] /\
    snd (GoSlice.append key xs) <> GoSlice.arr key.
Proof. exact GoSlice.append_spare_mutates_refuted. Qed.
Print Assumptions append_spare_mutates_refuted.

Theorem literal_full : forall c : list N,
  GoSlice.cap (GoSlice.literal c) = GoSlice.len (GoSlice.literal c) /\
  GoSlice.contents (GoSlice.literal c) = c /\ GoSlice.wf (GoSlice.literal c).
Proof. exact GoSlice.literal_full. Qed.
Print Assumptions literal_full.

(* hdr_magic_b1/b2, ver_magic_b1/b2, ib_magic, ib_version_b1, the suffix 0,1,2 *)
Theorem constant_never_mutated :
  Forall (fun c => forall xs, xs <> [] ->
                   snd (GoSlice.append (GoSlice.literal c) xs) = c /\
                   GoSlice.arr (GoSlice.literal c) = c)
         [hdr_magic_b1; hdr_magic_b2; ver_magic_b1; ver_magic_b2; ib_magic; ib_version_b1; [0; 1; 2]].
Proof. exact GoSlice.constant_never_mutated. Qed.
Print Assumptions constant_never_mutated.

(* Version.HeaderMagicBytes() = append(HeaderMagicBytesBx, VersionMagicBytesBx...) *)
Theorem header_magic_bytes_append : forall v : bversion,
  let h := match v with BV1 => hdr_magic_b1 | BV2 => hdr_magic_b2 end in
  let m := match v with BV1 => ver_magic_b1 | BV2 => ver_magic_b2 end in
  GoSlice.contents (fst (GoSlice.append (GoSlice.literal h) m)) = header_magic_bytes v /\
  snd (GoSlice.append (GoSlice.literal h) m) = h.
Proof. exact GoSlice.header_magic_bytes_append. Qed.
Print Assumptions header_magic_bytes_append.

(* make([]byte, 0, n+k); append(.., a...); append(.., b...) - the fixed
   GetWebBundleId: both appends stay inside the fresh array *)
Theorem fresh_then_append_safe : forall a b : GoSlice.slice,
  let s0 := GoSlice.make0 (GoSlice.len a + GoSlice.len b) in
  let r1 := GoSlice.append s0 (GoSlice.contents a) in
  let r2 := GoSlice.append (fst r1) (GoSlice.contents b) in
  GoSlice.contents (fst r2) = (GoSlice.contents a ++ GoSlice.contents b)%list /\
  snd r1 = GoSlice.arr (fst r1) /\ snd r2 = GoSlice.arr (fst r2) /\
  GoSlice.off (fst r1) = 0%nat /\ GoSlice.off (fst r2) = 0%nat /\
  List.length (GoSlice.arr (fst r2)) = (GoSlice.len a + GoSlice.len b)%nat.
Proof. exact GoSlice.fresh_then_append_safe. Qed.
Print Assumptions fresh_then_append_safe.

(* old and new GetWebBundleId feed the same bytes to base32; the model's
   web_bundle_id is that value *)
Theorem id_input_same : forall pk : GoSlice.slice,
  GoSlice.contents (fst (GoSlice.id_input_old pk)) = GoSlice.contents (GoSlice.id_input_new pk) /\
  web_bundle_id (GoSlice.contents pk)
  = lower (Base32.b32_encode (GoSlice.contents (GoSlice.id_input_new pk))).
Proof. exact GoSlice.id_input_same. Qed.
Print Assumptions id_input_same.

Theorem id_input_old_spare_mutates : forall pk : GoSlice.slice,
  GoSlice.wf pk -> (GoSlice.len pk + 3 <= GoSlice.cap pk)%nat ->
  firstn 3 (skipn (GoSlice.off pk + GoSlice.len pk) (snd (GoSlice.id_input_old pk))) = [0; 1; 2].
Proof. exact GoSlice.id_input_old_spare_mutates. Qed.
Print Assumptions id_input_old_spare_mutates.

(* ================================================================================== *)
(* examples: every [_perm] theorem on a non-trivial input with a shuffled map        *)
(* ================================================================================== *)
Definition hd (k : string) (vs : list string) : bytes * list bytes := (s2b k, map s2b vs).
Open Scope string_scope. Open Scope N_scope. Open Scope list_scope.

Definition ex_resph : headers :=
  [hd "Content-Type" ["text/html; charset=utf-8"]; hd "X-Multi" ["a"; "b"];
   hd "Digest" ["mi-sha256-03=dcRDgR2GM35DluAV13PzgnG6+pvQwPywfFvAu1UeFrs="];
   hd "content-encoding" ["mi-sha256-03"]; hd "Vary" []].
(* a shuffle that is neither the identity nor the reversal *)
Definition ex_resph' : headers :=
  [hd "Digest" ["mi-sha256-03=dcRDgR2GM35DluAV13PzgnG6+pvQwPywfFvAu1UeFrs="]; hd "Vary" [];
   hd "Content-Type" ["text/html; charset=utf-8"]; hd "content-encoding" ["mi-sha256-03"];
   hd "X-Multi" ["a"; "b"]].
Definition ex_reqh : headers := [hd "Accept" ["*/*"]; hd "accept-Language" ["en"; "fr"]; hd "X" ["1"]].
Definition ex_reqh' : headers := [hd "X" ["1"]; hd "Accept" ["*/*"]; hd "accept-Language" ["en"; "fr"]].

Definition headers_eqb (a b : headers) : bool :=
  (lenN a =? lenN b) &&
  forallb (fun x => existsb (fun y => bytes_eqb (fst x) (fst y)
                                      && (lenN (snd x) =? lenN (snd y))
                                      && forallb (fun p => bytes_eqb (fst p) (snd p))
                                                 (combine (snd x) (snd y))) b) a.

Example ex_shuffled : Permutation ex_resph ex_resph' /\ Permutation ex_reqh ex_reqh' /\
                      ex_resph <> ex_resph' /\ ex_resph' <> rev ex_resph /\ ex_reqh <> ex_reqh'.
Proof.
  repeat split; try discriminate.
  - unfold ex_resph, ex_resph'.
    apply Permutation_cons_app with (l1 := [hd "Digest" _; hd "Vary" []]). cbn [app].
    apply Permutation_cons_app with (l1 := [hd "Digest" _; hd "Vary" []; hd "content-encoding" _]).
    cbn [app]. apply perm_skip.
    apply Permutation_cons_app with (l1 := [hd "Vary" []]). cbn [app]. apply Permutation_refl.
  - unfold ex_reqh, ex_reqh'.
    apply Permutation_cons_app with (l1 := [hd "X" _]). cbn [app].
    apply Permutation_cons_app with (l1 := [hd "X" _]). cbn [app]. apply Permutation_refl.
Qed.

Definition ex (v : version) (rq rs : headers) : exchange :=
  {| e_ver := v; e_uri := s2b "https://example.com/index.html";
     e_method := s2b "GET"; e_reqh := match v with V1b3 => [] | _ => rq end;
     e_status := 200%Z; e_resph := rs;
     e_sig := s2b "label;sig=*AA==*"; e_payload := s2b "<!doctype html>"; e_taint := false |}.

Definition R_eqb (a b : R bytes) : bool :=
  match a, b with
  | Ok x, Ok y => bytes_eqb x y
  | Err, Err => true
  | _, _ => false
  end.
(* both succeed, with equal bytes *)
Definition same_ok (a b : R bytes) : bool := is_ok a && R_eqb a b.

Example ex_enc_map_perm :
  enc_map [([98; 97; 98], [1]); ([24; 100], [2]); ([10], [3]); ([96], [4])]
  = enc_map [([10], [3]); ([98; 97; 98], [1]); ([96], [4]); ([24; 100], [2])]
  /\ enc_map [([10], [3]); ([98; 97; 98], [1]); ([96], [4]); ([24; 100], [2])]
     = Ok [164; 10; 3; 24; 100; 2; 96; 4; 98; 97; 98; 1].
Proof. vm_compute. split; reflexivity. Qed.

Example ex_sxg_perm :
  forallb (fun v =>
    same_ok (encode_exchange_headers (ex v ex_reqh ex_resph))
            (encode_exchange_headers (ex v ex_reqh' ex_resph'))
    && same_ok (write (ex v ex_reqh ex_resph)) (write (ex v ex_reqh' ex_resph'))
    && same_ok (signed_message (ex v ex_reqh ex_resph) (Some (sha256 [1; 2; 3]))
                  (s2b "https://example.com/v") 1511128380 1511733180)
               (signed_message (ex v ex_reqh' ex_resph') (Some (sha256 [1; 2; 3]))
                  (s2b "https://example.com/v") 1511128380 1511733180)
    && same_ok (header_integrity sha256 (ex v ex_reqh ex_resph))
               (header_integrity sha256 (ex v ex_reqh' ex_resph')))
    [V1b1; V1b2; V1b3] = true.
Proof. vm_compute. reflexivity. Qed.

(* ... and equal FAILURES: a duplicate after lower-casing is refused in every order *)
Example ex_sxg_perm_err :
  write (ex V1b3 [] [hd "A" ["1"]; hd "b" ["2"]; hd "a" ["3"]]) = Err /\
  write (ex V1b3 [] [hd "a" ["3"]; hd "A" ["1"]; hd "b" ["2"]]) = Err.
Proof. vm_compute. split; reflexivity. Qed.

Definition ex_params : sh_params :=
  [(s2b "validity-url", Some (ShStr (s2b "https://e.com/a")));
   (s2b "integrity", Some (ShStr (s2b "digest/mi-sha256-03")));
   (s2b "sig", Some (ShBytes [1; 2; 3; 254; 255]));
   (s2b "date", Some (ShInt (-9223372036854775808)));
   (s2b "flag", None);
   (s2b "expires", Some (ShInt 9223372036854775807))].
Definition ex_params' : sh_params :=
  [(s2b "flag", None);
   (s2b "sig", Some (ShBytes [1; 2; 3; 254; 255]));
   (s2b "expires", Some (ShInt 9223372036854775807));
   (s2b "validity-url", Some (ShStr (s2b "https://e.com/a")));
   (s2b "date", Some (ShInt (-9223372036854775808)));
   (s2b "integrity", Some (ShStr (s2b "digest/mi-sha256-03")))].

Example ex_serialize_pi_perm :
  serialize_pi {| pi_label := s2b "sig1"; pi_params := ex_params |}
  = serialize_pi {| pi_label := s2b "sig1"; pi_params := ex_params' |}
  /\ serialize_pi {| pi_label := s2b "sig1"; pi_params := ex_params' |}
     = Ok (s2b "sig1;date=-9223372036854775808;expires=9223372036854775807;flag;integrity=""digest/mi-sha256-03"";sig=*AQID/v8=*;validity-url=""https://e.com/a""").
Proof. vm_compute. split; reflexivity. Qed.

Example ex_serialize_pi_hyp : NoDup (keys (pi_params {| pi_label := s2b "sig1"; pi_params := ex_params |})).
Proof.
  cbn [pi_params keys ex_params map fst].
  repeat (constructor; [cbn [In]; intros H;
                        repeat (destruct H as [H|H]; [vm_compute in H; discriminate H|]); exact H|]).
  constructor.
Qed.

Example ex_signature_header_perm :
  serialize_pi {| pi_label := s2b "label";
                  pi_params := rev (sig_params sha256 V1b3 [[48; 1]] (s2b "https://e.com/cert")
                                      (s2b "https://e.com/v") 1511128380 1511733180 [9; 8; 7]) |}
  = signature_header_value sha256 (ex V1b3 [] ex_resph) [[48; 1]] (s2b "https://e.com/cert")
      (s2b "https://e.com/v") 1511128380 1511733180 [9; 8; 7]
  /\ is_ok (signature_header_value sha256 (ex V1b3 [] ex_resph) [[48; 1]] (s2b "https://e.com/cert")
              (s2b "https://e.com/v") 1511128380 1511733180 [9; 8; 7]) = true.
Proof. vm_compute. split; reflexivity. Qed.

Definition ex_attrs : attrs :=
  [(s2b "note", [1; 2; 3]); (pk_attr_name, [9; 9]); (s2b "a", []); (s2b "zz", [255])].
Definition ex_attrs' : attrs :=
  [(s2b "zz", [255]); (s2b "a", []); (s2b "note", [1; 2; 3]); (pk_attr_name, [9; 9])].

Example ex_ib_perm :
  same_ok (attrs_cbor ex_attrs) (attrs_cbor ex_attrs') = true /\
  same_ok (data_to_be_signed [5; 5] [6; 6; 6] ex_attrs) (data_to_be_signed [5; 5] [6; 6; 6] ex_attrs') = true /\
  same_ok (block_cbor {| ib_stack := [{| is_attrs := ex_attrs; is_sig := [1] |};
                                      {| is_attrs := [(pk_attr_name, [7])]; is_sig := [2] |};
                                      {| is_attrs := rev ex_attrs; is_sig := [3] |}] |})
          (block_cbor {| ib_stack := [{| is_attrs := ex_attrs'; is_sig := [1] |};
                                      {| is_attrs := [(pk_attr_name, [7])]; is_sig := [2] |};
                                      {| is_attrs := ex_attrs; is_sig := [3] |}] |}) = true.
Proof. vm_compute. repeat split. Qed.

(* bundles: b1 with a 2x2 variant set (the lookups of Variants / Variant-Key
   are exercised) and b2; every header map shuffled or reversed *)
Definition ex_vv : string := "Accept-Language;en;fr, Accept-Encoding;gzip;br".
Definition vx (shuffle : bool) (u vk body : string) : bexchange :=
  {| bx_url := s2b u; bx_status := 200;
     bx_hdr := if shuffle
               then [hd "X-Multi" ["a"; "b"]; hd "Variant-Key" [vk]; hd "Variants" [ex_vv]]
               else [hd "Variants" [ex_vv]; hd "Variant-Key" [vk]; hd "X-Multi" ["a"; "b"]];
     bx_body := s2b body |}.
Definition ex_b1 (shuffle : bool) : bundle :=
  {| b_ver := BV1; b_primary := Some (s2b "https://example.com/");
     b_manifest := Some (s2b "https://example.com/manifest.json");
     b_sigs := Some {| sg_auth := [{| ac_cert := [1; 2; 3]; ac_ocsp := Some [4]; ac_sct := None |}];
                       sg_vouched := [{| vs_authority := 0; vs_sig := [9; 9]; vs_signed := [7] |}] |};
     b_exchanges := [ vx shuffle "https://example.com/" "fr;br" "FRBR";
                      {| bx_url := s2b "https://example.com/style.css"; bx_status := 404;
                         bx_hdr := if shuffle then ex_resph' else ex_resph; bx_body := [] |};
                      vx shuffle "https://example.com/" "en;gzip" "ENGZ";
                      vx false "https://example.com/" "fr;gzip" "FRGZ";
                      vx shuffle "https://example.com/" "en;br" "ENBR" ];
     b_taint := false |}.
Definition ex_b2 (shuffle : bool) : bundle :=
  {| b_ver := BV2; b_primary := Some (s2b "https://example.com/zz"); b_manifest := None; b_sigs := None;
     b_exchanges := [ {| bx_url := s2b "https://example.com/zz"; bx_status := 200;
                         bx_hdr := if shuffle then ex_resph' else ex_resph; bx_body := s2b "<p>" |};
                      {| bx_url := s2b "https://example.com/a/long/path"; bx_status := 301;
                         bx_hdr := if shuffle then rev ex_reqh else ex_reqh; bx_body := [] |};
                      {| bx_url := s2b "b"; bx_status := 999; bx_hdr := []; bx_body := [0; 255] |} ];
     b_taint := false |}.

Example ex_bundle_perm :
  same_ok (encode_response_header 200 ex_resph) (encode_response_header 200 ex_resph') = true /\
  same_ok (encode_response (vx false "https://example.com/" "fr;br" "FRBR"))
          (encode_response (vx true "https://example.com/" "fr;br" "FRBR")) = true /\
  same_ok (b_write (ex_b1 false)) (b_write (ex_b1 true)) = true /\
  same_ok (b_write (ex_b2 false)) (b_write (ex_b2 true)) = true /\
  same_ok (header_sha256 sha256 (vx false "u" "fr;br" "B")) (header_sha256 sha256 (vx true "u" "fr;br" "B")) = true.
Proof. vm_compute. repeat split. Qed.

(* the hypotheses of b_write_perm hold of the example *)
Example ex_bundle_perm_hyps :
  forallb (fun x => negb (existsb (fun p => match p with
                                            | (a, b) => bytes_eqb a b
                                            end)
                            ((fix pairs (l : list bytes) : list (bytes * bytes) :=
                                match l with
                                | [] => []
                                | a :: t => map (fun b => (a, b)) t ++ pairs t
                                end) (map fst (bx_hdr x)))))
          (b_exchanges (ex_b1 false) ++ b_exchanges (ex_b2 false)) = true /\
  forallb (fun p => bytes_eqb (bx_url (fst p)) (bx_url (snd p))
                    && (bx_status (fst p) =? bx_status (snd p))%Z
                    && bytes_eqb (bx_body (fst p)) (bx_body (snd p))
                    && headers_eqb (bx_hdr (fst p)) (bx_hdr (snd p)))
          (combine (b_exchanges (ex_b1 false)) (b_exchanges (ex_b1 true))) = true.
Proof. vm_compute. split; reflexivity. Qed.

(* ... as propositions, for the b2 example *)
Example ex_b_write_perm_hyps :
  Forall2 bx_perm (b_exchanges (ex_b2 false)) (b_exchanges (ex_b2 true)) /\
  Forall hdr_is_map (b_exchanges (ex_b2 false)) /\
  b_write (ex_b2 false) = b_write (ex_b2 true).
Proof.
  destruct ex_shuffled as (P1 & _ & _).
  assert (F : Forall2 bx_perm (b_exchanges (ex_b2 false)) (b_exchanges (ex_b2 true))).
  { cbn [ex_b2 b_exchanges]. repeat constructor; cbn [bx_hdr]; try exact P1.
    apply Permutation_rev. }
  assert (M : Forall hdr_is_map (b_exchanges (ex_b2 false))).
  { cbn [ex_b2 b_exchanges]. unfold hdr_is_map. cbn [bx_hdr].
    repeat (apply Forall_cons; [|]); try apply Forall_nil;
      cbn [map fst ex_resph ex_reqh hd];
      repeat (apply NoDup_cons; [cbn [In]; intros H;
                repeat (destruct H as [H|H]; [vm_compute in H; discriminate H|]); exact H|]);
      apply NoDup_nil. }
  split; [exact F|]. split; [exact M|].
  apply b_write_perm; try reflexivity; assumption.
Qed.

Definition ex_rh (n : N) : resp_hashes :=
  {| rh_variants := []; rh_hashes := [{| ri_hsha := [n; n; n]; ri_integ := s2b "digest/mi-sha256-03" |}] |}.
Definition ex_subset (hs : list (bytes * resp_hashes)) : signed_subset :=
  {| ss_validity := s2b "https://example.com/v"; ss_auth := sha256 [1; 2; 3];
     ss_date := 1511128380; ss_expires := 1511733180; ss_hashes := hs |}.

Example ex_subset_perm :
  same_ok (encode_subset (ex_subset [(s2b "https://e.com/b", ex_rh 1); (s2b "https://e.com/", ex_rh 2);
                                     (s2b "https://e.com/a/long", ex_rh 3); (s2b "https://e.com/a", ex_rh 4)]))
          (encode_subset (ex_subset [(s2b "https://e.com/a/long", ex_rh 3); (s2b "https://e.com/a", ex_rh 4);
                                     (s2b "https://e.com/b", ex_rh 1); (s2b "https://e.com/", ex_rh 2)]))
  = true /\
  (* equal failures: an integrity string that is not UTF-8, wherever it stands *)
  encode_subset (ex_subset [(s2b "u", ex_rh 1);
                            (s2b "v", {| rh_variants := []; rh_hashes := [{| ri_hsha := []; ri_integ := [255] |}] |})]) = Err /\
  encode_subset (ex_subset [(s2b "v", {| rh_variants := []; rh_hashes := [{| ri_hsha := []; ri_integ := [255] |}] |});
                            (s2b "u", ex_rh 1)]) = Err.
Proof. vm_compute. repeat split. Qed.

Example ex_augcert_order :
  let a := {| ac_cert := [48; 1; 7]; ac_ocsp := Some [1; 2]; ac_sct := Some [0; 0] |} in
  enc_map [(enc_bytes_of TText (s2b "sct"), enc_bytes [0; 0]);
           (enc_bytes_of TText (s2b "ocsp"), enc_bytes [1; 2]);
           (enc_bytes_of TText (s2b "cert"), enc_bytes [48; 1; 7])] = encode_augcert a
  /\ encode_augcert a = Ok [163; 99; 115; 99; 116; 66; 0; 0; 100; 99; 101; 114; 116; 67; 48; 1; 7;
                            100; 111; 99; 115; 112; 66; 1; 2].
Proof. vm_compute. split; reflexivity. Qed.

(* slices *)
Example ex_magic_append :
  GoSlice.append (GoSlice.literal hdr_magic_b2) ver_magic_b2
  = ({| GoSlice.arr := header_magic_bytes BV2; GoSlice.off := 0; GoSlice.len := 15 |}, hdr_magic_b2).
Proof. reflexivity. Qed.

Example ex_old_get_web_bundle_id :
  let key := {| GoSlice.arr := [7; 7; 7; 9; 9; 9]; GoSlice.off := 0; GoSlice.len := 3 |} in
  GoSlice.wf key /\ (GoSlice.len key + 3 <= GoSlice.cap key)%nat /\
  snd (GoSlice.id_input_old key) = [7; 7; 7; 0; 1; 2] /\
  GoSlice.contents (GoSlice.id_input_new key) = [7; 7; 7; 0; 1; 2].
Proof. unfold GoSlice.wf, GoSlice.cap. cbn. repeat split; lia. Qed.
