(* C18 - serializers are pure; placeholder until the order-independence theorems are collected. *)
From WP Require Import Base.Prelude Model.Cbor.
Open Scope N_scope.

Theorem c18_smoke : enc_map [([2], [9]); ([1], [8])] = enc_map [([1], [8]); ([2], [9])].
Proof. reflexivity. Qed.
Print Assumptions c18_smoke.
