(* C05 / C03 - truncation ("a source that stops early") is never mistaken for a different value: a written bundle cut before its 9-byte length footer is refused, cut inside it reads as the whole; on every input a prefix reads as Err or as the whole.
   Statements only; proofs in Proofs/Truncation*.v.  Tr f (Proofs/TruncationBase.v): a stream parser is
   truncation-exact when a success consumed a definite head h, the answer does not depend on what follows h,
   and every strict prefix of h is refused.  consumed bs rest = |bs| - |rest|. *)
From Coq Require Import Lia.
From WP Require Import Base.Prelude Model.Cbor Model.Http Model.CertChain Model.Bundle Model.Sxg.
From WP Require Import Spec.BundleRead.
From WP Require Import Proofs.BaseLemmas Proofs.CborDecode Proofs.CertChainWrite
  Proofs.BundleReadLayout Proofs.BundleRoundtrip Proofs.BundleRoundtripNorm
  Proofs.SxgReadDefs.
From WP Require Proofs.TruncationBase Proofs.TruncationCertChain Proofs.TruncationSxg
  Proofs.TruncationBundleRead Proofs.TruncationBundle.
Open Scope N_scope.

Definition consumed (bs rest : bytes) : nat := (List.length bs - List.length rest)%nat.
(* ==== 3. web bundles (C03 / C05) =========================================================== *)
(* EXACTLY which cuts are refused: those before the 9-byte trailing length field.
   No hypothesis beyond "the writer accepted b" and the slice bound. *)
Theorem bundle_truncated : forall (x509_ok : bytes -> bool) (b : bundle) (bs : bytes),
  b_write b = Ok bs -> lenN bs < two63 ->
  forall p : nat,
    ((p < List.length bs - 9)%nat -> b_read x509_ok (firstn p bs) = Err) /\
    ((List.length bs - 9 <= p)%nat -> b_read x509_ok (firstn p bs) = b_read x509_ok bs).
Proof. exact TruncationBundle.bundle_truncated. Qed.
Print Assumptions bundle_truncated.

(* with the round trip (C03 bundle_roundtrip): a cut inside the footer reads as norm b *)
Theorem bundle_truncated_norm : forall (x509_ok : bytes -> bool) (b : bundle) (bs : bytes),
  b_write b = Ok bs -> residual x509_ok b = true -> lenN bs < two63 ->
  forall p : nat,
    ((p < List.length bs - 9)%nat -> b_read x509_ok (firstn p bs) = Err) /\
    ((List.length bs - 9 <= p)%nat -> b_read x509_ok (firstn p bs) = Ok (norm b)).
Proof. exact TruncationBundle.bundle_truncated_norm. Qed.
Print Assumptions bundle_truncated_norm.

(* the statement as first asked for *)
Theorem bundle_truncated_or : forall (x509_ok : bytes -> bool) (b : bundle) (bs : bytes),
  b_write b = Ok bs -> residual x509_ok b = true -> lenN bs < two63 ->
  forall p : nat, (p < List.length bs)%nat ->
    b_read x509_ok (firstn p bs) = Err \/ b_read x509_ok (firstn p bs) = b_read x509_ok bs.
Proof. exact TruncationBundle.bundle_truncated_or. Qed.
Print Assumptions bundle_truncated_or.

(* "List.length bs - 9" is a position in the file *)
Theorem bundle_written_length : forall (b : bundle) (bs : bytes),
  b_write b = Ok bs -> lenN bs < two63 -> (10 <= List.length bs)%nat.
Proof. exact (TruncationBundle.written_length (fun _ => true)). Qed.
Print Assumptions bundle_written_length.

(* where the sections of a written bundle are: the table ends with "responses"
   (at least one byte), the last section ends 9 bytes before the end of the file *)
Theorem bundle_written_header : forall (b : bundle) (bs : bytes),
  b_write b = Ok bs -> lenN bs < two63 ->
  exists fb t0 ss before rl,
    load_header bs = Ok (b_ver b, fb, t0, ss, before ++ [(sec_responses, rl)]) /\
    1 <= rl /\ ss + sum_lens before + rl + 9 = lenN bs.
Proof. exact (TruncationBundle.written_header (fun _ => true)). Qed.
Print Assumptions bundle_written_header.

(* ---- the reader on EVERY input (C05) ---------------------------------------------------- *)
(* ss = offset of the first section, sos = the section table (load_header);
   ss + sum_lens sos = end of the last section *)
Theorem bundle_read_cut_before_end :
  forall (x509_ok : bytes -> bool) (bs : bytes) (p : nat) v fb t0 ss sos,
  load_header bs = Ok (v, fb, t0, ss, sos) -> N.of_nat p < ss + sum_lens sos ->
  b_read x509_ok (firstn p bs) = Err.
Proof. exact TruncationBundleRead.read_cut_before_end. Qed.
Print Assumptions bundle_read_cut_before_end.

Theorem bundle_read_cut_behind_sections :
  forall (x509_ok : bytes -> bool) (bs : bytes) (p : nat) v fb t0 ss before rl,
  lenN bs < two64 ->
  load_header bs = Ok (v, fb, t0, ss, before ++ [(sec_responses, rl)]) ->
  ss + sum_lens before < N.of_nat p -> ss + sum_lens before + rl <= N.of_nat p ->
  b_read x509_ok (firstn p bs) = b_read x509_ok bs.
Proof. exact TruncationBundleRead.read_cut_behind_sections. Qed.
Print Assumptions bundle_read_cut_behind_sections.

(* every input, every cut: refused, or nothing changes *)
Theorem bundle_read_truncated_any : forall (x509_ok : bytes -> bool) (bs : bytes) (p : nat),
  lenN bs < two64 ->
  b_read x509_ok (firstn p bs) = Err \/ b_read x509_ok (firstn p bs) = b_read x509_ok bs.
Proof. exact TruncationBundleRead.read_cut_any. Qed.
Print Assumptions bundle_read_truncated_any.

(* the header (magic, b1 primary URL, section lengths, sections array head) cut short *)
Theorem bundle_header_cut_inside : forall (bs : bytes) (p : nat) v fb t0 ss sos,
  load_header bs = Ok (v, fb, t0, ss, sos) -> N.of_nat p < ss -> load_header (firstn p bs) = Err.
Proof. exact TruncationBundleRead.load_header_cut_inside. Qed.
Print Assumptions bundle_header_cut_inside.

Definition all_ok (_ : bytes) : bool := true.
Definition der_like (b : bytes) : bool := match b with 48 :: _ => true | _ => false end.
Definition ex_x (u : string) (st : Z) (body : string) : bexchange :=
  {| bx_url := s2b u; bx_status := st; bx_hdr := [(s2b "Content-Type", [s2b "text/plain"])];
     bx_body := s2b body |}.
Definition ex_b2 : bundle :=
  {| b_ver := BV2; b_primary := Some (s2b "https://example.com/"); b_manifest := None; b_sigs := None;
     b_exchanges := [ex_x "https://example.com/" 200 "hello"; ex_x "https://example.com/nf" 404 "nf"];
     b_taint := false |}.
Definition ex_b1 : bundle :=
  {| b_ver := BV1; b_primary := Some (s2b "https://example.com/");
     b_manifest := Some (s2b "https://example.com/manifest.json");
     b_sigs := Some {| sg_auth := [{| ac_cert := [48; 2; 3]; ac_ocsp := Some [4]; ac_sct := None |}];
                       sg_vouched := [{| vs_authority := 0; vs_sig := [9; 9]; vs_signed := [7] |}] |};
     b_exchanges := [ex_x "https://example.com/" 200 "hello"; ex_x "https://example.com/a" 301 ""];
     b_taint := false |}.
Definition written (b : bundle) : bytes := match b_write b with Ok bs => bs | _ => [] end.

(* "every strict prefix of a written bundle is refused" is false: the reader does not
   read the trailing length field, so the file minus its last byte (or its last 9
   bytes) is read like the whole file *)
Theorem bundle_every_prefix_refused_refuted :
  exists (b : bundle) (bs : bytes) (p : nat),
    b_write b = Ok bs /\ residual all_ok b = true /\ lenN bs < two63 /\ (p < List.length bs)%nat /\
    b_read all_ok (firstn p bs) = Ok (norm b) /\
    b_read all_ok (firstn (List.length bs - 9) bs) = Ok (norm b) /\
    b_read all_ok (firstn (List.length bs - 10) bs) = Err.
Proof.
  exists ex_b2, (written ex_b2), (List.length (written ex_b2) - 1)%nat.
  split; [vm_compute; reflexivity|]. split; [vm_compute; reflexivity|].
  split; [vm_compute; reflexivity|]. split; [vm_compute; lia|].
  split; [vm_compute; reflexivity|]. split; vm_compute; reflexivity.
Qed.
Print Assumptions bundle_every_prefix_refused_refuted.
Definition cuts (bs : bytes) : list nat := seq 0 (List.length bs).
Definition is_err {A} (r : R A) : bool := match r with Err => true | _ => false end.
(* C03: a b2 bundle and a b1 bundle with manifest and signatures; the classification of
   EVERY cut position computed by the model agrees with bundle_truncated_norm *)
Definition bundle_sweep_ok (b : bundle) : bool :=
  let bs := written b in
  forallb (fun p => if (p <? List.length bs - 9)%nat
                    then is_err (b_read all_ok (firstn p bs))
                    else match b_read all_ok (firstn p bs), b_read all_ok bs with
                         | Ok x, Ok y =>
                             (List.length (b_exchanges x) =? List.length (b_exchanges y))%nat
                             && bytes_eqb (List.concat (map bx_body (b_exchanges x)))
                                          (List.concat (map bx_body (b_exchanges y)))
                         | _, _ => false
                         end) (cuts bs).

Example ex_bundle_hyps :
  b_write ex_b2 = Ok (written ex_b2) /\ residual all_ok ex_b2 = true /\ lenN (written ex_b2) < two63 /\
  b_write ex_b1 = Ok (written ex_b1) /\ residual all_ok ex_b1 = true /\ lenN (written ex_b1) < two63 /\
  b_read all_ok (written ex_b2) = Ok (norm ex_b2) /\ b_read all_ok (written ex_b1) = Ok (norm ex_b1) /\
  (List.length (written ex_b2), List.length (written ex_b1)) = (222%nat, 319%nat) /\
  bundle_sweep_ok ex_b2 = true /\ bundle_sweep_ok ex_b1 = true.
Proof. vm_compute. repeat split. Qed.

Example ex_bundle_by_theorem : forall x509_ok p,
  ((p < 310)%nat -> b_read x509_ok (firstn p (written ex_b1)) = Err) /\
  ((310 <= p)%nat -> b_read x509_ok (firstn p (written ex_b1)) = b_read x509_ok (written ex_b1)).
Proof.
  intros x509_ok p. destruct ex_bundle_hyps as [_ [_ [_ [Hw [_ [Hl [_ [_ [Hlen _]]]]]]]]].
  assert (E : List.length (written ex_b1) = 319%nat) by (inversion Hlen; reflexivity).
  pose proof (bundle_truncated x509_ok ex_b1 (written ex_b1) Hw Hl p) as H. rewrite E in H. exact H.
Qed.

(* the hypotheses of the every-input statements on that file *)
Example ex_bundle_header :
  load_header (written ex_b2) =
  Ok (BV2, None, false, 48, [(sec_index, 54); (s2b "primary", 21); (sec_responses, 90)]) /\
  48 + sum_lens [(sec_index, 54); (s2b "primary", 21); (sec_responses, 90)] + 9 = lenN (written ex_b2).
Proof. vm_compute. split; reflexivity. Qed.

