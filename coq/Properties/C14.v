(* C14 - MICE (drafts 02 and 03): Encode computes the digest and stream layout
   of the draft's recursive definition (Spec/Mice.v), and decoding that stream
   with the returned digest header yields the payload.

   H is the hash (SHA-256 in the code).  The only facts about it that are
   used are premises of the theorems: its output has 32 bytes, each < 256. *)
From WP Require Import Base.Prelude Base.Base64 Base.Sha256 Model.Mice Spec.Mice.
From WP Require Import Proofs.MiceLemmas Proofs.MiceEncode Proofs.MiceDecode.
Open Scope N_scope.

(* Encode = specification, for every payload (no size bound), every record
   size >= 1, both drafts; in particular no slice panics and the loop fuel
   suffices.  No assumption on H at all. *)
Theorem C14_encode_refines_spec :
  forall (H : bytes -> bytes) (d : draft) (rs : N) (p : bytes),
    1 <= rs ->
    encode H d rs p = Ok (stream H d rs p, digest_header H d rs p).
Proof. exact encode_refines_spec. Qed.
Print Assumptions C14_encode_refines_spec.

(* record size 0: "mice: invalid record size" (an error; it used to be an integer
   division by zero, i.e. a run-time panic).  So the premise 1 <= rs above is exactly
   the domain on which Encode succeeds, and Encode never panics or loops. *)
Theorem C14_encode_rs0_err :
  forall (H : bytes -> bytes) (d : draft) (p : bytes), encode H d 0 p = Err.
Proof. exact encode_rs0_err. Qed.
Print Assumptions C14_encode_rs0_err.

Theorem C14_encode_ok_or_err :
  forall (H : bytes -> bytes) (d : draft) (rs : N) (p : bytes),
    (rs = 0 /\ encode H d rs p = Err)
    \/ (1 <= rs /\ encode H d rs p = Ok (stream H d rs p, digest_header H d rs p)).
Proof. exact encode_ok_or_err. Qed.
Print Assumptions C14_encode_ok_or_err.

Theorem C14_encode_never_panics :
  forall (H : bytes -> bytes) (d : draft) (rs : N) (p : bytes),
    encode H d rs p <> Panic /\ encode H d rs p <> Fuel.
Proof. exact encode_never_panics. Qed.
Print Assumptions C14_encode_never_panics.

Example ex_encode_rs0 :
  encode sha256 D03 0 [1; 2; 3] = Err /\ encode sha256 D02 0 [] = Err /\
  match encode sha256 D03 1 [1; 2; 3] with Ok _ => True | _ => False end.
Proof. vm_compute. repeat split. Qed.

(* all four base64 alphabets/paddings decode what they encode *)
Theorem C14_b64_roundtrip :
  forall (pad url : bool) (bs : bytes),
    wfb bs -> b64_decode pad url (b64_encode pad url bs) = Some bs.
Proof. exact b64_roundtrip. Qed.
Print Assumptions C14_b64_roundtrip.

(* NewDecoder accepts the specified stream + digest header, and then:
   (1) any history of Read calls (any destination sizes, 0 included) never
       errs, delivers a prefix of p, and reports EOF only after all of p;
   (2) more than |p| reads into non-empty buffers deliver p and end with EOF;
   (3) the ReadAll loop with any buffer size k >= 1 returns (p, EOF). *)
Theorem C14_mi_roundtrip :
  forall (H : bytes -> bytes),
    (forall x, List.length (H x) = 32%nat) -> (forall x, wfb (H x)) ->
  forall (d : draft) (rs maxrs : N) (p : bytes),
    1 <= rs -> rs <= maxrs -> rs < two64 ->
    exists s0,
      new_decoder H d (stream H d rs p) (digest_header H d rs p) maxrs = Ok s0 /\
      (forall sizes out st, read_trace H s0 sizes [] = (out, st) ->
         st <> RErr /\ (exists rest, p = out ++ rest) /\ (st = REOF -> out = p)) /\
      (forall sizes out st, Forall (fun k => 1 <= k) sizes ->
         (List.length p < List.length sizes)%nat ->
         read_trace H s0 sizes [] = (out, st) -> out = p /\ st = REOF) /\
      (forall k fuel, 1 <= k -> (List.length p < fuel)%nat ->
         read_all H fuel s0 k [] = (p, REOF)).
Proof. exact mi_roundtrip. Qed.
Print Assumptions C14_mi_roundtrip.

Theorem C14_decode_all_roundtrip :
  forall (H : bytes -> bytes),
    (forall x, List.length (H x) = 32%nat) -> (forall x, wfb (H x)) ->
  forall (d : draft) (rs maxrs k : N) (p : bytes),
    1 <= rs -> rs <= maxrs -> rs < two64 -> 1 <= k ->
    decode_all H d (stream H d rs p) (digest_header H d rs p) maxrs k = Ok (p, REOF).
Proof. exact decode_all_roundtrip. Qed.
Print Assumptions C14_decode_all_roundtrip.

(* the same on the model functions only: Encode, then NewDecoder + ReadAll *)
Theorem C14_encode_decode_roundtrip :
  forall (H : bytes -> bytes),
    (forall x, List.length (H x) = 32%nat) -> (forall x, wfb (H x)) ->
  forall (d : draft) (rs maxrs k : N) (p : bytes),
    1 <= rs -> rs <= maxrs -> rs < two64 -> 1 <= k ->
    exists strm hdr, encode H d rs p = Ok (strm, hdr) /\
                     decode_all H d strm hdr maxrs k = Ok (p, REOF).
Proof. exact encode_decode_roundtrip. Qed.
Print Assumptions C14_encode_decode_roundtrip.

(* ---- the premises are satisfiable: a toy 32-byte hash -------------------- *)
Definition toyH (x : bytes) : bytes :=
  be 32 (fold_left (fun a b => (a * 257 + b + 1) mod 2 ^ 256) x 7).

Example toyH_len : forall x, List.length (toyH x) = 32%nat.
Proof. intros x. apply be_length. Qed.
Example toyH_wf : forall x, wfb (toyH x).
Proof. intros x. apply be_wfb. Qed.

Example toy_roundtrip_all :
  forall d rs k p, 1 <= rs -> rs <= 16384 -> 1 <= k ->
    exists strm hdr, encode toyH d rs p = Ok (strm, hdr) /\
                     decode_all toyH d strm hdr 16384 k = Ok (p, REOF).
Proof.
  intros d rs k p R1 R2 K.
  apply (C14_encode_decode_roundtrip toyH toyH_len toyH_wf); try assumption.
  apply (N.le_lt_trans _ 16384); [exact R2|reflexivity].
Qed.

(* ---- concrete runs with SHA-256 ------------------------------------------ *)
Definition msg : bytes := s2b "When I grow up, I want to be a watermelon".

(* the published examples of the draft (also in mice_test.go) *)
Example spec_vector_single_03 :
  digest_header sha256 D03 41 msg
  = s2b "mi-sha256-03=dcRDgR2GM35DluAV13PzgnG6+pvQwPywfFvAu1UeFrs=".
Proof. vm_compute. reflexivity. Qed.
Example spec_vector_multi_03 :
  digest_header sha256 D03 16 msg
  = s2b "mi-sha256-03=IVa9shfs0nyKEhHqtB3WVNANJ2Njm5KjQLjRtnbkYJ4=".
Proof. vm_compute. reflexivity. Qed.
Example spec_vector_multi_02 :
  digest_header sha256 D02 16 msg
  = s2b "mi-sha256-draft2=IVa9shfs0nyKEhHqtB3WVNANJ2Njm5KjQLjRtnbkYJ4".
Proof. vm_compute. reflexivity. Qed.
Example spec_vector_empty_03 :
  stream sha256 D03 16 [] = [] /\
  digest_header sha256 D03 16 []
  = s2b "mi-sha256-03=bjQLnP+zepicpUTmu3gKLHiQHT+zNzh2hRGjBhevoB0=".
Proof. vm_compute. split; reflexivity. Qed.
Example spec_vector_empty_02 :
  stream sha256 D02 16 [] = be 8 16 /\
  digest_header sha256 D02 16 []
  = s2b "mi-sha256-draft2=bjQLnP-zepicpUTmu3gKLHiQHT-zNzh2hRGjBhevoB0".
Proof. vm_compute. split; reflexivity. Qed.

(* stream layout: 8-byte size, 3 records, 2 interleaved proofs *)
Example stream_layout :
  List.length (stream sha256 D03 16 msg) = (8 + 41 + 2 * 32)%nat /\
  firstn 24 (stream sha256 D03 16 msg) = be 8 16 ++ firstn 16 msg.
Proof. vm_compute. split; reflexivity. Qed.

Example real_roundtrip_03 :
  match encode sha256 D03 16 msg with
  | Ok (strm, hdr) => decode_all sha256 D03 strm hdr 16384 7 = Ok (msg, REOF)
  | _ => False
  end.
Proof. vm_compute. reflexivity. Qed.
Example real_roundtrip_02_exact_multiple :
  match encode sha256 D02 8 (firstn 32 msg) with
  | Ok (strm, hdr) => decode_all sha256 D02 strm hdr 16384 5 = Ok (firstn 32 msg, REOF)
  | _ => False
  end.
Proof. vm_compute. reflexivity. Qed.

(* the preconditions are needed *)
(* k = 0: ReadAll with an empty buffer makes no progress (Go: Read returns 0, nil) *)
Example zero_buffer_makes_no_progress :
  decode_all sha256 D03 (stream sha256 D03 16 msg) (digest_header sha256 D03 16 msg) 16384 0
  = Ok ([], ROk).
Proof. vm_compute. reflexivity. Qed.
(* rs >= 2^64 does not fit the 8-byte size field (unreachable from Go: int) *)
Example record_size_must_fit_8_bytes :
  let rs := two64 + 1 in
  encode toyH D03 rs [1; 2] = Ok (stream toyH D03 rs [1; 2], digest_header toyH D03 rs [1; 2]) /\
  decode_all toyH D03 (stream toyH D03 rs [1; 2]) (digest_header toyH D03 rs [1; 2]) rs 4
  = Ok ([], RErr).
Proof. vm_compute. split; reflexivity. Qed.
