(* C17 - truncation ("a source that stops early") is never mistaken for a different value: every strict prefix of a written cert chain is refused; on every input a prefix reads as Err or as the whole.
   Statements only; proofs in Proofs/Truncation*.v.  Tr f (Proofs/TruncationBase.v): a stream parser is
   truncation-exact when a success consumed a definite head h, the answer does not depend on what follows h,
   and every strict prefix of h is refused.  consumed bs rest = |bs| - |rest|. *)
From Coq Require Import Lia.
From WP Require Import Base.Prelude Model.Cbor Model.Http Model.CertChain Model.Bundle Model.Sxg.
From WP Require Import Spec.BundleRead.
From WP Require Import Proofs.BaseLemmas Proofs.CborDecode Proofs.CertChainWrite
  Proofs.BundleReadLayout Proofs.BundleRoundtrip Proofs.BundleRoundtripNorm
  Proofs.SxgReadDefs.
From WP Require Proofs.TruncationBase Proofs.TruncationCertChain Proofs.TruncationSxg
  Proofs.TruncationBundleRead Proofs.TruncationBundle.
Open Scope N_scope.

Definition consumed (bs rest : bytes) : nat := (List.length bs - List.length rest)%nat.
(* ==== 2. cert chains (C17) =============================================================== *)
(* every strict prefix of what CertChain.Write produced is refused, whatever
   x509.ParseCertificate answers.  The two size conditions are chain_roundtrip's: a
   count or a length that does not fit its CBOR head is written modulo 2^64 in the
   model and no Go value is that large. *)
Theorem chain_truncated : forall (x509_ok : bytes -> bool) (c : list augcert) (bs : bytes) (p : nat),
  cc_write c = Ok bs -> lenN c + 1 < two64 -> Forall (aug_lt two63) c ->
  (p < List.length bs)%nat -> cc_read x509_ok (firstn p bs) = Err.
Proof. exact TruncationCertChain.chain_truncated. Qed.
Print Assumptions chain_truncated.

(* every input: a prefix is refused or read as the whole input is (the reader does
   not look behind the last certificate) *)
Theorem chain_read_truncated_any : forall (x509_ok : bytes -> bool) (bs : bytes) (p : nat),
  cc_read x509_ok (firstn p bs) = Err \/ cc_read x509_ok (firstn p bs) = cc_read x509_ok bs.
Proof. exact TruncationCertChain.read_truncated_any. Qed.
Print Assumptions chain_read_truncated_any.

(* where the boundary is, for an accepted input: the bytes the reader consumed
   (cc_read_rest = cc_read that also returns the unread rest) *)
Theorem chain_read_truncated_exact :
  forall (x509_ok : bytes -> bool) (bs : bytes) (c : list augcert) (rest : bytes) (p : nat),
  TruncationCertChain.cc_read_rest x509_ok bs = Ok (c, rest) ->
  ((p < consumed bs rest)%nat -> cc_read x509_ok (firstn p bs) = Err) /\
  ((consumed bs rest <= p)%nat -> cc_read x509_ok (firstn p bs) = Ok c).
Proof. exact TruncationCertChain.read_truncated_exact. Qed.
Print Assumptions chain_read_truncated_exact.

Theorem chain_read_rest_is_read : forall (x509_ok : bytes -> bool) (bs : bytes),
  cc_read x509_ok bs = let* (c, _) := TruncationCertChain.cc_read_rest x509_ok bs in Ok c.
Proof. exact TruncationCertChain.cc_read_of_rest. Qed.
Print Assumptions chain_read_rest_is_read.

(* one augmented certificate (DecodeAugmentedCertificateFrom) *)
Theorem augcert_truncated :
  forall (x509_ok : bytes -> bool) (bs : bytes) (a : augcert) (rest : bytes) (p : nat),
  decode_augcert x509_ok bs = Ok (a, rest) -> (p < consumed bs rest)%nat ->
  decode_augcert x509_ok (firstn p bs) = Err.
Proof. exact TruncationCertChain.augcert_truncated. Qed.
Print Assumptions augcert_truncated.

Definition all_ok (_ : bytes) : bool := true.
Definition der_like (b : bytes) : bool := match b with 48 :: _ => true | _ => false end.
(* chain_truncated is about WRITER output: the reader is liberal about trailing bytes,
   so an accepted input that carries some has accepted strict prefixes *)
Definition leaf : augcert :=
  {| ac_cert := [48; 1; 7]; ac_ocsp := Some [1; 2]; ac_sct := Some [0; 0] |}.
Definition inter : augcert := {| ac_cert := [48; 0]; ac_ocsp := None; ac_sct := None |}.
Definition chain_written : bytes := match cc_write [leaf; inter] with Ok bs => bs | _ => [] end.

Theorem chain_truncated_needs_written :
  exists (bs : bytes) (p : nat) (c : list augcert),
    cc_read der_like bs = Ok c /\ (p < List.length bs)%nat /\ cc_read der_like (firstn p bs) = Ok c.
Proof.
  exists (chain_written ++ [255; 255]), (List.length chain_written), [leaf; inter].
  split; [vm_compute; reflexivity|]. split; [vm_compute; lia|]. vm_compute. reflexivity.
Qed.
Print Assumptions chain_truncated_needs_written.
Definition cuts (bs : bytes) : list nat := seq 0 (List.length bs).
Definition is_err {A} (r : R A) : bool := match r with Err => true | _ => false end.
(* C17: a two-certificate chain (ocsp + sct on the leaf); all 43 strict prefixes refused *)
Example ex_chain_hyps :
  cc_write [leaf; inter] = Ok chain_written /\ lenN [leaf; inter] + 1 < two64 /\
  Forall (aug_lt two63) [leaf; inter] /\ List.length chain_written = 43%nat /\
  forallb (fun p => is_err (cc_read der_like (firstn p chain_written))) (cuts chain_written) = true /\
  cc_read der_like chain_written = Ok [leaf; inter] /\
  (* an oracle that rejects every certificate: still Err, for the whole file too *)
  forallb (fun p => is_err (cc_read (fun _ => false) (firstn p chain_written))) (cuts chain_written) = true /\
  cc_read (fun _ => false) chain_written = Err.
Proof.
  split; [vm_compute; reflexivity|]. split; [vm_compute; reflexivity|].
  split; [repeat constructor|]. vm_compute. repeat split.
Qed.

Example ex_chain_by_theorem : forall x509_ok p, (p < 43)%nat ->
  cc_read x509_ok (firstn p chain_written) = Err.
Proof.
  intros x509_ok p Hp. destruct ex_chain_hyps as [Hw [Hn [Hl [Hlen _]]]].
  apply (chain_truncated x509_ok [leaf; inter] chain_written p Hw Hn Hl). rewrite Hlen. exact Hp.
Qed.

