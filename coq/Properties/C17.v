(* C17 - cert-chain+cbor and SCT lists; placeholder until the proofs land. *)
From WP Require Import Base.Prelude Model.CertChain.
Open Scope N_scope.

Theorem c17_smoke : serialize_sct_list [[1; 2]; []] = Ok [0; 6; 0; 2; 1; 2; 0; 0].
Proof. reflexivity. Qed.
Print Assumptions c17_smoke.
