(* C17 - application/cert-chain+cbor and SCT lists.

   "Writing a certificate chain and reading it back reproduces each
   certificate's DER, the OCSP response and the SCT list byte-for-byte, and the
   output is canonical CBOR of the form [magic, {cert, ocsp?, sct?}, ...]; only
   chains whose first element carries an OCSP response and whose later elements
   carry none can be written or read.  A serialized SCT list is a well-formed
   RFC 6962 length-prefixed vector containing exactly the given SCTs in order,
   or an error if an element or the total exceeds 65535 bytes."

   Statements only; proofs live in Proofs/CertChain{Write,Read,Sct}.v.
   Model = Model/CertChain.v (certurl/certchain.go, certurl/sct.go); the spec
   side is Spec/CertChain.v (Form, OcspFirstOnly, ReadForm, SctVector,
   sct_parse) on top of Spec/Cbor.v (senc_tokens, stokens, shead, blt).
   x509_ok ("x509.ParseCertificate accepts these bytes") is universally
   quantified.  Size side conditions:  aug_lt B a  :=  every component of a is
   shorter than B.  Go slices are shorter than 2^63, so  aug_lt two63  and
   lenN c + 1 < two64  always hold at run time; they are needed here because
   lenN is an unbounded N while the decoder refuses lengths >= 2^63.  No
   "elements are bytes" (wfb) hypothesis is needed anywhere on the chain side. *)
From Coq Require Import Lia.
From WP Require Import Base.Prelude Model.Cbor Model.CertChain Spec.Cbor Spec.CertChain.
From WP Require Import Proofs.BaseLemmas Proofs.CborHead Proofs.CborTokens Proofs.CborDecode
  Proofs.CertChainWrite Proofs.CertChainRead Proofs.CertChainSct.
Open Scope N_scope.

(* ==== write then read ============================================================ *)
(* every component comes back byte for byte (c is the list of records, so
   "Ok c" is equality of every DER / OCSP / SCT byte string, present-or-absent
   included); bytes after the chain are not looked at, as in the Go reader *)
Theorem chain_roundtrip : forall (x509_ok : bytes -> bool) (c : list augcert),
  Forall (fun a => x509_ok (ac_cert a) = true) c ->
  lenN c + 1 < two64 -> Forall (aug_lt two63) c ->
  validate c = true ->
  exists bs, cc_write c = Ok bs /\ cc_read x509_ok bs = Ok c /\
             forall rest, cc_read x509_ok (bs ++ rest) = Ok c.
Proof. exact CertChainRead.chain_roundtrip. Qed.
Print Assumptions chain_roundtrip.

(* ==== the written bytes ============================================================ *)
(* Form: bs = shortest-form encoding of
     TArr (|c|+1), TText magic, then per certificate
     TMap k, ["sct" v]?, "cert" der, ["ocsp" v]?            (Spec.CertChain)
   and the independent tokeniser reads exactly these tokens back, each head in
   its minimal width. *)
Theorem chain_canonical : forall (c : list augcert) (bs : bytes),
  cc_write c = Ok bs ->
  Form bs c /\
  (lenN c + 1 < two64 -> Forall (aug_lt two64) c ->
   exists toks, stokens bs = Some toks /\ Forall tok_shortest toks /\
                map fst toks = chain_tokens c).
Proof. exact CertChainWrite.chain_canonical. Qed.
Print Assumptions chain_canonical.

(* the entry order used by Form IS the bytewise order of the encoded keys *)
Theorem keys_ascending :
  blt (senc_token (key "sct")) (senc_token (key "cert")) /\
  blt (senc_token (key "cert")) (senc_token (key "ocsp")) /\
  senc_token (key "sct") = [99; 115; 99; 116] /\
  senc_token (key "cert") = [100; 99; 101; 114; 116] /\
  senc_token (key "ocsp") = [100; 111; 99; 115; 112].
Proof. exact CertChainWrite.keys_ascending. Qed.
Print Assumptions keys_ascending.

Theorem magic_is_go_constant :
  magic = cc_magic /\ magic = [240; 159; 147; 156; 226; 155; 147] /\ Utf8Valid magic.
Proof. exact (conj magic_eq (conj magic_bytes magic_utf8)). Qed.
Print Assumptions magic_is_go_constant.

(* ==== which chains can be written ================================================== *)
Theorem validate_iff : forall c, validate c = true <-> OcspFirstOnly c.
Proof. exact CertChainWrite.validate_iff. Qed.
Print Assumptions validate_iff.

Theorem write_validates : forall (c : list augcert) (bs : bytes),
  cc_write c = Ok bs -> validate c = true /\ bs = chain_bytes c.
Proof. exact CertChainWrite.write_validates. Qed.
Print Assumptions write_validates.

Theorem write_invalid_err : forall c, validate c = false -> cc_write c = Err.
Proof. exact CertChainWrite.cc_write_invalid. Qed.
Print Assumptions write_invalid_err.

(* EncodeMap cannot fail: with validate it is Ok; never Panic / Fuel *)
Theorem write_ok : forall c, validate c = true -> cc_write c = Ok (chain_bytes c).
Proof. exact CertChainWrite.cc_write_ok. Qed.
Print Assumptions write_ok.

Theorem write_ok_iff : forall c, (exists bs, cc_write c = Ok bs) <-> OcspFirstOnly c.
Proof.
  intros c. rewrite <- CertChainWrite.validate_iff. exact (CertChainWrite.cc_write_ok_iff c).
Qed.
Print Assumptions write_ok_iff.

Theorem write_err_iff : forall c, cc_write c = Err <-> validate c = false.
Proof. exact CertChainWrite.cc_write_err_iff. Qed.
Print Assumptions write_err_iff.

Theorem write_total : forall c, ok_or_err (cc_write c).
Proof. exact CertChainWrite.cc_write_total. Qed.
Print Assumptions write_total.

(* ==== which inputs can be read ====================================================== *)
Theorem read_validates : forall (x509_ok : bytes -> bool) (bs : bytes) (c : list augcert),
  cc_read x509_ok bs = Ok c ->
  validate c = true /\ Forall (fun a => x509_ok (ac_cert a) = true) c.
Proof. exact CertChainRead.read_validates. Qed.
Print Assumptions read_validates.

(* a successful read saw: array head n >= 2 (any width), the magic text, n-1
   maps of (text, bytes) pairs; the record fields are the LAST values under
   "cert" / "ocsp" / "sct"; other keys are skipped *)
Theorem read_sound : forall (x509_ok : bytes -> bool) (bs : bytes) (c : list augcert),
  cc_read x509_ok bs = Ok c -> ReadForm bs c.
Proof. exact CertChainRead.read_sound. Qed.
Print Assumptions read_sound.

(* exactly: that shape, every string shorter than 2^63, EVERY "cert" value
   (also the overridden ones) parseable, and the OCSP rule *)
Theorem read_iff : forall (x509_ok : bytes -> bool) (bs : bytes) (c : list augcert),
  cc_read x509_ok bs = Ok c <-> (ReadFormOk x509_ok bs c /\ validate c = true).
Proof. exact CertChainRead.read_iff. Qed.
Print Assumptions read_iff.

(* fuel sufficiency for ALL inputs (counts up to 2^64-1 included): every loop
   iteration consumes at least one byte or fails *)
Theorem read_total : forall (x509_ok : bytes -> bool) (bs : bytes),
  ok_or_err (cc_read x509_ok bs).
Proof. exact CertChainRead.read_total. Qed.
Print Assumptions read_total.

(* ==== SerializeSCTList =============================================================== *)
Theorem sct_ok : forall (l : list bytes) (bs : bytes),
  serialize_sct_list l = Ok bs <->
  (Forall (fun s => lenN s <= 65535) l /\ sct_total l <= 65535) /\
  bs = be 2 (sct_total l) ++ flat_map (fun s => be 2 (lenN s) ++ s) l.
Proof. exact CertChainSct.sct_ok. Qed.
Print Assumptions sct_ok.

Theorem sct_err_iff : forall l : list bytes,
  serialize_sct_list l = Err <->
  (Exists (fun s => 65535 < lenN s) l \/ 65535 < sct_total l).
Proof. exact CertChainSct.sct_err_iff. Qed.
Print Assumptions sct_err_iff.

Theorem sct_never_panics : forall l, ok_or_err (serialize_sct_list l).
Proof. exact CertChainSct.sct_total_fn. Qed.
Print Assumptions sct_never_panics.

Theorem sct_total_is_sum : forall l, sct_total l = sct_sum l.
Proof. exact CertChainSct.sct_total_sum. Qed.
Print Assumptions sct_total_is_sum.

(* success <-> the output is THE RFC 6962 vector of l; failure <-> none exists *)
Theorem sct_vector : forall (l : list bytes) (bs : bytes),
  serialize_sct_list l = Ok bs -> SctVector bs l.
Proof. exact CertChainSct.sct_vector. Qed.
Print Assumptions sct_vector.

Theorem sct_vector_iff : forall (l : list bytes) (bs : bytes),
  serialize_sct_list l = Ok bs <-> SctVector bs l.
Proof. exact CertChainSct.sct_vector_iff. Qed.
Print Assumptions sct_vector_iff.

Theorem sct_err_no_vector : forall l,
  serialize_sct_list l = Err <-> forall bs, ~ SctVector bs l.
Proof. exact CertChainSct.sct_err_no_vector. Qed.
Print Assumptions sct_err_no_vector.

(* the uint16 conversions never wrap: each prefix is the true length *)
Theorem sct_prefix_exact : forall (l : list bytes) (bs : bytes),
  serialize_sct_list l = Ok bs ->
  unbe (be 2 (sct_total l)) = sct_total l /\
  Forall (fun s => unbe (be 2 (lenN s)) = lenN s) l /\
  lenN bs = 2 + sct_total l.
Proof. exact CertChainSct.sct_prefix_exact. Qed.
Print Assumptions sct_prefix_exact.

(* the independent parser gets the same SCTs back, in order (no wfb needed) *)
Theorem sct_parse_inverse : forall (l : list bytes) (bs : bytes),
  serialize_sct_list l = Ok bs -> sct_parse bs = Some l.
Proof. exact CertChainSct.sct_parse_inverse. Qed.
Print Assumptions sct_parse_inverse.

(* ... and on byte input it accepts nothing but serializer outputs *)
Theorem sct_parse_iff : forall (bs : bytes) (l : list bytes),
  wfb bs -> (sct_parse bs = Some l <-> serialize_sct_list l = Ok bs).
Proof. exact CertChainSct.sct_parse_iff. Qed.
Print Assumptions sct_parse_iff.

(* REFUTED (corner case): RFC 6962's vectors have a floor of 1 -
   SerializedSCT<1..2^16-1>, sct_list<1..2^16-1>.  SerializeSCTList enforces
   only the ceilings: [] gives 00 00 and [[]] gives 00 02 00 00. *)
Theorem sct_rfc_floor_refuted :
  (exists l bs, serialize_sct_list l = Ok bs /\ ~ SctVectorRfc bs l) /\
  serialize_sct_list [] = Ok [0; 0] /\
  serialize_sct_list [[]] = Ok [0; 2; 0; 0] /\
  ~ SctVectorRfc [0; 0] [] /\ ~ SctVectorRfc [0; 2; 0; 0] [[]].
Proof. exact CertChainSct.sct_rfc_floor_refuted. Qed.
Print Assumptions sct_rfc_floor_refuted.

Theorem sct_vector_rfc : forall (l : list bytes) (bs : bytes),
  l <> [] -> Forall (fun s => 1 <= lenN s) l ->
  serialize_sct_list l = Ok bs -> SctVectorRfc bs l.
Proof. exact CertChainSct.sct_vector_rfc. Qed.
Print Assumptions sct_vector_rfc.

(* ==== non-vacuity / concrete behaviour ============================================== *)
(* stand-in for x509.ParseCertificate: "starts with a SEQUENCE tag" *)
Definition der_like (b : bytes) : bool := match b with 48 :: _ => true | _ => false end.
Definition leaf : augcert :=
  {| ac_cert := [48; 1; 7]; ac_ocsp := Some [1; 2]; ac_sct := Some [0; 0] |}.
Definition inter : augcert := {| ac_cert := [48; 0]; ac_ocsp := None; ac_sct := None |}.
Definition inter_bad : augcert := {| ac_cert := [48; 0]; ac_ocsp := Some [9]; ac_sct := None |}.

Definition ex_bytes : bytes :=
  [131;                                                   (* array(3)            *)
   103; 240; 159; 147; 156; 226; 155; 147;                (* text(7) magic       *)
   163;                                                   (* map(3)              *)
   99; 115; 99; 116;  66; 0; 0;                           (* "sct"  h'0000'      *)
   100; 99; 101; 114; 116;  67; 48; 1; 7;                 (* "cert" h'300107'    *)
   100; 111; 99; 115; 112;  66; 1; 2;                     (* "ocsp" h'0102'      *)
   161;                                                   (* map(1)              *)
   100; 99; 101; 114; 116;  66; 48; 0].                   (* "cert" h'3000'      *)

Example ex_roundtrip :
  cc_write [leaf; inter] = Ok ex_bytes /\
  cc_read der_like ex_bytes = Ok [leaf; inter] /\
  cc_read der_like (ex_bytes ++ [255; 255]) = Ok [leaf; inter].
Proof. vm_compute. repeat split. Qed.

Example ex_roundtrip_hyps :
  Forall (fun a => der_like (ac_cert a) = true) [leaf; inter] /\
  lenN [leaf; inter] + 1 < two64 /\ Forall (aug_lt two63) [leaf; inter] /\
  validate [leaf; inter] = true /\ OcspFirstOnly [leaf; inter].
Proof.
  split; [repeat constructor|]. split; [reflexivity|].
  split; [repeat constructor|]. split; [reflexivity|].
  apply validate_iff. reflexivity.
Qed.

Example ex_tokens :
  stokens ex_bytes =
  Some [(TArr 3, 0); (TText magic, 0);
        (TMap 3, 0); (key "sct", 0); (TBytes [0; 0], 0); (key "cert", 0);
        (TBytes [48; 1; 7], 0); (key "ocsp", 0); (TBytes [1; 2], 0);
        (TMap 1, 0); (key "cert", 0); (TBytes [48; 0], 0)] /\
  chain_tokens [leaf; inter] =
  [TArr 3; TText magic; TMap 3; key "sct"; TBytes [0; 0]; key "cert"; TBytes [48; 1; 7];
   key "ocsp"; TBytes [1; 2]; TMap 1; key "cert"; TBytes [48; 0]].
Proof. vm_compute. split; reflexivity. Qed.

(* a second element with OCSP, an empty chain, a first element without OCSP:
   refused by Write *)
Example ex_write_refuses :
  cc_write [leaf; inter_bad] = Err /\ cc_write [] = Err /\ cc_write [inter; inter] = Err /\
  validate [leaf; inter_bad] = false /\ ~ OcspFirstOnly [leaf; inter_bad].
Proof.
  repeat split; try reflexivity.
  intros H. apply validate_iff in H. discriminate.
Qed.

(* the same on the wire (hand-built bytes): the maps decode fine, Validate says no *)
Definition ex_head : bytes := [131; 103; 240; 159; 147; 156; 226; 155; 147].
Definition ex_leaf_map : bytes :=
  [163; 99; 115; 99; 116; 66; 0; 0; 100; 99; 101; 114; 116; 67; 48; 1; 7;
   100; 111; 99; 115; 112; 66; 1; 2].
Definition ex_bad_map : bytes :=
  [162; 100; 99; 101; 114; 116; 66; 48; 0; 100; 111; 99; 115; 112; 65; 9].

Example ex_read_refuses :
  cc_read der_like (ex_head ++ ex_leaf_map ++ ex_bad_map) = Err /\
  dec_chain der_like 100 2 (ex_leaf_map ++ ex_bad_map) [] = Ok ([leaf; inter_bad], []) /\
  (* first element without ocsp *)
  cc_read der_like ([130; 103; 240; 159; 147; 156; 226; 155; 147] ++
                    [161; 100; 99; 101; 114; 116; 66; 48; 0]) = Err /\
  (* "cert" value that does not parse (31 00) *)
  cc_read der_like ([130; 103; 240; 159; 147; 156; 226; 155; 147] ++
                    [162; 100; 99; 101; 114; 116; 66; 49; 0; 100; 111; 99; 115; 112; 65; 9]) = Err /\
  (* array of length 1 (magic only), wrong magic *)
  cc_read der_like [129; 103; 240; 159; 147; 156; 226; 155; 147] = Err /\
  cc_read der_like ([130; 103; 240; 159; 147; 156; 226; 155; 148] ++ ex_bad_map) = Err.
Proof. vm_compute. repeat split. Qed.

(* the reader is liberal (it does not insist on canonical input): non-shortest
   heads, unsorted keys, an unknown key "x", "ocsp" twice (the later wins),
   trailing bytes *)
Example ex_read_liberal :
  cc_read der_like
    ([152; 2; 103; 240; 159; 147; 156; 226; 155; 147;
      165; 100; 111; 99; 115; 112; 65; 1;
           100; 99; 101; 114; 116; 88; 2; 48; 5;
           97; 120; 64;
           100; 111; 99; 115; 112; 65; 2;
           99; 115; 99; 116; 64] ++ [255; 255])
  = Ok [{| ac_cert := [48; 5]; ac_ocsp := Some [2]; ac_sct := Some [] |}] /\
  (* an overridden "cert" value is still parsed: 31 00 then 30 00 fails, 30 01 then 30 00 succeeds *)
  cc_read der_like ([130; 103; 240; 159; 147; 156; 226; 155; 147] ++
     [163; 100; 99; 101; 114; 116; 66; 49; 0; 100; 99; 101; 114; 116; 66; 48; 0;
      100; 111; 99; 115; 112; 65; 9]) = Err /\
  cc_read der_like ([130; 103; 240; 159; 147; 156; 226; 155; 147] ++
     [163; 100; 99; 101; 114; 116; 66; 48; 1; 100; 99; 101; 114; 116; 66; 48; 0;
      100; 111; 99; 115; 112; 65; 9]) = Ok [inter_bad].
Proof. vm_compute. repeat split. Qed.

(* counts of 2^64-1 on a short input: an error, not a spin *)
Example ex_read_huge_counts :
  cc_read der_like ([155; 255; 255; 255; 255; 255; 255; 255; 255;
                     103; 240; 159; 147; 156; 226; 155; 147] ++ ex_leaf_map) = Err /\
  cc_read der_like ([155; 255; 255; 255; 255; 255; 255; 255; 255;
                     103; 240; 159; 147; 156; 226; 155; 147] ++ ex_leaf_map ++
                    [187; 255; 255; 255; 255; 255; 255; 255; 255]) = Err.
Proof. vm_compute. split; reflexivity. Qed.

(* ---- SCT lists ---------------------------------------------------------------------- *)
Definition zeros (n : N) : bytes := N.iter n (cons 0) [].

Example ex_sct_small :
  serialize_sct_list [[1; 2; 3]; []; [7]] = Ok [0; 10; 0; 3; 1; 2; 3; 0; 0; 0; 1; 7] /\
  sct_parse [0; 10; 0; 3; 1; 2; 3; 0; 0; 0; 1; 7] = Some [[1; 2; 3]; []; [7]] /\
  sct_parse [0; 9; 0; 3; 1; 2; 3; 0; 0; 0; 1; 7] = None /\      (* wrong total      *)
  sct_parse [0; 10; 0; 3; 1; 2; 3; 0; 0; 0; 2; 7] = None /\     (* element too long *)
  SctVector [0; 10; 0; 3; 1; 2; 3; 0; 0; 0; 1; 7] [[1; 2; 3]; []; [7]].
Proof.
  repeat split; try (vm_compute; reflexivity).
  - repeat constructor; cbn; lia.
  - vm_compute. discriminate.
Qed.

(* boundaries: one element of 65535 bytes has total 65537; 65534 has 65536;
   65533 has 65535 and is written with prefixes ff ff, ff fd; 32766 + 32765
   has total 65535; an element of 65536 bytes is refused by itself *)
Example ex_sct_boundaries :
  serialize_sct_list [zeros 65535] = Err /\
  serialize_sct_list [zeros 65534] = Err /\
  serialize_sct_list [zeros 65536] = Err /\
  serialize_sct_list [zeros 32766; zeros 32766] = Err /\
  match serialize_sct_list [zeros 65533] with
  | Ok bs => (firstn 4 bs, lenN bs) | _ => ([], 0) end = ([255; 255; 255; 253], 65537) /\
  match serialize_sct_list [zeros 32766; zeros 32765] with
  | Ok bs => (firstn 4 bs, lenN bs) | _ => ([], 0) end = ([255; 255; 127; 254], 65537) /\
  (sct_total [zeros 65535], sct_total [zeros 65533]) = (65537, 65535).
Proof. vm_compute. repeat split. Qed.
