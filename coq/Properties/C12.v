(* C12 - CBOR decoder accepts only complete well-formed items, exact values. *)
From WP Require Import Base.Prelude Model.Cbor.
Open Scope N_scope.

Theorem c12_smoke : decode_uint [25; 1; 244; 7] = Ok (500, [7]).
Proof. reflexivity. Qed.
Print Assumptions c12_smoke.
