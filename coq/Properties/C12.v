(* C12 - CBOR decoder accepts only complete well-formed items, exact values.

   "Decoding what the encoder produced returns the original values for every
   value in range; more generally a decode call succeeds only on a complete,
   well-formed, definite-length item of the requested major type, returns the
   value RFC 8949 assigns to it and consumes exactly that item's bytes, so
   truncated items, reserved or indefinite-length heads, wrong types, invalid
   UTF-8 text and lengths exceeding the remaining input are all errors."

   Statements only; proofs live in Proofs/CborDecode.v.  The reference is the
   independent head decoder Spec.Cbor.shead (major, argument, width, rest)
   and the declarative Spec.Cbor.Utf8Valid.  MBytes/MText/MMap are the model's
   Go type constants (Model.Cbor.TBytes ...), which clash by name with the
   spec's token constructors. *)
From Coq Require Import Lia.
From WP Require Import Base.Prelude Model.Cbor Spec.Cbor.
From WP Require Import Proofs.BaseLemmas Proofs.CborHead Proofs.CborUtf8 Proofs.CborDecode.
Open Scope N_scope.

(* ---- decode (encode v ++ rest) = (v, rest) ---------------------------------- *)
Theorem decode_encode_uint : forall n rest,
  n < two64 -> decode_uint (enc_uint n ++ rest) = Ok (n, rest).
Proof. exact CborDecode.decode_encode_uint. Qed.
Print Assumptions decode_encode_uint.

Theorem decode_encode_array_header : forall n rest,
  n < two64 -> decode_array_header (enc_array_header n ++ rest) = Ok (n, rest).
Proof. exact CborDecode.decode_encode_array_header. Qed.
Print Assumptions decode_encode_array_header.

Theorem decode_encode_map_header : forall n rest,
  n < two64 -> decode_map_header (enc_map_header n ++ rest) = Ok (n, rest).
Proof. exact CborDecode.decode_encode_map_header. Qed.
Print Assumptions decode_encode_map_header.

Theorem decode_encode_bytes : forall s rest,
  lenN s < two63 -> decode_bytes (enc_bytes s ++ rest) = Ok (s, rest).
Proof. exact CborDecode.decode_encode_bytes. Qed.
Print Assumptions decode_encode_bytes.

Theorem decode_encode_text : forall s out rest,
  lenN s < two63 -> enc_text s = Ok out -> decode_text (out ++ rest) = Ok (s, rest).
Proof. exact CborDecode.decode_encode_text. Qed.
Print Assumptions decode_encode_text.

Theorem decode_encode_int_nonneg : forall z rest,
  (0 <= z < Z.of_N two63)%Z -> decode_uint (enc_int z ++ rest) = Ok (Z.to_N z, rest).
Proof. exact CborDecode.decode_encode_int_nonneg. Qed.
Print Assumptions decode_encode_int_nonneg.

(* the read position after one item is exactly the start of the next *)
Theorem decode_encode_stream : forall n s rest,
  n < two64 -> lenN s < two63 ->
  (let* (v1, r1) := decode_uint (enc_uint n ++ enc_bytes s ++ rest) in
   let* (v2, r2) := decode_bytes r1 in Ok (v1, v2, r2)) = Ok (n, s, rest).
Proof. exact CborDecode.decode_encode_stream. Qed.
Print Assumptions decode_encode_stream.

(* ---- soundness: success only on a well-formed head of the right type ----- *)
Theorem decode_sound : forall t n bs rest,
  major_const t -> decode_of_type t bs = Ok (n, rest) ->
  exists w, shead bs = Some (t / 32, n, w, rest).
Proof. exact CborDecode.decode_sound. Qed.
Print Assumptions decode_sound.

Theorem decode_bytes_sound : forall bs s rest,
  decode_bytes bs = Ok (s, rest) ->
  exists h w, bs = h ++ s ++ rest /\ lenN h = 1 + w /\
              shead bs = Some (2, lenN s, w, s ++ rest).
Proof. exact CborDecode.decode_bytes_sound. Qed.
Print Assumptions decode_bytes_sound.

Theorem decode_text_sound : forall bs s rest,
  decode_text bs = Ok (s, rest) ->
  exists h w, bs = h ++ s ++ rest /\ lenN h = 1 + w /\
              shead bs = Some (3, lenN s, w, s ++ rest) /\ Utf8Valid s.
Proof. exact CborDecode.decode_text_sound. Qed.
Print Assumptions decode_text_sound.

(* what "shead bs = Some ..." means byte by byte (RFC 8949 section 3) *)
Theorem shead_shape : forall bs mt n w r,
  shead bs = Some (mt, n, w, r) ->
  exists b f, bs = b :: f ++ r /\ lenN f = w /\ b < 256 /\ mt = b / 32 /\ mt < 8 /\
              ((w = 0 /\ b mod 32 < 24 /\ n = b mod 32) \/
               (24 <= b mod 32 <= 27 /\ w = 2 ^ (b mod 32 - 24) /\ n = be_val f)).
Proof. exact CborDecode.shead_shape. Qed.
Print Assumptions shead_shape.

Theorem decode_consumes : forall t n bs rest,
  major_const t -> decode_of_type t bs = Ok (n, rest) ->
  exists h, bs = h ++ rest /\ 1 <= lenN h <= 9.
Proof. exact CborDecode.decode_consumes. Qed.
Print Assumptions decode_consumes.

(* ---- completeness: every well-formed head (any width) is accepted -------- *)
Theorem decode_complete : forall t n w bs rest,
  major_const t -> shead bs = Some (t / 32, n, w, rest) ->
  decode_of_type t bs = Ok (n, rest).
Proof. exact CborDecode.decode_complete. Qed.
Print Assumptions decode_complete.

Theorem decode_bytes_complete : forall bs s rest r n w,
  shead bs = Some (2, n, w, r) -> n < two63 -> splitN r n = Some (s, rest) ->
  decode_bytes bs = Ok (s, rest).
Proof. exact CborDecode.decode_bytes_complete. Qed.
Print Assumptions decode_bytes_complete.

Theorem decode_text_complete : forall bs s rest r n w,
  shead bs = Some (3, n, w, r) -> n < two63 -> splitN r n = Some (s, rest) ->
  Utf8Valid s -> decode_text bs = Ok (s, rest).
Proof. exact CborDecode.decode_text_complete. Qed.
Print Assumptions decode_text_complete.

(* both directions at once *)
Theorem decode_of_type_iff : forall t n bs rest,
  major_const t ->
  (decode_of_type t bs = Ok (n, rest) <-> exists w, shead bs = Some (t / 32, n, w, rest)).
Proof. exact CborDecode.decode_of_type_iff. Qed.
Print Assumptions decode_of_type_iff.

Theorem decode_bytes_of_type_iff : forall t bs s rest,
  major_const t ->
  (decode_bytes_of_type t bs = Ok (s, rest) <->
   lenN s < two63 /\ exists w, shead bs = Some (t / 32, lenN s, w, s ++ rest)).
Proof. exact CborDecode.decode_bytes_of_type_iff. Qed.
Print Assumptions decode_bytes_of_type_iff.

Theorem decode_text_iff : forall bs s rest,
  decode_text bs = Ok (s, rest) <->
  lenN s < two63 /\ Utf8Valid s /\ exists w, shead bs = Some (3, lenN s, w, s ++ rest).
Proof. exact CborDecode.decode_text_iff. Qed.
Print Assumptions decode_text_iff.

(* ---- rejections ----------------------------------------------------------------- *)
Theorem decode_rejects_head : forall t bs,
  major_const t ->
  (bs = []
   \/ (exists b r, bs = b :: r /\ 28 <= b mod 32)
   \/ (exists b r, bs = b :: r /\ 24 <= b mod 32 <= 27 /\ lenN r < 2 ^ (b mod 32 - 24))
   \/ (exists mt n w r, shead bs = Some (mt, n, w, r) /\ mt <> t / 32))
  -> decode_of_type t bs = Err.
Proof. exact CborDecode.decode_rejects_head. Qed.
Print Assumptions decode_rejects_head.

Theorem decode_rejects_reserved : forall t b r,
  28 <= b mod 32 -> decode_of_type t (b :: r) = Err.
Proof. exact CborDecode.decode_rejects_reserved. Qed.
Print Assumptions decode_rejects_reserved.

Theorem decode_rejects_wrong_type : forall t b r,
  major b <> t -> decode_of_type t (b :: r) = Err.
Proof. exact CborDecode.decode_rejects_wrong_type. Qed.
Print Assumptions decode_rejects_wrong_type.

(* declared length exceeds the remaining input, or does not fit an int64 *)
Theorem decode_rejects_string : forall t bs n w r,
  major_const t -> shead bs = Some (t / 32, n, w, r) ->
  (lenN r < n \/ two63 <= n) -> decode_bytes_of_type t bs = Err.
Proof. exact CborDecode.decode_rejects_string. Qed.
Print Assumptions decode_rejects_string.

Theorem decode_rejects_text_utf8 : forall bs s rest w,
  shead bs = Some (3, lenN s, w, s ++ rest) -> ~ Utf8Valid s -> decode_text bs = Err.
Proof. exact CborDecode.decode_rejects_text_utf8. Qed.
Print Assumptions decode_rejects_text_utf8.

(* a head error is a string error *)
Theorem decode_string_head_err : forall t bs,
  decode_of_type t bs = Err -> decode_bytes_of_type t bs = Err.
Proof. exact CborDecode.decode_bytes_of_type_head_err. Qed.
Print Assumptions decode_string_head_err.

(* exactly when the independent head decoder fails *)
Theorem shead_none_iff : forall bs,
  shead bs = None <->
  bs = [] \/ exists b r, bs = b :: r /\
    (256 <= b \/ 28 <= b mod 32 \/ (24 <= b mod 32 <= 27 /\ lenN r < 2 ^ (b mod 32 - 24))).
Proof. exact CborDecode.shead_none_iff. Qed.
Print Assumptions shead_none_iff.

(* ---- no panic, no divergence -------------------------------------------------- *)
Theorem decode_never_panics : forall bs,
  ok_or_err (decode_uint bs) /\ ok_or_err (decode_array_header bs) /\
  ok_or_err (decode_map_header bs) /\ ok_or_err (decode_bytes bs) /\
  ok_or_err (decode_text bs).
Proof. exact CborDecode.decode_never_panics. Qed.
Print Assumptions decode_never_panics.

(* ==== non-vacuity ================================================================ *)
Definition max64 : N := 18446744073709551615.
Definition all_bytes : list N := map N.of_nat (seq 0 256).

(* the 256-way split on the initial byte, with nothing after it: DecodeUint
   accepts exactly 0x00..0x17; with 8 zero bytes after it, exactly 0x00..0x1b;
   DecodeByteString then accepts 0x40..0x48 (length <= 8 available) and
   0x58..0x5b (length 0 in 1/2/4/8 bytes) *)
Example ex_initial_byte_sweep :
  forallb (fun b => Bool.eqb (is_ok (decode_uint [b])) (b <? 24)) all_bytes = true /\
  forallb (fun b => Bool.eqb (is_ok (decode_uint (b :: [0;0;0;0;0;0;0;0]))) (b <? 28))
          all_bytes = true /\
  forallb (fun b => Bool.eqb (is_ok (decode_bytes (b :: [0;0;0;0;0;0;0;0])))
                             ((64 <=? b) && (b <=? 72) || (88 <=? b) && (b <=? 91)))
          all_bytes = true.
Proof. vm_compute. repeat split. Qed.

Example ex_decode_boundaries :
  map (fun n => decode_uint (enc_uint n ++ [7]))
      [23; 24; 255; 256; 65535; 65536; 4294967296; two63; max64]
  = map (fun n => Ok (n, [7])) [23; 24; 255; 256; 65535; 65536; 4294967296; two63; max64].
Proof. vm_compute. reflexivity. Qed.

(* non-shortest heads are accepted with the right value (decode_complete) *)
Example ex_non_shortest :
  decode_uint [27; 0; 0; 0; 0; 0; 0; 0; 23; 9] = Ok (23, [9]) /\
  shead [27; 0; 0; 0; 0; 0; 0; 0; 23; 9] = Some (TPos / 32, 23, 8, [9]) /\
  decode_bytes [89; 0; 2; 5; 6; 9] = Ok ([5; 6], [9]).
Proof. vm_compute. repeat split. Qed.

Example ex_rejects :
  decode_uint [28] = Err /\ decode_uint [31] = Err /\             (* reserved / indefinite *)
  decode_bytes [95] = Err /\                                      (* indefinite byte string *)
  decode_uint [64] = Err /\ decode_array_header [160] = Err /\    (* wrong major type *)
  decode_uint [25; 1] = Err /\ decode_uint [] = Err /\            (* truncated head *)
  decode_bytes [67; 1; 2] = Err /\                                (* length > remaining *)
  decode_bytes [91; 128; 0; 0; 0; 0; 0; 0; 0] = Err /\            (* length 2^63 *)
  decode_text [98; 195; 40] = Err /\                              (* invalid UTF-8 *)
  decode_text [98; 195; 169; 1] = Ok ([195; 169], [1]).
Proof. vm_compute. repeat split. Qed.

Example ex_rejects_hyps :
  shead [91; 128; 0; 0; 0; 0; 0; 0; 0] = Some (MBytes / 32, two63, 8, []) /\
  shead [67; 1; 2] = Some (MBytes / 32, 3, 0, [1; 2]) /\
  shead [98; 195; 40] = Some (3, lenN [195; 40], 0, [195; 40] ++ []) /\
  ~ Utf8Valid [195; 40].
Proof.
  split; [vm_compute; reflexivity|]. split; [vm_compute; reflexivity|].
  split; [vm_compute; reflexivity|].
  intros H. apply CborUtf8.utf8_dfa_correct in H. vm_compute in H. discriminate.
Qed.

Example ex_roundtrip_text :
  enc_text [226; 130; 172] = Ok [99; 226; 130; 172] /\
  decode_text ([99; 226; 130; 172] ++ [0]) = Ok ([226; 130; 172], [0]).
Proof. vm_compute. split; reflexivity. Qed.
