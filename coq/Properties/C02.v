(* C02 - signed exchanges, write / read half.

   "Every exchange the library agrees to sign and write is read back with
   identical version, URL, method, status, header fields (names case-folded,
   repeated values comma-joined), Signature header and payload bytes ...; A
   write whose URL, signature or header block does not fit the format's length
   fields or limits fails instead of emitting a file that reads back
   differently."   (The Verify half of C02 is in the SxgVerify development.)

   Model: Model/Sxg.v ([write], [read] = Exchange.Write / ReadExchange).
   Definitions used in the statements: Proofs/SxgReadDefs.v, repeated here:

     readable e : bool :=
          url_accepted (e_uri e)        validateFallbackURL accepts it: url.Parse ok and
                                        scheme https, *decided* by the URL model
       && headers_ok (e_resph e)        every response header name is an RFC 7230 token
       && int64_b (e_status e)          ResponseStatus is a Go int
       && negb (e_taint e)
       && match e_ver e with
          | V1b3 => e_method e = "GET" && e_reqh e = []     (b3 stores neither)
          | _    => headers_ok (e_reqh e)
          end

     canon_exchange e := e with both header maps replaced by [canon_headers]:
       the list, sorted by the bytewise order of the encoded key
       enc_bytes (lower name), of (canonical_key (lower name), [join_comma values]).

   Every condition of [readable] is something a caller of the library satisfies
   with ordinary HTTP data, and each is needed ([readable_conditions_needed]).
   Not assumed: that names are distinct after lower-casing (such a map is
   refused by Write: duplicate CBOR key), any length bound (they follow from
   write e = Ok bs), non-empty names, anything about values, method (b1/b2),
   Signature header value or payload.  Token names are a sufficient, legitimate
   domain rather than the weakest one: a non-token ASCII name that is not a
   pseudo key would round-trip too (canonical_key leaves it alone), a non-ASCII
   one makes the reader fail or depend on strings.ToLower beyond the model. *)
From Coq Require Import Lia.
From WP Require Import Base.Prelude Model.Cbor Model.Http Model.Sxg.
From WP Require Import Proofs.CborDecode Proofs.SxgReadDefs Proofs.SxgRoundtrip.
Open Scope N_scope.

(* ---- write then read ----------------------------------------------------------------- *)
Theorem c02_write_read : forall e bs,
  readable e = true -> write e = Ok bs -> read bs = Ok (canon_exchange e).
Proof. exact write_read. Qed.
Print Assumptions c02_write_read.

(* field by field, as the property lists them *)
Corollary c02_write_read_fields : forall e bs e',
  readable e = true -> write e = Ok bs -> read bs = Ok e' ->
  e_ver e' = e_ver e /\ e_uri e' = e_uri e /\ e_method e' = e_method e /\
  e_status e' = e_status e /\ e_sig e' = e_sig e /\ e_payload e' = e_payload e /\
  e_reqh e' = canon_headers (e_reqh e) /\ e_resph e' = canon_headers (e_resph e) /\
  e_taint e' = false.
Proof. exact write_read_fields. Qed.
Print Assumptions c02_write_read_fields.

(* ---- a write that does not fit fails ----------------------------------------------------- *)
Theorem c02_write_refuses_overflow : forall e bs, write e = Ok bs ->
  exists hdr, encode_exchange_headers e = Ok hdr /\
    match e_ver e with
    | V1b1 => lenN (e_sig e) < 16777216 /\ lenN hdr < 16777216
    | _ => lenN (e_uri e) < 65536 /\ lenN (e_sig e) <= 16384 /\ lenN hdr <= 524288
    end.
Proof. exact write_refuses_overflow. Qed.
Print Assumptions c02_write_refuses_overflow.

Theorem c02_write_err_iff : forall e, e_ver e <> V1b1 ->
  (write e = Err <->
   encode_exchange_headers e = Err \/
   exists hdr, encode_exchange_headers e = Ok hdr /\
     (65536 <= lenN (e_uri e) \/ 16384 < lenN (e_sig e) \/ 524288 < lenN hdr)).
Proof. exact write_err_iff. Qed.
Print Assumptions c02_write_err_iff.

(* ---- the reader's result is a fixpoint ---------------------------------------------------- *)
Theorem c02_canon_idempotent : forall e, canon_exchange (canon_exchange e) = canon_exchange e.
Proof. exact canon_idempotent. Qed.
Print Assumptions c02_canon_idempotent.

Theorem c02_readable_canon : forall e, readable e = true -> readable (canon_exchange e) = true.
Proof. exact readable_canon. Qed.
Print Assumptions c02_readable_canon.

(* canonicalising changes no written byte (for ANY exchange) *)
Theorem c02_write_canon : forall e, write (canon_exchange e) = write e.
Proof. exact write_canon. Qed.
Print Assumptions c02_write_canon.

Theorem c02_write_read_fixpoint : forall e bs, readable e = true -> write e = Ok bs ->
  write (canon_exchange e) = Ok bs /\ read bs = Ok (canon_exchange e) /\
  canon_exchange (canon_exchange e) = canon_exchange e.
Proof. exact write_read_fixpoint. Qed.
Print Assumptions c02_write_read_fixpoint.

(* ---- the reader on arbitrary bytes ---------------------------------------------------------- *)
Theorem c02_read_never_panics : forall bs, ok_or_err (read bs).
Proof. exact read_never_panics. Qed.
Print Assumptions c02_read_never_panics.

Theorem c02_read_prologue_never_panics : forall bs, ok_or_err (read_prologue bs).
Proof. exact read_prologue_total. Qed.
Print Assumptions c02_read_prologue_never_panics.

(* ==== examples ================================================================================= *)
Definition rs1 : headers :=
  [(s2b "Content-Type", [s2b "text/html"]); (s2b "x-FOO-bar", [s2b "a"; s2b "b"; []]);
   (s2b "Digest", []); ([], [s2b "empty name"]); (s2b "A", [[0; 255; 44]])].
Definition rq1 : headers := [(s2b "accept", [s2b "*/*"]); (s2b "ZZ", [[0; 200]])].
Definition mk (v : version) (u m : bytes) (rq : headers) (st : Z) (rs : headers) : exchange :=
  {| e_ver := v; e_uri := u; e_method := m; e_reqh := rq; e_status := st; e_resph := rs;
     e_sig := s2b "label;sig=*AA==*"; e_payload := [1; 2; 3; 0; 255]; e_taint := false |}.
Definition url1 : bytes := s2b "https://example.com/a?b=c".
Definition ex1 : exchange := mk V1b1 url1 (s2b "POST") rq1 (-5)%Z rs1.
Definition ex2 : exchange := mk V1b2 url1 (s2b "HEAD") rq1 200%Z rs1.
Definition ex3 : exchange := mk V1b3 url1 (s2b "GET") [] 404%Z rs1.

Definition exchange_eqb (a b : exchange) : bool :=
  let hb := fix hb (x y : headers) : bool :=
    match x, y with
    | [], [] => true
    | (n, vs) :: x', (n', vs') :: y' =>
        bytes_eqb n n'
        && (fix vb (p q : list bytes) : bool :=
              match p, q with
              | [], [] => true
              | a :: p', b :: q' => bytes_eqb a b && vb p' q'
              | _, _ => false
              end) vs vs'
        && hb x' y'
    | _, _ => false
    end in
  version_eqb (e_ver a) (e_ver b) && bytes_eqb (e_uri a) (e_uri b)
  && bytes_eqb (e_method a) (e_method b) && hb (e_reqh a) (e_reqh b)
  && (e_status a =? e_status b)%Z && hb (e_resph a) (e_resph b)
  && bytes_eqb (e_sig a) (e_sig b) && bytes_eqb (e_payload a) (e_payload b)
  && Bool.eqb (e_taint a) (e_taint b).

Definition roundtrips (e : exchange) : bool :=
  readable e
  && match write e with
     | Ok bs => match read bs with Ok e' => exchange_eqb e' (canon_exchange e) | _ => false end
     | _ => false
     end.

Example ex_readable_roundtrip :
  roundtrips ex1 = true /\ roundtrips ex2 = true /\ roundtrips ex3 = true.
Proof. vm_compute. repeat split. Qed.

(* what comes back: canonical keys, comma-joined values, sorted by encoded key
   (shorter keys first; the empty name is legal) *)
Example ex_canon_headers :
  canon_headers rs1 =
  [([], [s2b "empty name"]); (s2b "A", [[0; 255; 44]]); (s2b "Digest", [[]]);
   (s2b "X-Foo-Bar", [s2b "a,b,"]); (s2b "Content-Type", [s2b "text/html"])]
  /\ canon_headers rq1 = [(s2b "Zz", [[0; 200]]); (s2b "Accept", [s2b "*/*"])].
Proof. vm_compute. split; reflexivity. Qed.

(* the theorem instantiated (hypotheses satisfiable) *)
Example ex_write_read_inst : exists bs, write ex2 = Ok bs /\ read bs = Ok (canon_exchange ex2).
Proof.
  destruct (write ex2) as [bs| | |] eqn:E; try (vm_compute in E; discriminate E).
  exists bs. split; [reflexivity|]. apply write_read; [vm_compute; reflexivity|exact E].
Qed.

(* second generation: same bytes *)
Example ex_fixpoint :
  write (canon_exchange ex1) = write ex1 /\ canon_exchange (canon_exchange ex1) = canon_exchange ex1.
Proof. split; [apply write_canon|apply canon_idempotent]. Qed.

(* boundary of the 2-byte URL length: 65535 bytes are written and read back,
   65536 are refused (b2 and b3) *)
Definition long_url (n : N) : bytes := s2b "https://e.com/" ++ repeat 97 (N.to_nat (n - 14)).
Example ex_url_boundary :
  lenN (long_url 65535) = 65535 /\ lenN (long_url 65536) = 65536 /\
  roundtrips (mk V1b2 (long_url 65535) (s2b "GET") [] 200%Z []) = true /\
  roundtrips (mk V1b3 (long_url 65535) (s2b "GET") [] 200%Z []) = true /\
  write (mk V1b2 (long_url 65536) (s2b "GET") [] 200%Z []) = Err /\
  write (mk V1b3 (long_url 65536) (s2b "GET") [] 200%Z []) = Err /\
  readable (mk V1b3 (long_url 65536) (s2b "GET") [] 200%Z []) = true.
Proof. vm_compute. repeat split. Qed.

(* boundary of the Signature length limit (b3): 16384 written and read back, 16385 refused *)
Definition with_sig (n : N) : exchange :=
  {| e_ver := V1b3; e_uri := url1; e_method := s2b "GET"; e_reqh := []; e_status := 200%Z;
     e_resph := [(s2b "content-type", [s2b "text/plain"])];
     e_sig := repeat 97 (N.to_nat n); e_payload := [7]; e_taint := false |}.
Example ex_sig_boundary :
  roundtrips (with_sig 16384) = true /\ write (with_sig 16385) = Err.
Proof. vm_compute. split; reflexivity. Qed.

(* a map with two names equal after lower-casing is refused by Write (so
   [readable] need not forbid it) *)
Example ex_duplicate_refused :
  readable (mk V1b3 url1 (s2b "GET") [] 200%Z [(s2b "A", [[1]]); (s2b "a", [[2]])]) = true /\
  write (mk V1b3 url1 (s2b "GET") [] 200%Z [(s2b "A", [[1]]); (s2b "a", [[2]])]) = Err.
Proof. vm_compute. split; reflexivity. Qed.

(* each condition of [readable] is needed: without it Write succeeds and the
   file either fails to read or reads back as something else *)
Definition reads_back (e : exchange) : option bool :=
  match write e with
  | Ok bs => match read bs with
             | Ok e' => Some (exchange_eqb e' (canon_exchange e))
             | _ => None              (* written, but the reader refuses it *)
             end
  | _ => Some true                    (* not written *)
  end.
Example readable_conditions_needed :
  (* http URL: written, not readable *)
  reads_back (mk V1b3 (s2b "http://example.com/") (s2b "GET") [] 200%Z []) = None /\
  (* b3 with another method: reads back as GET *)
  reads_back (mk V1b3 url1 (s2b "POST") [] 200%Z []) = Some false /\
  (* b3 with request headers: they are dropped *)
  reads_back (mk V1b3 url1 (s2b "GET") rq1 200%Z []) = Some false /\
  (* a non-ASCII header name that is invalid UTF-8: the reader refuses the key *)
  reads_back (mk V1b3 url1 (s2b "GET") [] 200%Z [([200], [[1]])]) = None /\
  (* a request header named ":method" (not a token): Write refuses (duplicate key) *)
  write (mk V1b2 url1 (s2b "GET") [(s2b ":method", [s2b "PUT"])] 200%Z []) = Err /\
  (* a request header named ":url" (not a token) in b2: written, but the reader
     rejects the deprecated key *)
  reads_back (mk V1b2 url1 (s2b "GET") [(s2b ":url", [url1])] 200%Z []) = None.
Proof. vm_compute. repeat split. Qed.

(* the reader on garbage *)
Example ex_read_garbage :
  read [] = Err /\ read (s2b "sxg1-b3") = Err /\ read (s2b "sxg1-b4" ++ [0; 0; 0]) = Err /\
  read (s2b "sxg1-b3" ++ [0; 0; 0; 0; 0; 0; 0; 0; 0]) = Err /\          (* empty URL is not https *)
  read (s2b "sxg1-b1" ++ [0; 0; 0; 0; 0; 0; 3; 130; 160; 160])          (* [ {}, {} ] *)
  = Ok {| e_ver := V1b1; e_uri := []; e_method := []; e_reqh := []; e_status := 0; e_resph := [];
          e_sig := []; e_payload := []; e_taint := false |}.
Proof. vm_compute. repeat split. Qed.
