(* C02 - signed exchanges, write / read half.

   "Every exchange the library agrees to sign and write is read back with
   identical version, URL, method, status, header fields (names case-folded,
   repeated values comma-joined), Signature header and payload bytes ...; A
   write whose URL, signature or header block does not fit the format's length
   fields or limits fails instead of emitting a file that reads back
   differently."   The Verify half ("... and then verifies at every instant of
   [date, expires] returning the original un-encoded payload; the verdict is
   the same before and after the write/read round trip") is the second part of
   this file: section "C02, the Verify half" below.

   Model: Model/Sxg.v ([write], [read] = Exchange.Write / ReadExchange).
   Definitions used in the statements: Proofs/SxgReadDefs.v, repeated here:

     readable e : bool :=
          negb (write_taint e)          the URL model DECIDES the fallback URL
                                        (snd (validate_fallback (e_uri e)) = false)
       && headers_ok (e_resph e)        every response header name is ASCII
       && int64_b (e_status e)          ResponseStatus is a Go int
       && negb (e_taint e)
       && match e_ver e with
          | V1b3 => e_method e = "GET" && e_reqh e = []     (b3 stores neither)
          | _    => headers_ok (e_reqh e)
          end

     canon_exchange e := e with both header maps replaced by [canon_headers]:
       the list, sorted by the bytewise order of the encoded key
       enc_bytes (lower name), of (canonical_key (lower name), [join_comma values]).

     b3_norm e := e with method "GET" and no request headers.

   What is left in [readable], and why (Write now refuses what ReadExchange
   refuses - a fallback URL that is not https, a b2 request header named ":url" -
   so nothing about the URL being acceptable is assumed any more:
   [c02_write_ok_url], [c02_write_ok_no_url_key]):
   - ASCII names: ESSENTIAL.  A name that is not valid UTF-8 is written and then
     refused by the reader; a valid non-ASCII one is beyond the model's
     strings.ToLower.  Names need NOT be tokens any more (a pseudo key in its own
     map, or two names equal up to letter case, make Write fail).
   - b3: method GET and no request headers: ESSENTIAL, by design of the format:
     [c02_b3_request_part_dropped] says what comes back otherwise, and
     [c02_b3_stateful_request_header_verdict_flips] shows a verdict changing.
   - int64 status, negb (write_taint e), negb (e_taint e): model-domain facts with no
     Go counterpart (the model's Z is wider than int; "undecided" is the URL
     model's third answer).  Each is needed of the MODEL
     ([readable_conditions_needed]).
   Not assumed: that names are distinct after lower-casing (such a map is
   refused by Write: duplicate CBOR key), any length bound (they follow from
   write e = Ok bs), non-empty or token names, anything about values, method
   (b1/b2), Signature header value or payload, the URL being https. *)
From Coq Require Import Lia.
From WP Require Import Base.Prelude Model.Cbor Model.Http Model.Sxg.
From WP Require Import Proofs.CborDecode Proofs.SxgReadDefs Proofs.SxgRoundtrip.
Open Scope N_scope.

(* ---- write then read ----------------------------------------------------------------- *)
Theorem c02_write_read : forall e bs,
  readable e = true -> write e = Ok bs -> read bs = Ok (canon_exchange e).
Proof. exact write_read. Qed.
Print Assumptions c02_write_read.

(* field by field, as the property lists them *)
Corollary c02_write_read_fields : forall e bs e',
  readable e = true -> write e = Ok bs -> read bs = Ok e' ->
  e_ver e' = e_ver e /\ e_uri e' = e_uri e /\ e_method e' = e_method e /\
  e_status e' = e_status e /\ e_sig e' = e_sig e /\ e_payload e' = e_payload e /\
  e_reqh e' = canon_headers (e_reqh e) /\ e_resph e' = canon_headers (e_resph e) /\
  e_taint e' = false.
Proof. exact write_read_fields. Qed.
Print Assumptions c02_write_read_fields.

(* ---- a write that does not fit fails ----------------------------------------------------- *)
Theorem c02_write_refuses_overflow : forall e bs, write e = Ok bs ->
  exists hdr, encode_exchange_headers e = Ok hdr /\
    match e_ver e with
    | V1b1 => lenN (e_sig e) < 16777216 /\ lenN hdr < 16777216
    | _ => lenN (e_uri e) < 65536 /\ lenN (e_sig e) <= 16384 /\ lenN hdr <= 524288
    end.
Proof. exact write_refuses_overflow. Qed.
Print Assumptions c02_write_refuses_overflow.

Theorem c02_write_err_iff : forall e, e_ver e <> V1b1 ->
  (write e = Err <->
   write_refuses e = true \/
   encode_exchange_headers e = Err \/
   exists hdr, encode_exchange_headers e = Ok hdr /\
     (65536 <= lenN (e_uri e) \/ 16384 < lenN (e_sig e) \/ 524288 < lenN hdr)).
Proof. exact write_err_iff. Qed.
Print Assumptions c02_write_err_iff.

(* ---- Write refuses what ReadExchange refuses -------------------------------------------- *)
(* write_refuses e := negb (fst (validate_fallback (e_uri e)))
                      || (b2: some request header name lower-cases to ":url") *)
Theorem c02_write_ok_url : forall e bs,
  write e = Ok bs -> fst (validate_fallback (e_uri e)) = true.
Proof. exact write_ok_url. Qed.
Print Assumptions c02_write_ok_url.

Theorem c02_write_ok_no_url_key : forall e bs,
  write e = Ok bs -> e_ver e = V1b2 ->
  existsb (fun nv => bytes_eqb (lower (fst nv)) (s2b ":url")) (e_reqh e) = false.
Proof. exact write_ok_no_url_key. Qed.
Print Assumptions c02_write_ok_no_url_key.

(* ---- b3 stores neither method nor request headers ------------------------------------------ *)
Theorem c02_b3_request_part_dropped : forall e bs,
  e_ver e = V1b3 -> readable (b3_norm e) = true -> write e = Ok bs ->
  read bs = Ok (canon_exchange (b3_norm e)).
Proof. exact b3_request_part_dropped. Qed.
Print Assumptions c02_b3_request_part_dropped.

(* ---- the reader's result is a fixpoint ---------------------------------------------------- *)
Theorem c02_canon_idempotent : forall e, canon_exchange (canon_exchange e) = canon_exchange e.
Proof. exact canon_idempotent. Qed.
Print Assumptions c02_canon_idempotent.

Theorem c02_readable_canon : forall e, readable e = true -> readable (canon_exchange e) = true.
Proof. exact readable_canon. Qed.
Print Assumptions c02_readable_canon.

(* canonicalising changes no written byte (for ANY exchange) *)
Theorem c02_write_canon : forall e, write (canon_exchange e) = write e.
Proof. exact write_canon. Qed.
Print Assumptions c02_write_canon.

Theorem c02_write_read_fixpoint : forall e bs, readable e = true -> write e = Ok bs ->
  write (canon_exchange e) = Ok bs /\ read bs = Ok (canon_exchange e) /\
  canon_exchange (canon_exchange e) = canon_exchange e.
Proof. exact write_read_fixpoint. Qed.
Print Assumptions c02_write_read_fixpoint.

(* ---- the reader on arbitrary bytes ---------------------------------------------------------- *)
Theorem c02_read_never_panics : forall bs, ok_or_err (read bs).
Proof. exact read_never_panics. Qed.
Print Assumptions c02_read_never_panics.

Theorem c02_read_prologue_never_panics : forall bs, ok_or_err (read_prologue bs).
Proof. exact read_prologue_total. Qed.
Print Assumptions c02_read_prologue_never_panics.

(* ==== examples ================================================================================= *)
Definition rs1 : headers :=
  [(s2b "Content-Type", [s2b "text/html"]); (s2b "x-FOO-bar", [s2b "a"; s2b "b"; []]);
   (s2b "Digest", []); ([], [s2b "empty name"]); (s2b "A", [[0; 255; 44]])].
Definition rq1 : headers := [(s2b "accept", [s2b "*/*"]); (s2b "ZZ", [[0; 200]])].
Definition mk (v : version) (u m : bytes) (rq : headers) (st : Z) (rs : headers) : exchange :=
  {| e_ver := v; e_uri := u; e_method := m; e_reqh := rq; e_status := st; e_resph := rs;
     e_sig := s2b "label;sig=*AA==*"; e_payload := [1; 2; 3; 0; 255]; e_taint := false |}.
Definition url1 : bytes := s2b "https://example.com/a?b=c".
Definition ex1 : exchange := mk V1b1 url1 (s2b "POST") rq1 (-5)%Z rs1.
Definition ex2 : exchange := mk V1b2 url1 (s2b "HEAD") rq1 200%Z rs1.
Definition ex3 : exchange := mk V1b3 url1 (s2b "GET") [] 404%Z rs1.

Definition exchange_eqb (a b : exchange) : bool :=
  let hb := fix hb (x y : headers) : bool :=
    match x, y with
    | [], [] => true
    | (n, vs) :: x', (n', vs') :: y' =>
        bytes_eqb n n'
        && (fix vb (p q : list bytes) : bool :=
              match p, q with
              | [], [] => true
              | a :: p', b :: q' => bytes_eqb a b && vb p' q'
              | _, _ => false
              end) vs vs'
        && hb x' y'
    | _, _ => false
    end in
  version_eqb (e_ver a) (e_ver b) && bytes_eqb (e_uri a) (e_uri b)
  && bytes_eqb (e_method a) (e_method b) && hb (e_reqh a) (e_reqh b)
  && (e_status a =? e_status b)%Z && hb (e_resph a) (e_resph b)
  && bytes_eqb (e_sig a) (e_sig b) && bytes_eqb (e_payload a) (e_payload b)
  && Bool.eqb (e_taint a) (e_taint b).

Definition roundtrips (e : exchange) : bool :=
  readable e
  && match write e with
     | Ok bs => match read bs with Ok e' => exchange_eqb e' (canon_exchange e) | _ => false end
     | _ => false
     end.

Example ex_readable_roundtrip :
  roundtrips ex1 = true /\ roundtrips ex2 = true /\ roundtrips ex3 = true.
Proof. vm_compute. repeat split. Qed.

(* what comes back: canonical keys, comma-joined values, sorted by encoded key
   (shorter keys first; the empty name is legal) *)
Example ex_canon_headers :
  canon_headers rs1 =
  [([], [s2b "empty name"]); (s2b "A", [[0; 255; 44]]); (s2b "Digest", [[]]);
   (s2b "X-Foo-Bar", [s2b "a,b,"]); (s2b "Content-Type", [s2b "text/html"])]
  /\ canon_headers rq1 = [(s2b "Zz", [[0; 200]]); (s2b "Accept", [s2b "*/*"])].
Proof. vm_compute. split; reflexivity. Qed.

(* the theorem instantiated (hypotheses satisfiable) *)
Example ex_write_read_inst : exists bs, write ex2 = Ok bs /\ read bs = Ok (canon_exchange ex2).
Proof.
  destruct (write ex2) as [bs| | |] eqn:E; try (vm_compute in E; discriminate E).
  exists bs. split; [reflexivity|]. apply write_read; [vm_compute; reflexivity|exact E].
Qed.

(* second generation: same bytes *)
Example ex_fixpoint :
  write (canon_exchange ex1) = write ex1 /\ canon_exchange (canon_exchange ex1) = canon_exchange ex1.
Proof. split; [apply write_canon|apply canon_idempotent]. Qed.

(* boundary of the 2-byte URL length: 65535 bytes are written and read back,
   65536 are refused (b2 and b3) *)
Definition long_url (n : N) : bytes := s2b "https://e.com/" ++ repeat 97 (N.to_nat (n - 14)).
Example ex_url_boundary :
  lenN (long_url 65535) = 65535 /\ lenN (long_url 65536) = 65536 /\
  roundtrips (mk V1b2 (long_url 65535) (s2b "GET") [] 200%Z []) = true /\
  roundtrips (mk V1b3 (long_url 65535) (s2b "GET") [] 200%Z []) = true /\
  write (mk V1b2 (long_url 65536) (s2b "GET") [] 200%Z []) = Err /\
  write (mk V1b3 (long_url 65536) (s2b "GET") [] 200%Z []) = Err /\
  readable (mk V1b3 (long_url 65536) (s2b "GET") [] 200%Z []) = true.
Proof. vm_compute. repeat split. Qed.

(* boundary of the Signature length limit (b3): 16384 written and read back, 16385 refused *)
Definition with_sig (n : N) : exchange :=
  {| e_ver := V1b3; e_uri := url1; e_method := s2b "GET"; e_reqh := []; e_status := 200%Z;
     e_resph := [(s2b "content-type", [s2b "text/plain"])];
     e_sig := repeat 97 (N.to_nat n); e_payload := [7]; e_taint := false |}.
Example ex_sig_boundary :
  roundtrips (with_sig 16384) = true /\ write (with_sig 16385) = Err.
Proof. vm_compute. split; reflexivity. Qed.

(* a map with two names equal after lower-casing is refused by Write (so
   [readable] need not forbid it) *)
Example ex_duplicate_refused :
  readable (mk V1b3 url1 (s2b "GET") [] 200%Z [(s2b "A", [[1]]); (s2b "a", [[2]])]) = true /\
  write (mk V1b3 url1 (s2b "GET") [] 200%Z [(s2b "A", [[1]]); (s2b "a", [[2]])]) = Err.
Proof. vm_compute. split; reflexivity. Qed.

(* each condition of [readable] is needed: without it Write succeeds and the
   file either fails to read or reads back as something else *)
Definition reads_back (e : exchange) : option bool :=
  match write e with
  | Ok bs => match read bs with
             | Ok e' => Some (exchange_eqb e' (canon_exchange e))
             | _ => None              (* written, but the reader refuses it *)
             end
  | _ => Some true                    (* not written *)
  end.
Definition set_taint1 (e : exchange) : exchange :=
  {| e_ver := e_ver e; e_uri := e_uri e; e_method := e_method e; e_reqh := e_reqh e;
     e_status := e_status e; e_resph := e_resph e; e_sig := e_sig e; e_payload := e_payload e;
     e_taint := true |}.
Example readable_conditions_needed :
  (* ESSENTIAL (rebuildable in Go) *)
  (* b3 with another method: reads back as GET *)
  reads_back (mk V1b3 url1 (s2b "POST") [] 200%Z []) = Some false /\
  (* b3 with request headers: they are dropped *)
  reads_back (mk V1b3 url1 (s2b "GET") rq1 200%Z []) = Some false /\
  (* a header name that is not ASCII and not valid UTF-8 (one byte 0xC8), response
     or request: written, the reader refuses the key *)
  reads_back (mk V1b3 url1 (s2b "GET") [] 200%Z [([200], [[1]])]) = None /\
  reads_back (mk V1b2 url1 (s2b "GET") [([200], [[1]])] 200%Z []) = None /\
  (* MODEL-DOMAIN (no Go counterpart) *)
  (* a status outside int64: written in decimal, strconv.Atoi fails *)
  reads_back (mk V1b3 url1 (s2b "GET") [] 9223372036854775808%Z []) = None /\
  (* a URL the URL model leaves undecided (userinfo): what is read is tainted *)
  reads_back (mk V1b3 (s2b "https://user@example.com/") (s2b "GET") [] 200%Z []) = Some false /\
  (* an exchange already tainted: the reader's result is not *)
  reads_back (set_taint1 (mk V1b3 url1 (s2b "GET") [] 200%Z [])) = Some false.
Proof. vm_compute. repeat split. Qed.

(* Write refuses what ReadExchange would refuse (before the repair these were
   written: "readable" had to ask for an acceptable URL, and a b2 ":url" request
   header gave a file the reader rejected) *)
Example ex_write_refuses :
  (* not https *)
  write (mk V1b3 (s2b "http://example.com/") (s2b "GET") [] 200%Z []) = Err /\
  write (mk V1b2 (s2b "http://example.com/") (s2b "GET") [] 200%Z []) = Err /\
  write (mk V1b1 (s2b "ftp://example.com/x") (s2b "GET") [] 200%Z []) = Err /\
  (* url.Parse fails *)
  write (mk V1b3 (s2b "https://example.com/%zz") (s2b "GET") [] 200%Z []) = Err /\
  (* b2: a request header named ":url", in any letter case *)
  write (mk V1b2 url1 (s2b "GET") [(s2b ":url", [url1])] 200%Z []) = Err /\
  write (mk V1b2 url1 (s2b "GET") [(s2b ":URL", [url1])] 200%Z []) = Err /\
  write_refuses (mk V1b2 url1 (s2b "GET") [(s2b ":Url", [url1])] 200%Z []) = true /\
  (* a header named like a pseudo key of its own map: duplicate CBOR key *)
  write (mk V1b2 url1 (s2b "GET") [(s2b ":method", [s2b "PUT"])] 200%Z []) = Err /\
  write (mk V1b1 url1 (s2b "GET") [(s2b ":url", [url1])] 200%Z []) = Err /\
  write (mk V1b3 url1 (s2b "GET") [] 200%Z [(s2b ":Status", [s2b "200"])]) = Err.
Proof. vm_compute. repeat split. Qed.

(* relative references ("/x", "") and every scheme other than https are refused by the
   model's Write as by Go's (url.Parse succeeds with scheme "" <> "https", or fails): outside
   the decided class of the URL model only https URLs stay undecided. *)
Example ex_relative_urls_refused :
  validate_fallback (s2b "/x") = (false, false) /\ validate_fallback [] = (false, false) /\
  validate_fallback (s2b "mailto:a@b") = (false, false) /\
  write (mk V1b3 (s2b "/x") (s2b "GET") [] 200%Z []) = Err /\
  write (mk V1b2 [] (s2b "GET") [] 200%Z []) = Err /\
  validate_fallback (s2b "https://user@example.com/") = (true, true).
Proof. vm_compute. repeat split. Qed.

(* names need not be tokens: any ASCII name that Write accepts comes back (a
   pseudo key of the OTHER map, spaces, parentheses, the empty name) *)
Example ex_nontoken_names_roundtrip :
  roundtrips (mk V1b2 url1 (s2b "GET") [(s2b ":status", [s2b "x"]); (s2b "(odd) name", [s2b "y"])]
                 200%Z [(s2b ":method", [s2b "z"]); (s2b ":url", [s2b "u"]); (s2b "a b", [[1]; [2]]);
                        ([], [s2b "empty"])]) = true /\
  roundtrips (mk V1b1 url1 (s2b "PUT") [(s2b ":STATUS", [[0]])] 200%Z [(s2b "A@B", [])]) = true.
Proof. vm_compute. split; reflexivity. Qed.

(* the reader on garbage *)
Example ex_read_garbage :
  read [] = Err /\ read (s2b "sxg1-b3") = Err /\ read (s2b "sxg1-b4" ++ [0; 0; 0]) = Err /\
  read (s2b "sxg1-b3" ++ [0; 0; 0; 0; 0; 0; 0; 0; 0]) = Err /\          (* empty URL is not https *)
  read (s2b "sxg1-b1" ++ [0; 0; 0; 0; 0; 0; 3; 130; 160; 160])          (* [ {}, {} ] *)
  = Ok {| e_ver := V1b1; e_uri := []; e_method := []; e_reqh := []; e_status := 0; e_resph := [];
          e_sig := []; e_payload := []; e_taint := false |}.
Proof. vm_compute. repeat split. Qed.

(* ==== C02, the Verify half ====================================================================

   "... and then verifies at every instant of [date, expires] returning the
   original un-encoded payload; the verdict is the same before and after the
   write/read round trip."

   Model: [verify] = Exchange.Verify with its oracles (SHA-256, x509 key
   identification, signature check, http.StatusText, certificate fetch) as
   parameters; [mi_encode_payload], [signed_message], [signature_header_value]
   = the signer's steps.  Proofs: Proofs/HdrCi.v (the case-insensitive
   headerValue), Proofs/SxgRoundtripVerify.v (invariance),
   Proofs/SxgRoundtripVerifySigned.v (a signed exchange verifies),
   Proofs/SxgRoundtripVerifyEx.v (runs with SHA-256).

   The theorems, as they now are:

   - [c02_verify_canon_invariant], [c02_verdict_same_after_roundtrip]: NO side
     condition.  For every exchange, every oracle, every instant, Verify gives the
     same verdict on e and on canon_exchange e; so for every readable e that
     Write accepts, the verdict on what ReadExchange returns equals the verdict on
     e.  Reason: Verify consults the response map through hdr_value_ci
     (headerValue: all keys equal to the name up to letter case), and
     [c02_hdr_value_ci_canon]: on a map whose names are distinct up to letter case
     hdr_value_ci is the same before and after canonicalisation; a map with two
     names equal up to case cannot be encoded, so no signature verifies and the
     verdict is the same failure on both sides.
   - [c02_signed_exchange_verifies] (+ _after_roundtrip): the exchange built by
     MiEncodePayload + AddSignatureHeader verifies at every instant of
     [date, expires] with the ORIGINAL payload.  Premises: the signing steps
     returned Ok, the oracle facts (chain served and parsed, key supported, the
     obtained signature verifies, SHA-256 has 32 bytes), wfb sg (a Go []byte), and
     the boolean [policy_ok].  No premise on the digest header: a value under the
     canonical key makes MiEncodePayload fail, a key spelled otherwise makes
     signed_message fail (duplicate name up to case).

     set_sig e v                e with the Signature header value v
     policy_ok status_known e validity date expires rs : bool :=
          same_origin validity (e_uri e) is decided and true
       && post_ok status_known e     b1/b2: method GET or HEAD and no stateful request
                                     header; b3: IsCacheable; all: no uncached header
       && (b3: Content-Type present, hdr_value_ci)
       && negb (e_taint e)
       && 1 <= rs <= 16384           MI record size
       && expires - date <= 604800 && date, expires are int64
     time_ok tsec tnsec         |tsec| < 2^62 and 0 <= tnsec < 10^9

   History.  An earlier version of these theorems needed a side condition
   ("lookup_stable": the looked-up names are spelled canonically in the map) and
   a premise "digest header absent", both with refutation witnesses.  The
   witnesses were defects of the Go code, since repaired: F19 (verifier.go
   headerValue matched the http.Header map key exactly, so a field stored under
   "content-type" / "cache-control" was invisible in memory but visible after
   Write / Read) and F20 (MiEncodePayload tested Get(digest) != "" and appended to
   an existing empty value, producing a signed exchange that never verifies).
   The same exchanges are now positive examples: [c02_low_ct_low_cc_same_verdict],
   [c02_mi_encode_refuses_existing_digest].  A third repair (Exchange.Write
   refuses a non-https fallback URL and a b2 ":url" request header) removed the
   URL conjunct from [readable], used by the _after_roundtrip theorems below.                                         *)
From WP Require Model.Mice Model.StructHdr Model.CertChain Proofs.SxgVerifySound.
From WP Require Import Proofs.HdrCi Proofs.SxgRoundtripVerify Proofs.SxgRoundtripVerifySigned.
From WP Require Proofs.SxgVerifyExample Proofs.SxgRoundtripVerifyEx.

(* ---- the verdict is the same before and after ------------------------------------------------ *)
Theorem c02_verify_canon_invariant :
  forall (H256 : bytes -> bytes) (x509_key : bytes -> option (option N))
         (sig_ok : N -> bytes -> bytes -> bool) (status_known : Z -> bool) (fetch : bytes -> R bytes)
         (e : exchange) (tsec tnsec : Z),
    verify H256 x509_key sig_ok status_known fetch (canon_exchange e) tsec tnsec
    = verify H256 x509_key sig_ok status_known fetch e tsec tnsec.
Proof. exact verify_canon_invariant. Qed.
Print Assumptions c02_verify_canon_invariant.

Theorem c02_verdict_same_after_roundtrip :
  forall (H256 : bytes -> bytes) (x509_key : bytes -> option (option N))
         (sig_ok : N -> bytes -> bytes -> bool) (status_known : Z -> bool) (fetch : bytes -> R bytes)
         (e : exchange) (bs : bytes),
    readable e = true -> write e = Ok bs ->
    exists e', read bs = Ok e' /\
      forall tsec tnsec,
        verify H256 x509_key sig_ok status_known fetch e' tsec tnsec
        = verify H256 x509_key sig_ok status_known fetch e tsec tnsec.
Proof. exact verdict_same_after_roundtrip. Qed.
Print Assumptions c02_verdict_same_after_roundtrip.

(* the lemma behind it: the verifier's headerValue on the canonical map *)
Theorem c02_hdr_value_ci_canon :
  forall (h : headers) (k : bytes),
    NoDup (map (fun nv => lower (fst nv)) h) ->
    hdr_value_ci (canon_headers h) k = hdr_value_ci h k.
Proof. exact hdr_value_ci_canon. Qed.
Print Assumptions c02_hdr_value_ci_canon.

(* ... and what it is on such a map: the joined value of the one entry with that
   name, however spelled; nothing if there is none *)
Theorem c02_hdr_value_ci_unique :
  forall (h : headers) (k n : bytes) (vs : list bytes),
    NoDup (map (fun nv => lower (fst nv)) h) -> In (n, vs) h -> lower n = lower k ->
    hdr_value_ci h k = join_comma vs.
Proof. exact hdr_value_ci_unique. Qed.
Print Assumptions c02_hdr_value_ci_unique.

(* the NoDup premise is what signing / writing guarantee *)
Theorem c02_encodable_names_distinct :
  forall (e : exchange) (hdr : bytes),
    encode_exchange_headers e = Ok hdr -> NoDup (map (fun nv => lower (fst nv)) (e_resph e)).
Proof. exact encode_headers_ok_nodup. Qed.
Print Assumptions c02_encodable_names_distinct.

(* ---- what the library signs verifies, with the original payload ------------------------------ *)
Theorem c02_signed_exchange_verifies :
  forall (H256 : bytes -> bytes) (x509_key : bytes -> option (option N))
         (sig_ok : N -> bytes -> bytes -> bool) (status_known : Z -> bool) (fetch : bytes -> R bytes),
    (forall x, List.length (H256 x) = 32%nat) -> (forall x, wfb (H256 x)) ->
  forall (e0 e1 : exchange) (rs : N) (der cert_url validity : bytes) (date expires : Z)
         (m sg hdr chain : bytes) (main : CertChain.augcert) (rest : list CertChain.augcert) (kid : N)
         (tsec tnsec : Z),
    (* signing, as the library does it *)
    mi_encode_payload H256 e0 rs = Ok e1 ->
    signed_message e1 (Some (H256 der)) validity date expires = Ok m ->
    signature_header_value H256 e1 [der] cert_url validity date expires sg = Ok hdr ->
    wfb sg ->
    (* the certificate chain is served, starts with the signing certificate; the
       signature the signer obtained verifies under its key *)
    fetch cert_url = Ok chain ->
    CertChain.cc_read (fun d => match x509_key d with Some _ => true | None => false end) chain
      = Ok (main :: rest) ->
    CertChain.ac_cert main = der ->
    x509_key der = Some (Some kid) ->
    sig_ok kid m sg = true ->
    policy_ok status_known (set_sig e1 hdr) validity date expires rs = true ->
    (* every instant of [date, expires] *)
    SxgVerifySound.time_ok tsec tnsec ->
    (date * 1000000000 <= tsec * 1000000000 + tnsec <= expires * 1000000000)%Z ->
    verify H256 x509_key sig_ok status_known fetch (set_sig e1 hdr) tsec tnsec
    = Valid (e_payload e0).
Proof. exact signed_exchange_verifies. Qed.
Print Assumptions c02_signed_exchange_verifies.

Theorem c02_signed_exchange_verifies_after_roundtrip :
  forall (H256 : bytes -> bytes) (x509_key : bytes -> option (option N))
         (sig_ok : N -> bytes -> bytes -> bool) (status_known : Z -> bool) (fetch : bytes -> R bytes),
    (forall x, List.length (H256 x) = 32%nat) -> (forall x, wfb (H256 x)) ->
  forall (e0 e1 : exchange) (rs : N) (der cert_url validity : bytes) (date expires : Z)
         (m sg hdr chain : bytes) (main : CertChain.augcert) (rest : list CertChain.augcert) (kid : N)
         (bs : bytes),
    mi_encode_payload H256 e0 rs = Ok e1 ->
    signed_message e1 (Some (H256 der)) validity date expires = Ok m ->
    signature_header_value H256 e1 [der] cert_url validity date expires sg = Ok hdr ->
    wfb sg ->
    fetch cert_url = Ok chain ->
    CertChain.cc_read (fun d => match x509_key d with Some _ => true | None => false end) chain
      = Ok (main :: rest) ->
    CertChain.ac_cert main = der ->
    x509_key der = Some (Some kid) ->
    sig_ok kid m sg = true ->
    policy_ok status_known (set_sig e1 hdr) validity date expires rs = true ->
    readable (set_sig e1 hdr) = true ->
    write (set_sig e1 hdr) = Ok bs ->
    exists e', read bs = Ok e' /\
      forall tsec tnsec, SxgVerifySound.time_ok tsec tnsec ->
        (date * 1000000000 <= tsec * 1000000000 + tnsec <= expires * 1000000000)%Z ->
        verify H256 x509_key sig_ok status_known fetch e' tsec tnsec = Valid (e_payload e0) /\
        verify H256 x509_key sig_ok status_known fetch e' tsec tnsec
        = verify H256 x509_key sig_ok status_known fetch (set_sig e1 hdr) tsec tnsec.
Proof. exact signed_exchange_verifies_after_roundtrip. Qed.
Print Assumptions c02_signed_exchange_verifies_after_roundtrip.

(* MiEncodePayload succeeded: no value under the canonical digest key before, and
   the result is e0 + Content-Encoding + the digest header + the MI stream *)
Theorem c02_mi_encode_payload_inv :
  forall (H : bytes -> bytes) (e0 e1 : exchange) (rs : N), 1 <= rs ->
    mi_encode_payload H e0 rs = Ok e1 ->
    hdr_values (e_resph e0) (Mice.digest_header_name (mice_of (e_ver e0))) = [] /\
    e1 = {| e_ver := e_ver e0; e_uri := e_uri e0; e_method := e_method e0; e_reqh := e_reqh e0;
            e_status := e_status e0;
            e_resph := hdr_add (hdr_add (e_resph e0) (s2b "Content-Encoding")
                                        (Mice.content_encoding (mice_of (e_ver e0))))
                               (Mice.digest_header_name (mice_of (e_ver e0)))
                               (Spec.Mice.digest_header H (mice_of (e_ver e0)) rs (e_payload e0));
            e_sig := e_sig e0;
            e_payload := Spec.Mice.stream H (mice_of (e_ver e0)) rs (e_payload e0);
            e_taint := e_taint e0 |}.
Proof. exact mi_encode_payload_inv. Qed.
Print Assumptions c02_mi_encode_payload_inv.

(* the verifier's parser recovers exactly the seven parameters the signer wrote *)
Theorem c02_signature_header_parsed :
  forall (H : bytes -> bytes) (e : exchange) (der cert_url validity : bytes)
         (date expires : Z) (sg hdr : bytes),
    wfb sg -> wfb (H der) ->
    (-9223372036854775808 <= date < 9223372036854775808)%Z ->
    (-9223372036854775808 <= expires < 9223372036854775808)%Z ->
    signature_header_value H e [der] cert_url validity date expires sg = Ok hdr ->
    exists pi, StructHdr.parse_parameterised_list hdr = Ok [pi] /\
      extract_signature pi
      = Some {| s_sig := sg; s_integrity := Mice.integrity_identifier (mice_of (e_ver e));
                s_cert_url := cert_url; s_cert_sha := H der; s_validity := validity;
                s_date := date; s_expires := expires |}.
Proof. exact signature_header_parsed. Qed.
Print Assumptions c02_signature_header_parsed.

(* ---- the former witnesses, now positive ----------------------------------------------------------- *)
(* F19 repaired: Content-Type under the map key "content-type" (low_ct) is Valid in
   memory, canonicalised and read back; "cache-control: no-store" under a
   non-canonical key (low_cc) is Invalid in all three *)
Example c02_low_ct_low_cc_same_verdict :
  let V := SxgVerifyExample.toy_verify in
  let back := SxgRoundtripVerifyEx.read_back in
  let ct := SxgRoundtripVerifyEx.low_ct in let cc := SxgRoundtripVerifyEx.low_cc in
  let d := SxgVerifyExample.toy_date in
  readable ct = true /\ readable cc = true /\
  back ct = canon_exchange ct /\ back cc = canon_exchange cc /\
  V ct d 0%Z = Valid SxgVerifyExample.toy_body /\
  V (canon_exchange ct) d 0%Z = Valid SxgVerifyExample.toy_body /\
  V (back ct) d 0%Z = Valid SxgVerifyExample.toy_body /\
  V cc d 0%Z = Invalid /\ V (canon_exchange cc) d 0%Z = Invalid /\ V (back cc) d 0%Z = Invalid.
Proof. exact SxgRoundtripVerifyEx.low_ct_low_cc_same_verdict. Qed.

(* b3: a stateful request header held in memory makes Verify refuse; Write stores no
   request part; what ReadExchange returns is accepted *)
Theorem c02_b3_stateful_request_header_verdict_flips :
  let e := SxgRoundtripVerifyEx.b3_auth in
  e_ver e = V1b3 /\ (exists bs, write e = Ok bs) /\
  readable (b3_norm e) = true /\ readable e = false /\
  SxgRoundtripVerifyEx.read_back e = canon_exchange (b3_norm e) /\
  e_reqh (SxgRoundtripVerifyEx.read_back e) = [] /\
  SxgVerifyExample.toy_verify e SxgVerifyExample.toy_date 0 = Invalid /\
  SxgVerifyExample.toy_verify (SxgRoundtripVerifyEx.read_back e) SxgVerifyExample.toy_date 0
  = Valid SxgVerifyExample.toy_body.
Proof. exact SxgRoundtripVerifyEx.b3_stateful_request_header_verdict_flips. Qed.
Print Assumptions c02_b3_stateful_request_header_verdict_flips.

(* two keys equal up to letter case: not writable, Invalid on both sides *)
Example c02_twin_keys_invalid :
  write SxgRoundtripVerifyEx.twin_ct = Err /\
  SxgVerifyExample.toy_verify SxgRoundtripVerifyEx.twin_ct SxgVerifyExample.toy_date 0 = Invalid /\
  SxgVerifyExample.toy_verify (canon_exchange SxgRoundtripVerifyEx.twin_ct) SxgVerifyExample.toy_date 0
  = Invalid.
Proof. exact SxgRoundtripVerifyEx.twin_keys_invalid. Qed.

(* F20 repaired: an existing digest value, even empty, is refused by MiEncodePayload *)
Example c02_mi_encode_refuses_existing_digest :
  mi_encode_payload Sha256.sha256
    (SxgVerifyExample.plain V1b3 200 SxgVerifyExample.std_headers [(s2b "Digest", [[]])]) 16 = Err /\
  SxgVerifyExample.toy_sign
    (SxgVerifyExample.plain V1b3 200 SxgVerifyExample.std_headers [(s2b "Digest", [[]])])
    SxgVerifyExample.toy_date SxgVerifyExample.toy_expires = Err /\
  mi_encode_payload Sha256.sha256
    (SxgVerifyExample.plain V1b1 200 SxgVerifyExample.std_headers [(s2b "Mi-Draft2", [[]; []])]) 16 = Err.
Proof. exact SxgRoundtripVerifyEx.mi_encode_refuses_existing_digest. Qed.

(* a raw key "digest" escapes MiEncodePayload's check but then nothing can be signed *)
Example c02_lowercase_digest_cannot_be_signed :
  let e0 := SxgVerifyExample.plain V1b3 200 SxgVerifyExample.std_headers [(s2b "digest", [s2b "x"])] in
  (exists e1, mi_encode_payload Sha256.sha256 e0 16 = Ok e1 /\
     signed_message e1 (Some (Sha256.sha256 SxgVerifyExample.toy_cert)) SxgVerifyExample.toy_validity
                    SxgVerifyExample.toy_date SxgVerifyExample.toy_expires = Err) /\
  SxgVerifyExample.toy_sign e0 SxgVerifyExample.toy_date SxgVerifyExample.toy_expires = Err.
Proof. exact SxgRoundtripVerifyEx.lowercase_digest_cannot_be_signed. Qed.

(* ---- examples ------------------------------------------------------------------------------------ *)
(* headers in odd letter case, multi-valued fields, b1 / b2 / b3, SHA-256: Valid with
   the original payload in memory, canonicalised, and after Write / ReadExchange *)
Example c02_odd_case_same_verdict :
  let V := SxgVerifyExample.toy_verify in
  let ok := SxgRoundtripVerifyEx.valid_body in
  let back := SxgRoundtripVerifyEx.read_back in
  let d := SxgVerifyExample.toy_date in let x := SxgVerifyExample.toy_expires in
  let o3 := SxgRoundtripVerifyEx.odd3 in let o2 := SxgRoundtripVerifyEx.odd2 in
  let o1 := SxgRoundtripVerifyEx.odd1 in
  (ok (V o3 d 0%Z) = true /\ ok (V (canon_exchange o3) d 0%Z) = true /\ ok (V (back o3) d 0%Z) = true) /\
  (ok (V o2 x 0%Z) = true /\ ok (V (canon_exchange o2) x 0%Z) = true /\ ok (V (back o2) x 0%Z) = true) /\
  (ok (V o1 (d + 300000)%Z 999999999%Z) = true /\
   ok (V (canon_exchange o1) (d + 300000)%Z 999999999%Z) = true /\
   ok (V (back o1) (d + 300000)%Z 999999999%Z) = true) /\
  (V o3 x 1%Z = Invalid /\ V (back o3) x 1%Z = Invalid /\
   V o3 (d - 1)%Z 999999999%Z = Invalid /\ V (back o3) (d - 1)%Z 999999999%Z = Invalid).
Proof.
  exact (conj SxgRoundtripVerifyEx.odd3_verdicts
          (conj SxgRoundtripVerifyEx.odd2_verdicts
            (conj SxgRoundtripVerifyEx.odd1_verdicts SxgRoundtripVerifyEx.odd3_outside))).
Qed.

(* the theorems instantiated (hypotheses satisfiable), for every instant of the window *)
Example c02_signed_exchange_verifies_inst : forall tsec tnsec,
  SxgVerifySound.time_ok tsec tnsec ->
  (SxgVerifyExample.toy_date * 1000000000 <= tsec * 1000000000 + tnsec
   <= SxgVerifyExample.toy_expires * 1000000000)%Z ->
  verify SxgRoundtripVerifyEx.polyH SxgVerifyExample.toy_x509 SxgRoundtripVerifyEx.poly_sig_ok
         SxgVerifyExample.toy_status SxgVerifyExample.toy_fetch
         (set_sig SxgRoundtripVerifyEx.p1 SxgRoundtripVerifyEx.phdr) tsec tnsec
  = Valid SxgVerifyExample.toy_body.
Proof. exact SxgRoundtripVerifyEx.signed_exchange_verifies_inst. Qed.

Example c02_signed_exchange_roundtrip_inst :
  exists bs e', write (set_sig SxgRoundtripVerifyEx.p1 SxgRoundtripVerifyEx.phdr) = Ok bs /\
    read bs = Ok e' /\
    forall tsec tnsec, SxgVerifySound.time_ok tsec tnsec ->
      (SxgVerifyExample.toy_date * 1000000000 <= tsec * 1000000000 + tnsec
       <= SxgVerifyExample.toy_expires * 1000000000)%Z ->
      verify SxgRoundtripVerifyEx.polyH SxgVerifyExample.toy_x509 SxgRoundtripVerifyEx.poly_sig_ok
             SxgVerifyExample.toy_status SxgVerifyExample.toy_fetch e' tsec tnsec
      = Valid SxgVerifyExample.toy_body.
Proof. exact SxgRoundtripVerifyEx.signed_exchange_roundtrip_inst. Qed.

Example c02_odd3_invariant_inst : forall tsec tnsec,
  SxgVerifyExample.toy_verify (canon_exchange SxgRoundtripVerifyEx.odd3) tsec tnsec
  = SxgVerifyExample.toy_verify SxgRoundtripVerifyEx.odd3 tsec tnsec.
Proof. exact SxgRoundtripVerifyEx.odd3_invariant_inst. Qed.
