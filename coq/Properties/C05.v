(* C05 - the web-bundle reader (go/bundle/decoder.go, version/version.go).

   "For every input byte string the bundle reader either rejects it or returns
   exchanges whose URL, status, headers and body are exactly the bytes found at
   in-bounds locations of that input, as an independent parser of the format
   extracts them; it never reads past the end of the input, never fabricates
   content, and steps over unknown sections without losing its place.  Any
   index entry or section length that points outside the file, overflows 64-bit
   arithmetic or disagrees with the section table is rejected with an error."

   Statements only; proofs live in Proofs/BundleRead{Base,Total,Layout,Bounds,
   Response,Sound,Reject,Unique}.v.  Model = Model/Bundle.v (b_read = bundle.Read,
   load_metadata = loadMetadata, load_response = loadResponse; uint64
   arithmetic as explicit w64, slice expressions as splitN with None = panic,
   loops with fuel).  The independent side is Spec/BundleRead.v (Extracts,
   SectionLayout, IndexLocations, ResponseAt, ...: relations between the input
   and what a parser of the draft's CDDL finds in it, all arithmetic in N
   without wrap) on top of Spec/Cbor.v (shead).

   Reading notes.
   - Every theorem is for an arbitrary input [bs : bytes] and an arbitrary
     oracle [x509_ok].  No "elements are bytes" (wfb) hypothesis is needed.
   - The one side condition is [lenN bs < two64]: a Go slice is shorter than
     2^63, while the model's input is an unbounded list.  It cannot be
     dropped from the model-level statements: see size_condition_needed.
   - [load_header] / [load_body] (Proofs/BundleReadLayout.v) split
     load_metadata into "everything before the first section" and "the checks
     on the table plus the section loop"; [load_metadata_split] is that
     equation.  [handle_section] is the body of the loop's switch statement.
   - Leniencies of the reader that the reference shares (see Spec/BundleRead.v
     and the examples at the end): non-shortest CBOR heads, bytes after the
     items inside the section-lengths string / the index section / the header
     string of a response, an odd count in the section-lengths array head.
   - Also serves C10 for this package: read_no_panic, read_terminates. *)
From Coq Require Import Lia.
From WP Require Import Base.Prelude Model.Cbor Model.Http Model.CertChain Model.Bundle
  Spec.Cbor Spec.BundleRead.
From WP Require Import Proofs.BaseLemmas Proofs.CborDecode
  Proofs.BundleReadBase Proofs.BundleReadTotal Proofs.BundleReadLayout Proofs.BundleReadBounds
  Proofs.BundleReadResponse Proofs.BundleReadSound Proofs.BundleReadReject
  Proofs.BundleReadUnique.
Open Scope N_scope.

(* ==== the reader is total ============================================================ *)
Theorem read_no_panic : forall (x509_ok : bytes -> bool) (bs : bytes),
  lenN bs < two64 -> b_read x509_ok bs <> Panic.
Proof. exact BundleReadBounds.read_no_panic. Qed.
Print Assumptions read_no_panic.

Theorem read_terminates : forall (x509_ok : bytes -> bool) (bs : bytes),
  lenN bs < two64 -> b_read x509_ok bs <> Fuel.
Proof. exact BundleReadBounds.read_terminates. Qed.
Print Assumptions read_terminates.

(* why [lenN bs < two64] is there: on a list of more than 2^64 elements a
   section of length 2^64-1 passes the in-file check and then wraps the
   uint64 end offset; bs[38:37] panics.  No Go slice is that long. *)
Theorem size_condition_needed : forall x509_ok v (bs : bytes) all t ss m,
  two64 + 38 <= lenN bs ->
  sections_fit [(sec_index, two64 - 1); (sec_responses, 0)] 38 (lenN bs) = true /\
  load_sections x509_ok v bs all ((sec_index, two64 - 1) :: t) 38 ss m = Panic.
Proof. exact BundleReadReject.huge_input_panics. Qed.
Print Assumptions size_condition_needed.

(* the loops on their own: the fuel the model hands them (one more than the
   number of remaining input bytes) always suffices, for every count up to
   2^64-1, because each iteration consumes at least one byte or returns *)
Theorem loops_terminate : forall (x509_ok : bytes -> bool) (bs : bytes),
  ok_or_err (decode_section_lengths bs) /\
  (forall n h ps, ok_or_err (dec_cbor_headers (S (List.length bs)) n bs h ps)) /\
  (forall v n rl ro acc t, ok_or_err (parse_index (S (List.length bs)) v n bs rl ro acc t)) /\
  (forall k u rl ro acc, ok_or_err (read_locs (S (N.to_nat k)) k bs u rl ro acc)) /\
  ok_or_err (parse_signatures x509_ok bs) /\
  ok_or_err (decode_augcert x509_ok bs) /\
  ok_or_err (Model.Variants.parse_list_of_string_lists bs) /\
  ok_or_err (load_response bs).
Proof.
  intros x509_ok bs.
  split; [apply decode_section_lengths_total|].
  split; [intros; apply dec_cbor_headers_total; lia|].
  split; [intros; apply parse_index_total; lia|].
  split; [intros; apply read_locs_total; lia|].
  split; [apply parse_signatures_total|].
  split; [apply decode_augcert_total|].
  split; [apply parse_list_of_string_lists_total|apply load_response_total].
Qed.
Print Assumptions loops_terminate.

(* ==== the section table ================================================================ *)
(* the pre-check of loadMetadata = "every section ends inside the file", in N *)
Theorem sections_fit_spec : forall (sos : list (bytes * N)) (e total : N),
  e <= total -> (sections_fit sos e total = true <-> e + sum_lens sos <= total).
Proof. exact BundleReadBase.sections_fit_spec. Qed.
Print Assumptions sections_fit_spec.

(* FindSection's uint64 offset = the unwrapped span of the spec *)
Theorem find_section_spec : forall sos name,
  sum_lens sos < two64 ->
  find_section sos name =
  match section_span sos name with Some (o, l) => Some (l, o) | None => None end.
Proof. exact BundleReadBase.find_section_spec. Qed.
Print Assumptions find_section_spec.

Theorem section_span_spec : forall sos name off len,
  section_span sos name = Some (off, len) <-> SectionSpan sos name off len.
Proof. exact BundleReadBase.section_span_spec. Qed.
Print Assumptions section_span_spec.

(* "steps over unknown sections without losing its place": having passed the
   sections [passed] (known or not), the loop continues with the remaining ones
   at offset + the sum of ALL their lengths *)
Theorem load_sections_offset_invariant : forall x509_ok v bs all ss passed rest offset m,
  ~ In sec_responses (map fst passed) ->
  offset + sum_lens passed < two64 ->
  load_sections x509_ok v bs all (passed ++ rest) offset ss m =
  let* m1 := load_sections x509_ok v bs all passed offset ss m in
  load_sections x509_ok v bs all rest (offset + sum_lens passed) ss m1.
Proof. exact BundleReadLayout.load_sections_offset_invariant. Qed.
Print Assumptions load_sections_offset_invariant.

(* with the section inside the file, w64 (offset + len) = offset + len, the
   slice bs[offset:offset+len] is in range (no panic) and is exactly the len
   bytes found at offset *)
Theorem load_sections_slice_in_range : forall x509_ok v (bs : bytes) all name len t offset ss m,
  known_section name = true -> bytes_eqb name sec_responses = false ->
  offset + len <= lenN bs -> lenN bs < two64 ->
  exists pre contents post,
    bs = pre ++ contents ++ post /\ lenN pre = offset /\ lenN contents = len /\
    load_sections x509_ok v bs all ((name, len) :: t) offset ss m =
    if lenN bs <=? offset + len then Err
    else let* m' := handle_section x509_ok v all ss name contents m in
         load_sections x509_ok v bs all t (offset + len) ss m'.
Proof. exact BundleReadLayout.load_sections_known. Qed.
Print Assumptions load_sections_slice_in_range.

Theorem load_metadata_split : forall x509_ok bs,
  load_metadata x509_ok bs =
  let* (v, fallback, taint0, ss, sos) := load_header bs in
  load_body x509_ok bs v fallback taint0 ss sos.
Proof. exact BundleReadLayout.load_metadata_split. Qed.
Print Assumptions load_metadata_split.

(* ==== makeRelativeToStream =============================================================== *)
Theorem make_relative_spec : forall rl ro o l o' l',
  make_relative rl ro o l = Ok (o', l') <-> (o + l <= rl /\ o' = w64 (ro + o) /\ l' = l).
Proof. exact BundleReadBase.make_relative_spec. Qed.
Print Assumptions make_relative_spec.

Theorem make_relative_in_section : forall total rl ro o l o' l',
  ro + rl <= total -> total < two64 ->
  make_relative rl ro o l = Ok (o', l') ->
  o' = ro + o /\ l' = l /\ ro <= o' /\ o' + l' <= ro + rl /\ o + l <= rl.
Proof. exact BundleReadBase.make_relative_in_section. Qed.
Print Assumptions make_relative_in_section.

(* ==== never reads past the end of the input ================================================= *)
(* every location Read is going to dereference lies in the responses section,
   which lies in the file; N arithmetic, nothing wraps *)
Theorem read_locations_in_bounds : forall x509_ok (bs : bytes) v m,
  lenN bs < two64 -> load_metadata x509_ok bs = Ok (v, m) ->
  exists resp_start resp_len,
    resp_start + resp_len <= lenN bs /\
    Forall (fun l => resp_start <= l_off l /\ l_off l + l_len l <= resp_start + resp_len)
           (m_locs m).
Proof. exact BundleReadBounds.load_metadata_in_bounds. Qed.
Print Assumptions read_locations_in_bounds.

(* the same with the responses section tied to the section table: it is the
   last entry, at sections_start + (sum of all other lengths) *)
Theorem read_locations_in_bounds_layout : forall x509_ok (bs : bytes) v m,
  lenN bs < two64 -> load_metadata x509_ok bs = Ok (v, m) ->
  exists fb t0 ss sos before resp_len,
    load_header bs = Ok (v, fb, t0, ss, sos) /\
    sos = before ++ [(sec_responses, resp_len)] /\
    section_span sos sec_responses = Some (sum_lens before, resp_len) /\
    ss + sum_lens sos <= lenN bs /\
    Forall (in_bounds (ss + sum_lens before) resp_len) (m_locs m).
Proof. exact BundleReadBounds.load_metadata_in_bounds_layout. Qed.
Print Assumptions read_locations_in_bounds_layout.

(* and then the slice bs[Offset:Offset+Length] is exactly those bytes *)
Theorem read_slice_in_range : forall (bs : bytes) l t acc,
  l_off l + l_len l <= lenN bs -> lenN bs < two64 ->
  exists item,
    sub_at bs (l_off l) (l_len l) item /\
    load_all bs (l :: t) acc =
    let* (st, h, body) := load_response item in
    load_all bs t ({| bx_url := l_url l; bx_status := st; bx_hdr := h; bx_body := body |} :: acc).
Proof. exact BundleReadBounds.load_all_step. Qed.
Print Assumptions read_slice_in_range.

(* ==== one response =========================================================================== *)
Theorem load_response_sound : forall item st h body,
  load_response item = Ok (st, h, body) -> ResponseItem item st h body.
Proof. exact BundleReadResponse.load_response_sound. Qed.
Print Assumptions load_response_sound.

(* ==== the main statement ======================================================================= *)
Theorem read_sound : forall x509_ok (bs : bytes) (b : bundle),
  lenN bs < two64 -> b_read x509_ok bs = Ok b -> Extracts bs b.
Proof. exact BundleReadSound.read_sound. Qed.
Print Assumptions read_sound.

Theorem read_bodies_in_input : forall x509_ok (bs : bytes) (b : bundle),
  lenN bs < two64 -> b_read x509_ok bs = Ok b ->
  Forall (fun x => exists pre post, bs = pre ++ bx_body x ++ post) (b_exchanges b).
Proof. exact BundleReadSound.read_bodies_in_input. Qed.
Print Assumptions read_bodies_in_input.

(* the reference is functional: the file determines version and exchanges, so
   read_sound says the reader returns THE exchanges an independent parser finds *)
Theorem extracts_functional : forall (bs : bytes) (b b' : bundle),
  Extracts bs b -> Extracts bs b' ->
  b_ver b = b_ver b' /\ b_exchanges b = b_exchanges b'.
Proof. exact BundleReadUnique.Extracts_fun. Qed.
Print Assumptions extracts_functional.

Theorem read_is_the_extraction : forall x509_ok (bs : bytes) (b b' : bundle),
  lenN bs < two64 -> b_read x509_ok bs = Ok b -> Extracts bs b' ->
  b_ver b = b_ver b' /\ b_exchanges b = b_exchanges b'.
Proof.
  intros x509_ok bs b b' Hlen Hr He.
  exact (BundleReadUnique.Extracts_fun bs b b' (BundleReadSound.read_sound x509_ok bs b Hlen Hr) He).
Qed.
Print Assumptions read_is_the_extraction.

(* ==== rejections ================================================================================ *)
Theorem rejects_out_of_file : forall x509_ok (bs : bytes) v fb t0 ss sos,
  load_header bs = Ok (v, fb, t0, ss, sos) ->
  lenN bs < ss + sum_lens sos ->
  load_metadata x509_ok bs = Err.
Proof. exact BundleReadReject.rejects_out_of_file. Qed.
Print Assumptions rejects_out_of_file.

Theorem rejects_missing_responses_last : forall x509_ok (bs : bytes) v fb t0 ss sos,
  load_header bs = Ok (v, fb, t0, ss, sos) ->
  ~ (exists before rl, sos = before ++ [(sec_responses, rl)]) ->
  load_metadata x509_ok bs = Err.
Proof. exact BundleReadReject.rejects_missing_responses_last. Qed.
Print Assumptions rejects_missing_responses_last.

Theorem rejects_duplicate_section : forall f i n bs acc name r1,
  i < n -> decode_text bs = Ok (name, r1) -> In name (map fst acc) ->
  dec_section_lengths (S f) i n bs acc = Err.
Proof. exact BundleReadReject.rejects_duplicate_section. Qed.
Print Assumptions rejects_duplicate_section.

Theorem accepted_sections_distinct : forall x509_ok (bs : bytes) v m,
  lenN bs < two64 -> load_metadata x509_ok bs = Ok (v, m) ->
  exists fb t0 ss sos, load_header bs = Ok (v, fb, t0, ss, sos) /\ NoDup (map fst sos).
Proof. exact BundleReadReject.accepted_sections_distinct. Qed.
Print Assumptions accepted_sections_distinct.

Theorem rejects_wrapping_location_mr : forall rl ro o l,
  rl < o + l -> make_relative rl ro o l = Err.
Proof. exact BundleReadBase.make_relative_err. Qed.
Print Assumptions rejects_wrapping_location_mr.

Theorem rejects_wrapping_location : forall f n bs rl ro acc taint u r1 r2 o r3 l r4,
  n <> 0 ->
  decode_text bs = Ok (u, r1) -> decode_array_header r1 = Ok (2, r2) ->
  decode_uint r2 = Ok (o, r3) -> decode_uint r3 = Ok (l, r4) ->
  rl < o + l ->
  parse_index (S f) BV2 n bs rl ro acc taint = Err.
Proof. exact BundleReadReject.rejects_wrapping_location. Qed.
Print Assumptions rejects_wrapping_location.

(* ==== non-vacuity ================================================================================= *)
Definition any_cert (_ : bytes) : bool := true.

Definition x1 : bexchange :=
  {| bx_url := s2b "https://a.example/"; bx_status := 200%Z;
     bx_hdr := [(s2b "Content-Type", [s2b "text/plain"])]; bx_body := s2b "hello" |}.
Definition x2 : bexchange :=
  {| bx_url := s2b "https://a.example/b"; bx_status := 404%Z; bx_hdr := []; bx_body := s2b "nf" |}.
Definition bd : bundle :=
  {| b_ver := BV2; b_primary := Some (s2b "https://a.example/"); b_manifest := None;
     b_sigs := None; b_exchanges := [x1; x2]; b_taint := false |}.

(* written by the model's writer, read back: same exchanges *)
Example ex_write_read :
  exists w, b_write bd = Ok w /\ lenN w < two64 /\ b_read any_cert w = Ok bd.
Proof. eexists. split; [vm_compute; reflexivity|]. split; vm_compute; reflexivity. Qed.

(* hence the hypotheses of read_sound hold on a two-exchange file, and the
   conclusion is there *)
Example ex_extracts : exists w, b_write bd = Ok w /\ Extracts w bd.
Proof.
  destruct ex_write_read as [w [Hw [Hl Hr]]]. exists w. split; [exact Hw|].
  exact (read_sound any_cert w bd Hl Hr).
Qed.

(* a b2 file from explicit sections (name, declared length, contents); cnt is
   the count written in the section-lengths array head *)
Definition assemble_ns (cnt ns : N) (secs : list (bytes * N * bytes)) : bytes :=
  let tbl := enc_array_header cnt
             ++ flat_map (fun s => enc_bytes_of Model.Cbor.TText (fst (fst s)) ++ enc_uint (snd (fst s)))
                         secs in
  let body := header_magic_bytes BV2 ++ enc_bytes tbl ++ enc_array_header ns
              ++ flat_map snd secs in
  body ++ enc_bytes (be 8 (w64 (lenN body + 9))).
Definition assemble (cnt : N) (secs : list (bytes * N * bytes)) : bytes :=
  assemble_ns cnt (lenN secs) secs.
Definition sec (name : string) (c : bytes) : bytes * N * bytes := (s2b name, lenN c, c).

Definition item1 : bytes := match encode_response x1 with Ok b => b | _ => [] end.
Definition item2 : bytes := match encode_response x2 with Ok b => b | _ => [] end.
Definition resp : bytes := enc_array_header 2 ++ item1 ++ item2.
Definition idx_entry (u : bytes) (o l : N) : bytes :=
  enc_bytes_of Model.Cbor.TText u ++ enc_array_header 2 ++ enc_uint o ++ enc_uint l.
Definition idx : bytes :=
  enc_map_header 2 ++ idx_entry (bx_url x1) 1 (lenN item1)
                   ++ idx_entry (bx_url x2) (1 + lenN item1) (lenN item2).
Definition good : bytes := assemble 4 [sec "index" idx; sec "responses" resp].
Definition exchanges_of (r : R bundle) : option (list bexchange) :=
  match r with Ok b => Some (b_exchanges b) | _ => None end.

Example ex_good :
  exchanges_of (b_read any_cert good) = Some [x1; x2] /\
  load_header good = Ok (BV2, None, false, 38, [(sec_index, 48); (sec_responses, 65)]) /\
  lenN good = 160.
Proof. vm_compute. repeat split. Qed.

(* an unknown section before the index: same exchanges (the offset of the
   index is advanced by the unknown section's length) *)
Example ex_unknown_section_skipped :
  exchanges_of (b_read any_cert
     (assemble 6 [sec "unknown" [1; 2; 3; 4; 5]; sec "index" idx; sec "responses" resp]))
  = Some [x1; x2] /\
  exchanges_of (b_read any_cert
     (assemble 8 [sec "a" [9]; sec "index" idx; sec "zz" [7; 7; 7]; sec "responses" resp]))
  = Some [x1; x2].
Proof. vm_compute. split; reflexivity. Qed.

(* responses section length corrupted: 2^63, 2^64-1, file size + 1, and one
   byte past the end of the file are refused; up to the end of the file it is
   accepted (the index locations are still inside the section) *)
Definition with_resp_len (n : N) : bytes :=
  assemble 4 [sec "index" idx; (s2b "responses", n, resp)].
Example ex_rejects_section_length :
  b_read any_cert (with_resp_len two63) = Err /\
  b_read any_cert (with_resp_len (two64 - 1)) = Err /\
  b_read any_cert (with_resp_len (lenN good + 1)) = Err /\
  lenN (with_resp_len 75) = 160 /\ b_read any_cert (with_resp_len 75) = Err /\
  exchanges_of (b_read any_cert (with_resp_len 74)) = Some [x1; x2].
Proof. vm_compute. repeat split. Qed.

(* the hypotheses of rejects_out_of_file on that input *)
Example ex_rejects_out_of_file_hyps :
  load_header (with_resp_len 75) = Ok (BV2, None, false, 38, [(sec_index, 48); (sec_responses, 75)])
  /\ lenN (with_resp_len 75) < 38 + sum_lens [(sec_index, 48); (sec_responses, 75)].
Proof. vm_compute. split; reflexivity. Qed.

(* the same for the index section's declared length *)
Example ex_rejects_index_length :
  b_read any_cert (assemble 4 [(s2b "index", two64 - 8, idx); sec "responses" resp]) = Err /\
  b_read any_cert (assemble 4 [(s2b "index", 200, idx); sec "responses" resp]) = Err.
Proof. vm_compute. split; reflexivity. Qed.

(* index location (2^64-8, 16): offset + length wraps to 8 in uint64 *)
Definition idx_wrap : bytes := enc_map_header 1 ++ idx_entry (bx_url x1) (two64 - 8) 16.
Example ex_rejects_wrapping_location :
  w64 ((two64 - 8) + 16) = 8 /\
  b_read any_cert (assemble 4 [sec "index" idx_wrap; sec "responses" resp]) = Err /\
  (* the hypotheses of rejects_wrapping_location *)
  (exists r1 r2 r3 r4,
     decode_text (idx_entry (bx_url x1) (two64 - 8) 16) = Ok (bx_url x1, r1) /\
     decode_array_header r1 = Ok (2, r2) /\ decode_uint r2 = Ok (two64 - 8, r3) /\
     decode_uint r3 = Ok (16, r4) /\ lenN resp < (two64 - 8) + 16).
Proof.
  split; [vm_compute; reflexivity|]. split; [vm_compute; reflexivity|].
  do 4 eexists. vm_compute. repeat split.
Qed.

(* locations just outside / just inside the responses section *)
Example ex_location_boundary :
  b_read any_cert (assemble 4 [sec "index" (enc_map_header 1 ++ idx_entry (bx_url x2) (1 + lenN item1) (lenN item2 + 1));
                               sec "responses" resp]) = Err /\
  exchanges_of (b_read any_cert
     (assemble 4 [sec "index" (enc_map_header 1 ++ idx_entry (bx_url x2) (1 + lenN item1) (lenN item2));
                  sec "responses" resp])) = Some [x2].
Proof. vm_compute. split; reflexivity. Qed.

(* duplicate section name; "responses" not last; no sections at all *)
Example ex_rejects_table :
  b_read any_cert (assemble 6 [sec "index" idx; sec "index" idx; sec "responses" resp]) = Err /\
  b_read any_cert (assemble 4 [sec "responses" resp; sec "index" idx]) = Err /\
  b_read any_cert (assemble 0 []) = Err /\
  (* hypotheses of rejects_missing_responses_last *)
  load_header (assemble 4 [sec "responses" resp; sec "index" idx])
  = Ok (BV2, None, false, 38, [(sec_responses, 65); (sec_index, 48)]).
Proof. vm_compute. repeat split. Qed.

(* the head of the sections array disagrees with the section table *)
Example ex_rejects_section_count :
  b_read any_cert (assemble_ns 4 3 [sec "index" idx; sec "responses" resp]) = Err /\
  b_read any_cert (assemble_ns 4 1 [sec "index" idx; sec "responses" resp]) = Err.
Proof. vm_compute. split; reflexivity. Qed.

Example ex_rejects_duplicate_hyps :
  exists r1, decode_text (enc_bytes_of Model.Cbor.TText sec_index ++ [0]) = Ok (sec_index, r1)
             /\ In sec_index (map fst [(sec_index, 48)]).
Proof. eexists. split; [vm_compute; reflexivity|left; reflexivity]. Qed.

(* load_response_sound: hypothesis satisfiable; what is refused *)
Example ex_load_response :
  load_response item1 = Ok (200%Z, [(s2b "Content-Type", [s2b "text/plain"])], s2b "hello") /\
  load_response (item1 ++ [0]) = Err /\                      (* bytes after the body *)
  load_response (removelast item1) = Err.                    (* truncated *)
Proof. vm_compute. repeat split. Qed.

Definition hdr_item (pairs : list (bytes * bytes)) (junk body : bytes) : bytes :=
  [130] ++ enc_bytes (enc_map_header (lenN pairs)
                      ++ flat_map (fun nv => enc_bytes (fst nv) ++ enc_bytes (snd nv)) pairs ++ junk)
        ++ enc_bytes body.
Example ex_load_response_rejects :
  is_ok (load_response (hdr_item [(s2b ":status", s2b "200"); (s2b "a", s2b "1")] [] [1])) = true /\
  (* same name twice; names differing only in what CanonicalHeaderKey folds *)
  load_response (hdr_item [(s2b ":status", s2b "200"); (s2b "a", s2b "1"); (s2b "a", s2b "2")] [] [1]) = Err /\
  load_response (hdr_item [(s2b ":status", s2b "200"); (s2b "A", s2b "1")] [] [1]) = Err /\
  (* status: missing, twice, not three digits, other pseudo header *)
  load_response (hdr_item [(s2b "a", s2b "1")] [] [1]) = Err /\
  load_response (hdr_item [(s2b ":status", s2b "200"); (s2b ":status", s2b "200")] [] [1]) = Err /\
  load_response (hdr_item [(s2b ":status", s2b "20")] [] [1]) = Err /\
  load_response (hdr_item [(s2b ":status", s2b "2x0")] [] [1]) = Err /\
  load_response (hdr_item [(s2b ":status", s2b "200"); (s2b ":path", s2b "/")] [] [1]) = Err /\
  (* non-ASCII value *)
  load_response (hdr_item [(s2b ":status", s2b "200"); (s2b "a", [200])] [] [1]) = Err.
Proof. vm_compute. repeat split. Qed.

(* ---- the documented leniencies, as accepted inputs ---------------------------------------------- *)
Example ex_leniencies :
  (* bytes after the map inside the header string *)
  load_response (hdr_item [(s2b ":status", s2b "200")] [255; 255] [1]) = Ok (200%Z, [], [1]) /\
  (* odd count in the section-lengths array head *)
  exchanges_of (b_read any_cert (assemble 3 [sec "index" idx; sec "responses" resp])) = Some [x1; x2] /\
  (* bytes after the entries inside the index section *)
  exchanges_of (b_read any_cert (assemble 4 [sec "index" (idx ++ [255]); sec "responses" resp]))
  = Some [x1; x2] /\
  (* non-shortest head for a location *)
  exchanges_of (b_read any_cert
     (assemble 4 [sec "index" (enc_map_header 1 ++ enc_bytes_of Model.Cbor.TText (bx_url x1)
                               ++ enc_array_header 2 ++ [27; 0; 0; 0; 0; 0; 0; 0; 1] ++ enc_uint (lenN item1));
                  sec "responses" resp])) = Some [x1].
Proof. vm_compute. repeat split. Qed.

(* b1: primary URL in the header, variants-value in the index entries *)
Example ex_b1_roundtrip :
  let b := {| b_ver := BV1; b_primary := Some (s2b "https://a.example/"); b_manifest := None;
              b_sigs := None; b_exchanges := [x1; x2]; b_taint := false |} in
  exists w, b_write b = Ok w /\ b_read any_cert w = Ok b /\ Extracts w b.
Proof.
  cbv zeta. eexists. split; [vm_compute; reflexivity|].
  split; [vm_compute; reflexivity|].
  apply (read_sound any_cert); vm_compute; reflexivity.
Qed.

(* ---- hypotheses of the remaining implications are satisfiable ------------------------------------ *)
Example ex_in_bounds_hyps :
  exists v m, load_metadata any_cert good = Ok (v, m) /\ lenN good < two64 /\
              map (fun l => (l_off l, l_len l)) (m_locs m) = [(87, 46); (133, 18)] /\
              Forall (in_bounds (38 + 48) 65) (m_locs m).
Proof.
  eexists. eexists. split; [vm_compute; reflexivity|]. split; [vm_compute; reflexivity|].
  split; [vm_compute; reflexivity|].
  repeat constructor; cbn [l_off l_len]; lia.
Qed.

Example ex_make_relative :
  make_relative 65 86 1 46 = Ok (87, 46) /\ 86 + 65 <= 160 /\ 160 < two64 /\
  make_relative 65 86 21 45 = Err /\ make_relative 65 86 (two64 - 8) 16 = Err.
Proof. vm_compute. repeat split; discriminate. Qed.

Example ex_offset_invariant_hyps :
  ~ In sec_responses (map fst [(s2b "unknown", 5); (sec_index, 48)]) /\
  38 + sum_lens [(s2b "unknown", 5); (sec_index, 48)] < two64.
Proof.
  split; [|vm_compute; reflexivity].
  cbn [map fst In]. intros [H|[H|[]]]; vm_compute in H; discriminate.
Qed.

Example ex_slice_in_range_hyps :
  known_section sec_index = true /\ bytes_eqb sec_index sec_responses = false /\
  38 + 48 <= lenN good /\ lenN good < two64.
Proof. vm_compute. repeat split; discriminate. Qed.

Example ex_find_section :
  find_section [(s2b "unknown", 5); (sec_index, 48); (sec_responses, 65)] sec_responses
  = Some (65, 53) /\
  section_span [(s2b "unknown", 5); (sec_index, 48); (sec_responses, 65)] sec_responses
  = Some (53, 65) /\
  sections_fit [(sec_index, 48); (sec_responses, 65)] 38 160 = true /\
  sections_fit [(sec_index, 48); (sec_responses, two64 - 1)] 38 160 = false /\
  sections_fit [(sec_index, two64 - 1); (sec_responses, two64 - 1)] 38 160 = false.
Proof. vm_compute. repeat split. Qed.
