(* C16 - structured headers (go/signedexchange/structuredheader).

   "Serializing any valid parameterised list or list-of-lists and parsing the
   result returns the identical value, with parameters emitted in sorted order
   so the output is unique; invalid values (non-printable string characters,
   malformed tokens or keys, empty lists, unsupported item types) are refused.
   On arbitrary input strings the parsers accept exactly the draft-09 grammar
   subset they implement, as decided by an independent reference parser,
   return the same value, and parse-serialize-parse is the identity on every
   accepted input."

   Model: Model/StructHdr.v.  Declarative side (validity, grammar): Spec/StructHdr.v.
   Proofs: Proofs/SH{Lemmas,Enc,Item,Parse,Roundtrip}.v.

   Reading notes.
   - Parameters are a Go map; the model carries them as an association list.
     "Identical value" for parameterised lists is therefore equality of finite
     maps: [pi_equiv] (same label, parameters equal up to order).  The parser
     returns parameters in order of appearance, so what comes back after
     serialize+parse is exactly [canon_pi] of the input (parameters sorted by
     key), which is [pi_equiv] to it.  For lists of lists it is plain equality.
   - The model's value types are wider than Go's (unbounded Z, N for bytes,
     association lists with possibly repeated keys).  "Refused" is stated on
     the Go domain [dom_pi]/[dom_item]: int64 in range, bytes < 256, no
     duplicate map keys.
   - The grammar ([Derives_plist], [Derives_lol]) is written with plain
     concatenation and NO look-ahead side conditions; that greedy
     tokenisation agrees with it is part of what is proved.
   - As instructed for this property, an integer is ["-"] 1*DIGIT with value in
     int64 range: no limit on the number of digits (leading zeros), matching
     strconv.ParseInt; base64 text ignores the unused low bits of a final
     partial quantum (Go's non-strict decoder). *)
From Coq Require Import Permutation Sorted Lia.
From WP Require Import Base.Prelude Base.Base64 Model.StructHdr Spec.StructHdr.
From WP Require Import Proofs.SHLemmas Proofs.SHEnc Proofs.SHItem Proofs.SHParse Proofs.SHRoundtrip.
Open Scope N_scope.

(* ======================= serialize, then parse =========================== *)
Theorem c16_serialize_parse_plist : forall pl, valid_plist pl ->
  exists s, serialize_plist pl = Ok s
            /\ parse_parameterised_list s = Ok (map canon_pi pl)
            /\ Forall2 pi_equiv pl (map canon_pi pl).
Proof. exact serialize_parse_plist. Qed.
Print Assumptions c16_serialize_parse_plist.

Theorem c16_serialize_parse_lol : forall ll, valid_lol ll ->
  exists s, serialize_lol ll = Ok s /\ parse_list_of_lists s = Ok ll.
Proof. exact serialize_parse_lol. Qed.
Print Assumptions c16_serialize_parse_lol.

(* canon_pi: same map, parameters sorted by key, idempotent *)
Theorem c16_canon_equiv : forall p, pi_equiv p (canon_pi p).
Proof. exact canon_pi_equiv. Qed.
Print Assumptions c16_canon_equiv.
Theorem c16_canon_sorted : forall p, StronglySorted key_le (pi_params (canon_pi p)).
Proof. exact canon_pi_sorted. Qed.
Print Assumptions c16_canon_sorted.
Theorem c16_canon_unique : forall p p', pi_equiv p p' -> NoDup (keys (pi_params p)) ->
  canon_pi p = canon_pi p'.
Proof. exact canon_unique. Qed.
Print Assumptions c16_canon_unique.

(* ======================= sorted order, unique output ===================== *)
Theorem c16_serialize_unique : forall p p',
  pi_label p = pi_label p' -> Permutation (pi_params p) (pi_params p') ->
  NoDup (keys (pi_params p)) -> serialize_pi p = serialize_pi p'.
Proof. exact serialize_unique. Qed.
Print Assumptions c16_serialize_unique.

Theorem c16_serialize_plist_unique : forall pl pl',
  Forall2 pi_equiv pl pl' -> Forall (fun p => NoDup (keys (pi_params p))) pl ->
  serialize_plist pl = serialize_plist pl'.
Proof. exact serialize_plist_unique. Qed.
Print Assumptions c16_serialize_plist_unique.

(* and conversely: equal output only for equal values *)
Theorem c16_serialize_plist_injective : forall pl pl', valid_plist pl -> valid_plist pl' ->
  serialize_plist pl = serialize_plist pl' -> Forall2 pi_equiv pl pl'.
Proof. exact serialize_plist_injective. Qed.
Print Assumptions c16_serialize_plist_injective.
Theorem c16_serialize_lol_injective : forall ll ll', valid_lol ll -> valid_lol ll' ->
  serialize_lol ll = serialize_lol ll' -> ll = ll'.
Proof. exact serialize_lol_injective. Qed.
Print Assumptions c16_serialize_lol_injective.

(* re-serializing the parsed-back (canonical) value gives the same text *)
Theorem c16_serialize_canon_plist : forall pl, valid_plist pl ->
  serialize_plist (map canon_pi pl) = serialize_plist pl.
Proof. exact serialize_canon_plist. Qed.
Print Assumptions c16_serialize_canon_plist.

(* ======================= invalid values are refused ====================== *)
Theorem c16_valid_plist_b_iff : forall pl, valid_plist_b pl = true <-> valid_plist pl.
Proof. exact valid_plist_b_iff. Qed.
Print Assumptions c16_valid_plist_b_iff.
Theorem c16_valid_lol_b_iff : forall ll, valid_lol_b ll = true <-> valid_lol ll.
Proof. exact valid_lol_b_iff. Qed.
Print Assumptions c16_valid_lol_b_iff.

Theorem c16_serialize_plist_ok_iff : forall pl, Forall dom_pi pl ->
  (valid_plist_b pl = true <-> exists s, serialize_plist pl = Ok s).
Proof. exact serialize_plist_ok_iff. Qed.
Print Assumptions c16_serialize_plist_ok_iff.
Theorem c16_serialize_plist_refuses : forall pl, Forall dom_pi pl ->
  (valid_plist_b pl = false <-> serialize_plist pl = Err).
Proof. exact serialize_plist_refuses. Qed.
Print Assumptions c16_serialize_plist_refuses.

Theorem c16_serialize_lol_ok_iff : forall ll, Forall (Forall dom_item) ll ->
  (valid_lol_b ll = true <-> exists s, serialize_lol ll = Ok s).
Proof. exact serialize_lol_ok_iff. Qed.
Print Assumptions c16_serialize_lol_ok_iff.
Theorem c16_serialize_lol_refuses : forall ll, Forall (Forall dom_item) ll ->
  (valid_lol_b ll = false <-> serialize_lol ll = Err).
Proof. exact serialize_lol_refuses. Qed.
Print Assumptions c16_serialize_lol_refuses.

(* ======================= the parsers vs. the grammar ===================== *)
Theorem c16_parser_sound_plist : forall s pl,
  parse_parameterised_list s = Ok pl -> Derives_plist s pl.
Proof. exact parse_plist_sound. Qed.
Print Assumptions c16_parser_sound_plist.
Theorem c16_parser_complete_plist : forall s pl,
  Derives_plist s pl -> parse_parameterised_list s = Ok pl.
Proof. exact parse_plist_complete. Qed.
Print Assumptions c16_parser_complete_plist.
Theorem c16_parser_sound_lol : forall s ll, parse_list_of_lists s = Ok ll -> Derives_lol s ll.
Proof. exact parse_lol_sound. Qed.
Print Assumptions c16_parser_sound_lol.
Theorem c16_parser_complete_lol : forall s ll, Derives_lol s ll -> parse_list_of_lists s = Ok ll.
Proof. exact parse_lol_complete. Qed.
Print Assumptions c16_parser_complete_lol.

(* everything else is an error return: no panic, no non-termination *)
Theorem c16_parse_plist_total : forall s,
  parse_parameterised_list s <> Panic /\ parse_parameterised_list s <> Fuel.
Proof. exact parse_plist_no_panic_no_fuel. Qed.
Print Assumptions c16_parse_plist_total.
Theorem c16_parse_lol_total : forall s,
  parse_list_of_lists s <> Panic /\ parse_list_of_lists s <> Fuel.
Proof. exact parse_lol_no_panic_no_fuel. Qed.
Print Assumptions c16_parse_lol_total.
Theorem c16_parse_plist_rejects_iff : forall s,
  parse_parameterised_list s = Err <-> forall pl, ~ Derives_plist s pl.
Proof. exact parse_plist_rejects_iff. Qed.
Print Assumptions c16_parse_plist_rejects_iff.
Theorem c16_parse_lol_rejects_iff : forall s,
  parse_list_of_lists s = Err <-> forall ll, ~ Derives_lol s ll.
Proof. exact parse_lol_rejects_iff. Qed.
Print Assumptions c16_parse_lol_rejects_iff.

(* the grammar is unambiguous *)
Theorem c16_grammar_functional_plist : forall s pl pl',
  Derives_plist s pl -> Derives_plist s pl' -> pl = pl'.
Proof. exact Derives_plist_functional. Qed.
Print Assumptions c16_grammar_functional_plist.
Theorem c16_grammar_functional_lol : forall s ll ll',
  Derives_lol s ll -> Derives_lol s ll' -> ll = ll'.
Proof. exact Derives_lol_functional. Qed.
Print Assumptions c16_grammar_functional_lol.

(* ======================= parse, serialize, parse ========================= *)
Theorem c16_parse_plist_valid : forall s pl, parse_parameterised_list s = Ok pl -> valid_plist pl.
Proof. exact parse_plist_valid. Qed.
Print Assumptions c16_parse_plist_valid.
Theorem c16_parse_lol_valid : forall s ll, parse_list_of_lists s = Ok ll -> valid_lol ll.
Proof. exact parse_lol_valid. Qed.
Print Assumptions c16_parse_lol_valid.

Theorem c16_parse_serialize_parse_plist : forall s pl, parse_parameterised_list s = Ok pl ->
  exists s', serialize_plist pl = Ok s'
             /\ parse_parameterised_list s' = Ok (map canon_pi pl)
             /\ Forall2 pi_equiv pl (map canon_pi pl).
Proof. exact parse_serialize_parse_plist. Qed.
Print Assumptions c16_parse_serialize_parse_plist.
Theorem c16_parse_serialize_parse_lol : forall s ll, parse_list_of_lists s = Ok ll ->
  exists s', serialize_lol ll = Ok s' /\ parse_list_of_lists s' = Ok ll.
Proof. exact parse_serialize_parse_lol. Qed.
Print Assumptions c16_parse_serialize_parse_lol.

(* ======================= base64 used by byte sequences =================== *)
Theorem c16_b64_roundtrip : forall bs, wfb bs ->
  b64_decode true false (b64_encode true false bs) = Some bs
  /\ lenN (b64_encode true false bs) mod 4 = 0
  /\ forallb is_b64char (b64_encode true false bs) = true
  /\ forallb (fun x => negb (x =? 42)) (b64_encode true false bs) = true.
Proof. exact b64_roundtrip. Qed.
Print Assumptions c16_b64_roundtrip.

(* ======================= examples ======================================== *)
(* a value exercising every item type, both int64 extremes, escapes, a flag
   parameter, and parameters given in non-sorted order *)
Definition ex_pl : list pident :=
  [ {| pi_label := s2b "sig1";
       pi_params := [ (s2b "validity-url", Some (ShStr (s2b "https://e.com/a\""b")));
                      (s2b "integrity", Some (ShStr (s2b "digest/mi-sha256-03")));
                      (s2b "sig", Some (ShBytes [1; 2; 3; 254; 255]));
                      (s2b "date", Some (ShInt (-9223372036854775808)));
                      (s2b "flag", None);
                      (s2b "expires", Some (ShInt 9223372036854775807));
                      (s2b "tok", Some (ShTok (s2b "a*/b:c"))) ] |};
    {| pi_label := s2b "x"; pi_params := [] |} ].

Example ex_pl_valid : valid_plist ex_pl.
Proof. apply valid_plist_b_iff. vm_compute. reflexivity. Qed.

Example ex_pl_dom : Forall dom_pi ex_pl.
Proof.
  assert (H : valid_plist ex_pl) by exact ex_pl_valid. destruct H as [_ H].
  eapply Forall_impl; [|exact H]. intros p [_ (_ & Hn & Hv)]. split; [exact Hn|].
  eapply Forall_impl; [|exact Hv]. intros [[z|s|t|b|]|]; cbn; tauto.
Qed.

Example ex_pl_text : serialize_plist ex_pl =
  Ok (s2b "sig1;date=-9223372036854775808;expires=9223372036854775807;flag;integrity=""digest/mi-sha256-03"";sig=*AQID/v8=*;tok=a*/b:c;validity-url=""https://e.com/a\\\""b"", x").
Proof. vm_compute. reflexivity. Qed.

Example ex_pl_unsorted : map canon_pi ex_pl <> ex_pl.
Proof. vm_compute. discriminate. Qed.

Example ex_pl_roundtrip :
  (let* s := serialize_plist ex_pl in parse_parameterised_list s) = Ok (map canon_pi ex_pl).
Proof. vm_compute. reflexivity. Qed.

(* the same parameters in another order: same text *)
Example ex_pl_perm :
  serialize_pi {| pi_label := s2b "a"; pi_params := [(s2b "z", Some (ShInt 1)); (s2b "b", None)] |}
  = serialize_pi {| pi_label := s2b "a"; pi_params := [(s2b "b", None); (s2b "z", Some (ShInt 1))] |}
  /\ serialize_pi {| pi_label := s2b "a"; pi_params := [(s2b "z", Some (ShInt 1)); (s2b "b", None)] |}
     = Ok (s2b "a;b;z=1").
Proof. vm_compute. split; reflexivity. Qed.

(* int64 extremes in a list of lists *)
Definition ex_ll : list (list sh_item) :=
  [[ShInt (-9223372036854775808); ShInt 9223372036854775807]; [ShBytes []; ShStr []; ShTok (s2b "t*")]].
Example ex_ll_valid : valid_lol ex_ll.
Proof. apply valid_lol_b_iff. vm_compute. reflexivity. Qed.
Example ex_ll_text : serialize_lol ex_ll =
  Ok (s2b "-9223372036854775808; 9223372036854775807, **; """"; t*").
Proof. vm_compute. reflexivity. Qed.
Example ex_ll_roundtrip : (let* s := serialize_lol ex_ll in parse_list_of_lists s) = Ok ex_ll.
Proof. vm_compute. reflexivity. Qed.
Example ex_int_out_of_range :
  parse_list_of_lists (s2b "-9223372036854775809") = Err /\ parse_list_of_lists (s2b "9223372036854775808") = Err.
Proof. vm_compute. split; reflexivity. Qed.

(* refusals *)
Example ex_refused :
  serialize_lol [] = Err /\ serialize_lol [[]] = Err /\ serialize_plist [] = Err
  /\ serialize_lol [[ShStr [10]]] = Err                     (* non-printable *)
  /\ serialize_lol [[ShStr [127]]] = Err
  /\ serialize_lol [[ShTok (s2b "1a")]] = Err               (* malformed token *)
  /\ serialize_lol [[ShTok (s2b "a b")]] = Err
  /\ serialize_lol [[ShTok []]] = Err
  /\ serialize_lol [[ShBad]] = Err                           (* unsupported type *)
  /\ serialize_plist [{| pi_label := s2b "a"; pi_params := [(s2b "K", None)] |}] = Err  (* malformed key *)
  /\ serialize_plist [{| pi_label := s2b "a"; pi_params := [([], None)] |}] = Err
  /\ serialize_plist [{| pi_label := s2b "a"; pi_params := [(s2b "k", Some ShBad)] |}] = Err
  /\ serialize_plist [{| pi_label := s2b "a,"; pi_params := [] |}] = Err.
Proof. vm_compute. repeat split. Qed.

(* parser: CR/LF inside a byte sequence is rejected; padded, unpadded and
   non-canonical trailing bits are accepted (and re-serialize canonically) *)
Example ex_b64_newlines_rejected :
  parse_list_of_lists (s2b "*aGk=" ++ [10; 10; 10; 10] ++ [42]) = Err.
Proof. vm_compute. reflexivity. Qed.
Example ex_b64_forms :
  parse_list_of_lists (s2b "*aGk=*") = Ok [[ShBytes (s2b "hi")]]
  /\ parse_list_of_lists (s2b "*aGk*") = Ok [[ShBytes (s2b "hi")]]
  /\ parse_list_of_lists (s2b "*aGl=*") = Ok [[ShBytes (s2b "hi")]]
  /\ serialize_lol [[ShBytes (s2b "hi")]] = Ok (s2b "*aGk=*")
  /\ parse_list_of_lists (s2b "*aGk==*") = Err
  /\ parse_list_of_lists (s2b "*a*") = Err.
Proof. vm_compute. repeat split. Qed.

(* OWS, flags, duplicate keys, trailing commas, greedy tokens *)
Example ex_parse_plist :
  parse_parameterised_list (s2b " a ; k=1 ;k2 , b;k=""x"" ")
  = Ok [ {| pi_label := s2b "a"; pi_params := [(s2b "k", Some (ShInt 1)); (s2b "k2", None)] |};
         {| pi_label := s2b "b"; pi_params := [(s2b "k", Some (ShStr (s2b "x")))] |} ].
Proof. vm_compute. reflexivity. Qed.
Example ex_parse_rejects :
  parse_parameterised_list (s2b "a;k;k") = Err
  /\ parse_parameterised_list (s2b "a,") = Err
  /\ parse_parameterised_list [] = Err
  /\ parse_parameterised_list (s2b "a;k = 1") = Err
  /\ parse_parameterised_list (s2b "a;k=") = Err
  /\ parse_list_of_lists (s2b "a*aGk=*") = Err
  /\ parse_list_of_lists (s2b "1;") = Err
  /\ parse_list_of_lists (s2b "1.5") = Err
  /\ parse_list_of_lists (s2b """a\nb""") = Err
  /\ parse_list_of_lists (s2b "?T") = Err.
Proof. vm_compute. repeat split. Qed.

(* a derivation built by hand, directly from the grammar: "1, 2; a" *)
Example ex_derivation : Derives_lol (s2b "1, 2; a") [[ShInt 1]; [ShInt 2; ShTok (s2b "a")]].
Proof.
  change (s2b "1, 2; a")
    with ([] ++ ([49] ++ []) ++ ([] ++ 44 :: [32] ++ ([50] ++ ([] ++ 59 :: [32] ++ [97] ++ [])) ++ []) ++ @nil N).
  assert (W : OWS [32]) by (constructor; [left; reflexivity|constructor]).
  apply DLL; [constructor| | |constructor].
  - apply DIn; [|constructor]. apply (DI_pos [49] 1); [apply (DV_one 49); unfold DIGIT; lia|].
    unfold int64_range. lia.
  - apply DLT_cons; [constructor|exact W| |constructor].
    apply DIn.
    + apply (DI_pos [50] 2); [apply (DV_one 50); unfold DIGIT; lia|].
      unfold int64_range. lia.
    + apply DIT_cons; [constructor|exact W| |constructor].
      apply DI_tok. cbn. split; [|constructor]. left. unfold LCALPHA. lia.
Qed.
(* ... and the parser agrees with it *)
Example ex_derivation_parsed :
  parse_list_of_lists (s2b "1, 2; a") = Ok [[ShInt 1]; [ShInt 2; ShTok (s2b "a")]].
Proof. exact (parse_lol_complete _ _ ex_derivation). Qed.

(* greedy tokenisation is not an extra restriction: "a*aGk=*" has no derivation
   at all (it is neither the token "a" followed by a byte sequence, nor a
   single token, '=' not being a token character) *)
Example ex_no_derivation : forall ll, ~ Derives_lol (s2b "a*aGk=*") ll.
Proof. apply parse_lol_rejects_iff. vm_compute. reflexivity. Qed.
