(* C16 - structured headers; placeholder until the proofs land. *)
From WP Require Import Base.Prelude Model.StructHdr.
Open Scope N_scope.

Theorem c16_smoke : parse_list_of_lists (s2b "1, 2; a") = Ok [[ShInt 1]; [ShInt 2; ShTok (s2b "a")]].
Proof. reflexivity. Qed.
Print Assumptions c16_smoke.
