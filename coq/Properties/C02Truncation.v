(* C02 - truncation ("a source that stops early") is never mistaken for a different value: a written exchange cut before its payload is refused, cut inside it reads as the same exchange with the shorter payload.
   Statements only; proofs in Proofs/Truncation*.v.  Tr f (Proofs/TruncationBase.v): a stream parser is
   truncation-exact when a success consumed a definite head h, the answer does not depend on what follows h,
   and every strict prefix of h is refused.  consumed bs rest = |bs| - |rest|. *)
From Coq Require Import Lia.
From WP Require Import Base.Prelude Model.Cbor Model.Http Model.CertChain Model.Bundle Model.Sxg.
From WP Require Import Spec.BundleRead.
From WP Require Import Proofs.BaseLemmas Proofs.CborDecode Proofs.CertChainWrite
  Proofs.BundleReadLayout Proofs.BundleRoundtrip Proofs.BundleRoundtripNorm
  Proofs.SxgReadDefs.
From WP Require Proofs.TruncationBase Proofs.TruncationCertChain Proofs.TruncationSxg
  Proofs.TruncationBundleRead Proofs.TruncationBundle.
Open Scope N_scope.

Definition consumed (bs rest : bytes) : nat := (List.length bs - List.length rest)%nat.
(* ==== 4. signed exchanges (C02) ============================================================ *)
Definition with_payload (e : exchange) (pl : bytes) : exchange :=
  {| e_ver := e_ver e; e_uri := e_uri e; e_method := e_method e; e_reqh := e_reqh e;
     e_status := e_status e; e_resph := e_resph e; e_sig := e_sig e; e_payload := pl;
     e_taint := e_taint e |}.

(* what Exchange.Write produced: k = where the payload starts *)
Theorem sxg_truncated : forall (e : exchange) (bs : bytes),
  readable e = true -> Sxg.write e = Ok bs ->
  forall p : nat,
    let k := (List.length bs - List.length (e_payload e))%nat in
    ((p < k)%nat -> Sxg.read (firstn p bs) = Err) /\
    ((k <= p)%nat ->
     Sxg.read (firstn p bs) = Ok (with_payload (canon_exchange e) (firstn (p - k) (e_payload e)))).
Proof. exact TruncationSxg.write_truncated. Qed.
Print Assumptions sxg_truncated.

(* the form first asked for: a strict prefix is refused, or agrees with the full read
   on everything except that its payload is a strict prefix of the full payload *)
Theorem sxg_truncated_agrees : forall (e : exchange) (bs : bytes),
  readable e = true -> Sxg.write e = Ok bs ->
  forall p : nat, (p < List.length bs)%nat ->
    Sxg.read (firstn p bs) = Err \/
    exists e' full, Sxg.read bs = Ok full /\ Sxg.read (firstn p bs) = Ok e' /\
      with_payload e' (e_payload full) = full /\
      exists n : nat, (n < List.length (e_payload full))%nat /\
                      e_payload e' = firstn n (e_payload full).
Proof. exact TruncationSxg.write_truncated_agrees. Qed.
Print Assumptions sxg_truncated_agrees.

(* the refusals need nothing but "Write accepted e" *)
Theorem sxg_truncated_refused : forall (e : exchange) (bs : bytes) (p : nat),
  Sxg.write e = Ok bs -> (p < List.length bs - List.length (e_payload e))%nat ->
  Sxg.read (firstn p bs) = Err.
Proof. exact TruncationSxg.write_truncated_refused. Qed.
Print Assumptions sxg_truncated_refused.

(* ---- ReadExchange on EVERY input ------------------------------------------------------------ *)
Theorem sxg_read_cut_in_prologue : forall (bs : bytes) (e : exchange) (p : nat),
  Sxg.read bs = Ok e -> (p < List.length bs - List.length (e_payload e))%nat ->
  Sxg.read (firstn p bs) = Err.
Proof. exact TruncationSxg.read_truncated_prologue. Qed.
Print Assumptions sxg_read_cut_in_prologue.

Theorem sxg_read_cut_in_payload : forall (bs : bytes) (e : exchange) (p : nat),
  Sxg.read bs = Ok e -> (List.length bs - List.length (e_payload e) <= p)%nat ->
  Sxg.read (firstn p bs) =
  Ok (with_payload e (firstn (p - (List.length bs - List.length (e_payload e))) (e_payload e))).
Proof. exact TruncationSxg.read_truncated_payload. Qed.
Print Assumptions sxg_read_cut_in_payload.

Theorem sxg_read_truncated_any : forall (bs : bytes) (p : nat),
  Sxg.read (firstn p bs) = Err \/
  exists e, Sxg.read bs = Ok e /\ (List.length bs - List.length (e_payload e) <= p)%nat /\
            Sxg.read (firstn p bs) =
            Ok (with_payload e (firstn (p - (List.length bs - List.length (e_payload e))) (e_payload e))).
Proof. exact TruncationSxg.read_truncated_any. Qed.
Print Assumptions sxg_read_truncated_any.

Definition ex_e (v : version) : exchange :=
  {| e_ver := v; e_uri := s2b "https://example.com/a?b=c";
     e_method := s2b "GET"; e_reqh := [];
     e_status := 200%Z;
     e_resph := [(s2b "Content-Type", [s2b "text/html"]); (s2b "x-FOO", [s2b "a"; s2b "b"])];
     e_sig := s2b "label;sig=*AA==*"; e_payload := [1; 2; 3; 0; 255]; e_taint := false |}.
Definition sxg_written (e : exchange) : bytes := match Sxg.write e with Ok bs => bs | _ => [] end.

(* "every strict prefix of a written exchange is refused" is false, and so is "a prefix
   that is accepted reads as the same exchange": the payload has no end marker *)
Theorem sxg_every_prefix_refused_refuted :
  exists (e : exchange) (bs : bytes) (p : nat) (e' : exchange),
    readable e = true /\ Sxg.write e = Ok bs /\ (p < List.length bs)%nat /\
    Sxg.read (firstn p bs) = Ok e' /\ Sxg.read bs = Ok (canon_exchange e) /\
    e_payload e' = [1; 2; 3] /\ e_payload (canon_exchange e) = [1; 2; 3; 0; 255].
Proof.
  exists (ex_e V1b3), (sxg_written (ex_e V1b3)), (List.length (sxg_written (ex_e V1b3)) - 2)%nat.
  eexists. split; [vm_compute; reflexivity|]. split; [vm_compute; reflexivity|].
  split; [vm_compute; lia|]. split; [vm_compute; reflexivity|].
  split; [vm_compute; reflexivity|]. split; reflexivity.
Qed.
Print Assumptions sxg_every_prefix_refused_refuted.
Definition cuts (bs : bytes) : list nat := seq 0 (List.length bs).
Definition is_err {A} (r : R A) : bool := match r with Err => true | _ => false end.
(* C02: the three versions; every cut position classified by the model as the theorem says *)
Definition sxg_sweep_ok (e : exchange) : bool :=
  let bs := sxg_written e in
  let k := (List.length bs - List.length (e_payload e))%nat in
  forallb (fun p => if (p <? k)%nat then is_err (Sxg.read (firstn p bs))
                    else match Sxg.read (firstn p bs) with
                         | Ok e' => bytes_eqb (e_payload e') (firstn (p - k) (e_payload e))
                                    && bytes_eqb (e_sig e') (e_sig e) && bytes_eqb (e_uri e') (e_uri e)
                         | _ => false
                         end) (cuts bs).

Example ex_sxg_hyps :
  readable (ex_e V1b1) = true /\ readable (ex_e V1b2) = true /\ readable (ex_e V1b3) = true /\
  Sxg.write (ex_e V1b1) = Ok (sxg_written (ex_e V1b1)) /\
  Sxg.write (ex_e V1b2) = Ok (sxg_written (ex_e V1b2)) /\
  Sxg.write (ex_e V1b3) = Ok (sxg_written (ex_e V1b3)) /\
  sxg_sweep_ok (ex_e V1b1) = true /\ sxg_sweep_ok (ex_e V1b2) = true /\ sxg_sweep_ok (ex_e V1b3) = true.
Proof. vm_compute. repeat split. Qed.

Example ex_sxg_by_theorem : forall p,
  let bs := sxg_written (ex_e V1b3) in
  let k := (List.length bs - 5)%nat in
  ((p < k)%nat -> Sxg.read (firstn p bs) = Err) /\
  ((k <= p)%nat -> Sxg.read (firstn p bs)
                   = Ok (with_payload (canon_exchange (ex_e V1b3)) (firstn (p - k) [1; 2; 3; 0; 255]))).
Proof.
  intros p. destruct ex_sxg_hyps as [_ [_ [Hr [_ [_ [Hw _]]]]]].
  exact (sxg_truncated (ex_e V1b3) _ Hr Hw p).
Qed.

(* garbage: an input ReadExchange refuses is refused at every cut (instance of
   sxg_read_truncated_any) *)
Example ex_sxg_garbage :
  Sxg.read (s2b "sxg1-b3" ++ [0; 0; 1; 65; 0; 0; 0; 0; 0; 0]) = Err /\
  forall p, Sxg.read (firstn p (s2b "sxg1-b3" ++ [0; 0; 1; 65; 0; 0; 0; 0; 0; 0])) = Err.
Proof.
  assert (E : Sxg.read (s2b "sxg1-b3" ++ [0; 0; 1; 65; 0; 0; 0; 0; 0; 0]) = Err)
    by (vm_compute; reflexivity).
  split; [exact E|]. intros p.
  destruct (sxg_read_truncated_any (s2b "sxg1-b3" ++ [0; 0; 1; 65; 0; 0; 0; 0; 0; 0]) p)
    as [H|[e [H _]]]; [exact H|]. rewrite E in H. discriminate.
Qed.

