(* C10 - parsers are total; placeholder until the totality theorems are collected. *)
From WP Require Import Base.Prelude Model.Cbor.
Open Scope N_scope.

Theorem c10_smoke : decode_bytes [91; 255; 255; 255; 255; 255; 255; 255; 255; 1] = Err.
Proof. reflexivity. Qed.
Print Assumptions c10_smoke.
