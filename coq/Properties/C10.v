(* C10 - every parser of external data is total and does not trust declared sizes.
                                                                           [PARTIAL]
   "Every entry point that parses externally supplied data - bundle reader,
   signed-exchange reader and verifier, cert-chain reader, bundle-signature
   verifier, structured-header parsers, MI decoder, CBOR decoder,
   integrity-block detection - terminates on every input with either a value or
   an error: no panic, no unbounded loop, and memory bounded by a constant plus a
   small multiple of the input size (declared lengths and counts are never
   trusted for allocation or iteration)."

   Reading.  The models return [R A] = Ok a | Err | Panic | Fuel, where [Panic]
   stands for a Go run-time panic (explicit panic, index / slice out of range,
   nil dereference, division by zero) and [Fuel] for a loop that was still
   running when its fuel ran out, i.e. non-termination.  So the first half of
   the claim is, for every entry point P and EVERY input,
        total (P input)   :=   P input <> Panic /\ P input <> Fuel.
   (Every loop of the models gets fuel 1 + |remaining input| or a bound computed
   from already-validated data; "never Fuel" therefore says: each iteration
   consumes input or stops, whatever COUNT the input announces.)

   PROVED (all inputs; the only premise anywhere is |file| < 2^64 for the
   bundle reader, which every Go []byte satisfies and which is really needed,
   C05 size_condition_needed):
     1. totality of every entry point (section 1);
     2. what a parser returns is made of bytes it consumed - strings, URL,
        signature header, payload, certificates, decoded MI output are bounded
        by the input length, announced lengths notwithstanding; the MI record
        buffer is bounded by the caller's limit (section 2).
   REFUTED (section 3, known finding K1): for the bundle reader "memory is a
   small multiple of the input" is false - index entries may share a response
   and each gets its own copy: [bundle_read_amplifies_refuted].
   NOT PROVED: the behaviour of the real Go allocator (peak heap, transient
   buffers such as bytes.Buffer growth inside io.CopyN).  That is measured by
   the correspondence harness (mem/totality cases), not derivable from a
   functional model.  Hence PARTIAL.

   Statements only.  Proofs: Proofs/Totality{Base,Mice,BundleSig,Size,Amplify,All}.v
   (new) on top of Proofs/CborDecode.v (C12), SHRoundtrip.v (C16), CertChainRead.v
   (C17), SxgRoundtrip.v / SxgSign.v (C02, C08), BundleRead*.v (C05),
   IntegrityBlockSign.v (C07). *)
From Coq Require Import Lia.
From WP Require Import Base.Prelude Base.Sha256.
From WP Require Import Model.Cbor Model.Http Model.StructHdr Model.Mice Model.CertChain Model.Sxg
  Model.Bundle Model.BundleSig Model.IntegrityBlock.
From WP Require Import Proofs.CborDecode Proofs.TotalityBase Proofs.TotalityMice
  Proofs.TotalityBundleSig Proofs.TotalitySize Proofs.TotalityAmplify Proofs.TotalityAll.
From WP Require Proofs.MiceCommit.
From WP Require Proofs.BundleWriteForm Proofs.BundleWriteCases Proofs.MiceEncode Proofs.BundleSigCover.
Open Scope N_scope.

Theorem total_def : forall (A : Type) (r : R A), total r <-> (r <> Panic /\ r <> Fuel).
Proof. intros A r. reflexivity. Qed.

(* ================================================================================== *)
(* 1. totality, entry point by entry point                                            *)
(* ================================================================================== *)

(* ---- CBOR decoder (C12) ------------------------------------------------------------ *)
Theorem cbor_decode_total : forall bs : bytes,
  total (decode_uint bs) /\ total (decode_array_header bs) /\ total (decode_map_header bs) /\
  total (decode_bytes bs) /\ total (decode_text bs).
Proof. exact TotalityAll.cbor_decode_total. Qed.
Print Assumptions cbor_decode_total.

(* ---- structured headers (C16) ------------------------------------------------------- *)
Theorem parse_parameterised_list_total : forall s : bytes, total (parse_parameterised_list s).
Proof. exact TotalityAll.parse_parameterised_list_total. Qed.
Print Assumptions parse_parameterised_list_total.

Theorem parse_list_of_lists_total : forall s : bytes, total (parse_list_of_lists s).
Proof. exact TotalityAll.parse_list_of_lists_total. Qed.
Print Assumptions parse_list_of_lists_total.

(* ---- MI decoder ------------------------------------------------------------------------ *)
Theorem parse_digest_header_total : forall (d : draft) (v : bytes), total (parse_digest_header d v).
Proof. exact TotalityMice.parse_digest_header_total. Qed.
Print Assumptions parse_digest_header_total.

Theorem new_decoder_total : forall (H : bytes -> bytes) (d : draft) (stream digest : bytes) (maxrs : N),
  total (new_decoder H d stream digest maxrs).
Proof. exact TotalityMice.new_decoder_total. Qed.
Print Assumptions new_decoder_total.

(* Read is a total function (dec -> N -> dec * bytes * rstat); NewDecoder + a
   ReadAll loop is [decode_all] *)
Theorem decode_all_total : forall (H : bytes -> bytes) (d : draft) (stream digest : bytes) (maxrs k : N),
  total (decode_all H d stream digest maxrs k).
Proof. exact TotalityMice.decode_all_total. Qed.
Print Assumptions decode_all_total.

(* the loop stops BY ITSELF (EOF or error) before the fuel S (S (length stream))
   is used up, for every buffer size k >= 1: status ROk ("fuel ran out while
   reads were still succeeding") is impossible *)
Theorem decode_all_loop_terminates :
  forall (H : bytes -> bytes) (d : draft) (stream digest : bytes) (maxrs k : N) (out : bytes) (st : rstat),
  1 <= k -> decode_all H d stream digest maxrs k = Ok (out, st) -> st = REOF \/ st = RErr.
Proof. exact TotalityMice.decode_all_loop_terminates. Qed.
Print Assumptions decode_all_loop_terminates.

(* the reason: a successful Read into a non-empty buffer strictly decreases
   [measure] = |pending output| + |unread stream| + [proof still expected] *)
Theorem mi_read_progress :
  forall (H : bytes -> bytes) (s : dec) (k : N) (s' : dec) (o : bytes) (st : rstat),
  Mice.read H s k = (s', o, st) ->
  lenN o + held s' <= held s /\ (1 <= k -> st = ROk -> measure s' < measure s).
Proof. exact TotalityMice.read_measure. Qed.
Print Assumptions mi_read_progress.

Theorem read_all_loop_terminates :
  forall (H : bytes -> bytes) (f : nat) (s : dec) (k : N) (acc out : bytes) (st : rstat),
  1 <= k -> measure s < N.of_nat f -> read_all H f s k acc = (out, st) -> st = REOF \/ st = RErr.
Proof. exact TotalityMice.read_all_loop_terminates. Qed.
Print Assumptions read_all_loop_terminates.

(* ---- certificate chain reader (C17) --------------------------------------------------- *)
Theorem cc_read_total : forall (x509_ok : bytes -> bool) (bs : bytes), total (cc_read x509_ok bs).
Proof. exact TotalityAll.cc_read_total. Qed.
Print Assumptions cc_read_total.

(* ---- signed-exchange reader (C02) ------------------------------------------------------ *)
Theorem sxg_read_total : forall bs : bytes, total (Sxg.read bs).
Proof. exact TotalityAll.sxg_read_total. Qed.
Print Assumptions sxg_read_total.

Theorem sxg_read_prologue_total : forall bs : bytes, total (read_prologue bs).
Proof. exact TotalityAll.sxg_read_prologue_total. Qed.
Print Assumptions sxg_read_prologue_total.

(* ---- signed-exchange verifier ------------------------------------------------------------ *)
(* [verify] returns a [verdict] (Valid / Invalid / Undecided): it cannot be
   Panic or Fuel by its type.  The model maps any non-Ok result of the calls
   below to "this signature does not verify"; none of them can in fact be a
   panic or a non-terminating loop: *)
Theorem sxg_verify_calls_total :
  forall (H256 : bytes -> bytes) (x509_ok : bytes -> bool) (e : exchange)
         (cert : option bytes) (validity : bytes) (date expires : Z) (chain digest : bytes),
  total (parse_parameterised_list (e_sig e)) /\
  total (signed_message e cert validity date expires) /\
  total (cc_read x509_ok chain) /\
  total (decode_all H256 (mice_of (e_ver e)) (e_payload e) digest 16384 512).
Proof. exact TotalityAll.sxg_verify_calls_total. Qed.
Print Assumptions sxg_verify_calls_total.

(* ---- bundle reader (C05) ------------------------------------------------------------------ *)
Theorem b_read_total : forall (x509_ok : bytes -> bool) (bs : bytes),
  lenN bs < two64 -> total (b_read x509_ok bs).
Proof. exact TotalityAll.b_read_total. Qed.
Print Assumptions b_read_total.

Theorem load_response_total : forall item : bytes, total (load_response item).
Proof. exact TotalityAll.load_response_total. Qed.
Print Assumptions load_response_total.

Theorem parse_signatures_total : forall (x509_ok : bytes -> bool) (bs : bytes),
  total (parse_signatures x509_ok bs).
Proof. exact TotalityAll.parse_signatures_total. Qed.
Print Assumptions parse_signatures_total.

(* ---- bundle signatures --------------------------------------------------------------------- *)
Theorem decode_signed_subset_total : forall signed : bytes, total (decode_signed_subset signed).
Proof. exact TotalityBundleSig.decode_signed_subset_total. Qed.
Print Assumptions decode_signed_subset_total.

(* fuel sufficiency of its three loops: more fuel than input bytes is enough,
   for ANY declared count n / k *)
Theorem subset_loops_terminate : forall (fuel : nat) (n : N) (bs : bytes),
  (List.length bs < fuel)%nat ->
  (forall a, ok_or_err (dec_subset_fields fuel n bs a)) /\
  (forall acc, ok_or_err (dec_subset_hashes fuel n bs acc)) /\
  (forall acc, ok_or_err (dec_hash_pairs fuel n bs acc)).
Proof.
  intros fuel n bs Hf.
  exact (conj (fun a => dec_subset_fields_total fuel n bs a Hf)
        (conj (fun acc => dec_subset_hashes_total fuel n bs acc Hf)
              (fun acc => dec_hash_pairs_total fuel n bs acc Hf))).
Qed.
Print Assumptions subset_loops_terminate.

(* auths[authority] after "authority >= len(auths) -> error" cannot panic *)
Theorem verify_vouched_index_in_range : forall (v : vouched) (auths : list augcert),
  (lenN auths <=? vs_authority v) = false ->
  nth_error auths (N.to_nat (vs_authority v)) <> None.
Proof. exact TotalityBundleSig.verify_vouched_index_in_range. Qed.
Print Assumptions verify_vouched_index_in_range.

Theorem verify_vouched_total :
  forall (H256 : bytes -> bytes) (x509_key : bytes -> option (option N))
         (sig_ok : N -> bytes -> bytes -> bool) (v : vouched) (auths : list augcert)
         (tsec tnsec : Z) (ver : bversion),
  total (verify_vouched H256 x509_key sig_ok v auths tsec tnsec ver).
Proof. exact TotalityBundleSig.verify_vouched_total. Qed.
Print Assumptions verify_vouched_total.

Theorem new_verifier_total :
  forall (H256 : bytes -> bytes) (x509_key : bytes -> option (option N))
         (sig_ok : N -> bytes -> bytes -> bool) (sigs : signatures) (tsec tnsec : Z) (ver : bversion),
  total (new_verifier H256 x509_key sig_ok sigs tsec tnsec ver).
Proof. exact TotalityBundleSig.new_verifier_total. Qed.
Print Assumptions new_verifier_total.

(* [verify_exchange] returns a [vx_result] (no Panic / Fuel constructor); its
   two R-valued calls are total *)
Theorem verify_exchange_calls_total : forall (H256 : bytes -> bytes) (x : bexchange) (dg : bytes),
  total (header_sha256 H256 x) /\ total (decode_all H256 D03 (bx_body x) dg 16384 512).
Proof. exact TotalityBundleSig.verify_exchange_calls_total. Qed.
Print Assumptions verify_exchange_calls_total.

(* ---- the WRITERS that used to panic (not parsers; recorded here for that reason) --------- *)
(* Bundle.WriteTo on a b1 bundle without primary URL dereferenced a nil *url.URL, and
   an exchange URL that was not valid UTF-8 made EncodeTextString panic inside the
   index callback.  Both are errors now: WriteTo is total - never Panic, never Fuel. *)
Theorem b_write_never_fuel : forall b : bundle, b_write b <> Fuel.
Proof. exact BundleWriteCases.write_never_fuel. Qed.
Print Assumptions b_write_never_fuel.

Theorem b_write_never_panic : forall b : bundle, b_write b <> Panic.
Proof. exact BundleWriteCases.b_write_never_panic. Qed.
Print Assumptions b_write_never_panic.

Theorem b_write_total : forall b : bundle, total (b_write b).
Proof.
  intros b. apply total_def. split;
    [apply BundleWriteCases.b_write_never_panic|apply BundleWriteCases.write_never_fuel].
Qed.
Print Assumptions b_write_total.

(* the characterisation that used to describe the panic; its right-hand side is
   contradictory now (urls_ok_no_index_panic) *)
Theorem b_write_panic_iff : forall b : bundle,
  b_write b = Panic <->
  BundleWriteForm.headers_ok b = true /\ BundleWriteForm.urls_ok b = true /\ BundleWriteCases.IndexPanics b.
Proof. exact BundleWriteCases.write_panic_iff. Qed.
Print Assumptions b_write_panic_iff.

Theorem urls_ok_no_index_panic : forall b : bundle,
  BundleWriteForm.urls_ok b = true -> ~ BundleWriteCases.IndexPanics b.
Proof. exact BundleWriteCases.urls_ok_no_index_panic. Qed.
Print Assumptions urls_ok_no_index_panic.

Theorem b_write_b1_no_primary_err : forall b : bundle,
  b_ver b = BV1 -> b_primary b = None -> b_write b = Err.
Proof. exact BundleWriteCases.b_write_b1_no_primary_err. Qed.
Print Assumptions b_write_b1_no_primary_err.

(* MICE Encode with record size 0 was an integer division by zero; AddPayloadIntegrity
   passed any record size on.  Both return errors now. *)
Theorem mice_encode_total : forall (H : bytes -> bytes) (d : draft) (rs : N) (p : bytes),
  total (encode H d rs p).
Proof. intros H d rs p. apply total_def. apply MiceEncode.encode_never_panics. Qed.
Print Assumptions mice_encode_total.

Theorem mice_encode_rs0_err : forall (H : bytes -> bytes) (d : draft) (p : bytes),
  encode H d 0 p = Err.
Proof. exact MiceEncode.encode_rs0_err. Qed.
Print Assumptions mice_encode_rs0_err.

Theorem add_payload_integrity_total : forall (H256 : bytes -> bytes) (x : bexchange) (rs : N),
  total (add_payload_integrity H256 x rs).
Proof.
  intros H256 x rs. apply either_total.
  destruct (BundleSigCover.add_payload_integrity_ok_or_err H256 x rs) as [E|E]; rewrite E; eauto.
Qed.
Print Assumptions add_payload_integrity_total.

Example ex_writers_no_panic :
  let b := {| b_ver := BV1; b_primary := None; b_manifest := None; b_sigs := None;
              b_exchanges := [{| bx_url := s2b "https://example.com/"; bx_status := 200%Z;
                                 bx_hdr := [(s2b "content-type", [s2b "text/html"])]; bx_body := [60; 112; 62] |}];
              b_taint := false |} in
  b_ver b = BV1 /\ b_primary b = None /\ b_write b = Err /\
  (* an exchange URL that is not valid UTF-8 *)
  b_write {| b_ver := BV2; b_primary := None; b_manifest := None; b_sigs := None;
             b_exchanges := [{| bx_url := [97; 58; 255]; bx_status := 200%Z; bx_hdr := []; bx_body := [] |}];
             b_taint := false |} = Err /\
  encode sha256 D03 0 [1; 2; 3] = Err.
Proof. cbv zeta. repeat split; vm_compute; reflexivity. Qed.

(* ---- integrity-block detection (C07) ------------------------------------------------------ *)
Theorem obtain_total : forall file : bytes, total (obtain file).
Proof. exact TotalityAll.obtain_total. Qed.
Print Assumptions obtain_total.

(* ================================================================================== *)
(* 2. declared lengths are not trusted: outputs are made of consumed input            *)
(* ================================================================================== *)

(* a CBOR string comes back only if all its bytes were present: string and
   remaining input are disjoint parts of the input, after >= 1 head byte *)
Theorem decode_bytes_size : forall bs s r : bytes,
  decode_bytes bs = Ok (s, r) -> lenN s + lenN r < lenN bs.
Proof. exact TotalitySize.decode_bytes_size. Qed.
Print Assumptions decode_bytes_size.

Theorem decode_text_size : forall bs s r : bytes,
  decode_text bs = Ok (s, r) -> lenN s + lenN r < lenN bs.
Proof. exact TotalitySize.decode_text_size. Qed.
Print Assumptions decode_text_size.

Theorem decode_bytes_segment : forall bs s r : bytes,
  decode_bytes bs = Ok (s, r) -> exists h, bs = h ++ s ++ r /\ 1 <= lenN h <= 9.
Proof. exact TotalitySize.decode_bytes_segment. Qed.
Print Assumptions decode_bytes_segment.

(* array / map headers only return the COUNT (any uint64); every loop over a
   count is one of the fuel-bounded loops of section 1 *)
Theorem decode_head_size : forall (t n : N) (bs r : bytes),
  Spec.Cbor.major_const t -> decode_of_type t bs = Ok (n, r) ->
  lenN r < lenN bs /\ lenN bs <= lenN r + 9.
Proof. exact TotalitySize.decode_head_size. Qed.
Print Assumptions decode_head_size.

(* MI: the record size read from the stream is accepted only up to the
   caller's limit; the record buffer is that size + 32 *)
Theorem new_decoder_record_size_bounded :
  forall (H : bytes -> bytes) (d : draft) (stream digest : bytes) (maxrs : N) (s0 : dec),
  new_decoder H d stream digest maxrs = Ok s0 -> d_rs s0 <= maxrs.
Proof. exact TotalityMice.new_decoder_record_size_bounded. Qed.
Print Assumptions new_decoder_record_size_bounded.

Theorem record_size_refused :
  forall (H : bytes -> bytes) (d : draft) (s dg : bytes) (maxrs : N) (hd rest : bytes),
  splitN s 8 = Some (hd, rest) -> (unbe hd = 0 \/ maxrs < unbe hd) ->
  new_decoder H d s dg maxrs = Err.
Proof. exact MiceCommit.record_size_refused. Qed.
Print Assumptions record_size_refused.

(* MI: everything delivered is at most as long as the stream *)
Theorem decode_all_output_bounded :
  forall (H : bytes -> bytes) (d : draft) (stream digest : bytes) (maxrs k : N) (out : bytes) (st : rstat),
  decode_all H d stream digest maxrs k = Ok (out, st) -> lenN out <= lenN stream.
Proof. exact TotalityMice.decode_all_output_bounded. Qed.
Print Assumptions decode_all_output_bounded.

Theorem read_trace_output_bounded :
  forall (H : bytes -> bytes) (sizes : list N) (s : dec) (acc out : bytes) (st : rstat),
  read_trace H s sizes acc = (out, st) -> lenN out <= lenN acc + held s.
Proof. exact TotalityMice.read_trace_output_bounded. Qed.
Print Assumptions read_trace_output_bounded.

(* signed exchange: URL, Signature header value and payload fit in the file
   (uriLength, sigLength, headerLength are only ever used to cut the input) *)
Theorem sxg_read_size : forall (bs : bytes) (e : exchange),
  Sxg.read bs = Ok e -> lenN (e_uri e) + lenN (e_sig e) + lenN (e_payload e) <= lenN bs.
Proof. exact TotalitySize.read_size. Qed.
Print Assumptions sxg_read_size.

(* certificate chain: all DER + OCSP + SCT strings together, and the number of
   certificates, are below the file size whatever the array / map headers say *)
Theorem cc_read_size : forall (x509_ok : bytes -> bool) (bs : bytes) (c : list augcert),
  cc_read x509_ok bs = Ok c -> chain_size c < lenN bs.
Proof. exact TotalitySize.cc_read_size. Qed.
Print Assumptions cc_read_size.

Theorem cc_read_count : forall (x509_ok : bytes -> bool) (bs : bytes) (c : list augcert),
  cc_read x509_ok bs = Ok c -> lenN c < lenN bs.
Proof. exact TotalitySize.cc_read_count. Qed.
Print Assumptions cc_read_count.

(* ================================================================================== *)
(* 3. REFUTED for the bundle reader: output size is not linear in input size (K1)     *)
(* ================================================================================== *)
(* [body_bytes b] = total length of the response bodies of b.  Witness
   [amp_bytes]: a 3390-byte b2 bundle, 60 URLs sharing one 2000-byte response,
   read back as 60 exchanges with 120000 body bytes. *)
Theorem bundle_read_amplifies_refuted :
  exists (bs : bytes) (b : bundle),
    b_read (fun _ => true) bs = Ok b /\ 20 * lenN bs < body_bytes b.
Proof. exact TotalityAmplify.bundle_read_amplifies_refuted. Qed.
Print Assumptions bundle_read_amplifies_refuted.

Theorem bundle_read_amplifies_numbers :
  exists b : bundle,
    b_read (fun _ => true) amp_bytes = Ok b /\ lenN amp_bytes = 3390 /\ lenN amp_bytes < two64 /\
    body_bytes b = 120000 /\ lenN (b_exchanges b) = 60 /\ b_taint b = false.
Proof. exact TotalityAmplify.bundle_read_amplifies_numbers. Qed.
Print Assumptions bundle_read_amplifies_numbers.

(* ================================================================================== *)
(* 4. adversarial inputs: huge declared lengths / counts over short input -> Err      *)
(* ================================================================================== *)
Definition max64 : N := 18446744073709551615.
Definition ff8 : bytes := [255; 255; 255; 255; 255; 255; 255; 255].

(* CBOR: byte / text string of declared length 2^63, 2^64-1, 2^63-1 with 1..3
   bytes of input; an array head alone just reports its count *)
Example ex_cbor_huge_lengths :
  decode_bytes (91 :: be 8 two63 ++ [1; 2; 3]) = Err /\
  decode_bytes (91 :: ff8 ++ [1]) = Err /\
  decode_text (123 :: ff8 ++ [1]) = Err /\
  decode_bytes (91 :: be 8 (two63 - 1) ++ [1]) = Err /\
  decode_array_header (155 :: ff8) = Ok (max64, []).
Proof. vm_compute. repeat split. Qed.

(* structured headers: numbers beyond int64, unterminated string / byte sequence *)
Example ex_sh_adversarial :
  parse_list_of_lists (s2b "99999999999999999999999999999999") = Err /\
  parse_parameterised_list (s2b "a;k=9223372036854775808") = Err /\
  parse_parameterised_list (s2b "a;k=-9223372036854775809") = Err /\
  parse_list_of_lists (s2b "*AAAA") = Err /\
  parse_list_of_lists (34 :: repeat 97 50) = Err.
Proof. vm_compute. repeat split. Qed.

(* MI: record size 2^64-1 / limit+1 / 0 refused; at the limit with a short
   stream the first Read fails; short prefix; short digest *)
Definition dg0 : bytes := format_digest_header D03 (be 32 0).
Example ex_mi_adversarial :
  decode_all sha256 D03 (ff8 ++ [1; 2; 3]) dg0 16384 512 = Err /\
  decode_all sha256 D03 (be 8 16385 ++ [1; 2; 3]) dg0 16384 512 = Err /\
  decode_all sha256 D03 (be 8 0 ++ [1; 2; 3]) dg0 16384 512 = Err /\
  decode_all sha256 D03 (be 8 16384 ++ [1; 2; 3]) dg0 16384 512 = Ok ([], RErr) /\
  decode_all sha256 D03 [1; 2; 3] dg0 16384 512 = Err /\
  parse_digest_header D03 (s2b "mi-sha256-03=AAAA") = Err.
Proof. vm_compute. repeat split. Qed.

(* hypotheses of the loop theorem on an honest stream (C15's example) *)
Example ex_mi_terminates :
  let msg := s2b "When I grow up, I want to be a watermelon" in
  match encode sha256 D03 16 msg with
  | Ok (stream, dg) =>
      match decode_all sha256 D03 stream dg 16384 1 with
      | Ok (out, REOF) => bytes_eqb out msg
      | _ => false
      end
  | _ => false
  end = true.
Proof. vm_compute. reflexivity. Qed.

(* certificate chain: array of 2^64-1 elements, map of 2^64-1 entries, DER of
   declared length 2^63-1 *)
Definition der_like (b : bytes) : bool := match b with 48 :: _ => true | _ => false end.
Definition cc_head : bytes := [103; 240; 159; 147; 156; 226; 155; 147].
Example ex_cc_huge_counts :
  cc_read der_like (155 :: ff8 ++ cc_head) = Err /\
  cc_read der_like (155 :: ff8 ++ cc_head ++ 187 :: ff8) = Err /\
  cc_read der_like (130 :: cc_head ++ [161; 100; 99; 101; 114; 116] ++ 91 :: be 8 (two63 - 1) ++ [48]) = Err.
Proof. vm_compute. repeat split. Qed.

(* signed exchange (b3): uriLength 65535, sigLength / headerLength 2^24-1 over an
   almost empty rest; header map of 2^64-1 entries; header value of length 2^64-1 *)
Definition sxg_b3 (ulen u sl hl rest : bytes) : bytes := header_magic V1b3 ++ ulen ++ u ++ sl ++ hl ++ rest.
Definition u14 : bytes := s2b "https://e.com/".
Example ex_sxg_adversarial :
  Sxg.read (sxg_b3 [255; 255] u14 [0; 0; 0] [0; 0; 0] []) = Err /\
  Sxg.read (sxg_b3 [0; 14] u14 [255; 255; 255] [0; 0; 1] [160]) = Err /\
  Sxg.read (sxg_b3 [0; 14] u14 [0; 0; 0] [255; 255; 255] [160]) = Err /\
  Sxg.read (sxg_b3 [0; 14] u14 [0; 0; 0] [0; 0; 9] (187 :: ff8)) = Err /\
  Sxg.read (sxg_b3 [0; 14] u14 [0; 0; 0] [0; 0; 10] (161 :: 91 :: ff8)) = Err /\
  is_ok (Sxg.read (sxg_b3 [0; 14] u14 [0; 0; 0] [0; 0; 1] [160; 7; 7])) = true.
Proof. vm_compute. repeat split. Qed.

(* bundle (b2): responses section of declared length 2^64-1 / 2^63; index section
   of declared length 2^64-1; index map of 2^64-1 entries; a location with
   offset 2^64-1; section-length table of declared length 2^64-1; table whose
   array head announces 2^64-1 items *)
Definition bad_bundle (idx_len resp_len : N) (idx resp : bytes) : bytes :=
  header_magic_bytes BV2
  ++ enc_bytes (enc_array_header 4 ++ enc_bytes_of TText (s2b "index") ++ enc_uint idx_len
                ++ enc_bytes_of TText (s2b "responses") ++ enc_uint resp_len)
  ++ enc_array_header 2 ++ idx ++ resp ++ enc_bytes (be 8 0).
Example ex_bundle_adversarial :
  b_read any_cert (bad_bundle 1 max64 [160] [128]) = Err /\
  b_read any_cert (bad_bundle 1 two63 [160] [128]) = Err /\
  b_read any_cert (bad_bundle max64 1 [160] [128]) = Err /\
  b_read any_cert (bad_bundle 9 1 (187 :: ff8) [128]) = Err /\
  b_read any_cert (bad_bundle 18 1 (161 :: enc_bytes_of TText (s2b "https://e/") ++ [130; 27] ++ ff8 ++ [0]) [128]) = Err /\
  b_read any_cert (header_magic_bytes BV2 ++ 91 :: ff8) = Err /\
  b_read any_cert (header_magic_bytes BV2 ++ enc_bytes (155 :: ff8) ++ [130]) = Err /\
  (* the same skeleton with honest numbers is a valid (empty) bundle *)
  match b_read any_cert (bad_bundle 1 1 [160] [128]) with Ok b => Some (b_exchanges b) | _ => None end
  = Some [] /\
  lenN (bad_bundle 1 max64 [160] [128]) < two64.
Proof. vm_compute. repeat split. Qed.

(* bundle signatures: map of 2^64-1 fields; subset-hashes of 2^64-1 URLs; a URL
   with 2^64-1 hash items; auth-sha256 of declared length 2^63-1; authority
   index 2^64-1 and 1 with one certificate *)
Definition one_auth : list augcert := [{| ac_cert := [48]; ac_ocsp := None; ac_sct := None |}].
Example ex_bundle_sig_adversarial :
  decode_signed_subset (187 :: ff8) = Err /\
  decode_signed_subset (161 :: enc_bytes_of TText (s2b "subset-hashes") ++ 187 :: ff8) = Err /\
  decode_signed_subset (161 :: enc_bytes_of TText (s2b "subset-hashes") ++ [161]
                        ++ enc_bytes_of TText (s2b "u") ++ 155 :: ff8 ++ [64]) = Err /\
  decode_signed_subset (161 :: enc_bytes_of TText (s2b "auth-sha256") ++ 91 :: be 8 (two63 - 1)) = Err /\
  verify_vouched sha256 (fun _ => Some (Some 1)) (fun _ _ _ => true)
    {| vs_authority := max64; vs_sig := []; vs_signed := [] |} one_auth 0 0 BV2 = Err /\
  verify_vouched sha256 (fun _ => Some (Some 1)) (fun _ _ _ => true)
    {| vs_authority := 1; vs_sig := []; vs_signed := [] |} one_auth 0 0 BV2 = Err /\
  verify_vouched sha256 (fun _ => Some (Some 1)) (fun _ _ _ => true)
    {| vs_authority := 0; vs_sig := []; vs_signed := 187 :: ff8 |} one_auth 0 0 BV2 = Err.
Proof. vm_compute. repeat split. Qed.

(* integrity block: trailing length 2^64-1 (int64 -1), 2^63 (MinInt64), 8-byte file *)
Example ex_obtain_adversarial :
  obtain (map N.of_nat (seq 200 24) ++ ff8) = Err /\
  obtain (map N.of_nat (seq 200 24) ++ be 8 two63) = Err /\
  obtain ff8 = Err.
Proof. vm_compute. repeat split. Qed.

(* the size theorems have satisfiable hypotheses *)
Example ex_size_hyps :
  decode_bytes [67; 1; 2; 3; 9] = Ok ([1; 2; 3], [9]) /\
  (exists e, Sxg.read (sxg_b3 [0; 14] u14 [0; 0; 0] [0; 0; 1] [160; 7; 7]) = Ok e /\
             e_uri e = u14 /\ e_payload e = [7; 7]) /\
  cc_read der_like (130 :: cc_head ++ [162; 100; 99; 101; 114; 116; 66; 48; 0; 100; 111; 99; 115; 112; 65; 9])
  = Ok [{| ac_cert := [48; 0]; ac_ocsp := Some [9]; ac_sct := None |}].
Proof.
  split; [vm_compute; reflexivity|]. split; [|vm_compute; reflexivity].
  destruct (Sxg.read (sxg_b3 [0; 14] u14 [0; 0; 0] [0; 0; 1] [160; 7; 7])) as [e| | |] eqn:E;
    try (vm_compute in E; discriminate E).
  exists e. split; [reflexivity|]. vm_compute in E. inversion E; subst e. split; reflexivity.
Qed.
