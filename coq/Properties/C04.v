(* C04 - web bundles; placeholder until the proofs land. *)
From WP Require Import Base.Prelude Model.Bundle.
Open Scope N_scope.

Theorem c04_smoke : parse_magic (header_magic_bytes BV2 ++ [1]) = Ok (BV2, [1]).
Proof. reflexivity. Qed.
Print Assumptions c04_smoke.
