(* C04 - Bundle writer output is a well-formed, canonical, self-consistent bundle.

   "Every byte sequence the bundle writer emits without error is a well-formed
   Web Bundle of the requested version as judged by an independent parser of
   the format: correct magic and version, a section-length table that exactly
   tiles the file with 'responses' last, index entries that each delimit
   exactly one [headers, payload] response inside the responses section,
   canonical CBOR throughout (shortest heads, maps sorted by encoded key, no
   duplicates), and a trailing 8-byte length equal to the total size.  The
   byte count the writer returns equals the number of bytes it handed to the
   destination."

   Statements only; proofs live in Proofs/BundleWrite*.v and
   Proofs/CountingWriter.v.  Model = Model/Bundle.v (b_write = Bundle.WriteTo,
   run_writes = CountingWriter.Write over a faulting destination); the format
   is Spec/Bundle.v: the declarative WF v bs p and the executable judge
   wf_parse.  Domain restrictions appearing as hypotheses:
     wfb bs          - the output consists of bytes (the model's byte is N);
     lenN bs < 2^64  - a Go slice is shorter than that (the footer holds a uint64);
     sig_u64 b       - VouchedSubset.Authority is a uint64. *)
From Coq Require Import Lia Permutation Sorted.
From WP Require Import Base.Prelude Base.Decimal Model.Cbor Model.Http Model.Variants
  Model.CertChain Model.Bundle.
From WP Require Import Spec.Cbor Spec.Det Spec.Bundle.
From WP Require Import Proofs.BaseLemmas Proofs.CborMap Proofs.Variants Proofs.BundleWriteBasics
  Proofs.BundleWriteSpec Proofs.BundleWriteForm Proofs.BundleWriteWF Proofs.BundleWriteCases
  Proofs.BundleWriteAgree Proofs.BundleWriteDet Proofs.CountingWriter.
Open Scope N_scope.

(* ======================= the independent parser =============================== *)
Theorem wf_parse_sound : forall v bs p, wf_parse v bs = Some p -> WF v bs p.
Proof. exact BundleWriteSpec.wf_parse_sound. Qed.
Print Assumptions wf_parse_sound.

Theorem wf_check_sound : forall v bs p, wf_check v bs p = true -> WF v bs p.
Proof. exact BundleWriteSpec.wf_check_sound. Qed.
Print Assumptions wf_check_sound.

(* ======================= the writer's output is well formed ==================== *)
(* ts: the index rows (url, variants value, entries in index order) the writer
   computed; parsed_of b ts is the parsed view built from the bundle itself *)
Theorem write_wf : forall b bs,
  b_write b = Ok bs -> wfb bs -> lenN bs < two64 -> sig_u64 b ->
  exists ts, index_pres (b_ver b) (groups_of (ients_of b)) = Ok ts /\
             WF (b_ver b) bs (parsed_of b ts).
Proof. exact BundleWriteWF.write_wf. Qed.
Print Assumptions write_wf.

(* the parsed view agrees with the bundle: sections present iff the fields are
   set, index URLs = the distinct exchange URLs, the i-th response item is the
   i-th exchange's (status, folded headers, body), found at one of the
   locations the index lists for its URL *)
Theorem write_agrees : forall b bs ts,
  b_write b = Ok bs -> index_pres (b_ver b) (groups_of (ients_of b)) = Ok ts ->
  let p := parsed_of b ts in
  map fst (p_sections p)
    = n_index :: (match b_ver b, b_primary b with BV2, Some _ => [n_primary] | _, _ => [] end)
      ++ (match b_manifest b with Some _ => [n_manifest] | None => [] end)
      ++ (match b_sigs b with Some _ => [n_signatures] | None => [] end) ++ [n_responses]
  /\ p_primary p = (match b_ver b with BV1 => b_primary b | BV2 => None end)
  /\ (forall u, In (n_primary, text_item u) (p_sections p) -> b_primary b = Some u)
  /\ (forall u, In (n_manifest, text_item u) (p_sections p) -> b_manifest b = Some u)
  /\ (forall u, In u (map ix_url (p_index p)) <-> In u (map bx_url (b_exchanges b)))
  /\ NoDup (map ix_url (p_index p))
  /\ Forall2 (fun x r => r_payload r = bx_body x /\
                         Permutation (r_fields r)
                           ((status_name, dec_of_Z (bx_status x)) ::
                            map (fun nv => (lower (fst nv), join_comma (snd nv))) (bx_hdr x)))
             (b_exchanges b) (p_responses p)
  /\ (forall i x, nth_error (b_exchanges b) i = Some x ->
        exists e, In e (p_index p) /\ ix_url e = bx_url x /\
                  In (lenN (arr_head (lenN (p_responses p)))
                        + lenN (flat_map rsp_bytes (firstn i (p_responses p))),
                      lenN (rsp_bytes (rsp_of x))) (ix_locs e)).
Proof. exact BundleWriteAgree.write_agrees. Qed.
Print Assumptions write_agrees.

(* the writer, in closed form: checks, then the spec-side serialisation *)
Theorem write_normal_form : forall b, b_write b = b_write_nf b.
Proof. exact BundleWriteForm.b_write_eq. Qed.
Print Assumptions write_normal_form.

(* ======================= consequences of WF (for any producer) ================== *)
Theorem WF_footer : forall v bs p, WF v bs p ->
  bs = file_body v p ++ [72] ++ be 8 (lenN bs) /\ lenN (file_body v p) + 9 = lenN bs.
Proof. exact BundleWriteAgree.WF_footer. Qed.
Print Assumptions WF_footer.

Theorem WF_sections_tile : forall v bs p, WF v bs p ->
  let hdr := magic v ++ (match p_primary p with Some u => text_item u | None => [] end)
             ++ bstr_item (arr_head (2 * lenN (p_sections p))
                           ++ flat_map (fun s => text_item (fst s) ++ uint_item (lenN (snd s)))
                                       (p_sections p))
             ++ arr_head (lenN (p_sections p)) in
  bs = hdr ++ List.concat (map snd (p_sections p)) ++ [72] ++ be 8 (lenN bs)
  /\ lenN hdr + lenN (List.concat (map snd (p_sections p))) + 9 = lenN bs
  /\ (exists front rb, p_sections p = front ++ [(n_responses, rb)]).
Proof. exact BundleWriteAgree.WF_sections_tile. Qed.
Print Assumptions WF_sections_tile.

Theorem WF_index_sorted_nodup : forall v bs p, WF v bs p ->
  StronglySorted (fun a c => blt (index_key a) (index_key c)) (p_index p)
  /\ NoDup (map ix_url (p_index p)).
Proof. exact BundleWriteAgree.WF_index_sorted_nodup. Qed.
Print Assumptions WF_index_sorted_nodup.

(* a well-formed b2 bundle is, as a whole, ONE deterministically encoded CBOR item
   (RFC 8949 4.2.1, Spec.Det.DetItem): the array [magic, version, section-lengths,
   sections, length]; text strings need not be UTF-8 for this, booleans never occur *)
Theorem WF_b2_detitem : forall bs p, WF BV2 bs p -> DetItem bs.
Proof. exact BundleWriteDet.WF_b2_detitem. Qed.
Print Assumptions WF_b2_detitem.

Theorem write_b2_detitem : forall b bs,
  b_ver b = BV2 -> b_write b = Ok bs -> wfb bs -> lenN bs < two64 -> sig_u64 b -> DetItem bs.
Proof. exact BundleWriteDet.write_b2_detitem. Qed.
Print Assumptions write_b2_detitem.

(* so the package's own Deterministic() (C13) accepts it *)
Theorem write_b2_det_accept : forall b bs,
  b_ver b = BV2 -> b_write b = Ok bs -> wfb bs -> lenN bs < two64 -> sig_u64 b ->
  WP.Model.Det.det_check bs = WP.Model.Det.Accept.
Proof. exact BundleWriteDet.write_b2_det_accept. Qed.
Print Assumptions write_b2_det_accept.

(* ======================= the same, straight from the writer ===================== *)
(* the last 8 bytes are the total size, big-endian, after the byte 0x48 *)
Theorem write_footer : forall b bs,
  b_write b = Ok bs -> lenN bs < two64 ->
  exists body, bs = body ++ [72] ++ be 8 (lenN bs) /\ lenN body + 9 = lenN bs.
Proof. exact BundleWriteAgree.write_footer. Qed.
Print Assumptions write_footer.

Theorem write_sections_tile : forall b bs,
  b_write b = Ok bs -> lenN bs < two64 ->
  exists secs front rb,
    secs = front ++ [(n_responses, rb)] /\
    let hdr := magic (b_ver b)
               ++ (match b_ver b, b_primary b with BV1, Some u => text_item u | _, _ => [] end)
               ++ bstr_item (arr_head (2 * lenN secs)
                             ++ flat_map (fun s => text_item (fst s) ++ uint_item (lenN (snd s))) secs)
               ++ arr_head (lenN secs) in
    bs = hdr ++ List.concat (map snd secs) ++ [72] ++ be 8 (lenN bs)
    /\ lenN hdr + lenN (List.concat (map snd secs)) + 9 = lenN bs.
Proof. exact BundleWriteAgree.write_sections_tile. Qed.
Print Assumptions write_sections_tile.

Theorem write_index_sorted_nodup : forall b bs,
  b_write b = Ok bs ->
  exists idx,
    In (n_index, index_body (b_ver b) idx) (sections_of b
         (match index_pres (b_ver b) (groups_of (ients_of b)) with Ok ts => ts | _ => [] end))
    /\ StronglySorted (fun a c => blt (index_key a) (index_key c)) idx
    /\ NoDup (map ix_url idx)
    /\ (forall u, In u (map ix_url idx) <-> In u (map bx_url (b_exchanges b))).
Proof. exact BundleWriteAgree.write_index_sorted_nodup. Qed.
Print Assumptions write_index_sorted_nodup.

(* ======================= Ok / Err / Panic, exactly =============================== *)
Theorem write_never_fuel : forall b, b_write b <> Fuel.
Proof. exact BundleWriteCases.write_never_fuel. Qed.
Print Assumptions write_never_fuel.

Theorem write_ok_iff : forall b bs,
  b_write b = Ok bs <->
  exists ts, headers_ok b = true /\ url_checks b
             /\ index_pres (b_ver b) (groups_of (ients_of b)) = Ok ts
             /\ prim_ok b /\ man_ok b /\ bs = final_bytes (b_ver b) (parsed_of b ts).
Proof. exact BundleWriteWF.b_write_ok_iff. Qed.
Print Assumptions write_ok_iff.

(* NEVER a panic.  The two panics the writer had are gone: a b1 bundle without
   primary URL (nil dereference) is an error, and checkURL refuses an exchange URL
   that is not valid UTF-8 before EncodeTextString can meet it inside the index
   callback.  (index_entry on its own still has the Panic branch; b_write cannot
   reach it: the IndexPanics condition below contradicts urls_ok.) *)
Theorem b_write_never_panic : forall b, b_write b <> Panic.
Proof. exact BundleWriteCases.b_write_never_panic. Qed.
Print Assumptions b_write_never_panic.

Theorem b_write_ok_or_err : forall b, b_write b = Err \/ exists bs, b_write b = Ok bs.
Proof. exact BundleWriteCases.b_write_ok_or_err. Qed.
Print Assumptions b_write_ok_or_err.

Theorem urls_ok_no_index_panic : forall b, urls_ok b = true -> ~ IndexPanics b.
Proof. exact BundleWriteCases.urls_ok_no_index_panic. Qed.
Print Assumptions urls_ok_no_index_panic.

Theorem b_write_b1_no_primary_err : forall b,
  b_ver b = BV1 -> b_primary b = None -> b_write b = Err.
Proof. exact BundleWriteCases.b_write_b1_no_primary_err. Qed.
Print Assumptions b_write_b1_no_primary_err.

(* error: a refused header map; else a refused exchange URL (not UTF-8, does not
   parse, fragment, credentials); else a refusing index; else one of: b2 primary URL
   not absolute / with fragment / not UTF-8, manifest in b2, manifest URL not absolute
   / with fragment / not UTF-8, b1 primary URL that does not parse / not UTF-8, b1
   without primary URL *)
Theorem write_err_iff : forall b,
  b_write b = Err <->
  BadHeader b \/
  (headers_ok b = true /\
   (BadUrl b \/
    (urls_ok b = true /\
     (IndexErrs b \/ (IndexFine b /\ AfterIndexErr b))))).
Proof. exact BundleWriteCases.write_err_iff. Qed.
Print Assumptions write_err_iff.

(* the header map of one exchange is refused iff the status is not a three-digit
   number, a name starts with ':' or is not ASCII, a comma-joined value is not
   ASCII, or two names coincide after case folding (":status" included) *)
Theorem header_map_refused_iff : forall st h,
  encode_response_header st h = Err <->
  (st < 100 \/ 999 < st)%Z \/ forallb hdr_writable_b h = false
  \/ ~ NoDup (status_name :: map (fun nv => lower (fst nv)) h).
Proof. exact BundleWriteCases.erh_err_iff. Qed.
Print Assumptions header_map_refused_iff.

Theorem headers_ok_false_iff : forall b, headers_ok b = false <-> BadHeader b.
Proof. exact BundleWriteCases.headers_ok_false_iff. Qed.
Print Assumptions headers_ok_false_iff.

Theorem urls_ok_false_iff : forall b, urls_ok b = false <-> BadUrl b.
Proof. exact BundleWriteCases.urls_ok_false_iff. Qed.
Print Assumptions urls_ok_false_iff.

(* grouping by URL, declaratively: the distinct URLs in order of first
   appearance, each with the entries carrying it, in order *)
Theorem group_entries_spec : forall es,
  group_entries es = map (fun u => (u, filter (url_is u) es)) (first_urls es)
  /\ NoDup (first_urls es) /\ (forall u, In u (first_urls es) <-> In u (map ie_url es)).
Proof.
  intros es. split; [exact (group_entries_eq es)|exact (first_urls_spec es)].
Qed.
Print Assumptions group_entries_spec.

(* ======================= CountingWriter ============================================ *)
(* for ALL chunkings cs and both failure modes *)
Theorem run_writes_spec : forall cs d count,
  let '(d', n, ok) := run_writes cs d count in
  d_acc d' = d_acc d ++ accepted d cs
  /\ n = count + lenN (accepted d cs)
  /\ ok = match d_budget d with None => true | Some k => lenN (List.concat cs) <=? k end.
Proof. exact CountingWriter.run_writes_spec. Qed.
Print Assumptions run_writes_spec.

Theorem run_writes_count_exact : forall cs d d' n ok,
  run_writes cs d 0 = (d', n, ok) ->
  d_acc d' = d_acc d ++ accepted d cs /\ n = lenN (d_acc d') - lenN (d_acc d).
Proof. exact CountingWriter.run_writes_count_exact. Qed.
Print Assumptions run_writes_count_exact.

Theorem run_writes_prefix : forall cs d d' n ok,
  run_writes cs d 0 = (d', n, ok) ->
  exists k, d_acc d' = d_acc d ++ takeN k (List.concat cs) /\ k = n /\ k <= lenN (List.concat cs).
Proof. exact CountingWriter.run_writes_prefix. Qed.
Print Assumptions run_writes_prefix.

Theorem run_writes_fault : forall cs d d' n ok k,
  run_writes cs d 0 = (d', n, ok) -> d_budget d = Some k ->
  (k < lenN (List.concat cs) -> ok = false /\ n <= k /\
     match d_mode d with
     | ErrOnly => d_acc d' = d_acc d ++ fit_prefix cs k
     | ShortThenErr => d_acc d' = d_acc d ++ takeN k (List.concat cs) /\ n = k
     end)
  /\ (lenN (List.concat cs) <= k ->
      ok = true /\ d_acc d' = d_acc d ++ List.concat cs /\ n = lenN (List.concat cs)).
Proof. exact CountingWriter.run_writes_fault. Qed.
Print Assumptions run_writes_fault.

Theorem run_writes_unlimited : forall cs d d' n ok,
  run_writes cs d 0 = (d', n, ok) -> d_budget d = None ->
  ok = true /\ d_acc d' = d_acc d ++ List.concat cs /\ n = lenN (List.concat cs).
Proof. exact CountingWriter.run_writes_unlimited. Qed.
Print Assumptions run_writes_unlimited.

(* WriteTo through the CountingWriter: the count returned is the number of bytes
   the destination took, and those are a prefix of the bundle *)
Theorem write_count_exact : forall b bs cs d d' n ok,
  b_write b = Ok bs -> List.concat cs = bs -> run_writes cs d 0 = (d', n, ok) ->
  n = lenN (d_acc d') - lenN (d_acc d)
  /\ d_acc d' = d_acc d ++ takeN n bs /\ n <= lenN bs
  /\ (ok = true -> d_acc d' = d_acc d ++ bs /\ n = lenN bs)
  /\ (ok = true <-> match d_budget d with None => True | Some k => lenN bs <= k end).
Proof. exact CountingWriter.write_count_exact. Qed.
Print Assumptions write_count_exact.

(* ==== non-vacuity ================================================================== *)
Definition hd1 (k v : string) : bytes * list bytes := (s2b k, [s2b v]).
Definition ex_vv : string := "Accept-Language;en;fr, Accept-Encoding;gzip;br".
Definition vx (u vk body : string) : bexchange :=
  {| bx_url := s2b u; bx_status := 200;
     bx_hdr := [hd1 "Variants" ex_vv; hd1 "Variant-Key" vk; (s2b "X-Multi", [s2b "a"; s2b "b"])];
     bx_body := s2b body |}.
(* b1: primary in the header, manifest, signatures, a 2x2 variant set supplied in
   shuffled order, and a second URL in between *)
Definition ex_b1 : bundle :=
  {| b_ver := BV1; b_primary := Some (s2b "https://example.com/");
     b_manifest := Some (s2b "https://example.com/manifest.json");
     b_sigs := Some {| sg_auth := [{| ac_cert := [1; 2; 3]; ac_ocsp := Some [4]; ac_sct := None |}];
                       sg_vouched := [{| vs_authority := 0; vs_sig := [9; 9]; vs_signed := [7] |}] |};
     b_exchanges := [ vx "https://example.com/" "fr;br" "FRBR";
                      {| bx_url := s2b "https://example.com/style.css"; bx_status := 404;
                         bx_hdr := [hd1 "Content-Type" "text/css"]; bx_body := [] |};
                      vx "https://example.com/" "en;gzip" "ENGZ";
                      vx "https://example.com/" "fr;gzip" "FRGZ";
                      vx "https://example.com/" "en;br" "ENBR" ];
     b_taint := false |}.
(* b2: three URLs of different lengths inserted out of key order, primary section *)
Definition ex_b2 : bundle :=
  {| b_ver := BV2; b_primary := Some (s2b "https://example.com/zz"); b_manifest := None; b_sigs := None;
     b_exchanges := [ {| bx_url := s2b "https://example.com/zz"; bx_status := 200;
                         bx_hdr := [hd1 "Content-Type" "text/html"; hd1 "A" "1"]; bx_body := s2b "<p>" |};
                      {| bx_url := s2b "https://example.com/a/long/path"; bx_status := 301;
                         bx_hdr := [hd1 "Location" "/zz"]; bx_body := [] |};
                      {| bx_url := s2b "b"; bx_status := 999; bx_hdr := []; bx_body := [0; 255] |} ];
     b_taint := false |}.

Definition judged (b : bundle) : option (N * list bytes * list (bytes * list (N * N))) :=
  match b_write b with
  | Ok bs => match wf_parse (b_ver b) bs with
             | Some p => Some (lenN bs, map fst (p_sections p),
                               map (fun e => (ix_url e, ix_locs e)) (p_index p))
             | None => None
             end
  | _ => None
  end.

(* the independent parser accepts what the writer emits; the b1 variant set is
   listed row-major (en;gzip  en;br  fr;gzip  fr;br) although supplied shuffled *)
Example ex_b1_judged :
  judged ex_b1 =
  Some (778, [n_index; n_manifest; n_signatures; n_responses],
        [(s2b "https://example.com/", [(148, 110); (368, 108); (258, 110); (1, 108)]);
         (s2b "https://example.com/style.css", [(109, 39)])]).
Proof. vm_compute. reflexivity. Qed.

(* index order is by ENCODED key: the 1-byte URL first, then by length *)
Example ex_b2_judged :
  option_map (fun r => (snd (fst r), map fst (snd r))) (judged ex_b2) =
  Some ([n_index; n_primary; n_responses],
        [s2b "b"; s2b "https://example.com/zz"; s2b "https://example.com/a/long/path"]).
Proof. vm_compute. reflexivity. Qed.

(* the hypotheses of write_wf hold of these *)
Example ex_hyps :
  (exists bs, b_write ex_b1 = Ok bs /\ wfb bs /\ lenN bs < two64) /\ sig_u64 ex_b1 /\
  (exists bs, b_write ex_b2 = Ok bs /\ wfb bs /\ lenN bs < two64) /\ sig_u64 ex_b2.
Proof.
  split; [|split; [|split]].
  - destruct (b_write ex_b1) as [bs| | |] eqn:E; try (vm_compute in E; discriminate).
    exists bs. split; [reflexivity|]. vm_compute in E. inversion E; subst bs.
    split; [apply wfbb_wfb; vm_compute; reflexivity|vm_compute; reflexivity].
  - repeat constructor.
  - destruct (b_write ex_b2) as [bs| | |] eqn:E; try (vm_compute in E; discriminate).
    exists bs. split; [reflexivity|]. vm_compute in E. inversion E; subst bs.
    split; [apply wfbb_wfb; vm_compute; reflexivity|vm_compute; reflexivity].
  - exact I.
Qed.

Example ex_b2_det :
  match b_write ex_b2 with Ok bs => WP.Model.Det.det_check bs | _ => WP.Model.Det.Reject end
  = WP.Model.Det.Accept.
Proof. vm_compute. reflexivity. Qed.

(* tampering is caught by the judge: wrong trailing length, swapped index order *)
Example ex_tamper :
  match b_write ex_b2 with
  | Ok bs => (wf_parse BV2 (removelast bs ++ [0]), wf_parse BV1 bs, wf_parse BV2 (bs ++ [0]))
  | _ => (None, None, None)
  end = (None, None, None).
Proof. vm_compute. reflexivity. Qed.

(* each refusal case occurs *)
Definition with_x (b : bundle) (xs : list bexchange) : bundle :=
  {| b_ver := b_ver b; b_primary := b_primary b; b_manifest := b_manifest b; b_sigs := b_sigs b;
     b_exchanges := xs; b_taint := false |}.
Example ex_outcomes :
  (* duplicate header name after folding *)
  b_write (with_x ex_b2 [{| bx_url := s2b "u"; bx_status := 200;
                            bx_hdr := [hd1 "A" "1"; hd1 "a" "2"]; bx_body := [] |}]) = Err /\
  (* two resources for one URL in b2 *)
  b_write (with_x ex_b2 [vx "u" "en;br" "1"; vx "u" "fr;br" "2"]) = Err /\
  (* incomplete variant coverage in b1 *)
  b_write (with_x ex_b1 [vx "u" "en;br" "1"; vx "u" "fr;br" "2"]) = Err /\
  (* overlapping variant coverage in b1 *)
  b_write (with_x ex_b1 [vx "u" "en;br" "1"; vx "u" "fr;br" "2"; vx "u" "en;gzip" "3";
                         vx "u" "fr;gzip" "4"; vx "u" "fr;gzip" "5"]) = Err /\
  (* manifest in b2 *)
  b_write {| b_ver := BV2; b_primary := None; b_manifest := Some (s2b "https://m/"); b_sigs := None;
             b_exchanges := []; b_taint := false |} = Err /\
  (* b1 without primary URL: an error (used to be a nil dereference) *)
  b_write {| b_ver := BV1; b_primary := None; b_manifest := None; b_sigs := None;
             b_exchanges := []; b_taint := false |} = Err /\
  (* status out of range; ':'-prefixed name; non-ASCII value; URL with fragment *)
  b_write (with_x ex_b2 [{| bx_url := s2b "u"; bx_status := 1000; bx_hdr := []; bx_body := [] |}]) = Err /\
  b_write (with_x ex_b2 [{| bx_url := s2b "u"; bx_status := 200; bx_hdr := [hd1 ":a" "1"]; bx_body := [] |}]) = Err /\
  b_write (with_x ex_b2 [{| bx_url := s2b "u"; bx_status := 200; bx_hdr := [(s2b "a", [[233]])]; bx_body := [] |}]) = Err /\
  b_write (with_x ex_b2 [{| bx_url := s2b "u#f"; bx_status := 200; bx_hdr := []; bx_body := [] |}]) = Err /\
  (* b2 primary URL not absolute *)
  b_write {| b_ver := BV2; b_primary := Some (s2b "/relative"); b_manifest := None; b_sigs := None;
             b_exchanges := []; b_taint := false |} = Err /\
  (* a URL that is not valid UTF-8 *)
  b_write (with_x ex_b2 [{| bx_url := [255]; bx_status := 200; bx_hdr := []; bx_body := [] |}]) = Err /\
  (* a b1 primary URL that does not parse *)
  b_write {| b_ver := BV1; b_primary := Some (s2b "%zz"); b_manifest := None; b_sigs := None;
             b_exchanges := []; b_taint := false |} = Err /\
  b_write {| b_ver := BV2; b_primary := Some [255]; b_manifest := None; b_sigs := None;
             b_exchanges := []; b_taint := false |} = Err.
Proof. vm_compute. repeat split. Qed.

(* (The former model/Go discrepancy - a non-UTF-8 URL with bad Variants coverage: Go
   error, model panic - has disappeared: both refuse the URL in checkURL first.) *)
Example ex_non_utf8_url_err :
  b_write {| b_ver := BV1; b_primary := Some (s2b "https://example.com/"); b_manifest := None;
             b_sigs := None;
             b_exchanges := [ {| bx_url := [97; 58; 255]; bx_status := 200; bx_hdr := []; bx_body := [120] |};
                              {| bx_url := [97; 58; 255]; bx_status := 200; bx_hdr := []; bx_body := [120] |} ];
             b_taint := false |} = Err.
Proof. vm_compute. reflexivity. Qed.

(* a destination failing after 20 bytes, fed the bundle in 7-byte chunks *)
Fixpoint chunks (fuel : nat) (k : N) (bs : bytes) : list bytes :=
  match fuel with
  | O => [bs]
  | S f => match splitN bs k with Some (a, r) => a :: chunks f k r | None => [bs] end
  end.
Example ex_count :
  match b_write ex_b2 with
  | Ok bs =>
      let cs := chunks 100 7 bs in
      (bytes_eqb (List.concat cs) bs,
       let '(d, n, ok) := run_writes cs {| d_acc := []; d_budget := Some 20; d_mode := ErrOnly |} 0 in
       (lenN (d_acc d), n, ok),
       let '(d, n, ok) := run_writes cs {| d_acc := []; d_budget := Some 20; d_mode := ShortThenErr |} 0 in
       (lenN (d_acc d), n, ok),
       let '(d, n, ok) := run_writes cs {| d_acc := []; d_budget := None; d_mode := ErrOnly |} 0 in
       (n =? lenN bs, bytes_eqb (d_acc d) bs, ok))
  | _ => (false, (0, 0, false), (0, 0, false), (false, false, false))
  end = (true, (14, 14, false), (20, 20, false), (true, true, true)).
Proof. vm_compute. reflexivity. Qed.
