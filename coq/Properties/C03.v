(* C03 - Web bundle write -> read round trip preserves every exchange.

   "Reading back any bundle the writer produced yields the same format version,
   primary URL, manifest URL and signatures section and, for every URL, the same
   status, header fields (names case-folded, repeated values comma-joined) and
   body bytes - nothing dropped, duplicated or attributed to another URL; for b1
   variant sets the representations come back in row-major order of the Variants
   axes, and incomplete or overlapping variant coverage is refused at write time.
   Re-serializing what was read and reading it again reaches a byte-identical
   fixpoint."  (the fixpoint is claimed for bundles without multi-key
   Variant-Key entries)

   Statements only; proofs live in Proofs/Variants.v, Proofs/BundleRoundtripRows.v and
   Proofs/BundleRoundtrip*.v.  Model = Model/Bundle.v (b_write = Bundle.WriteTo,
   b_read = bundle.Read, x509.ParseCertificate a parameter x509_ok).

   writable b  (boolean): status 100..999; header names non-empty RFC 7230 tokens,
     pairwise distinct after lower-casing; header values ASCII; exchange URLs
     decided by the url.Parse model with no fragment / userinfo and valid UTF-8;
     primary URL: b1 present and decided, b2 optional and absolute; manifest only
     in b1, absolute; authorities accepted by x509_ok, Authority a uint64; not
     tainted.
   norm b : what the reader returns - same version / primary / manifest /
     signatures; exchanges in index order (ascending encoded URL), per URL either
     the single exchange or (b1) one exchange per possible Variant-Key in
     row-major order; header names canonicalised (CanonicalMIMEHeaderKey of the
     lower-cased name), one comma-joined value each, ordered by encoded
     lower-case name.
   lenN bs < 2^63: a Go slice / int. *)
From Coq Require Import Lia Permutation Sorted.
From WP Require Import Base.Prelude Base.Decimal Model.Cbor Model.Http Model.UrlRef Model.Variants
  Model.CertChain Model.Bundle.
From WP Require Import Spec.Cbor Spec.Bundle.
From WP Require Import Proofs.BaseLemmas Proofs.Variants Proofs.BundleWriteBasics Proofs.BundleWriteForm
  Proofs.BundleWriteWF Proofs.BundleWriteCases Proofs.BundleRoundtripRows Proofs.BundleRoundtripResp
  Proofs.BundleRoundtripMeta Proofs.BundleRoundtripRead Proofs.BundleRoundtripSig
  Proofs.BundleRoundtrip Proofs.BundleRoundtripNorm Proofs.BundleRoundtripIdem.
Open Scope N_scope.

(* ======================= Variants: row-major numbering ============================ *)
(* axes with pairwise distinct values: index -> key -> index *)
Theorem variants_row_major : forall v n i,
  Forall axis_nodup v -> num_possible_keys v = Ok n -> i < n ->
  exists k, possible_key_at v i = Some k /\ index_in_possible_keys v k = Some i.
Proof. exact Variants.variants_row_major. Qed.
Print Assumptions variants_row_major.

(* key -> index -> key, no distinctness needed *)
Theorem variants_row_major_inv : forall v n i k,
  num_possible_keys v = Ok n -> index_in_possible_keys v k = Some i ->
  i < n /\ possible_key_at v i = Some k.
Proof. exact Variants.variants_row_major_inv. Qed.
Print Assumptions variants_row_major_inv.

(* the precise statement when an axis lists a value twice: looking up the i-th
   key finds the index i' <= i of the same key built from first occurrences *)
Theorem key_to_index : forall v n i,
  num_possible_keys v = Ok n -> i < n ->
  exists k i',
    possible_key_at v i = Some k /\ index_in_possible_keys v k = Some i' /\ i' <= i /\
    possible_key_at v i' = Some k /\ (Forall axis_nodup v -> i' = i).
Proof. exact Variants.key_to_index. Qed.
Print Assumptions key_to_index.

(* "row-major": appending an axis multiplies the index by its size and adds the
   position on that axis - the last axis varies fastest *)
Theorem row_major_step : forall v vals k x i j,
  List.length k = List.length v ->
  index_in_possible_keys v k = Some i -> index_of x (tl vals) 0 = Some j ->
  index_in_possible_keys (v ++ [vals]) (k ++ [x]) = Some (i * lenN (tl vals) + j).
Proof. exact Variants.row_major_step. Qed.
Print Assumptions row_major_step.

Theorem num_possible_keys_spec : forall v n,
  num_possible_keys v = Ok n -> n = prodN v /\ Forall axis_ok v /\ 1 <= n <= max_variants.
Proof. exact Variants.npk_spec. Qed.
Print Assumptions num_possible_keys_spec.

(* entriesInPossibleKeyOrder: l has exactly n elements, l[i] is the entry one of
   whose Variant-Keys has index i, every index is covered exactly once, all
   entries carry the Variants value of the first *)
Theorem entries_order_spec : forall (A : Type) (es : list (bytes * bytes * A)) (l : list A),
  entries_in_possible_key_order es = Ok l ->
  exists v0 vk0 x0 t v n,
    es = (v0, vk0, x0) :: t /\ v0 <> [] /\
    Forall (fun e => fst (fst e) = v0) es /\
    parse_list_of_string_lists v0 = Ok v /\ num_possible_keys v = Ok n /\
    Covers v n es l.
Proof. exact @Variants.entries_order_spec. Qed.
Print Assumptions entries_order_spec.

Theorem entries_order_complete : forall (A : Type) v0 vk0 (x0 : A) t v n pl,
  let es := (v0, vk0, x0) :: t in
  v0 <> [] -> Forall (fun e => fst (fst e) = v0) es ->
  parse_list_of_string_lists v0 = Ok v -> num_possible_keys v = Ok n ->
  placements v es = Some pl -> NoDup (map fst pl) ->
  (forall i, In i (map fst pl) <-> i < n) ->
  exists l, entries_in_possible_key_order es = Ok l.
Proof. exact @Variants.entries_order_complete. Qed.
Print Assumptions entries_order_complete.

Theorem entries_overlap_refused : forall (A : Type) (es : list (bytes * bytes * A)) v v0 pl,
  hd_error (map (fun e => fst (fst e)) es) = Some v0 ->
  parse_list_of_string_lists v0 = Ok v ->
  placements v es = Some pl -> ~ NoDup (map fst pl) ->
  entries_in_possible_key_order es = Err.
Proof. exact @Variants.overlap_refused. Qed.
Print Assumptions entries_overlap_refused.

Theorem entries_incomplete_refused : forall (A : Type) (es : list (bytes * bytes * A)) v v0 n i pl,
  hd_error (map (fun e => fst (fst e)) es) = Some v0 ->
  parse_list_of_string_lists v0 = Ok v -> num_possible_keys v = Ok n ->
  placements v es = Some pl -> i < n -> ~ In i (map fst pl) ->
  entries_in_possible_key_order es = Err.
Proof. exact @Variants.incomplete_refused. Qed.
Print Assumptions entries_incomplete_refused.

Theorem entries_uncovered_refused : forall (A : Type) (es : list (bytes * bytes * A)) v v0,
  hd_error (map (fun e => fst (fst e)) es) = Some v0 ->
  parse_list_of_string_lists v0 = Ok v ->
  (placements v es = None \/ ~ Forall (fun e => fst (fst e) = v0) es) ->
  entries_in_possible_key_order es = Err.
Proof. exact @Variants.uncovered_refused. Qed.
Print Assumptions entries_uncovered_refused.

(* with one Variant-Key per entry the result is a rearrangement of the entries *)
Theorem entries_order_perm : forall (A : Type) (es : list (bytes * bytes * A)) (l : list A),
  entries_in_possible_key_order es = Ok l -> single_keyed es -> Permutation l (map snd es).
Proof. exact @Variants.entries_order_perm. Qed.
Print Assumptions entries_order_perm.

(* every entry appears in the result (it carries at least one Variant-Key) *)
Theorem entries_order_all_placed : forall (A : Type) (es : list (bytes * bytes * A)) (l : list A),
  entries_in_possible_key_order es = Ok l ->
  forall vv vk x, In (vv, vk, x) es -> In x l.
Proof. exact @Variants.entries_order_all_placed. Qed.
Print Assumptions entries_order_all_placed.

(* ======================= one exchange ================================================ *)
Theorem load_response_item : forall x,
  xwritable x = true -> lenN (item_of x) < two63 ->
  load_response (item_of x) = Ok (bx_status x, norm_hdr (bx_status x) (bx_hdr x), bx_body x).
Proof. exact BundleRoundtripResp.load_response_item. Qed.
Print Assumptions load_response_item.

(* ======================= the round trip ============================================== *)
Theorem bundle_roundtrip : forall x509_ok b bs,
  writable x509_ok b = true -> b_write b = Ok bs -> lenN bs < two63 ->
  b_read x509_ok bs = Ok (norm b).
Proof. exact BundleRoundtripNorm.bundle_roundtrip. Qed.
Print Assumptions bundle_roundtrip.

(* every URL once: the exchanges come back sorted by encoded URL *)
Theorem bundle_roundtrip_single : forall x509_ok b bs,
  writable x509_ok b = true -> single_urls b -> b_write b = Ok bs -> lenN bs < two63 ->
  exists b', b_read x509_ok bs = Ok b' /\
    b_ver b' = b_ver b /\ b_primary b' = b_primary b /\ b_manifest b' = b_manifest b /\
    b_sigs b' = b_sigs b /\ b_taint b' = false /\
    b_exchanges b' = map xnorm (isort x_ltb (b_exchanges b)).
Proof. exact BundleRoundtripNorm.bundle_roundtrip_single. Qed.
Print Assumptions bundle_roundtrip_single.

Theorem norm_single : forall b, single_urls b -> urls_utf8 b ->
  b_exchanges (norm b) = map xnorm (isort x_ltb (b_exchanges b)).
Proof. exact BundleRoundtripNorm.norm_single. Qed.
Print Assumptions norm_single.

(* nothing dropped, duplicated or attributed to another URL *)
Theorem nothing_lost_single : forall b, single_urls b -> urls_utf8 b ->
  Permutation (map xnorm (b_exchanges b)) (b_exchanges (norm b)).
Proof. exact BundleRoundtripNorm.nothing_lost_single. Qed.
Print Assumptions nothing_lost_single.

(* the same with b1 variant sets, when every exchange carries exactly one Variant-Key
   (a multi-key entry is deliberately repeated by the reader) *)
Theorem nothing_lost : forall b bs,
  b_write b = Ok bs -> single_keys b ->
  Permutation (map xnorm (b_exchanges b)) (b_exchanges (norm b)).
Proof. exact BundleRoundtripNorm.nothing_lost. Qed.
Print Assumptions nothing_lost.

(* the rows of norm b are the g_row of each URL group: for a b1 URL with several
   exchanges entriesInPossibleKeyOrder of the group (row-major by entries_order_spec) *)
Theorem norm_rows_spec : forall b bs,
  b_write b = Ok bs ->
  exists rows,
    g_rows hv_variants hv_vkey (b_ver b) (g_groups bx_url (b_exchanges b)) = Ok rows /\
    b_exchanges (norm b) = flat_map (fun r => map xnorm (snd r)) (isort row_ltb rows) /\
    Forall2 (fun g r => g_row hv_variants hv_vkey (b_ver b) g = Ok r)
            (g_groups bx_url (b_exchanges b)) rows.
Proof. exact BundleRoundtripNorm.norm_rows_spec. Qed.
Print Assumptions norm_rows_spec.

(* ======================= refusal at write time ======================================= *)
Theorem variants_refused : forall b u es,
  b_ver b = BV1 -> headers_ok b = true -> urls_utf8 b ->
  In (u, es) (groups_of (ients_of b)) -> (2 <= List.length es)%nat ->
  entries_in_possible_key_order (ventries es) = Err ->
  b_write b = Err.
Proof. exact (BundleRoundtripNorm.variants_refused (fun _ => true)). Qed.
Print Assumptions variants_refused.

Theorem incomplete_or_overlapping_refused : forall b u es v0 v n pl,
  b_ver b = BV1 -> headers_ok b = true -> urls_utf8 b ->
  In (u, es) (groups_of (ients_of b)) -> (2 <= List.length es)%nat ->
  hd_error (map ie_variants es) = Some v0 ->
  parse_list_of_string_lists v0 = Ok v -> num_possible_keys v = Ok n ->
  placements v (ventries es) = Some pl ->
  (~ NoDup (map fst pl) \/ exists i, i < n /\ ~ In i (map fst pl)) ->
  b_write b = Err.
Proof. exact (BundleRoundtripNorm.incomplete_or_overlapping_refused (fun _ => true)). Qed.
Print Assumptions incomplete_or_overlapping_refused.

(* ======================= idempotence and the fixpoint ================================= *)
Theorem xnorm_idempotent : forall x, xwritable x = true -> xnorm (xnorm x) = xnorm x.
Proof. exact BundleRoundtripIdem.xnorm_idem. Qed.
Print Assumptions xnorm_idempotent.

Theorem xnorm_writable : forall x, xwritable x = true -> xwritable (xnorm x) = true.
Proof. exact BundleRoundtripIdem.xnorm_writable. Qed.
Print Assumptions xnorm_writable.

Theorem norm_idempotent_single : forall x509_ok b,
  writable x509_ok b = true -> single_urls b -> norm (norm b) = norm b.
Proof. exact BundleRoundtripIdem.norm_idempotent_single. Qed.
Print Assumptions norm_idempotent_single.

Theorem writable_norm_single : forall x509_ok b,
  writable x509_ok b = true -> single_urls b -> writable x509_ok (norm b) = true.
Proof. exact BundleRoundtripIdem.writable_norm_single. Qed.
Print Assumptions writable_norm_single.

Theorem fixpoint_single : forall x509_ok b bs bs2,
  writable x509_ok b = true -> single_urls b ->
  b_write b = Ok bs -> lenN bs < two63 ->
  b_write (norm b) = Ok bs2 -> lenN bs2 < two63 ->
  b_read x509_ok bs = Ok (norm b) /\ b_read x509_ok bs2 = Ok (norm b).
Proof. exact BundleRoundtripIdem.fixpoint_single. Qed.
Print Assumptions fixpoint_single.

(* every further write/read cycle reproduces (bs2, norm b) *)
Theorem cycle_fixpoint : forall x509_ok b bs bs2 n,
  writable x509_ok b = true -> single_urls b ->
  b_write b = Ok bs -> lenN bs < two63 -> b_write (norm b) = Ok bs2 -> lenN bs2 < two63 ->
  cycle x509_ok b = Some (bs, norm b) /\
  Nat.iter n (fun st => match st with Some (_, c) => cycle x509_ok c | None => None end)
           (cycle x509_ok (norm b))
  = Some (bs2, norm b).
Proof. exact BundleRoundtripIdem.cycle_fixpoint. Qed.
Print Assumptions cycle_fixpoint.

(* PARTIAL.  Full statement (b1 variant sets without multi-key Variant-Key entries):
     writable b = true -> no_multi_key b -> b_write b = Ok bs -> ... ->
     norm (norm b) = norm b /\ writable (norm b) = true /\ b_read bs2 = Ok (norm b).
   Proved here with the first two conjuncts as hypotheses (they are discharged by
   computation in the examples below; for every-URL-once bundles they are
   norm_idempotent_single / writable_norm_single).  Missing: that
   entriesInPossibleKeyOrder of an already row-major single-key group is the
   identity, and that hv_variants / hv_vkey survive xnorm for the members of such
   a group. *)
Theorem fixpoint_partial : forall x509_ok b bs2,
  writable x509_ok (norm b) = true -> norm (norm b) = norm b ->
  b_write (norm b) = Ok bs2 -> lenN bs2 < two63 ->
  b_read x509_ok bs2 = Ok (norm b).
Proof.
  intros x509_ok b bs2 W I H L.
  replace (Ok (norm b)) with (Ok (norm (norm b))) by (rewrite I; reflexivity).
  apply BundleRoundtripNorm.bundle_roundtrip; assumption.
Qed.
Print Assumptions fixpoint_partial.

(* ==== examples ========================================================================== *)
Definition all_ok (_ : bytes) : bool := true.
Definition hd1 (k v : string) : bytes * list bytes := (s2b k, [s2b v]).
Definition ex_vv : string := "Accept-Language;en;fr, Accept-Encoding;gzip;br".
Definition vx (u vk body : string) : bexchange :=
  {| bx_url := s2b u; bx_status := 200;
     bx_hdr := [hd1 "Variants" ex_vv; hd1 "Variant-Key" vk; (s2b "X-Multi", [s2b "a"; s2b "b"])];
     bx_body := s2b body |}.
(* b1: 2x2 variant grid supplied in shuffled order, a second URL in between,
   manifest and signatures *)
Definition ex_b1 : bundle :=
  {| b_ver := BV1; b_primary := Some (s2b "https://example.com/");
     b_manifest := Some (s2b "https://example.com/manifest.json");
     b_sigs := Some {| sg_auth := [{| ac_cert := [1; 2; 3]; ac_ocsp := Some [4]; ac_sct := None |}];
                       sg_vouched := [{| vs_authority := 0; vs_sig := [9; 9]; vs_signed := [7] |}] |};
     b_exchanges := [ vx "https://example.com/" "fr;br" "FRBR";
                      {| bx_url := s2b "https://example.com/style.css"; bx_status := 404;
                         bx_hdr := [hd1 "Content-Type" "text/css"]; bx_body := [] |};
                      vx "https://example.com/" "en;gzip" "ENGZ";
                      vx "https://example.com/" "fr;gzip" "FRGZ";
                      vx "https://example.com/" "en;br" "ENBR" ];
     b_taint := false |}.
(* b2: three URLs whose insertion order differs from key order *)
Definition ex_b2 : bundle :=
  {| b_ver := BV2; b_primary := Some (s2b "https://example.com/zz"); b_manifest := None; b_sigs := None;
     b_exchanges := [ {| bx_url := s2b "https://example.com/zz"; bx_status := 200;
                         bx_hdr := [hd1 "Content-Type" "text/html"; hd1 "a" "1"]; bx_body := s2b "<p>" |};
                      {| bx_url := s2b "https://example.com/a/long/path"; bx_status := 301;
                         bx_hdr := [hd1 "Location" "/zz"]; bx_body := [] |};
                      {| bx_url := s2b "b"; bx_status := 999; bx_hdr := []; bx_body := [0; 255] |} ];
     b_taint := false |}.

Example ex_writable : writable all_ok ex_b1 = true /\ writable all_ok ex_b2 = true /\ single_urls ex_b2.
Proof.
  split; [vm_compute; reflexivity|]. split; [vm_compute; reflexivity|].
  unfold single_urls. vm_compute. repeat constructor; cbn [In]; intuition discriminate.
Qed.

Definition rt (b : bundle) : bool :=
  match b_write b with
  | Ok bs => match b_read all_ok bs with
             | Ok b' => (lenN bs <? two63) &&
                        bytes_eqb (List.concat (map bx_body (b_exchanges b')))
                                  (List.concat (map bx_body (b_exchanges (norm b))))
                        && (List.length (b_exchanges b') =? List.length (b_exchanges (norm b)))%nat
             | _ => false end
  | _ => false
  end.

(* the shuffled 2x2 grid comes back row-major: en;gzip en;br fr;gzip fr;br, after
   the URL sorts first; header names canonical, X-Multi comma-joined *)
Example ex_b1_roundtrip :
  match b_write ex_b1 with
  | Ok bs => match b_read all_ok bs with
             | Ok b' => Some (map (fun x => (bx_url x, bx_body x)) (b_exchanges b'),
                              map fst (bx_hdr (hd {| bx_url := []; bx_status := 0%Z; bx_hdr := []; bx_body := [] |}
                                                  (b_exchanges b'))),
                              b_primary b', b_manifest b', b_sigs b')
             | _ => None end
  | _ => None
  end
  = Some ([(s2b "https://example.com/", s2b "ENGZ"); (s2b "https://example.com/", s2b "ENBR");
           (s2b "https://example.com/", s2b "FRGZ"); (s2b "https://example.com/", s2b "FRBR");
           (s2b "https://example.com/style.css", [])],
          [s2b "X-Multi"; s2b "Variants"; s2b "Variant-Key"],
          b_primary ex_b1, b_manifest ex_b1, b_sigs ex_b1).
Proof. vm_compute. reflexivity. Qed.

Example ex_b2_roundtrip :
  match b_write ex_b2 with
  | Ok bs => match b_read all_ok bs with
             | Ok b' => map (fun x => (bx_url x, bx_status x, bx_hdr x, bx_body x)) (b_exchanges b')
             | _ => [] end
  | _ => []
  end
  = [(s2b "b", 999%Z, [], [0; 255]);
     (s2b "https://example.com/zz", 200%Z, [(s2b "A", [s2b "1"]); (s2b "Content-Type", [s2b "text/html"])], s2b "<p>");
     (s2b "https://example.com/a/long/path", 301%Z, [(s2b "Location", [s2b "/zz"])], [])].
Proof. vm_compute. reflexivity. Qed.

(* the theorem's instance, checked by computation as well *)
Example ex_read_is_norm :
  (match b_write ex_b1 with Ok bs => b_read all_ok bs | _ => Err end) = Ok (norm ex_b1) /\
  (match b_write ex_b2 with Ok bs => b_read all_ok bs | _ => Err end) = Ok (norm ex_b2).
Proof. split; vm_compute; reflexivity. Qed.

(* the cycle: the first write differs from the second (order of exchanges), from
   the second on the bytes are identical - also for the b1 variant set *)
Definition write_of (b : bundle) : bytes := match b_write b with Ok bs => bs | _ => [] end.
Definition read_of (bs : bytes) : bundle := match b_read all_ok bs with Ok b => b | _ => ex_b2 end.
Example ex_cycle :
  let w1 := write_of ex_b1 in let r1 := read_of w1 in
  let w2 := write_of r1 in let r2 := read_of w2 in
  let w3 := write_of r2 in let r3 := read_of w3 in
  (bytes_eqb w1 w2, bytes_eqb w2 w3, lenN w2 =? 0) = (false, true, false) /\
  r1 = norm ex_b1 /\ r2 = r1 /\ r3 = r1 /\
  writable all_ok (norm ex_b1) = true /\ norm (norm ex_b1) = norm ex_b1.
Proof. vm_compute. repeat split. Qed.
Example ex_cycle_b2 :
  let w1 := write_of ex_b2 in let r1 := read_of w1 in
  let w2 := write_of r1 in let w3 := write_of (read_of w2) in
  (bytes_eqb w1 w2, bytes_eqb w2 w3) = (false, true).
Proof. vm_compute. reflexivity. Qed.

(* a multi-key Variant-Key entry is flattened by the reader into repeated exchanges;
   writing that again is refused (overlap) - the reason the fixpoint excludes them *)
Definition ex_multi : bundle :=
  {| b_ver := BV1; b_primary := Some (s2b "https://example.com/"); b_manifest := None; b_sigs := None;
     b_exchanges := [ vx "https://example.com/" "en;gzip, fr;gzip" "GZ";
                      vx "https://example.com/" "en;br" "ENBR"; vx "https://example.com/" "fr;br" "FRBR" ];
     b_taint := false |}.
Example ex_multi_key :
  writable all_ok ex_multi = true /\
  map bx_body (b_exchanges (read_of (write_of ex_multi))) = [s2b "GZ"; s2b "ENBR"; s2b "GZ"; s2b "FRBR"] /\
  b_write (read_of (write_of ex_multi)) = Err.
Proof. vm_compute. repeat split. Qed.

(* the side conditions of writable are needed: a status outside 100..999 is written
   but not read back; two names equal after folding are refused by the writer *)
Example ex_status_needed :
  let b := {| b_ver := BV2; b_primary := None; b_manifest := None; b_sigs := None;
              b_exchanges := [{| bx_url := s2b "https://e.com/"; bx_status := 1000; bx_hdr := []; bx_body := [] |}];
              b_taint := false |} in
  b_read all_ok (write_of b) = Err /\ writable all_ok b = false.
Proof. vm_compute. split; reflexivity. Qed.

(* refusals *)
Example ex_refused :
  b_write {| b_ver := BV1; b_primary := Some (s2b "https://example.com/"); b_manifest := None; b_sigs := None;
             b_exchanges := [vx "u" "en;br" "1"; vx "u" "fr;br" "2"; vx "u" "en;gzip" "3"];
             b_taint := false |} = Err /\
  b_write {| b_ver := BV1; b_primary := Some (s2b "https://example.com/"); b_manifest := None; b_sigs := None;
             b_exchanges := [vx "u" "en;br" "1"; vx "u" "fr;br" "2"; vx "u" "en;gzip" "3"; vx "u" "fr;gzip" "4";
                             vx "u" "en;br" "5"];
             b_taint := false |} = Err.
Proof. vm_compute. split; reflexivity. Qed.
