(* C03 - Web bundle write -> read round trip preserves every exchange.

   "Reading back any bundle the writer produced yields the same format version,
   primary URL, manifest URL and signatures section and, for every URL, the same
   status, header fields (names case-folded, repeated values comma-joined) and
   body bytes - nothing dropped, duplicated or attributed to another URL; for b1
   variant sets the representations come back in row-major order of the Variants
   axes, and incomplete or overlapping variant coverage is refused at write time.
   Re-serializing what was read and reading it again reaches a byte-identical
   fixpoint."  (the fixpoint is claimed, and proved - fixpoint_variants,
   cycle_fixpoint_variants -, for bundles without multi-key Variant-Key entries;
   with a multi-key entry it fails: fixpoint_needs_single_keys)

   Statements only; proofs live in Proofs/Variants.v, Proofs/BundleRoundtripRows.v and
   Proofs/BundleRoundtrip*.v (the variant-set fixpoint in
   Proofs/BundleRoundtripVariants.v).  Model = Model/Bundle.v (b_write = Bundle.WriteTo,
   b_read = bundle.Read, x509.ParseCertificate a parameter x509_ok).

   The writer refuses what the reader refuses (Response.EncodeHeader: status outside
   100..999, header names starting with ':' or not ASCII, non-ASCII comma-joined
   values, names equal after lower-casing; checkURL: exchange URLs that are not UTF-8
   or have a fragment or credentials, b2 primary / manifest URL not absolute, b1
   primary URL that does not parse; b1 without primary URL).
   These are therefore CONSEQUENCES of b_write b = Ok bs (b_write_ok_status,
   b_write_ok_headers, b_write_ok_urls below) and no premises of the round trip.
   residual b (boolean) is what the writer does not check and the round trip needs:
     - negb (b_write_taint b): the URLs the writer tested (exchange URLs, primary,
       manifest) are decided by the url.Parse model (a restriction of the model,
       not of the Go code);
     - signatures: authorities accepted by x509_ok (ESSENTIAL, residual_needs_x509),
       Authority a uint64 (the Go type).
   (The b1 primary URL in the header must parse; the writer tests that too now:
   b_write_ok_b1_primary, ex_b1_bad_primary_refused.)
   Header names need NOT be RFC 7230 tokens (they may even be empty): the reader
   only asks for ASCII, lower case, no leading ':' and distinct canonical keys.
   norm b : what the reader returns - same version / primary / manifest /
     signatures; exchanges in index order (ascending encoded URL), per URL either
     the single exchange or (b1) one exchange per possible Variant-Key in
     row-major order; header names canonicalised (CanonicalMIMEHeaderKey of the
     lower-cased name), one comma-joined value each, ordered by encoded
     lower-case name.
   lenN bs < 2^63: a Go slice / int. *)
From Coq Require Import Lia Permutation Sorted.
From WP Require Import Base.Prelude Base.Decimal Model.Cbor Model.Http Model.UrlRef Model.Variants
  Model.CertChain Model.Bundle.
From WP Require Import Spec.Cbor Spec.Bundle.
From WP Require Import Proofs.BaseLemmas Proofs.Variants Proofs.BundleWriteBasics Proofs.BundleWriteForm
  Proofs.BundleWriteWF Proofs.BundleWriteCases Proofs.BundleRoundtripRows Proofs.BundleRoundtripResp
  Proofs.BundleWriteOk Proofs.BundleRoundtripMeta Proofs.BundleRoundtripRead Proofs.BundleRoundtripSig
  Proofs.BundleRoundtrip Proofs.BundleRoundtripNorm Proofs.BundleRoundtripIdem
  Proofs.BundleRoundtripVariants.
Open Scope N_scope.

(* ======================= Variants: row-major numbering ============================ *)
(* axes with pairwise distinct values: index -> key -> index *)
Theorem variants_row_major : forall v n i,
  Forall axis_nodup v -> num_possible_keys v = Ok n -> i < n ->
  exists k, possible_key_at v i = Some k /\ index_in_possible_keys v k = Some i.
Proof. exact Variants.variants_row_major. Qed.
Print Assumptions variants_row_major.

(* key -> index -> key, no distinctness needed *)
Theorem variants_row_major_inv : forall v n i k,
  num_possible_keys v = Ok n -> index_in_possible_keys v k = Some i ->
  i < n /\ possible_key_at v i = Some k.
Proof. exact Variants.variants_row_major_inv. Qed.
Print Assumptions variants_row_major_inv.

(* the precise statement when an axis lists a value twice: looking up the i-th
   key finds the index i' <= i of the same key built from first occurrences *)
Theorem key_to_index : forall v n i,
  num_possible_keys v = Ok n -> i < n ->
  exists k i',
    possible_key_at v i = Some k /\ index_in_possible_keys v k = Some i' /\ i' <= i /\
    possible_key_at v i' = Some k /\ (Forall axis_nodup v -> i' = i).
Proof. exact Variants.key_to_index. Qed.
Print Assumptions key_to_index.

(* "row-major": appending an axis multiplies the index by its size and adds the
   position on that axis - the last axis varies fastest *)
Theorem row_major_step : forall v vals k x i j,
  List.length k = List.length v ->
  index_in_possible_keys v k = Some i -> index_of x (tl vals) 0 = Some j ->
  index_in_possible_keys (v ++ [vals]) (k ++ [x]) = Some (i * lenN (tl vals) + j).
Proof. exact Variants.row_major_step. Qed.
Print Assumptions row_major_step.

Theorem num_possible_keys_spec : forall v n,
  num_possible_keys v = Ok n -> n = prodN v /\ Forall axis_ok v /\ 1 <= n <= max_variants.
Proof. exact Variants.npk_spec. Qed.
Print Assumptions num_possible_keys_spec.

(* entriesInPossibleKeyOrder: l has exactly n elements, l[i] is the entry one of
   whose Variant-Keys has index i, every index is covered exactly once, all
   entries carry the Variants value of the first *)
Theorem entries_order_spec : forall (A : Type) (es : list (bytes * bytes * A)) (l : list A),
  entries_in_possible_key_order es = Ok l ->
  exists v0 vk0 x0 t v n,
    es = (v0, vk0, x0) :: t /\ v0 <> [] /\
    Forall (fun e => fst (fst e) = v0) es /\
    parse_list_of_string_lists v0 = Ok v /\ num_possible_keys v = Ok n /\
    Covers v n es l.
Proof. exact @Variants.entries_order_spec. Qed.
Print Assumptions entries_order_spec.

Theorem entries_order_complete : forall (A : Type) v0 vk0 (x0 : A) t v n pl,
  let es := (v0, vk0, x0) :: t in
  v0 <> [] -> Forall (fun e => fst (fst e) = v0) es ->
  parse_list_of_string_lists v0 = Ok v -> num_possible_keys v = Ok n ->
  placements v es = Some pl -> NoDup (map fst pl) ->
  (forall i, In i (map fst pl) <-> i < n) ->
  exists l, entries_in_possible_key_order es = Ok l.
Proof. exact @Variants.entries_order_complete. Qed.
Print Assumptions entries_order_complete.

Theorem entries_overlap_refused : forall (A : Type) (es : list (bytes * bytes * A)) v v0 pl,
  hd_error (map (fun e => fst (fst e)) es) = Some v0 ->
  parse_list_of_string_lists v0 = Ok v ->
  placements v es = Some pl -> ~ NoDup (map fst pl) ->
  entries_in_possible_key_order es = Err.
Proof. exact @Variants.overlap_refused. Qed.
Print Assumptions entries_overlap_refused.

Theorem entries_incomplete_refused : forall (A : Type) (es : list (bytes * bytes * A)) v v0 n i pl,
  hd_error (map (fun e => fst (fst e)) es) = Some v0 ->
  parse_list_of_string_lists v0 = Ok v -> num_possible_keys v = Ok n ->
  placements v es = Some pl -> i < n -> ~ In i (map fst pl) ->
  entries_in_possible_key_order es = Err.
Proof. exact @Variants.incomplete_refused. Qed.
Print Assumptions entries_incomplete_refused.

Theorem entries_uncovered_refused : forall (A : Type) (es : list (bytes * bytes * A)) v v0,
  hd_error (map (fun e => fst (fst e)) es) = Some v0 ->
  parse_list_of_string_lists v0 = Ok v ->
  (placements v es = None \/ ~ Forall (fun e => fst (fst e) = v0) es) ->
  entries_in_possible_key_order es = Err.
Proof. exact @Variants.uncovered_refused. Qed.
Print Assumptions entries_uncovered_refused.

(* with one Variant-Key per entry the result is a rearrangement of the entries *)
Theorem entries_order_perm : forall (A : Type) (es : list (bytes * bytes * A)) (l : list A),
  entries_in_possible_key_order es = Ok l -> single_keyed es -> Permutation l (map snd es).
Proof. exact @Variants.entries_order_perm. Qed.
Print Assumptions entries_order_perm.

(* every entry appears in the result (it carries at least one Variant-Key) *)
Theorem entries_order_all_placed : forall (A : Type) (es : list (bytes * bytes * A)) (l : list A),
  entries_in_possible_key_order es = Ok l ->
  forall vv vk x, In (vv, vk, x) es -> In x l.
Proof. exact @Variants.entries_order_all_placed. Qed.
Print Assumptions entries_order_all_placed.

(* ======================= one exchange ================================================ *)
Theorem load_response_item : forall x,
  xwritable x = true -> lenN (item_of x) < two63 ->
  load_response (item_of x) = Ok (bx_status x, norm_hdr (bx_status x) (bx_hdr x), bx_body x).
Proof. exact BundleRoundtripResp.load_response_item. Qed.
Print Assumptions load_response_item.

(* ======================= what a successful write implies ============================= *)
(* Response.EncodeHeader succeeds exactly when the reader can load the item *)
Theorem encode_header_ok_iff : forall st h,
  (exists hc, encode_response_header st h = Ok hc) <->
  (100 <= st <= 999)%Z /\ forallb hdr_writable_b h = true
  /\ NoDup (status_name :: map (fun nv => lower (fst nv)) h).
Proof. exact BundleWriteOk.erh_ok_iff. Qed.
Print Assumptions encode_header_ok_iff.

Theorem b_write_ok_status : forall b bs,
  b_write b = Ok bs -> Forall (fun x => (100 <= bx_status x <= 999)%Z) (b_exchanges b).
Proof. exact BundleWriteOk.b_write_ok_status. Qed.
Print Assumptions b_write_ok_status.

Theorem b_write_ok_headers : forall b bs,
  b_write b = Ok bs ->
  Forall (fun x =>
            Forall (fun nv => (match fst nv with 58 :: _ => False | _ => True end)
                              /\ is_ascii_b (fst nv) = true
                              /\ is_ascii_b (join_comma (snd nv)) = true) (bx_hdr x)
            /\ NoDup (map (fun nv => lower (fst nv)) (bx_hdr x))) (b_exchanges b).
Proof. exact BundleWriteOk.b_write_ok_headers. Qed.
Print Assumptions b_write_ok_headers.

Theorem b_write_ok_xwritable : forall b bs,
  b_write b = Ok bs -> Forall (fun x => xwritable x = true) (b_exchanges b).
Proof. exact BundleWriteOk.b_write_ok_xwritable. Qed.
Print Assumptions b_write_ok_xwritable.

Theorem b_write_ok_urls : forall b bs,
  b_write b = Ok bs ->
  Forall (fun x => fst (index_url_ok (bx_url x)) = true /\ utf8_valid (bx_url x) = true) (b_exchanges b)
  /\ (match b_ver b, b_primary b with
      | BV1, None => False
      | BV1, Some u => fst (any_url_ok u) = true /\ utf8_valid u = true
      | BV2, Some u => fst (abs_url_ok u) = true /\ utf8_valid u = true
      | BV2, None => True end)
  /\ (match b_manifest b with
      | Some u => b_ver b = BV1 /\ fst (abs_url_ok u) = true /\ utf8_valid u = true
      | None => True end).
Proof. exact BundleWriteOk.b_write_ok_urls. Qed.
Print Assumptions b_write_ok_urls.

Theorem b_write_ok_b1_primary : forall b bs,
  b_write b = Ok bs -> b_ver b = BV1 ->
  exists u, b_primary b = Some u /\ fst (any_url_ok u) = true /\ utf8_valid u = true.
Proof. exact BundleWriteOk.b_write_ok_b1_primary. Qed.
Print Assumptions b_write_ok_b1_primary.

(* ======================= the round trip ============================================== *)
Theorem bundle_roundtrip : forall x509_ok b bs,
  b_write b = Ok bs -> lenN bs < two63 -> residual x509_ok b = true ->
  b_read x509_ok bs = Ok (norm b).
Proof. exact BundleRoundtripNorm.bundle_roundtrip. Qed.
Print Assumptions bundle_roundtrip.

(* every URL once: the exchanges come back sorted by encoded URL *)
Theorem bundle_roundtrip_single : forall x509_ok b bs,
  b_write b = Ok bs -> lenN bs < two63 -> residual x509_ok b = true -> single_urls b ->
  exists b', b_read x509_ok bs = Ok b' /\
    b_ver b' = b_ver b /\ b_primary b' = b_primary b /\ b_manifest b' = b_manifest b /\
    b_sigs b' = b_sigs b /\ b_taint b' = false /\
    b_exchanges b' = map xnorm (isort x_ltb (b_exchanges b)).
Proof. exact BundleRoundtripNorm.bundle_roundtrip_single. Qed.
Print Assumptions bundle_roundtrip_single.

Theorem norm_single : forall b, single_urls b -> urls_utf8 b ->
  b_exchanges (norm b) = map xnorm (isort x_ltb (b_exchanges b)).
Proof. exact BundleRoundtripNorm.norm_single. Qed.
Print Assumptions norm_single.

(* nothing dropped, duplicated or attributed to another URL *)
Theorem nothing_lost_single : forall b, single_urls b -> urls_utf8 b ->
  Permutation (map xnorm (b_exchanges b)) (b_exchanges (norm b)).
Proof. exact BundleRoundtripNorm.nothing_lost_single. Qed.
Print Assumptions nothing_lost_single.

(* the same with b1 variant sets, when every exchange carries exactly one Variant-Key
   (a multi-key entry is deliberately repeated by the reader) *)
Theorem nothing_lost : forall b bs,
  b_write b = Ok bs -> single_keys b ->
  Permutation (map xnorm (b_exchanges b)) (b_exchanges (norm b)).
Proof. exact BundleRoundtripNorm.nothing_lost. Qed.
Print Assumptions nothing_lost.

(* the rows of norm b are the g_row of each URL group: for a b1 URL with several
   exchanges entriesInPossibleKeyOrder of the group (row-major by entries_order_spec) *)
Theorem norm_rows_spec : forall b bs,
  b_write b = Ok bs ->
  exists rows,
    g_rows hv_variants hv_vkey (b_ver b) (g_groups bx_url (b_exchanges b)) = Ok rows /\
    b_exchanges (norm b) = flat_map (fun r => map xnorm (snd r)) (isort row_ltb rows) /\
    Forall2 (fun g r => g_row hv_variants hv_vkey (b_ver b) g = Ok r)
            (g_groups bx_url (b_exchanges b)) rows.
Proof. exact BundleRoundtripNorm.norm_rows_spec. Qed.
Print Assumptions norm_rows_spec.

(* ======================= refusal at write time ======================================= *)
Theorem variants_refused : forall b u es,
  b_ver b = BV1 -> headers_ok b = true -> urls_utf8 b ->
  In (u, es) (groups_of (ients_of b)) -> (2 <= List.length es)%nat ->
  entries_in_possible_key_order (ventries es) = Err ->
  b_write b = Err.
Proof. exact (BundleRoundtripNorm.variants_refused (fun _ => true)). Qed.
Print Assumptions variants_refused.

Theorem incomplete_or_overlapping_refused : forall b u es v0 v n pl,
  b_ver b = BV1 -> headers_ok b = true -> urls_utf8 b ->
  In (u, es) (groups_of (ients_of b)) -> (2 <= List.length es)%nat ->
  hd_error (map ie_variants es) = Some v0 ->
  parse_list_of_string_lists v0 = Ok v -> num_possible_keys v = Ok n ->
  placements v (ventries es) = Some pl ->
  (~ NoDup (map fst pl) \/ exists i, i < n /\ ~ In i (map fst pl)) ->
  b_write b = Err.
Proof. exact (BundleRoundtripNorm.incomplete_or_overlapping_refused (fun _ => true)). Qed.
Print Assumptions incomplete_or_overlapping_refused.

(* ======================= idempotence and the fixpoint ================================= *)
Theorem xnorm_idempotent : forall x, xwritable x = true -> xnorm (xnorm x) = xnorm x.
Proof. exact BundleRoundtripIdem.xnorm_idem. Qed.
Print Assumptions xnorm_idempotent.

Theorem xnorm_writable : forall x, xwritable x = true -> xwritable (xnorm x) = true.
Proof. exact BundleRoundtripIdem.xnorm_writable. Qed.
Print Assumptions xnorm_writable.

Theorem norm_idempotent_single : forall b bs,
  b_write b = Ok bs -> single_urls b -> norm (norm b) = norm b.
Proof. exact BundleRoundtripIdem.norm_idempotent_single. Qed.
Print Assumptions norm_idempotent_single.

(* the residue is about URLs and signatures only: it survives normalisation *)
Theorem residual_norm : forall x509_ok b,
  residual x509_ok b = true -> residual x509_ok (norm b) = true.
Proof. exact BundleRoundtripNorm.residual_norm. Qed.
Print Assumptions residual_norm.

Theorem fixpoint_single : forall x509_ok b bs bs2,
  b_write b = Ok bs -> lenN bs < two63 -> residual x509_ok b = true -> single_urls b ->
  b_write (norm b) = Ok bs2 -> lenN bs2 < two63 ->
  b_read x509_ok bs = Ok (norm b) /\ b_read x509_ok bs2 = Ok (norm b).
Proof. exact BundleRoundtripIdem.fixpoint_single. Qed.
Print Assumptions fixpoint_single.

(* every further write/read cycle reproduces (bs2, norm b) *)
Theorem cycle_fixpoint : forall x509_ok b bs bs2 n,
  b_write b = Ok bs -> lenN bs < two63 -> residual x509_ok b = true -> single_urls b ->
  b_write (norm b) = Ok bs2 -> lenN bs2 < two63 ->
  cycle x509_ok b = Some (bs, norm b) /\
  Nat.iter n (fun st => match st with Some (_, c) => cycle x509_ok c | None => None end)
           (cycle x509_ok (norm b))
  = Some (bs2, norm b).
Proof. exact BundleRoundtripIdem.cycle_fixpoint. Qed.
Print Assumptions cycle_fixpoint.

(* The conditional form, kept for reference: it takes norm (norm b) = norm b and the
   second write as hypotheses.  Both are THEOREMS now for every written bundle whose
   repeated URLs carry one Variant-Key per exchange (norm_idempotent_variants,
   norm_writable_variants); the full statement is fixpoint_variants below, its
   cycle form cycle_fixpoint_variants.  (Still of use for bundles with multi-key
   entries whose normal form happens to be writable.) *)
Theorem fixpoint_partial : forall x509_ok b bs2,
  residual x509_ok b = true -> norm (norm b) = norm b ->
  b_write (norm b) = Ok bs2 -> lenN bs2 < two63 ->
  b_read x509_ok bs2 = Ok (norm b).
Proof.
  intros x509_ok b bs2 W I H L.
  replace (Ok (norm b)) with (Ok (norm (norm b))) by (rewrite I; reflexivity).
  apply BundleRoundtripNorm.bundle_roundtrip; [exact H|exact L|].
  apply BundleRoundtripNorm.residual_norm. exact W.
Qed.
Print Assumptions fixpoint_partial.

(* ======================= the fixpoint with b1 variant sets ============================ *)
(* (1) entriesInPossibleKeyOrder of an already row-major group is the identity: feed
   its result (entries with one Variant-Key each) to it again and the same list comes
   out.  vvf / vkf read the Variants / Variant-Key value off an entry. *)
Theorem entries_order_row_major_id : forall (A : Type) (vvf vkf : A -> bytes) (es l : list A),
  entries_in_possible_key_order (map (fun e => (vvf e, vkf e, e)) es) = Ok l ->
  Forall (fun e => exists k, parse_list_of_string_lists (vkf e) = Ok [k]) es ->
  entries_in_possible_key_order (map (fun e => (vvf e, vkf e, e)) l) = Ok l.
Proof. exact @BundleRoundtripVariants.eipko_row_major_id. Qed.
Print Assumptions entries_order_row_major_id.

(* (2) a Variants / Variant-Key field that Header.Get finds (non-empty joined value under
   the canonical spelling) is found with the same value after normalisation.  The
   premise is needed: ex_odd_spelling below. *)
Theorem variants_survive_xnorm : forall x,
  xwritable x = true ->
  (hv_variants x <> [] -> hv_variants (xnorm x) = hv_variants x) /\
  (hv_vkey x <> [] -> hv_vkey (xnorm x) = hv_vkey x).
Proof. exact BundleRoundtripVariants.hv_survive_xnorm. Qed.
Print Assumptions variants_survive_xnorm.

(* (1) + (2) for one URL group of a written bundle: the normalised row is its own row *)
Theorem row_of_norm_row : forall b bs g r,
  b_write b = Ok bs -> variant_keys_single b = true ->
  In g (g_groups bx_url (b_exchanges b)) -> g_row hv_variants hv_vkey (b_ver b) g = Ok r ->
  exists vv, g_row hv_variants hv_vkey (b_ver b) (fst g, map xnorm (snd r))
             = Ok (fst g, vv, map xnorm (snd r)).
Proof. exact BundleRoundtripVariants.row_of_norm_row. Qed.
Print Assumptions row_of_norm_row.

(* variant_keys_single b (boolean): every exchange whose URL occurs more than once
   carries exactly one Variant-Key.  single_keys b (every exchange does) implies it. *)
Theorem single_keys_variant : forall b, single_keys b -> variant_keys_single b = true.
Proof. exact BundleRoundtripVariants.single_keys_variant. Qed.
Print Assumptions single_keys_variant.

Theorem norm_idempotent_variants : forall b bs,
  b_write b = Ok bs -> variant_keys_single b = true -> norm (norm b) = norm b.
Proof. exact BundleRoundtripVariants.norm_idempotent_variants. Qed.
Print Assumptions norm_idempotent_variants.

(* what was read can be written again *)
Theorem norm_writable_variants : forall b bs,
  b_write b = Ok bs -> variant_keys_single b = true -> exists bs2, b_write (norm b) = Ok bs2.
Proof. exact BundleRoundtripVariants.norm_writable_variants. Qed.
Print Assumptions norm_writable_variants.

(* FULL fixpoint statement (all versions; b1 URL groups may be variant sets) *)
Theorem fixpoint_variants : forall x509_ok b bs,
  b_write b = Ok bs -> lenN bs < two63 -> residual x509_ok b = true -> single_keys b ->
  b_read x509_ok bs = Ok (norm b) /\ norm (norm b) = norm b /\
  exists bs2, b_write (norm b) = Ok bs2 /\
              (lenN bs2 < two63 -> b_read x509_ok bs2 = Ok (norm b)).
Proof. exact BundleRoundtripVariants.fixpoint_variants. Qed.
Print Assumptions fixpoint_variants.

(* the same under the weaker, boolean hypothesis (URLs occurring once need no Variant-Key) *)
Theorem fixpoint_variants_multi : forall x509_ok b bs,
  b_write b = Ok bs -> lenN bs < two63 -> residual x509_ok b = true ->
  variant_keys_single b = true ->
  b_read x509_ok bs = Ok (norm b) /\ norm (norm b) = norm b /\
  exists bs2, b_write (norm b) = Ok bs2 /\
              (lenN bs2 < two63 -> b_read x509_ok bs2 = Ok (norm b)).
Proof. exact BundleRoundtripVariants.fixpoint_variants_gen. Qed.
Print Assumptions fixpoint_variants_multi.

(* every further write/read cycle reproduces (bs2, norm b) *)
Theorem cycle_fixpoint_variants : forall x509_ok b bs,
  b_write b = Ok bs -> lenN bs < two63 -> residual x509_ok b = true ->
  variant_keys_single b = true ->
  cycle x509_ok b = Some (bs, norm b) /\
  exists bs2, b_write (norm b) = Ok bs2 /\
    (lenN bs2 < two63 ->
     forall n, Nat.iter n (fun st => match st with Some (_, c) => cycle x509_ok c | None => None end)
                        (cycle x509_ok (norm b))
               = Some (bs2, norm b)).
Proof. exact BundleRoundtripVariants.cycle_fixpoint_variants. Qed.
Print Assumptions cycle_fixpoint_variants.

(* ==== examples ========================================================================== *)
Definition all_ok (_ : bytes) : bool := true.
Definition hd1 (k v : string) : bytes * list bytes := (s2b k, [s2b v]).
Definition ex_vv : string := "Accept-Language;en;fr, Accept-Encoding;gzip;br".
Definition vx (u vk body : string) : bexchange :=
  {| bx_url := s2b u; bx_status := 200;
     bx_hdr := [hd1 "Variants" ex_vv; hd1 "Variant-Key" vk; (s2b "X-Multi", [s2b "a"; s2b "b"])];
     bx_body := s2b body |}.
(* b1: 2x2 variant grid supplied in shuffled order, a second URL in between,
   manifest and signatures *)
Definition ex_b1 : bundle :=
  {| b_ver := BV1; b_primary := Some (s2b "https://example.com/");
     b_manifest := Some (s2b "https://example.com/manifest.json");
     b_sigs := Some {| sg_auth := [{| ac_cert := [1; 2; 3]; ac_ocsp := Some [4]; ac_sct := None |}];
                       sg_vouched := [{| vs_authority := 0; vs_sig := [9; 9]; vs_signed := [7] |}] |};
     b_exchanges := [ vx "https://example.com/" "fr;br" "FRBR";
                      {| bx_url := s2b "https://example.com/style.css"; bx_status := 404;
                         bx_hdr := [hd1 "Content-Type" "text/css"]; bx_body := [] |};
                      vx "https://example.com/" "en;gzip" "ENGZ";
                      vx "https://example.com/" "fr;gzip" "FRGZ";
                      vx "https://example.com/" "en;br" "ENBR" ];
     b_taint := false |}.
(* b2: three URLs whose insertion order differs from key order *)
Definition ex_b2 : bundle :=
  {| b_ver := BV2; b_primary := Some (s2b "https://example.com/zz"); b_manifest := None; b_sigs := None;
     b_exchanges := [ {| bx_url := s2b "https://example.com/zz"; bx_status := 200;
                         bx_hdr := [hd1 "Content-Type" "text/html"; hd1 "a" "1"]; bx_body := s2b "<p>" |};
                      {| bx_url := s2b "https://example.com/a/long/path"; bx_status := 301;
                         bx_hdr := [hd1 "Location" "/zz"]; bx_body := [] |};
                      {| bx_url := s2b "b"; bx_status := 999; bx_hdr := []; bx_body := [0; 255] |} ];
     b_taint := false |}.

(* a b2 bundle whose header names are not RFC 7230 tokens (one is empty): accepted
   by the writer, and within the theorem *)
Definition ex_odd : bundle :=
  {| b_ver := BV2; b_primary := None; b_manifest := None; b_sigs := None;
     b_exchanges := [ {| bx_url := s2b "https://example.com/odd"; bx_status := 100;
                         bx_hdr := [(s2b "", [s2b "empty name"]); (s2b "a b(c)", [s2b "x"; s2b "y"])];
                         bx_body := [7] |} ];
     b_taint := true |}.

(* the hypotheses of bundle_roundtrip / fixpoint_single hold of these *)
Example ex_hyps :
  (exists bs, b_write ex_b1 = Ok bs /\ lenN bs < two63) /\ residual all_ok ex_b1 = true /\
  (exists bs, b_write ex_b2 = Ok bs /\ lenN bs < two63) /\ residual all_ok ex_b2 = true /\
  single_urls ex_b2 /\ (exists bs2, b_write (norm ex_b2) = Ok bs2 /\ lenN bs2 < two63) /\
  (exists bs, b_write ex_odd = Ok bs /\ lenN bs < two63) /\ residual all_ok ex_odd = true.
Proof.
  assert (W : forall b, is_ok (b_write b) = true ->
                        (match b_write b with Ok bs => lenN bs <? two63 | _ => false end) = true ->
                        exists bs, b_write b = Ok bs /\ lenN bs < two63).
  { intros b _ H. destruct (b_write b) as [bs| | |]; try discriminate. exists bs.
    split; [reflexivity|apply N.ltb_lt; exact H]. }
  split; [apply W; vm_compute; reflexivity|]. split; [vm_compute; reflexivity|].
  split; [apply W; vm_compute; reflexivity|]. split; [vm_compute; reflexivity|].
  split; [unfold single_urls; vm_compute; repeat constructor; cbn [In]; intuition discriminate|].
  split; [apply W; vm_compute; reflexivity|].
  split; [apply W; vm_compute; reflexivity|vm_compute; reflexivity].
Qed.

Definition rt (b : bundle) : bool :=
  match b_write b with
  | Ok bs => match b_read all_ok bs with
             | Ok b' => (lenN bs <? two63) &&
                        bytes_eqb (List.concat (map bx_body (b_exchanges b')))
                                  (List.concat (map bx_body (b_exchanges (norm b))))
                        && (List.length (b_exchanges b') =? List.length (b_exchanges (norm b)))%nat
             | _ => false end
  | _ => false
  end.

(* the shuffled 2x2 grid comes back row-major: en;gzip en;br fr;gzip fr;br, after
   the URL sorts first; header names canonical, X-Multi comma-joined *)
Example ex_b1_roundtrip :
  match b_write ex_b1 with
  | Ok bs => match b_read all_ok bs with
             | Ok b' => Some (map (fun x => (bx_url x, bx_body x)) (b_exchanges b'),
                              map fst (bx_hdr (hd {| bx_url := []; bx_status := 0%Z; bx_hdr := []; bx_body := [] |}
                                                  (b_exchanges b'))),
                              b_primary b', b_manifest b', b_sigs b')
             | _ => None end
  | _ => None
  end
  = Some ([(s2b "https://example.com/", s2b "ENGZ"); (s2b "https://example.com/", s2b "ENBR");
           (s2b "https://example.com/", s2b "FRGZ"); (s2b "https://example.com/", s2b "FRBR");
           (s2b "https://example.com/style.css", [])],
          [s2b "X-Multi"; s2b "Variants"; s2b "Variant-Key"],
          b_primary ex_b1, b_manifest ex_b1, b_sigs ex_b1).
Proof. vm_compute. reflexivity. Qed.

Example ex_b2_roundtrip :
  match b_write ex_b2 with
  | Ok bs => match b_read all_ok bs with
             | Ok b' => map (fun x => (bx_url x, bx_status x, bx_hdr x, bx_body x)) (b_exchanges b')
             | _ => [] end
  | _ => []
  end
  = [(s2b "b", 999%Z, [], [0; 255]);
     (s2b "https://example.com/zz", 200%Z, [(s2b "A", [s2b "1"]); (s2b "Content-Type", [s2b "text/html"])], s2b "<p>");
     (s2b "https://example.com/a/long/path", 301%Z, [(s2b "Location", [s2b "/zz"])], [])].
Proof. vm_compute. reflexivity. Qed.

(* the theorem's instance, checked by computation as well *)
Example ex_read_is_norm :
  (match b_write ex_b1 with Ok bs => b_read all_ok bs | _ => Err end) = Ok (norm ex_b1) /\
  (match b_write ex_b2 with Ok bs => b_read all_ok bs | _ => Err end) = Ok (norm ex_b2) /\
  (match b_write ex_odd with Ok bs => b_read all_ok bs | _ => Err end) = Ok (norm ex_odd).
Proof. repeat split; vm_compute; reflexivity. Qed.

(* the cycle: the first write differs from the second (order of exchanges), from
   the second on the bytes are identical - also for the b1 variant set *)
Definition write_of (b : bundle) : bytes := match b_write b with Ok bs => bs | _ => [] end.
Definition read_of (bs : bytes) : bundle := match b_read all_ok bs with Ok b => b | _ => ex_b2 end.
Example ex_cycle :
  let w1 := write_of ex_b1 in let r1 := read_of w1 in
  let w2 := write_of r1 in let r2 := read_of w2 in
  let w3 := write_of r2 in let r3 := read_of w3 in
  (bytes_eqb w1 w2, bytes_eqb w2 w3, lenN w2 =? 0) = (false, true, false) /\
  r1 = norm ex_b1 /\ r2 = r1 /\ r3 = r1 /\
  residual all_ok (norm ex_b1) = true /\ norm (norm ex_b1) = norm ex_b1.
Proof. vm_compute. repeat split. Qed.
Example ex_cycle_b2 :
  let w1 := write_of ex_b2 in let r1 := read_of w1 in
  let w2 := write_of r1 in let w3 := write_of (read_of w2) in
  (bytes_eqb w1 w2, bytes_eqb w2 w3) = (false, true).
Proof. vm_compute. reflexivity. Qed.

(* a multi-key Variant-Key entry is flattened by the reader into repeated exchanges;
   writing that again is refused (overlap) - the reason the fixpoint excludes them *)
Definition ex_multi : bundle :=
  {| b_ver := BV1; b_primary := Some (s2b "https://example.com/"); b_manifest := None; b_sigs := None;
     b_exchanges := [ vx "https://example.com/" "en;gzip, fr;gzip" "GZ";
                      vx "https://example.com/" "en;br" "ENBR"; vx "https://example.com/" "fr;br" "FRBR" ];
     b_taint := false |}.
Example ex_multi_key :
  residual all_ok ex_multi = true /\
  map bx_body (b_exchanges (read_of (write_of ex_multi))) = [s2b "GZ"; s2b "ENBR"; s2b "GZ"; s2b "FRBR"] /\
  b_write (read_of (write_of ex_multi)) = Err.
Proof. vm_compute. repeat split. Qed.

(* the hypothesis is needed: with the multi-key entry the second write is refused *)
Theorem fixpoint_needs_single_keys :
  exists b bs, b_write b = Ok bs /\ lenN bs < two63 /\ residual all_ok b = true /\
    variant_keys_single b = false /\ b_read all_ok bs = Ok (norm b) /\ b_write (norm b) = Err.
Proof.
  exists ex_multi.
  destruct (b_write ex_multi) as [bs| | |] eqn:E; try (vm_compute in E; discriminate).
  exists bs. split; [reflexivity|]. vm_compute in E. inversion E; subst bs.
  repeat split; vm_compute; reflexivity.
Qed.
Print Assumptions fixpoint_needs_single_keys.

(* the hypotheses of fixpoint_variants_multi / cycle_fixpoint_variants hold of ex_b1
   (2x2 variant grid, shuffled, plus a URL without Variant-Key), and the second
   serialisation is small too *)
Example ex_variants_hyps :
  (exists bs, b_write ex_b1 = Ok bs /\ lenN bs < two63) /\ residual all_ok ex_b1 = true /\
  variant_keys_single ex_b1 = true /\
  (exists bs2, b_write (norm ex_b1) = Ok bs2 /\ lenN bs2 < two63).
Proof.
  assert (W : forall b, (match b_write b with Ok bs => lenN bs <? two63 | _ => false end) = true ->
                        exists bs, b_write b = Ok bs /\ lenN bs < two63).
  { intros b H. destruct (b_write b) as [bs| | |]; try discriminate. exists bs.
    split; [reflexivity|apply N.ltb_lt; exact H]. }
  split; [apply W; vm_compute; reflexivity|]. split; [vm_compute; reflexivity|].
  split; [vm_compute; reflexivity|apply W; vm_compute; reflexivity].
Qed.

(* the theorems applied to ex_b1: no computation of the cycle is needed *)
Example ex_b1_fixpoint_by_theorem :
  norm (norm ex_b1) = norm ex_b1 /\
  exists bs2, b_write (norm ex_b1) = Ok bs2 /\
    forall n, Nat.iter n (fun st => match st with Some (_, c) => cycle all_ok c | None => None end)
                       (cycle all_ok (norm ex_b1))
              = Some (bs2, norm ex_b1).
Proof.
  destruct ex_variants_hyps as [[bs [Hw L]] [W [K [bs2' [H2' L2']]]]].
  destruct (cycle_fixpoint_variants all_ok ex_b1 bs Hw L W K) as [_ [bs2 [H2 C]]].
  split; [apply (norm_idempotent_variants ex_b1 bs Hw K)|].
  exists bs2. split; [exact H2|]. apply C. rewrite H2' in H2. inversion H2; subst bs2. exact L2'.
Qed.

(* ... and those of fixpoint_variants (every exchange with one Variant-Key) of this one:
   the same grid and a second URL whose single exchange carries a Variant-Key too *)
Definition ex_b1v : bundle :=
  {| b_ver := BV1; b_primary := Some (s2b "https://example.com/"); b_manifest := None; b_sigs := None;
     b_exchanges := [ vx "https://example.com/" "fr;br" "FRBR";
                      vx "https://example.com/only" "fr;gzip" "ONLY";
                      vx "https://example.com/" "en;gzip" "ENGZ";
                      vx "https://example.com/" "fr;gzip" "FRGZ";
                      vx "https://example.com/" "en;br" "ENBR" ];
     b_taint := false |}.
Example ex_single_keys_hyps :
  (exists bs, b_write ex_b1v = Ok bs /\ lenN bs < two63) /\ residual all_ok ex_b1v = true /\
  single_keys ex_b1v /\
  map bx_body (b_exchanges (norm ex_b1v)) = [s2b "ENGZ"; s2b "ENBR"; s2b "FRGZ"; s2b "FRBR"; s2b "ONLY"].
Proof.
  split.
  { destruct (b_write ex_b1v) as [bs| | |] eqn:E; try (vm_compute in E; discriminate).
    exists bs. split; [reflexivity|]. vm_compute in E. inversion E; subst bs. vm_compute. reflexivity. }
  split; [vm_compute; reflexivity|]. split; [|vm_compute; reflexivity].
  unfold single_keys. cbn [b_exchanges ex_b1v].
  repeat (apply Forall_cons; [eexists; vm_compute; reflexivity|]). apply Forall_nil.
Qed.

(* why variants_survive_xnorm has its premise: a field spelled "VARIANTS" is invisible
   to Header.Get("Variants") in what was handed to the writer and visible in what the
   reader returns (it canonicalises the names).  Harmless for the fixpoint: such an
   exchange cannot be a member of a variant set the writer accepts. *)
Example ex_odd_spelling :
  let x := {| bx_url := s2b "https://example.com/"; bx_status := 200%Z;
              bx_hdr := [hd1 "VARIANTS" ex_vv]; bx_body := [] |} in
  xwritable x = true /\ hv_variants x = [] /\ hv_variants (xnorm x) = s2b ex_vv.
Proof. vm_compute. repeat split. Qed.

(* ==== the writer refuses what the reader refuses ======================================== *)
Definition one_x (u : string) (st : Z) (h : headers) : bundle :=
  {| b_ver := BV2; b_primary := None; b_manifest := None; b_sigs := None;
     b_exchanges := [{| bx_url := s2b u; bx_status := st; bx_hdr := h; bx_body := [1; 2] |}];
     b_taint := false |}.
Example ex_writer_refuses :
  (* a header value with the byte 233 *)
  b_write (one_x "https://example.com/" 200 [(s2b "x-v", [[99; 97; 102; 233]])]) = Err /\
  (* the same byte hidden in the second of two values *)
  b_write (one_x "https://example.com/" 200 [(s2b "x-v", [s2b "a"; [233]])]) = Err /\
  (* a header name ":foo"; a non-ASCII header name *)
  b_write (one_x "https://example.com/" 200 [(s2b ":foo", [s2b "a"])]) = Err /\
  b_write (one_x "https://example.com/" 200 [([110; 233], [s2b "a"])]) = Err /\
  (* status 99 and 1000 (and a negative one) *)
  b_write (one_x "https://example.com/" 99 []) = Err /\
  b_write (one_x "https://example.com/" 1000 []) = Err /\
  b_write (one_x "https://example.com/" (-200) []) = Err /\
  (* an exchange URL with a fragment *)
  b_write (one_x "https://example.com/#f" 200 []) = Err /\
  (* b2 primary URL "/relative"; with a fragment *)
  b_write {| b_ver := BV2; b_primary := Some (s2b "/relative"); b_manifest := None; b_sigs := None;
             b_exchanges := []; b_taint := false |} = Err /\
  b_write {| b_ver := BV2; b_primary := Some (s2b "https://example.com/#f"); b_manifest := None; b_sigs := None;
             b_exchanges := []; b_taint := false |} = Err /\
  (* b1 manifest URL "/relative" *)
  b_write {| b_ver := BV1; b_primary := Some (s2b "https://example.com/"); b_manifest := Some (s2b "/relative");
             b_sigs := None; b_exchanges := []; b_taint := false |} = Err /\
  (* b1 without primary URL: an error, no longer a nil dereference *)
  b_write {| b_ver := BV1; b_primary := None; b_manifest := None; b_sigs := None;
             b_exchanges := []; b_taint := false |} = Err /\
  (* an exchange URL that is not valid UTF-8: an error, no longer a panic *)
  b_write {| b_ver := BV2; b_primary := None; b_manifest := None; b_sigs := None;
             b_exchanges := [{| bx_url := [97; 58; 255]; bx_status := 200; bx_hdr := []; bx_body := [] |}];
             b_taint := false |} = Err /\
  (* the neighbours are accepted *)
  is_ok (b_write (one_x "https://example.com/" 100 [(s2b "x-v", [s2b "caf"; s2b "e"])])) = true /\
  is_ok (b_write (one_x "https://example.com/" 999 [(s2b "f:oo", [s2b "a"])])) = true.
Proof. vm_compute. repeat split. Qed.

(* MODEL NOTE.  "https://u:p@example.com/" (credentials) lies outside the class on
   which the url.Parse model is decided (url_ref answers RUnknown): the model's
   writer lets it pass and flags the answer as not trusted (b_write_taint; the
   reader flags b_taint likewise).  The Go writer refuses it (parsed.User != nil).
   Inside the decided class url_ref never reports credentials. *)
Example ex_credentials_undecided :
  let b := one_x "https://u:p@example.com/" 200 [] in
  url_ref (s2b "https://u:p@example.com/") = RUnknown /\
  is_ok (b_write b) = true /\ b_write_taint b = true /\ residual all_ok b = false.
Proof. vm_compute. repeat split. Qed.

(* ==== the residue is needed ================================================================ *)
(* REPAIRED (was residual_needs_b1_primary, confirmed on the Go code): a b1 bundle whose
   primary URL, as serialized by url.URL.String(), does not parse - &url.URL{Opaque: "%zz"}
   (invalid URL escape) or &url.URL{Opaque: ":foo"} (missing protocol scheme) - used to
   be written and could not be read.  writePrimaryURL runs checkURL now: refused. *)
Definition ex_b1_bad_primary (u : string) : bundle :=
  {| b_ver := BV1; b_primary := Some (s2b u); b_manifest := None; b_sigs := None;
     b_exchanges := [{| bx_url := s2b "https://example.com/"; bx_status := 200;
                        bx_hdr := [hd1 "Content-Type" "text/html"]; bx_body := s2b "<p>" |}];
     b_taint := false |}.
Example ex_b1_bad_primary_refused :
  b_write (ex_b1_bad_primary "%zz") = Err /\ b_write (ex_b1_bad_primary ":foo") = Err /\
  b_write_taint (ex_b1_bad_primary "%zz") = false /\
  (* a relative, fragment-carrying primary URL is fine in the b1 header *)
  (match b_write (ex_b1_bad_primary "/rel#frag") with Ok bs => b_read all_ok bs | _ => Err end)
  = Ok (norm (ex_b1_bad_primary "/rel#frag")).
Proof. vm_compute. repeat split. Qed.

(* ESSENTIAL (Go): a signatures section with an authority whose certificate bytes
   x509.ParseCertificate rejects (Cert.Raw = 01 02 03): written, not read back. *)
Definition ex_sigs (a : N) : bundle :=
  {| b_ver := BV2; b_primary := None; b_manifest := None;
     b_sigs := Some {| sg_auth := [{| ac_cert := [1; 2; 3]; ac_ocsp := Some [4]; ac_sct := None |}];
                       sg_vouched := [{| vs_authority := a; vs_sig := [9; 9]; vs_signed := [7] |}] |};
     b_exchanges := []; b_taint := false |}.
Theorem residual_needs_x509 :
  exists x509_ok b bs, b_write b = Ok bs /\ lenN bs < two63 /\
    b_write_taint b = false /\ residual x509_ok b = false /\ residual all_ok b = true /\
    b_read x509_ok bs = Err /\ b_read all_ok bs = Ok (norm b).
Proof.
  exists (fun _ => false), (ex_sigs 0).
  destruct (b_write (ex_sigs 0)) as [bs| | |] eqn:E; try (vm_compute in E; discriminate).
  exists bs. split; [reflexivity|]. vm_compute in E. inversion E; subst bs.
  split; [vm_compute; reflexivity|]. repeat split; vm_compute; reflexivity.
Qed.
Print Assumptions residual_needs_x509.

(* MODEL ONLY: Authority is a uint64 in Go; in the model 2^64 is written as 0 *)
Example ex_authority_u64 :
  match b_write (ex_sigs two64) with Ok bs => b_read all_ok bs | _ => Err end = Ok (norm (ex_sigs 0))
  /\ residual all_ok (ex_sigs two64) = false /\ residual all_ok (ex_sigs (two64 - 1)) = true.
Proof. vm_compute. repeat split. Qed.

(* MODEL ONLY: a URL outside the decided class comes back flagged (b_taint = true),
   so the result is not norm b; everything else is *)
Example ex_undecided_url_tainted :
  let b := one_x "https://u:p@example.com/" 200 [] in
  match b_write b with Ok bs => b_read all_ok bs | _ => Err end
  = Ok {| b_ver := b_ver (norm b); b_primary := b_primary (norm b); b_manifest := b_manifest (norm b);
          b_sigs := b_sigs (norm b); b_exchanges := b_exchanges (norm b); b_taint := true |}.
Proof. vm_compute. reflexivity. Qed.

(* the input's own b_taint flag is irrelevant (ex_odd above carries b_taint = true) *)

(* refusals *)
Example ex_refused :
  b_write {| b_ver := BV1; b_primary := Some (s2b "https://example.com/"); b_manifest := None; b_sigs := None;
             b_exchanges := [vx "u" "en;br" "1"; vx "u" "fr;br" "2"; vx "u" "en;gzip" "3"];
             b_taint := false |} = Err /\
  b_write {| b_ver := BV1; b_primary := Some (s2b "https://example.com/"); b_manifest := None; b_sigs := None;
             b_exchanges := [vx "u" "en;br" "1"; vx "u" "fr;br" "2"; vx "u" "en;gzip" "3"; vx "u" "fr;gzip" "4";
                             vx "u" "en;br" "5"];
             b_taint := false |} = Err.
Proof. vm_compute. split; reflexivity. Qed.
