(* C19 - write failures at any byte position surface as errors, never as success.

   Every serializer model returns the bytes it hands to the destination; the
   code delivers them through some sequence of Write calls (possibly staged
   through buffers).  The theorems below hold for ANY chunking of the output
   into Write calls, any fault position k and the three fault modes (error only /
   short write with error / full count with error); "every Write result is checked and returned" is
   exactly the function [run_writes], and that the Go code does so is what the
   exhaustive-in-k correspondence run establishes.  Statements only. *)
From WP Require Import Base.Prelude Model.Cbor Model.Mice Model.CertChain Model.Sxg Model.Bundle.
From WP Require Import Proofs.WriterFault.
From WP Require Proofs.WriterFaultFull.
Open Scope N_scope.

Theorem c19_fault_any_chunking :
  forall (cs : list bytes) (k : N) (m : fmode) (d : dest) (n : N) (ok : bool),
    run_writes cs (dest0 k m) 0 = (d, n, ok) ->
    let out := List.concat cs in
    (exists rest, out = d_acc d ++ rest)
    /\ lenN (d_acc d) <= k
    /\ n = lenN (d_acc d)
    /\ (k < lenN out -> ok = false)
    /\ (lenN out <= k -> ok = true /\ d_acc d = out).
Proof. exact run_writes_fault. Qed.
Print Assumptions c19_fault_any_chunking.

(* third fault mode: the Write that crosses position k takes ALL its bytes and still reports an
   error (a full count together with an error) *)
Theorem c19_fault_full_count :
  forall (cs : list bytes) (k : N) (m : fmode) (d : dest) (n : N) (ok : bool),
    run_writes_full cs (dest0 k m) 0 = (d, n, ok) ->
    let out := List.concat cs in
    (exists rest, out = d_acc d ++ rest)
    /\ n = lenN (d_acc d)
    /\ (k < lenN out -> ok = false /\ k < lenN (d_acc d))
    /\ (lenN out <= k -> ok = true /\ d_acc d = out).
Proof. exact WriterFaultFull.run_writes_full_fault. Qed.
Print Assumptions c19_fault_full_count.

Theorem c19_no_fault :
  forall cs a m cnt,
    run_writes cs {| d_acc := a; d_budget := None; d_mode := m |} cnt =
    ({| d_acc := a ++ List.concat cs; d_budget := None; d_mode := m |}, cnt + lenN (List.concat cs), true).
Proof. exact run_writes_nofault. Qed.
Print Assumptions c19_no_fault.

(* The property for a serializer: whatever bytes [out] it produces and however
   they are split into Write calls. *)
Definition fault_safe (out : bytes) : Prop :=
  forall cs k m d n ok,
    List.concat cs = out ->
    run_writes cs (dest0 k m) 0 = (d, n, ok) ->
    (exists rest, out = d_acc d ++ rest) /\ lenN (d_acc d) <= k /\ n = lenN (d_acc d)
    /\ (k < lenN out -> ok = false) /\ (lenN out <= k -> ok = true /\ d_acc d = out).

Theorem c19_every_output_fault_safe : forall out, fault_safe out.
Proof.
  intros out cs k m d n ok Hc H. subst out. exact (run_writes_fault cs k m d n ok H).
Qed.
Print Assumptions c19_every_output_fault_safe.

(* instances, one per serializer named by the property *)
Theorem c19_bundle : forall b out, b_write b = Ok out -> fault_safe out.
Proof. intros; apply c19_every_output_fault_safe. Qed.
Theorem c19_signed_exchange : forall e out, write e = Ok out -> fault_safe out.
Proof. intros; apply c19_every_output_fault_safe. Qed.
Theorem c19_header_dump : forall e out, encode_exchange_headers e = Ok out -> fault_safe out.
Proof. intros; apply c19_every_output_fault_safe. Qed.
Theorem c19_cert_chain : forall c out, cc_write c = Ok out -> fault_safe out.
Proof. intros; apply c19_every_output_fault_safe. Qed.
Theorem c19_mi_encoder : forall H d rs p out dg, encode H d rs p = Ok (out, dg) -> fault_safe out.
Proof. intros; apply c19_every_output_fault_safe. Qed.
Theorem c19_cbor_encoder : forall p out, run_items p = Ok out -> fault_safe out.
Proof. intros; apply c19_every_output_fault_safe. Qed.
Print Assumptions c19_bundle.

(* non-vacuity: a concrete output, a concrete chunking, faults at 0, 4 and 9 *)
Example c19_example :
  let cs := [[1; 2; 3]; []; [4; 5]; [6; 7; 8; 9]] in
  run_writes cs (dest0 4 ShortThenErr) 0 = ({| d_acc := [1; 2; 3; 4]; d_budget := Some 0; d_mode := ShortThenErr |}, 4, false)
  /\ run_writes cs (dest0 4 ErrOnly) 0 = ({| d_acc := [1; 2; 3]; d_budget := Some 1; d_mode := ErrOnly |}, 3, false)
  /\ snd (run_writes cs (dest0 0 ErrOnly) 0) = false
  /\ run_writes cs (dest0 9 ErrOnly) 0 = ({| d_acc := [1; 2; 3; 4; 5; 6; 7; 8; 9]; d_budget := Some 0; d_mode := ErrOnly |}, 9, true).
Proof. repeat split. Qed.
