(* C09 - Verification succeeds if and only if, besides a valid signature and
   payload integrity, every acceptance condition of the spec holds: validity URL
   same-origin with the request URL, date <= now <= expires, lifetime at most 7
   days, integrity scheme matching the version, GET/HEAD and no stateful request
   header (b1/b2), Content-Type present and response storable by a shared cache
   (b3), and no uncached or stateful response header in any letter case.  No
   exchange violating a condition is accepted and none satisfying all of them is
   rejected.

   The conditions are the predicate [Accepts] of Spec/SxgPolicy.v (a flat
   conjunction transcribed from the drafts and RFC 7234, independent of the
   verifier's control flow).  The equivalence is stated where the URL model
   decides (no UUnknown among the URLs involved) for untainted exchanges; there
   Verify never answers Undecided.

   Deviations found (stated and proved below):
   - C09_b3_request_headers_refuted: a b3 exchange that carries request headers
     in memory (nothing of a b3 request is serialised or signed) is REJECTED if
     one of them is stateful, although every condition of the spec holds.
     verify_iff therefore assumes [wf_req]: a b3 exchange has no request
     headers (true of everything ReadExchange returns).
   - no_cache_listed_header_accepted: 4.1 also bans header fields listed in a
     no-cache="..." response directive; the Go code (TODO in the source) and so
     the model accept them.  [Accepts] has no such clause.                       *)
From Coq Require Import Lia Permutation.
From WP Require Import Base.Prelude Base.Sha256 Model.Cbor Model.Http Model.Url Model.Mice
                       Model.StructHdr Model.CertChain Model.Sxg.
From WP Require Import Spec.SxgPolicy.
From WP Require Import Proofs.SxgVerifyMsg Proofs.SxgVerifySound Proofs.SxgVerifyPolicy
                       Proofs.SxgVerifyExample.
Open Scope N_scope.

(* ---- the equivalence --------------------------------------------------------------- *)
Section C09.
  Variable H256 : bytes -> bytes.
  Variable x509_key : bytes -> option (option N).
  Variable sig_ok : N -> bytes -> bytes -> bool.
  Variable status_known : Z -> bool.
  Variable fetch : bytes -> R bytes.

  Notation vfy := (verify H256 x509_key sig_ok status_known fetch).
  Notation Accepts := (Accepts H256 x509_key sig_ok status_known fetch).

  (* Valid p  iff  the first acceptable signature of the header yields p *)
  Theorem C09_verify_iff :
    forall (e : exchange) (tsec tnsec : Z) (p : bytes),
      e_taint e = false -> wf_req e -> time_ok tsec tnsec -> decided e ->
      (vfy e tsec tnsec = Valid p <->
       exists sigs pre pi post s,
         parse_parameterised_list (e_sig e) = Ok sigs /\ sigs = pre ++ pi :: post /\
         extract_signature pi = Some s /\ Accepts e tsec tnsec s p /\
         (forall pj sj q, In pj pre -> extract_signature pj = Some sj -> ~ Accepts e tsec tnsec sj q)).
  Proof. exact (verify_iff H256 x509_key sig_ok status_known fetch). Qed.

  (* Invalid  iff  no signature of the header is acceptable (in particular when
     the header does not parse) *)
  Theorem C09_verify_invalid_iff :
    forall (e : exchange) (tsec tnsec : Z),
      e_taint e = false -> wf_req e -> time_ok tsec tnsec -> decided e ->
      (vfy e tsec tnsec = Invalid <->
       forall sigs pi s q, parse_parameterised_list (e_sig e) = Ok sigs -> In pi sigs ->
                           extract_signature pi = Some s -> ~ Accepts e tsec tnsec s q).
  Proof. exact (verify_invalid_iff H256 x509_key sig_ok status_known fetch). Qed.

  Theorem C09_verify_decided :
    forall (e : exchange) (tsec tnsec : Z),
      e_taint e = false -> decided e -> vfy e tsec tnsec <> Undecided.
  Proof. exact (verify_decided H256 x509_key sig_ok status_known fetch). Qed.

  (* one signature: the verifier's step is the conjunction, with the window
     spelled out arithmetically *)
  Theorem C09_accept_one :
    forall (e : exchange) (tsec tnsec : Z) (s : signature) (p : bytes),
      wf_req e -> time_ok tsec tnsec -> i64 (s_date s) -> i64 (s_expires s) ->
      url_decided (s_validity s) -> url_decided (e_uri e) ->
      (accept1 H256 x509_key sig_ok status_known fetch e tsec tnsec s = Some p <->
       SameOrigin (s_validity s) (e_uri e) /\
       KeySigned H256 x509_key sig_ok fetch e s /\
       (s_expires s - s_date s <= 604800 /\
        s_date s * 1000000000 <= tsec * 1000000000 + tnsec /\
        tsec * 1000000000 + tnsec <= s_expires s * 1000000000)%Z /\
       PayloadOk H256 e s p /\
       RequestOk e /\
       ResponseOk status_known e /\
       NoBanned uncached_names (e_resph e)).
  Proof. exact (accept1_iff H256 x509_key sig_ok status_known fetch). Qed.

  (* Exchange.IsCacheable is RFC 7234 section 3 for a shared cache *)
  Theorem C09_is_cacheable_iff :
    forall e : exchange,
      is_cacheable status_known e = true <->
      (let cc := hdr_value_ci (e_resph e) (s2b "Cache-Control") in
       status_known (e_status e) = true /\
       ~ In (s2b "no-store") (directive_names cc) /\
       ~ In (s2b "private") (directive_names cc) /\
       (hdr_value_ci (e_resph e) (s2b "Expires") <> [] \/
        In (s2b "max-age") (directive_names cc) \/ In (s2b "s-maxage") (directive_names cc) \/
        In (e_status e) [200; 203; 204; 206; 300; 301; 404; 405; 410; 414; 501]%Z \/
        In (s2b "public") (directive_names cc))).
  Proof. exact (is_cacheable_iff status_known). Qed.
End C09.
Print Assumptions C09_verify_iff.
Print Assumptions C09_verify_invalid_iff.
Print Assumptions C09_verify_decided.
Print Assumptions C09_accept_one.
Print Assumptions C09_is_cacheable_iff.

(* the directive-name set computed by parseCacheControlDirectives is the
   independently defined one (split at commas, trim, cut at "=", lower-case) *)
Theorem C09_cache_directives_eq : forall cc : bytes, cache_directives cc = directive_names cc.
Proof. exact cache_directives_eq. Qed.
Print Assumptions C09_cache_directives_eq.

(* ---- banned header names: exact lists, any letter case -------------------------------- *)
Theorem C09_banned_lists_exact_uncached :
  forall n : bytes,
    is_uncached_header n = true <->
    In (lower n)
       (map s2b ["connection"; "keep-alive"; "proxy-connection"; "trailer"; "transfer-encoding";
                 "upgrade"; "authentication-control"; "authentication-info"; "clear-site-data";
                 "optional-www-authenticate"; "proxy-authenticate"; "proxy-authentication-info";
                 "public-key-pins"; "sec-websocket-accept"; "set-cookie"; "set-cookie2";
                 "setprofile"; "strict-transport-security"; "www-authenticate"]%string).
Proof. exact uncached_exact. Qed.
Theorem C09_banned_lists_exact_stateful_request :
  forall n : bytes,
    is_stateful_request_header n = true <->
    In (lower n)
       (map s2b ["authorization"; "cookie"; "cookie2"; "proxy-authorization";
                 "sec-websocket-key"]%string).
Proof. exact stateful_request_exact. Qed.
Theorem C09_banned_case_insensitive :
  forall n n' : bytes, lower n = lower n' ->
    is_uncached_header n = is_uncached_header n' /\
    is_stateful_request_header n = is_stateful_request_header n'.
Proof.
  intros n n' H. split; [apply uncached_case_insensitive|apply stateful_request_case_insensitive]; exact H.
Qed.
(* = the case-insensitive membership of the spec *)
Theorem C09_is_uncached_iff :
  forall n : bytes, is_uncached_header n = true <-> banned_in uncached_names n.
Proof. exact is_uncached_iff. Qed.
Theorem C09_is_stateful_request_iff :
  forall n : bytes, is_stateful_request_header n = true <-> banned_in stateful_request_names n.
Proof. exact is_stateful_request_iff. Qed.
Theorem C09_verify_headers_iff :
  forall e : exchange,
    verify_headers e = true <->
    NoBanned stateful_request_names (e_reqh e) /\ NoBanned uncached_names (e_resph e).
Proof. exact verify_headers_iff. Qed.
Print Assumptions C09_banned_lists_exact_uncached.
Print Assumptions C09_banned_lists_exact_stateful_request.
Print Assumptions C09_banned_case_insensitive.
Print Assumptions C09_is_uncached_iff.
Print Assumptions C09_is_stateful_request_iff.
Print Assumptions C09_verify_headers_iff.

Example recased_set_cookie :
  lower (s2b "sEt-cOOkie") = lower (s2b "Set-Cookie") /\ is_uncached_header (s2b "sEt-cOOkie") = true.
Proof. split; reflexivity. Qed.

(* ---- examples: the hypotheses of verify_iff hold of the concrete exchanges -------------- *)
(* the signature of ex3's header *)
Definition sig_of (e : exchange) : signature :=
  match parse_parameterised_list (e_sig e) with
  | Ok (pi :: _) => match extract_signature pi with
                    | Some s => s
                    | None => {| s_sig := []; s_integrity := []; s_cert_url := []; s_cert_sha := [];
                                 s_validity := []; s_date := 0; s_expires := 0 |}
                    end
  | _ => {| s_sig := []; s_integrity := []; s_cert_url := []; s_cert_sha := [];
            s_validity := []; s_date := 0; s_expires := 0 |}
  end.
Definition s3 : signature := Eval vm_compute in sig_of ex3.

Definition pi3 : pident :=
  Eval vm_compute in
    match parse_parameterised_list (e_sig ex3) with
    | Ok (pi :: _) => pi
    | _ => {| pi_label := []; pi_params := [] |}
    end.
Lemma ex3_parse : parse_parameterised_list (e_sig ex3) = Ok [pi3].
Proof. vm_compute. reflexivity. Qed.
Lemma ex3_extract : extract_signature pi3 = Some s3.
Proof. vm_compute. reflexivity. Qed.

Lemma ex3_decided : decided ex3.
Proof.
  split; [vm_compute; discriminate|].
  intros sigs pi s Hp Hin Hex. rewrite ex3_parse in Hp. injection Hp as Hp. subst sigs.
  destruct Hin as [Hin|[]]. subst pi. rewrite ex3_extract in Hex. injection Hex as Hex. subst s.
  vm_compute. discriminate.
Qed.
Example ex3_wf : e_taint ex3 = false /\ wf_req ex3 /\ time_ok toy_date 0.
Proof. split; [reflexivity|]. split; [intros _; reflexivity|]. unfold time_ok, toy_date. lia. Qed.

(* so the policy holds of ex3's signature *)
Example ex3_accepts : Accepts sha256 toy_x509 toy_sig_ok toy_status toy_fetch ex3 toy_date 0 s3 toy_body.
Proof.
  apply (accept1_iff sha256 toy_x509 toy_sig_ok toy_status toy_fetch ex3 toy_date 0 s3 toy_body).
  - intros _. reflexivity.
  - unfold time_ok, toy_date. lia.
  - vm_compute. split; [discriminate|reflexivity].
  - vm_compute. split; [discriminate|reflexivity].
  - vm_compute. discriminate.
  - vm_compute. discriminate.
  - vm_compute. reflexivity.
Qed.

(* DEVIATION: the same exchange carrying a (never serialised, never signed)
   stateful request header in memory satisfies every condition and is refused *)
Theorem C09_b3_request_headers_refuted :
  exists (e : exchange) (tsec tnsec : Z) (s : signature) (p : bytes),
    e_ver e = V1b3 /\ e_taint e = false /\ time_ok tsec tnsec /\
    (exists rest, parse_parameterised_list (e_sig e) = Ok (rest) /\
                  exists pi, In pi rest /\ extract_signature pi = Some s) /\
    Accepts sha256 toy_x509 toy_sig_ok toy_status toy_fetch e tsec tnsec s p /\
    verify sha256 toy_x509 toy_sig_ok toy_status toy_fetch e tsec tnsec = Invalid.
Proof.
  exists (set_reqh ex3 [(s2b "Cookie", [s2b "id=1"])]), toy_date, 0%Z, s3, toy_body.
  split; [reflexivity|]. split; [reflexivity|]. split; [unfold time_ok, toy_date; lia|].
  split; [|split].
  - eexists. split; [vm_compute; reflexivity|]. eexists. split; [left; reflexivity|].
    vm_compute. reflexivity.
  - apply accepts_b3_reqh; [reflexivity|exact ex3_accepts].
  - vm_compute. reflexivity.
Qed.
Print Assumptions C09_b3_request_headers_refuted.

(* ---- examples: accept / reject at the boundaries ---------------------------------------- *)
Notation V := toy_verify.
Definition hs (cc : list (bytes * bytes)) : list (bytes * bytes) :=
  (s2b "Content-Type", s2b "text/html") :: cc.
Definition cc1 (v : string) : list (bytes * bytes) := [(s2b "Cache-Control", s2b v)].
Definition mk (v : version) (st : Z) (h : list (bytes * bytes)) (raw : headers) : exchange :=
  get (toy_sign (plain v st h raw) toy_date toy_expires).
Definition ok (e : exchange) : bool :=
  match V e toy_date 0 with Valid p => bytes_eqb p toy_body | _ => false end.
Definition rejected (e : exchange) : bool :=
  match V e toy_date 0 with Invalid => true | _ => false end.

(* the window: [date, expires] inclusive, to the nanosecond *)
Example at_date : V ex3 toy_date 0 = Valid toy_body.
Proof. vm_compute. reflexivity. Qed.
Example just_before_date : V ex3 (toy_date - 1) 999999999 = Invalid.
Proof. vm_compute. reflexivity. Qed.
Example at_expires : V ex3 toy_expires 0 = Valid toy_body.
Proof. vm_compute. reflexivity. Qed.
Example one_ns_after_expires : V ex3 toy_expires 1 = Invalid.
Proof. vm_compute. reflexivity. Qed.
(* lifetime: 604800 s accepted (ex3), 604801 s refused even inside the window *)
Example lifetime_7_days : (toy_expires - toy_date = 604800)%Z.
Proof. reflexivity. Qed.
Example lifetime_7_days_plus_1 :
  V (get (toy_sign (plain V1b3 200 std_headers []) toy_date (toy_expires + 1))) toy_date 0 = Invalid.
Proof. vm_compute. reflexivity. Qed.
(* validity-url on another origin (host, scheme, port) *)
Example other_origin_host :
  V (get (toy_sign_v (plain V1b3 200 std_headers []) (s2b "https://evil.example/resource.validity")
                     toy_date toy_expires)) toy_date 0 = Invalid.
Proof. vm_compute. reflexivity. Qed.
Example other_origin_scheme :
  V (get (toy_sign_v (plain V1b3 200 std_headers []) (s2b "http://example.com/resource.validity")
                     toy_date toy_expires)) toy_date 0 = Invalid.
Proof. vm_compute. reflexivity. Qed.
Example other_origin_port :
  V (get (toy_sign_v (plain V1b3 200 std_headers []) (s2b "https://example.com:8443/resource.validity")
                     toy_date toy_expires)) toy_date 0 = Invalid.
Proof. vm_compute. reflexivity. Qed.

(* shared-cache storability (b3) *)
Example cc_max_age_no_store : rejected (mk V1b3 200 (hs (cc1 "max-age=100, no-store")) []) = true.
Proof. vm_compute. reflexivity. Qed.
(* two Cache-Control field values in memory: evaluated as serialised (joined) *)
Example cc_multi_valued :
  rejected (mk V1b3 200 (hs (cc1 "max-age=100" ++ cc1 "no-store")) []) = true.
Proof. vm_compute. reflexivity. Qed.
Example cc_multi_valued_ok :
  ok (mk V1b3 302 (hs (cc1 "no-transform" ++ cc1 "s-maxage=5")) []) = true.
Proof. vm_compute. reflexivity. Qed.
Example cc_case_and_space : rejected (mk V1b3 200 (hs (cc1 "Max-Age=100 ,   NO-Store ")) []) = true.
Proof. vm_compute. reflexivity. Qed.
Example cc_private_with_arg : rejected (mk V1b3 200 (hs (cc1 "max-age=100,private=""x-a""")) []) = true.
Proof. vm_compute. reflexivity. Qed.
Example cc_none_status_200 : ok (mk V1b3 200 (hs []) []) = true.          (* cacheable by default *)
Proof. vm_compute. reflexivity. Qed.
Example cc_none_status_302 : rejected (mk V1b3 302 (hs []) []) = true.    (* not by default *)
Proof. vm_compute. reflexivity. Qed.
Example cc_public_status_302 : ok (mk V1b3 302 (hs (cc1 "public")) []) = true.
Proof. vm_compute. reflexivity. Qed.
Example expires_status_302 :
  ok (mk V1b3 302 (hs [(s2b "Expires", s2b "Thu, 01 Dec 2033 16:00:00 GMT")]) []) = true.
Proof. vm_compute. reflexivity. Qed.
Example status_not_understood : rejected (mk V1b3 299 (hs (cc1 "max-age=100")) []) = true.
Proof. vm_compute. reflexivity. Qed.
Example no_content_type_b3 : rejected (mk V1b3 200 (cc1 "max-age=100") []) = true.
Proof. vm_compute. reflexivity. Qed.
(* b2 has neither requirement *)
Example no_content_type_b2 : ok (mk V1b2 200 (cc1 "no-store") []) = true.
Proof. vm_compute. reflexivity. Qed.

(* banned response headers, in any letter case (a raw, non-canonical map key) *)
Example banned_canonical :
  rejected (mk V1b3 200 (hs (cc1 "max-age=100") ++ [(s2b "Set-Cookie", s2b "a=b")]) []) = true.
Proof. vm_compute. reflexivity. Qed.
Example banned_odd_case :
  rejected (mk V1b3 200 (hs (cc1 "max-age=100")) [(s2b "sEt-cOOkie", [s2b "a=b"])]) = true.
Proof. vm_compute. reflexivity. Qed.
Example banned_hop_by_hop_b1 :
  rejected (mk V1b1 200 (hs []) [(s2b "KEEP-alive", [s2b "timeout=5"])]) = true.
Proof. vm_compute. reflexivity. Qed.
Example harmless_extra_header : ok (mk V1b3 200 (hs (cc1 "max-age=100") ++ [(s2b "X-Foo", s2b "1")]) []) = true.
Proof. vm_compute. reflexivity. Qed.

(* b1/b2: method and stateful request headers *)
Definition mkreq (v : version) (m : string) (rq : headers) : exchange :=
  get (toy_sign (with_reqh (with_method (plain v 200 std_headers []) (s2b m)) rq) toy_date toy_expires).
Example b2_head_ok : ok (mkreq V1b2 "HEAD" [(s2b "Accept", [s2b "*/*"])]) = true.
Proof. vm_compute. reflexivity. Qed.
Example b2_post_rejected : rejected (mkreq V1b2 "POST" []) = true.
Proof. vm_compute. reflexivity. Qed.
Example b1_cookie_rejected : rejected (mkreq V1b1 "GET" [(s2b "cOOKIE", [s2b "id=1"])]) = true.
Proof. vm_compute. reflexivity. Qed.
Example b2_authorization_rejected : rejected (mkreq V1b2 "GET" [(s2b "Authorization", [s2b "Basic eA=="])]) = true.
Proof. vm_compute. reflexivity. Qed.

(* KNOWN GAP w.r.t. draft 4.1: a header field listed in no-cache="..." is an
   uncached header field; the verifier does not look (TODO in stateful_headers.go) *)
Example no_cache_listed_header_accepted :
  ok (mk V1b3 200 (hs (cc1 "no-cache=""x-private"", max-age=600") ++ [(s2b "X-Private", s2b "1")]) []) = true.
Proof. vm_compute. reflexivity. Qed.

(* MODEL GAP (reported, Model/ not edited): parseCacheControlDirectives uses
   strings.TrimSpace and strings.ToLower, which are Unicode-aware; the model's
   [is_space] / [lower] are ASCII-only.  For the values below Go trims the
   U+00A0 (bytes C2 A0) / lower-cases U+0130 to "i", finds no-store / private
   and REJECTS; the model accepts.  (Only header values with non-ASCII bytes
   are affected; RFC 7230 OWS is SP / HTAB.) *)
Example model_gap_nbsp_no_store :
  ok (mk V1b3 200 (hs [(s2b "Cache-Control", [194; 160] ++ s2b "no-store, max-age=5")]) []) = true.
Proof. vm_compute. reflexivity. Qed.
Example model_gap_dotted_I_private :
  ok (mk V1b3 200 (hs [(s2b "Cache-Control", s2b "pr" ++ [196; 176] ++ s2b "vate, max-age=5")]) []) = true.
Proof. vm_compute. reflexivity. Qed.
