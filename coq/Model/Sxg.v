(* Model of go/signedexchange/{signedexchange,signer,verifier,stateful_headers}.go
   and version/version.go.  External libraries are parameters of the Section:
   SHA-256, x509 parsing / key identification, signature verification, cert
   fetching, the http.StatusText table.  url.Parse is the partial model of
   Model/Url.v: where it answers UUnknown the result is *tainted* (the
   correspondence run skips tainted cases).  No proofs here. *)
From WP Require Import Base.Prelude Base.Base64 Base.Decimal.
From WP Require Import Model.Cbor Model.BigEndian Model.Http Model.Url Model.Mice
                       Model.StructHdr Model.CertChain.
Open Scope N_scope.

Inductive version := V1b1 | V1b2 | V1b3.
Definition version_eqb (a b : version) : bool :=
  match a, b with V1b1, V1b1 | V1b2, V1b2 | V1b3, V1b3 => true | _, _ => false end.
Definition has_request (v : version) : bool := match v with V1b3 => false | _ => true end.

Definition header_magic (v : version) : bytes :=
  match v with
  | V1b1 => s2b "sxg1-b1" ++ [0]
  | V1b2 => s2b "sxg1-b2" ++ [0]
  | V1b3 => s2b "sxg1-b3" ++ [0]
  end.
Definition from_magic (m : bytes) : option version :=
  if bytes_eqb m (header_magic V1b1) then Some V1b1
  else if bytes_eqb m (header_magic V1b2) then Some V1b2
  else if bytes_eqb m (header_magic V1b3) then Some V1b3
  else None.
Definition mice_of (v : version) : draft := match v with V1b1 => D02 | _ => D03 end.
Definition context_string (v : version) : bytes :=
  match v with
  | V1b1 => s2b "HTTP Exchange 1 b1"
  | V1b2 => s2b "HTTP Exchange 1 b2"
  | V1b3 => s2b "HTTP Exchange 1 b3"
  end.

Record exchange := {
  e_ver : version;
  e_uri : bytes; e_method : bytes; e_reqh : headers;
  e_status : Z; e_resph : headers;
  e_sig : bytes;            (* SignatureHeaderValue *)
  e_payload : bytes;
  e_taint : bool            (* a decision depended on something the model cannot decide *)
}.
Definition set_taint (e : exchange) : exchange :=
  {| e_ver := e_ver e; e_uri := e_uri e; e_method := e_method e; e_reqh := e_reqh e;
     e_status := e_status e; e_resph := e_resph e; e_sig := e_sig e;
     e_payload := e_payload e; e_taint := true |}.

Definition is_ascii (s : bytes) : bool := forallb (fun c => c <? 128) s.

(* ---- header CBOR (signedexchange.go) ----------------------------------- *)
Definition key_method := s2b ":method".
Definition key_url := s2b ":url".
Definition key_status := s2b ":status".

Definition header_entries (h : headers) : list (bytes * bytes) :=
  map (fun nv => (enc_bytes (lower (fst nv)), enc_bytes (join_comma (snd nv)))) h.

Definition encode_request_map (e : exchange) : R bytes :=
  enc_map ([(enc_bytes key_method, enc_bytes (e_method e))]
           ++ (match e_ver e with
               | V1b1 => [(enc_bytes key_url, enc_bytes (e_uri e))]
               | _ => []
               end)
           ++ header_entries (e_reqh e)).

Definition encode_response_map (e : exchange) : R bytes :=
  enc_map ((enc_bytes key_status, enc_bytes (dec_of_Z (e_status e))) :: header_entries (e_resph e)).

Definition encode_exchange_headers (e : exchange) : R bytes :=
  if has_request (e_ver e) then
    let* rq := encode_request_map e in
    let* rs := encode_response_map e in
    Ok (enc_array_header 2 ++ rq ++ rs)
  else encode_response_map e.

(* validateFallbackURL: (accepted?, tainted?) *)
Definition validate_fallback (u : bytes) : bool * bool :=
  match url_parse u with
  | UErr => (false, false)
  | UOk sch _ _ _ => (bytes_eqb sch (s2b "https"), false)
  | UUnknown =>
      (* outside the decided class of url.Parse: a scheme other than https is refused whatever
         the parser answers (an error is refused too); only https URLs stay undecided *)
      match get_scheme (fst (split_at (N.eqb 35) u [])) O [] (fst (split_at (N.eqb 35) u [])) with
      | Some (sch, _) => if bytes_eqb (lower sch) (s2b "https") then (true, true) else (false, false)
      | None => (false, false)
      end
  end.

(* ---- Write -------------------------------------------------------------- *)
(* Write refuses what ReadExchange refuses: a fallback URL that is not https, and
   (b2) a request header named ":url" *)
Definition write_refuses (e : exchange) : bool :=
  negb (fst (validate_fallback (e_uri e)))
  || (match e_ver e with
      | V1b2 => existsb (fun nv => bytes_eqb (lower (fst nv)) (s2b ":url")) (e_reqh e)
      | _ => false end).
Definition write_taint (e : exchange) : bool := snd (validate_fallback (e_uri e)).

Definition write (e : exchange) : R bytes :=
  if write_refuses e then Err else
  let* hdr := encode_exchange_headers e in
  let hl := lenN hdr in
  let sl := lenN (e_sig e) in
  match e_ver e with
  | V1b1 =>
      let* a := be_encode (Z.of_N sl) 3 in
      let* b := be_encode (Z.of_N hl) 3 in
      Ok (header_magic V1b1 ++ a ++ b ++ e_sig e ++ hdr ++ e_payload e)
  | v =>
      let* ul := be_encode (Z.of_N (lenN (e_uri e))) 2 in
      if 16384 <? sl then Err
      else
        let* a := be_encode (Z.of_N sl) 3 in
        if 524288 <? hl then Err
        else
          let* b := be_encode (Z.of_N hl) 3 in
          Ok (header_magic v ++ ul ++ e_uri e ++ a ++ b ++ e_sig e ++ hdr ++ e_payload e)
  end.

(* ---- Read --------------------------------------------------------------- *)
(* strconv.Atoi *)
Definition atoi (s : bytes) : option Z :=
  match s with
  | [] => None
  | c :: r =>
      let '(neg, ds) := if c =? 45 then (true, r) else if c =? 43 then (false, r) else (false, s) in
      match parse_uint ds with
      | None => None
      | Some v =>
          if neg then (if v <=? two63 then Some (- Z.of_N v)%Z else None)
          else (if v <? two63 then Some (Z.of_N v) else None)
      end
  end.

(* key_str != strings.ToLower(key_str): for ASCII exact; invalid UTF-8 is always
   changed by ToLower (bytes replaced by U+FFFD); valid non-ASCII is undecided. *)
Definition lower_check (k : bytes) : option bool (* Some ok / None = undecided *) :=
  if is_ascii k then Some (bytes_eqb k (lower k))
  else if utf8_valid k then None else Some false.

Record hstate := { h_method : bytes; h_uri : bytes; h_req : headers;
                   h_status : Z; h_resp : headers; h_taint : bool }.

Fixpoint dec_request_map (fuel : nat) (v : version) (n : N) (bs : bytes) (s : hstate) : R (hstate * bytes) :=
  match fuel with
  | O => Fuel
  | S f =>
      if n =? 0 then Ok (s, bs)
      else
        let* (key, r1) := decode_bytes bs in
        match lower_check key with
        | Some false => Err
        | lc =>
            let t := match lc with None => true | _ => h_taint s end in
            let* (value, r2) := decode_bytes r1 in
            if bytes_eqb key key_method then
              dec_request_map f v (n - 1) r2
                {| h_method := value; h_uri := h_uri s; h_req := h_req s; h_status := h_status s;
                   h_resp := h_resp s; h_taint := t |}
            else if bytes_eqb key key_url then
              match v with
              | V1b1 =>
                  let '(ok, tn) := validate_fallback value in
                  if ok then
                    dec_request_map f v (n - 1) r2
                      {| h_method := h_method s; h_uri := value; h_req := h_req s;
                         h_status := h_status s; h_resp := h_resp s; h_taint := t || tn |}
                  else Err
              | _ => Err
              end
            else
              dec_request_map f v (n - 1) r2
                {| h_method := h_method s; h_uri := h_uri s; h_req := hdr_add (h_req s) key value;
                   h_status := h_status s; h_resp := h_resp s; h_taint := t |}
        end
  end.

Fixpoint dec_response_map (fuel : nat) (n : N) (bs : bytes) (s : hstate) : R (hstate * bytes) :=
  match fuel with
  | O => Fuel
  | S f =>
      if n =? 0 then Ok (s, bs)
      else
        let* (key, r1) := decode_bytes bs in
        match lower_check key with
        | Some false => Err
        | lc =>
            let t := match lc with None => true | _ => h_taint s end in
            let* (value, r2) := decode_bytes r1 in
            if bytes_eqb key key_status then
              match atoi value with
              | None => Err
              | Some st =>
                  dec_response_map f (n - 1) r2
                    {| h_method := h_method s; h_uri := h_uri s; h_req := h_req s; h_status := st;
                       h_resp := h_resp s; h_taint := t |}
              end
            else
              dec_response_map f (n - 1) r2
                {| h_method := h_method s; h_uri := h_uri s; h_req := h_req s; h_status := h_status s;
                   h_resp := hdr_add (h_resp s) key value; h_taint := t |}
        end
  end.

Definition decode_exchange_headers (v : version) (bs : bytes) (s : hstate) : R hstate :=
  let fuel := S (List.length bs) in
  if has_request v then
    let* (n, r) := decode_array_header bs in
    if negb (n =? 2) then Err
    else
      let* (m, r1) := decode_map_header r in
      let* (s1, r2) := dec_request_map fuel v m r1 s in
      let* (m2, r3) := decode_map_header r2 in
      let* (s2, _) := dec_response_map fuel m2 r3 s1 in
      Ok s2
  else
    let s0 := {| h_method := s2b "GET"; h_uri := h_uri s; h_req := h_req s; h_status := h_status s;
                 h_resp := h_resp s; h_taint := h_taint s |} in
    let* (m2, r3) := decode_map_header bs in
    let* (s2, _) := dec_response_map fuel m2 r3 s0 in
    Ok s2.

(* ReadExchangePrologue: the exchange (payload empty) and the unread rest *)
Definition read_prologue (bs : bytes) : R (exchange * bytes) :=
  let* (magic, r0) := of_opt (splitN bs 8) in
  let* v := of_opt (from_magic magic) in
  let* (uri, taint, r1) :=
    (match v with
     | V1b1 => Ok ([], false, r0)
     | _ =>
         let* (lb, ra) := of_opt (splitN r0 2) in
         let* (u, rb) := of_opt (splitN ra (unbe lb)) in
         let '(ok, t) := validate_fallback u in
         if ok then Ok (u, t, rb) else Err
     end) in
  let* (sl, r2) := of_opt (splitN r1 3) in
  let* (hl, r3) := of_opt (splitN r2 3) in
  let* (sig, r4) := of_opt (splitN r3 (decode3 sl)) in
  let* (hdr, r5) := of_opt (splitN r4 (decode3 hl)) in
  let* s := decode_exchange_headers v hdr
              {| h_method := []; h_uri := uri; h_req := []; h_status := 0%Z; h_resp := [];
                 h_taint := taint |} in
  Ok ({| e_ver := v; e_uri := h_uri s; e_method := h_method s; e_reqh := h_req s;
         e_status := h_status s; e_resph := h_resp s; e_sig := sig; e_payload := [];
         e_taint := h_taint s |}, r5).

Definition read (bs : bytes) : R exchange :=
  let* (e, rest) := read_prologue bs in
  Ok {| e_ver := e_ver e; e_uri := e_uri e; e_method := e_method e; e_reqh := e_reqh e;
        e_status := e_status e; e_resph := e_resph e; e_sig := e_sig e; e_payload := rest;
        e_taint := e_taint e |}.

Section Crypto.
  Variable H256 : bytes -> bytes.

  (* ---- signer.go: serializeSignedMessage -------------------------------- *)
  Definition text_key (k : string) : bytes := enc_bytes_of TText (s2b k).

  Definition signed_message (e : exchange) (cert_sha : option bytes) (validity : bytes)
             (date expires : Z) : R bytes :=
    let prefix := repeat 32 64 ++ context_string (e_ver e) ++ [0] in
    match e_ver e with
    | V1b1 =>
        (* encodeExchangeHeaders runs inside a map-entry callback that ignores its
           error; it can only fail on a duplicated key, i.e. a header named like a
           pseudo key (":method", ":url", ":status") - excluded from the domain
           (such an exchange cannot be written either); the model answers Err. *)
        let* hv := encode_exchange_headers e in
        let* m := enc_map
          ((match cert_sha with
            | Some c => [(text_key "cert-sha256", enc_bytes c)]
            | None => []
            end)
           ++ [(text_key "validity-url", enc_bytes validity);
               (text_key "date", enc_int date);
               (text_key "expires", enc_int expires);
               (text_key "headers", hv)]) in
        Ok (prefix ++ m)
    | _ =>
        let cs := match cert_sha with Some c => 32 :: c | None => [] end in
        let* vl := be_encode (Z.of_N (lenN validity)) 8 in
        let* d := be_encode date 8 in
        let* x := be_encode expires 8 in
        let* rl := be_encode (Z.of_N (lenN (e_uri e))) 8 in
        let* hdr := encode_exchange_headers e in
        let* hl := be_encode (Z.of_N (lenN hdr)) 8 in
        Ok (prefix ++ cs ++ vl ++ validity ++ d ++ x ++ rl ++ e_uri e ++ hl ++ hdr)
    end.

  Definition cert_sha256 (certs : list bytes) : option bytes :=
    match certs with c :: _ => Some (H256 c) | [] => None end.

  (* signatureHeaderValue, given the signature bytes the algorithm returned *)
  Definition signature_header_value (e : exchange) (certs : list bytes)
             (cert_url validity : bytes) (date expires : Z) (sig : bytes) : R bytes :=
    serialize_pi
      {| pi_label := s2b "label";
         pi_params :=
           [(s2b "sig", Some (ShBytes sig));
            (s2b "validity-url", Some (ShStr validity));
            (s2b "integrity", Some (ShStr (integrity_identifier (mice_of (e_ver e)))));
            (s2b "cert-url", Some (ShStr cert_url));
            (s2b "cert-sha256", Some (ShBytes (match cert_sha256 certs with Some c => c | None => [] end)));
            (s2b "date", Some (ShInt date));
            (s2b "expires", Some (ShInt expires))] |}.

  (* Exchange.MiEncodePayload *)
  Definition mi_encode_payload (e : exchange) (rs : N) : R exchange :=
    let d := mice_of (e_ver e) in
    match hdr_values (e_resph e) (digest_header_name d) with
    | _ :: _ => Err
    | [] =>
        let* (stream, dg) := encode H256 d rs (e_payload e) in
        Ok {| e_ver := e_ver e; e_uri := e_uri e; e_method := e_method e; e_reqh := e_reqh e;
              e_status := e_status e;
              e_resph := hdr_add (hdr_add (e_resph e) (s2b "Content-Encoding") (content_encoding d))
                                 (digest_header_name d) dg;
              e_sig := e_sig e; e_payload := stream; e_taint := e_taint e |}
    end.

  Definition header_integrity (e : exchange) : R bytes :=
    let* h := encode_exchange_headers e in
    Ok (s2b "sha256-" ++ b64_encode true false (H256 h)).

  (* ---- verifier.go ------------------------------------------------------ *)
  (* oracles *)
  Variable x509_key : bytes -> option (option N).  (* DER -> parse error | unsupported key | key id *)
  Variable sig_ok : N -> bytes -> bytes -> bool.   (* key id, message, signature (incl. strict DER parse) *)
  Variable status_known : Z -> bool.               (* http.StatusText(code) <> "" *)

  Record signature := { s_sig : bytes; s_integrity : bytes; s_cert_url : bytes;
                        s_cert_sha : bytes; s_validity : bytes; s_date : Z; s_expires : Z }.

  Definition param (ps : sh_params) (k : string) : option sh_item :=
    match find (fun p => bytes_eqb (fst p) (s2b k)) ps with
    | Some (_, v) => v
    | None => None
    end.
  Definition extract_signature (p : pident) : option signature :=
    let ps := pi_params p in
    match param ps "sig", param ps "integrity", param ps "cert-url", param ps "cert-sha256",
          param ps "validity-url", param ps "date", param ps "expires" with
    | Some (ShBytes sg), Some (ShStr ig), Some (ShStr cu), Some (ShBytes cs),
      Some (ShStr vu), Some (ShInt d), Some (ShInt x) =>
        Some {| s_sig := sg; s_integrity := ig; s_cert_url := cu; s_cert_sha := cs;
                s_validity := vu; s_date := d; s_expires := x |}
    | _, _, _, _, _, _, _ => None
    end.

  (* time.Unix(sec, 0): seconds since year 1, wrapping in int64 *)
  Definition unix_to_internal : Z := 62135596800%Z.
  Definition of_i64_wrap (z : Z) : N := Z.to_N (z mod Z.of_N two64)%Z.
  Definition isec (sec : Z) : Z := to_i64 (of_i64_wrap (sec + unix_to_internal)).

  (* verifyTimestamps; the verification time is (seconds, nanoseconds) *)
  Definition verify_timestamps (date expires : Z) (tsec tnsec : Z) : bool :=
    let c := isec date in let x := isec expires in let t := isec tsec in
    let life_ok := (x - c <=? 604800)%Z in
    let before := (t <? c)%Z in                         (* t.nsec >= 0 = creation nsec *)
    let after := (x <? t)%Z || ((t =? x)%Z && (0 <? tnsec)%Z) in
    life_ok && negb before && negb after.

  (* parseCacheControlDirectives: the set of (lower-cased) directive names *)
  Definition is_space (c : N) : bool :=
    (c =? 32) || (c =? 9) || (c =? 10) || (c =? 11) || (c =? 12) || (c =? 13).
  Fixpoint trim_left (s : bytes) : bytes :=
    match s with c :: r => if is_space c then trim_left r else s | [] => [] end.
  Definition trim_space (s : bytes) : bytes := rev_append (trim_left (rev_append (trim_left s) [])) [].
  Fixpoint split_comma (s : bytes) (cur : bytes) : list bytes :=
    match s with
    | [] => [rev_append cur []]
    | c :: r => if c =? 44 then rev_append cur [] :: split_comma r [] else split_comma r (c :: cur)
    end.
  Definition directive_name (s : bytes) : bytes :=
    let t := trim_space s in
    lower (fst (split_at (N.eqb 61) t [])).
  Definition cache_directives (cc : bytes) : list bytes := map directive_name (split_comma cc []).
  Definition has_directive (ds : list bytes) (d : string) : bool := existsb (bytes_eqb (s2b d)) ds.

  Definition cacheable_status (s : Z) : bool :=
    existsb (Z.eqb s) [200; 203; 204; 206; 300; 301; 404; 405; 410; 414; 501]%Z.

  (* Exchange.IsCacheable (b3) *)
  Definition is_cacheable (e : exchange) : bool :=
    if negb (status_known (e_status e)) then false
    else
      let ds := cache_directives (hdr_value_ci (e_resph e) (s2b "Cache-Control")) in
      if has_directive ds "no-store" then false
      else if has_directive ds "private" then false
      else if negb (match hdr_value_ci (e_resph e) (s2b "Expires") with [] => true | _ => false end) then true
      else if has_directive ds "max-age" then true
      else if has_directive ds "s-maxage" then true
      else if cacheable_status (e_status e) then true
      else has_directive ds "public".

  Definition stateful_request_headers : list bytes :=
    map s2b ["authorization"; "cookie"; "cookie2"; "proxy-authorization"; "sec-websocket-key"]%string.
  Definition uncached_headers : list bytes :=
    map s2b ["connection"; "keep-alive"; "proxy-connection"; "trailer"; "transfer-encoding"; "upgrade";
             "authentication-control"; "authentication-info"; "clear-site-data";
             "optional-www-authenticate"; "proxy-authenticate"; "proxy-authentication-info";
             "public-key-pins"; "sec-websocket-accept"; "set-cookie"; "set-cookie2"; "setprofile";
             "strict-transport-security"; "www-authenticate"]%string.
  Definition is_stateful_request_header (n : bytes) : bool :=
    existsb (bytes_eqb (lower n)) stateful_request_headers.
  Definition is_uncached_header (n : bytes) : bool :=
    existsb (bytes_eqb (lower n)) uncached_headers.
  Definition verify_headers (e : exchange) : bool :=
    negb (existsb (fun nv => is_stateful_request_header (fst nv)) (e_reqh e))
    && negb (existsb (fun nv => is_uncached_header (fst nv)) (e_resph e)).

  (* verifyPayload *)
  Definition verify_payload (e : exchange) (s : signature) : option bytes :=
    let d := mice_of (e_ver e) in
    if negb (bytes_eqb (s_integrity s) (integrity_identifier d)) then None
    else
      match hdr_value_ci (e_resph e) (digest_header_name d) with
      | [] => None
      | dg =>
          match decode_all H256 d (e_payload e) dg 16384 512 with
          | Ok (out, REOF) => Some out
          | _ => None
          end
      end.

  (* isSameOrigin on the partial URL model: Some b / None = undecided *)
  Definition same_origin (a b : bytes) : option (option bool) :=
    (* outer None: a URL failed to parse (-> skip this signature);
       Some None: undecided; Some (Some b): decided *)
    match url_parse a, url_parse b with
    | UErr, _ | _, UErr => None
    | UOk s1 h1 _ _, UOk s2 h2 _ _ => Some (Some (bytes_eqb s1 s2 && bytes_eqb h1 h2))
    | _, _ => Some None
    end.

  Variable fetch : bytes -> R bytes.

  (* verifySignature *)
  Definition verify_signature (e : exchange) (tsec tnsec : Z) (s : signature) : option bytes :=
    match fetch (s_cert_url s) with
    | Ok cb =>
        match cc_read (fun der => match x509_key der with Some _ => true | None => false end) cb with
        | Ok (main :: _) =>
            match x509_key (ac_cert main) with
            | Some (Some kid) =>
                if negb (verify_timestamps (s_date s) (s_expires s) tsec tnsec) then None
                else
                  let csha := H256 (ac_cert main) in
                  match signed_message e (Some csha) (s_validity s) (s_date s) (s_expires s) with
                  | Ok msg =>
                      if negb (bytes_eqb (s_cert_sha s) csha) then None
                      else if negb (sig_ok kid msg (s_sig s)) then None
                      else if negb (has_request (e_ver e))
                              && (match hdr_value_ci (e_resph e) (s2b "Content-Type") with [] => true | _ => false end)
                      then None
                      else verify_payload e s
                  | _ => None
                  end
            | _ => None
            end
        | _ => None
        end
    | _ => None
    end.

  Inductive verdict := Valid (payload : bytes) | Invalid | Undecided.

  Fixpoint verify_sigs (e : exchange) (tsec tnsec : Z) (sigs : list pident) (tainted : bool) : verdict :=
    match sigs with
    | [] => if tainted then Undecided else Invalid
    | p :: rest =>
        match extract_signature p with
        | None => verify_sigs e tsec tnsec rest tainted
        | Some s =>
            match same_origin (s_validity s) (e_uri e) with
            | None => verify_sigs e tsec tnsec rest tainted
            | Some (Some false) => verify_sigs e tsec tnsec rest tainted
            | Some so =>
                let t' := tainted || (match so with None => true | _ => false end) in
                match verify_signature e tsec tnsec s with
                | None => verify_sigs e tsec tnsec rest t'
                | Some decoded =>
                    let method_ok :=
                      negb (has_request (e_ver e)) ||
                      bytes_eqb (e_method e) (s2b "GET") || bytes_eqb (e_method e) (s2b "HEAD") in
                    if negb method_ok then verify_sigs e tsec tnsec rest t'
                    else if negb (has_request (e_ver e)) && negb (is_cacheable e)
                    then verify_sigs e tsec tnsec rest t'
                    else if negb (verify_headers e) then verify_sigs e tsec tnsec rest t'
                    else if t' then Undecided else Valid decoded
                end
            end
        end
    end.

  (* Exchange.Verify *)
  Definition verify (e : exchange) (tsec tnsec : Z) : verdict :=
    match parse_parameterised_list (e_sig e) with
    | Ok sigs => verify_sigs e tsec tnsec sigs (e_taint e)
    | _ => Invalid
    end.
End Crypto.
