(* Model of go/bundle/signature/{signer,verifier}.go and Exchange.AddPayloadIntegrity
   (bundle.go).  SHA-256, x509 key identification and signature verification
   are parameters; url.Parse of the validity URL is the partial URL model. *)
From WP Require Import Base.Prelude.
From WP Require Import Model.Cbor Model.Http Model.Url Model.Mice Model.CertChain Model.Bundle Model.Sxg.
Open Scope N_scope.

Record res_integrity := { ri_hsha : bytes; ri_integ : bytes }.
Record resp_hashes := { rh_variants : bytes; rh_hashes : list res_integrity }.
Record signed_subset := { ss_validity : bytes; ss_auth : bytes; ss_date : Z; ss_expires : Z;
                          ss_hashes : list (bytes * resp_hashes) }.

Definition sig_context (v : bversion) : bytes :=
  match v with BV1 => s2b "Web Package 1 b1" | BV2 => s2b "Web Package 1 b2" end.

(* generateSignedMessage *)
Definition generate_signed_message (signed : bytes) (v : bversion) : bytes :=
  repeat 32 64 ++ sig_context v ++ [0] ++ signed.

Definition tkey (k : string) : bytes := enc_bytes_of TText (s2b k).

Definition hashes_value (rh : resp_hashes) : R bytes :=
  let* items :=
    (fix go (l : list res_integrity) : R bytes :=
       match l with
       | [] => Ok []
       | r :: t => let* tx := enc_text (ri_integ r) in let* rest := go t in
                   Ok (enc_bytes (ri_hsha r) ++ tx ++ rest)
       end) (rh_hashes rh) in
  Ok (enc_array_header (1 + lenN (rh_hashes rh) * 2) ++ enc_bytes (rh_variants rh) ++ items).

(* SignedSubset.Encode; text strings that are not valid UTF-8 make an ignored
   inner call fail (outside the domain): the model answers Err. *)
Definition encode_subset (s : signed_subset) : R bytes :=
  let* vu := enc_text (ss_validity s) in
  let* ents :=
    (fix go (l : list (bytes * resp_hashes)) : R (list (bytes * bytes)) :=
       match l with
       | [] => Ok []
       | (u, rh) :: t =>
           let* k := enc_text u in let* v := hashes_value rh in let* r := go t in Ok ((k, v) :: r)
       end) (ss_hashes s) in
  let* inner := enc_map ents in
  enc_map [(tkey "validity-url", vu); (tkey "auth-sha256", enc_bytes (ss_auth s));
           (tkey "date", enc_int (ss_date s)); (tkey "expires", enc_int (ss_expires s));
           (tkey "subset-hashes", inner)].

Section Sig.
  Variable H256 : bytes -> bytes.

  (* Exchange.AddPayloadIntegrity *)
  Definition add_payload_integrity (x : bexchange) (rs : N) : R (bexchange * bytes) :=
    match hdr_values (bx_hdr x) (s2b "Digest") with
    | _ :: _ => Err
    | [] =>
        if (rs <? 1) || (16384 <? rs) then Err else         (* record sizes no verifier accepts *)
        let* (stream, dg) := encode H256 D03 rs (bx_body x) in
        Ok ({| bx_url := bx_url x; bx_status := bx_status x;
               bx_hdr := hdr_add (hdr_add (bx_hdr x) (s2b "Content-Encoding") (content_encoding D03))
                                 (s2b "Digest") dg;
               bx_body := stream |}, integrity_identifier D03)
    end.

  Definition header_sha256 (x : bexchange) : R bytes :=
    let* h := encode_response_header (bx_status x) (bx_hdr x) in Ok (H256 h).

  (* Signer.AddExchange *)
  Definition add_exchange (s : signed_subset) (x : bexchange) (integ : bytes) : R signed_subset :=
    let* hs := header_sha256 x in
    if existsb (fun e => bytes_eqb (fst e) (bx_url x)) (ss_hashes s) then Err
    else Ok {| ss_validity := ss_validity s; ss_auth := ss_auth s; ss_date := ss_date s;
               ss_expires := ss_expires s;
               ss_hashes := ss_hashes s ++ [(bx_url x, {| rh_variants := [];
                                                           rh_hashes := [{| ri_hsha := hs; ri_integ := integ |}] |})] |}.

  (* NewSigner *)
  Definition new_signer (certs : list augcert) (validity : bytes) (date duration : Z) : R signed_subset :=
    if negb (validate certs) then Err
    else match certs with
         | c :: _ => Ok {| ss_validity := validity; ss_auth := H256 (ac_cert c); ss_date := date;
                           ss_expires := (date + duration)%Z; ss_hashes := [] |}
         | [] => Err
         end.

  (* Signer.UpdateSignatures, given the signature bytes over the signed message *)
  Definition update_signatures (sigs : option signatures) (certs : list augcert) (signed sig : bytes) : signatures :=
    let old := match sigs with Some s => s | None => {| sg_auth := []; sg_vouched := [] |} end in
    {| sg_auth := sg_auth old ++ certs;
       sg_vouched := sg_vouched old ++ [{| vs_authority := lenN (sg_auth old); vs_sig := sig; vs_signed := signed |}] |}.

  (* ---- verifier --------------------------------------------------------- *)
  Fixpoint dec_hash_pairs (fuel : nat) (k : N) (bs : bytes) (acc : list res_integrity)
    : R (list res_integrity * bytes) :=
    match fuel with
    | O => Fuel
    | S f =>
        if k =? 0 then Ok (acc, bs)
        else
          let* (h, r1) := decode_bytes bs in
          let* (i, r2) := decode_text r1 in
          dec_hash_pairs f (k - 1) r2 (acc ++ [{| ri_hsha := h; ri_integ := i |}])
    end.

  (* decodeSubsetHashes: later duplicates of a URL replace earlier ones *)
  Fixpoint set_hash (l : list (bytes * resp_hashes)) (u : bytes) (rh : resp_hashes) : list (bytes * resp_hashes) :=
    match l with
    | [] => [(u, rh)]
    | (u', x) :: t => if bytes_eqb u' u then (u', rh) :: t else (u', x) :: set_hash t u rh
    end.

  Fixpoint dec_subset_hashes (fuel : nat) (n : N) (bs : bytes) (acc : list (bytes * resp_hashes))
    : R (list (bytes * resp_hashes) * bytes) :=
    match fuel with
    | O => Fuel
    | S f =>
        if n =? 0 then Ok (acc, bs)
        else
          let* (u, r1) := decode_text bs in
          let* (m, r2) := decode_array_header r1 in
          if (m <? 3) || N.even m then Err
          else
            let* (vv, r3) := decode_bytes r2 in
            let* (hs, r4) := dec_hash_pairs (S (List.length r3)) ((m - 1) / 2) r3 [] in
            dec_subset_hashes f (n - 1) r4 (set_hash acc u {| rh_variants := vv; rh_hashes := hs |})
    end.

  Record ss_acc := { a_validity : option bytes; a_auth : option bytes; a_date : option Z;
                     a_expires : option Z; a_hashes : option (list (bytes * resp_hashes));
                     a_taint : bool }.

  (* int64(uint64) then time.Unix(sec, 0): the zero Time is year 1 *)
  Definition time_is_zero (sec : Z) : bool := (isec sec =? 0)%Z.

  Fixpoint dec_subset_fields (fuel : nat) (n : N) (bs : bytes) (a : ss_acc) : R ss_acc :=
    match fuel with
    | O => Fuel
    | S f =>
        if n =? 0 then Ok a
        else
          let* (label, r) := decode_text bs in
          if bytes_eqb label (s2b "validity-url") then
            let* (u, r') := decode_text r in
            match url_parse u with
            | UErr => Err
            | res =>
                dec_subset_fields f (n - 1) r'
                  {| a_validity := Some u; a_auth := a_auth a; a_date := a_date a; a_expires := a_expires a;
                     a_hashes := a_hashes a;
                     a_taint := a_taint a || (match res with UUnknown => true | _ => false end) |}
            end
          else if bytes_eqb label (s2b "auth-sha256") then
            let* (b, r') := decode_bytes r in
            dec_subset_fields f (n - 1) r'
              {| a_validity := a_validity a; a_auth := Some b; a_date := a_date a; a_expires := a_expires a;
                 a_hashes := a_hashes a; a_taint := a_taint a |}
          else if bytes_eqb label (s2b "date") then
            let* (d, r') := decode_uint r in
            dec_subset_fields f (n - 1) r'
              {| a_validity := a_validity a; a_auth := a_auth a; a_date := Some (to_i64 d);
                 a_expires := a_expires a; a_hashes := a_hashes a; a_taint := a_taint a |}
          else if bytes_eqb label (s2b "expires") then
            let* (d, r') := decode_uint r in
            dec_subset_fields f (n - 1) r'
              {| a_validity := a_validity a; a_auth := a_auth a; a_date := a_date a;
                 a_expires := Some (to_i64 d); a_hashes := a_hashes a; a_taint := a_taint a |}
          else if bytes_eqb label (s2b "subset-hashes") then
            let* (m, r0) := decode_map_header r in
            let* (hs, r') := dec_subset_hashes (S (List.length r0)) m r0 [] in
            dec_subset_fields f (n - 1) r'
              {| a_validity := a_validity a; a_auth := a_auth a; a_date := a_date a; a_expires := a_expires a;
                 a_hashes := Some hs; a_taint := a_taint a |}
          else Err
    end.

  (* decodeSignedSubset: (subset, tainted) *)
  Definition decode_signed_subset (signed : bytes) : R (signed_subset * bool) :=
    let* (n, r) := decode_map_header signed in
    let* a := dec_subset_fields (S (List.length r)) n r
                {| a_validity := None; a_auth := None; a_date := None; a_expires := None;
                   a_hashes := None; a_taint := false |} in
    match a_validity a, a_auth a, a_date a, a_expires a, a_hashes a with
    | Some v, Some au, Some d, Some x, Some hs =>
        if time_is_zero d || time_is_zero x then Err
        else Ok ({| ss_validity := v; ss_auth := au; ss_date := d; ss_expires := x; ss_hashes := hs |},
                 a_taint a)
    | _, _, _, _, _ => Err
    end.

  Variable x509_key : bytes -> option (option N).
  Variable sig_ok : N -> bytes -> bytes -> bool.

  (* verifyVouchedSubset: (subset, authority certificate, tainted) *)
  Definition verify_vouched (v : vouched) (auths : list augcert) (tsec tnsec : Z) (ver : bversion)
    : R (signed_subset * augcert * bool) :=
    if lenN auths <=? vs_authority v then Err
    else
      match nth_error auths (N.to_nat (vs_authority v)) with
      | None => Panic
      | Some cert =>
          match x509_key (ac_cert cert) with
          | Some (Some kid) =>
              if negb (sig_ok kid (generate_signed_message (vs_signed v) ver) (vs_sig v)) then Err
              else
                let* (ss, t) := decode_signed_subset (vs_signed v) in
                if negb (bytes_eqb (ss_auth ss) (H256 (ac_cert cert))) then Err
                else if negb (verify_timestamps (ss_date ss) (ss_expires ss) tsec tnsec) then Err
                else Ok (ss, cert, t)
          | _ => Err
          end
      end.

  Fixpoint verify_all (vs : list vouched) (auths : list augcert) (tsec tnsec : Z) (ver : bversion)
    : R (list (signed_subset * augcert * bool)) :=
    match vs with
    | [] => Ok []
    | v :: t =>
        let* x := verify_vouched v auths tsec tnsec ver in
        let* r := verify_all t auths tsec tnsec ver in
        Ok (x :: r)
    end.

  (* NewVerifier *)
  Definition new_verifier (sigs : signatures) (tsec tnsec : Z) (ver : bversion) :=
    verify_all (sg_vouched sigs) (sg_auth sigs) tsec tnsec ver.

  Inductive vx_result :=
  | VxUnsigned | VxErr | VxOk (payload : bytes) (authority : bytes) | VxUndecided.

  Fixpoint find_hashes (vss : list (signed_subset * augcert * bool)) (u : bytes)
    : option (resp_hashes * augcert) :=
    match vss with
    | [] => None
    | (ss, cert, _) :: t =>
        match find (fun e => bytes_eqb (fst e) u) (ss_hashes ss) with
        | Some (_, rh) => Some (rh, cert)
        | None => find_hashes t u
        end
    end.

  (* Verifier.VerifyExchange *)
  Definition verify_exchange (vss : list (signed_subset * augcert * bool)) (x : bexchange) : vx_result :=
    if existsb (fun e => snd e) vss then VxUndecided
    else
    match find_hashes vss (bx_url x) with
    | None => VxUnsigned
    | Some (rh, cert) =>
        match rh_variants rh, rh_hashes rh with
        | [], [r] =>
            match header_sha256 x with
            | Ok hs =>
                if negb (bytes_eqb hs (ri_hsha r)) then VxErr
                else if negb (bytes_eqb (integrity_identifier D03) (ri_integ r)) then VxErr
                else
                  match hdr_get (bx_hdr x) (s2b "Digest") with
                  | [] => VxErr
                  | dg =>
                      match decode_all H256 D03 (bx_body x) dg 16384 512 with
                      | Ok (out, REOF) => VxOk out (ac_cert cert)
                      | _ => VxErr
                      end
                  end
            | _ => VxErr
            end
        | _, _ => VxErr
        end
    end.
End Sig.
