(* Model of go/bundle/{bundle,encoder,decoder,countingwriter}.go and
   version/version.go.  URLs are the strings url.URL.String() yields / the raw
   strings found in the file; url.Parse is Model/UrlRef.v (partial: undecided
   answers taint the result).  x509 parsing of the signatures section's
   authorities is a parameter.  No proofs here. *)
From WP Require Import Base.Prelude Base.Decimal.
From WP Require Import Model.Cbor Model.Http Model.Url Model.UrlRef Model.StructHdr
                       Model.Variants Model.CertChain.
Open Scope N_scope.

Inductive bversion := BV1 | BV2.
Definition bversion_eqb (a b : bversion) : bool :=
  match a, b with BV1, BV1 | BV2, BV2 => true | _, _ => false end.

Definition hdr_magic_b1 : bytes := [134; 72; 240; 159; 140; 144; 240; 159; 147; 166].
Definition hdr_magic_b2 : bytes := [133; 72; 240; 159; 140; 144; 240; 159; 147; 166].
Definition ver_magic_b1 : bytes := [68; 98; 49; 0; 0].
Definition ver_magic_b2 : bytes := [68; 98; 50; 0; 0].
Definition header_magic_bytes (v : bversion) : bytes :=
  match v with BV1 => hdr_magic_b1 ++ ver_magic_b1 | BV2 => hdr_magic_b2 ++ ver_magic_b2 end.
Definition has_primary_in_header (v : bversion) : bool := match v with BV1 => true | BV2 => false end.
Definition supports_variants (v : bversion) : bool := match v with BV1 => true | BV2 => false end.
Definition supports_manifest (v : bversion) : bool := match v with BV1 => true | BV2 => false end.

Record bexchange := { bx_url : bytes; bx_status : Z; bx_hdr : headers; bx_body : bytes }.
Record vouched := { vs_authority : N; vs_sig : bytes; vs_signed : bytes }.
Record signatures := { sg_auth : list augcert; sg_vouched : list vouched }.
Record bundle := {
  b_ver : bversion;
  b_primary : option bytes;
  b_manifest : option bytes;
  b_sigs : option signatures;
  b_exchanges : list bexchange;
  b_taint : bool
}.

Definition is_ascii_b (s : bytes) : bool := forallb (fun c => c <? 128) s.

(* a URL found in the file: (accepted?, tainted?) under the reader's tests *)
Definition index_url_ok (u : bytes) : bool * bool :=
  match url_ref u with
  | RErr => (false, false)
  | ROk _ frag user => (negb frag && negb user, false)
  | RUnknown => (true, true)
  end.
Definition abs_url_ok (u : bytes) : bool * bool :=
  match url_ref u with
  | RErr => (false, false)
  | ROk abs frag user => (abs && negb frag && negb user, false)
  | RUnknown => (true, true)
  end.

Definition any_url_ok (u : bytes) : bool * bool :=
  match url_ref u with
  | RErr => (false, false)
  | ROk _ _ _ => (true, false)
  | RUnknown => (true, true)
  end.

(* ======================= writer (encoder.go) ============================ *)
(* what Response.EncodeHeader accepts of one header field: the reader's own tests
   (ASCII name not starting with ':', ASCII comma-joined value) *)
Definition hdr_writable_b (nv : bytes * list bytes) : bool :=
  negb (match fst nv with 58 :: _ => true | _ => false end)
  && is_ascii_b (fst nv) && is_ascii_b (join_comma (snd nv)).

(* Response.EncodeHeader *)
Definition encode_response_header (status : Z) (h : headers) : R bytes :=
  if ((status <? 100) || (999 <? status))%Z then Err
  else if negb (forallb hdr_writable_b h) then Err
  else
  enc_map ((enc_bytes (s2b ":status"), enc_bytes (dec_of_Z status))
           :: map (fun nv => (enc_bytes (lower (fst nv)), enc_bytes (join_comma (snd nv)))) h).

(* responsesSection.addResponse: the encoded item *)
Definition encode_response (x : bexchange) : R bytes :=
  let* hc := encode_response_header (bx_status x) (bx_hdr x) in
  Ok (enc_array_header 2 ++ enc_bytes hc ++ enc_bytes (bx_body x)).

Record ientry := { ie_url : bytes; ie_variants : bytes; ie_vkey : bytes; ie_off : N; ie_len : N }.

(* the loop of WriteTo over b.Exchanges: section bytes so far and index entries *)
Fixpoint add_exchanges (xs : list bexchange) (buf : bytes) (acc : list ientry) : R (bytes * list ientry) :=
  match xs with
  | [] => Ok (buf, rev acc)
  | x :: t =>
      let* item := encode_response x in
      if negb (utf8_valid (bx_url x)) then Err else                (* checkURL: not valid UTF-8 *)
      if negb (fst (index_url_ok (bx_url x))) then Err else      (* checkURL: fragment / credentials *)
      let ent := {| ie_url := bx_url x;
                    ie_variants := join_comma (hdr_lookup (bx_hdr x) (canonical_key (s2b "variants")));
                    ie_vkey := join_comma (hdr_lookup (bx_hdr x) (canonical_key (s2b "variant-key")));
                    ie_off := lenN buf; ie_len := lenN item |} in
      add_exchanges t (buf ++ item) (ent :: acc)
  end.

(* group index entries by URL, first-appearance order (Go: a map; the final
   order is fixed by EncodeMap's sort) *)
Fixpoint group_add (g : list (bytes * list ientry)) (e : ientry) : list (bytes * list ientry) :=
  match g with
  | [] => [(ie_url e, [e])]
  | (u, es) :: t => if bytes_eqb u (ie_url e) then (u, es ++ [e]) :: t else (u, es) :: group_add t e
  end.
Definition group_entries (es : list ientry) : list (bytes * list ientry) :=
  fold_left group_add es [].

Definition locs (es : list ientry) : bytes :=
  flat_map (fun e => enc_uint (ie_off e) ++ enc_uint (ie_len e)) es.

(* one map entry of the index; EncodeTextString failing inside the callback is a panic *)
Definition index_entry (v : bversion) (g : bytes * list ientry) : R (bytes * bytes) :=
  let (u, es) := g in
  if negb (utf8_valid u) then
    (match v, es with BV2, _ :: _ :: _ => Err | _, _ => Panic end)
  else
  match v with
  | BV1 =>
      match es with
      | _ :: _ :: _ =>
          let vv := match es with e0 :: _ => ie_variants e0 | [] => [] end in
          let* ordered := entries_in_possible_key_order
                            (map (fun e => (ie_variants e, ie_vkey e, e)) es) in
          Ok (enc_bytes_of TText u,
              enc_array_header (1 + lenN ordered * 2) ++ enc_bytes vv ++ locs ordered)
      | _ => Ok (enc_bytes_of TText u, enc_array_header (1 + lenN es * 2) ++ enc_bytes [] ++ locs es)
      end
  | BV2 =>
      match es with
      | [e] => Ok (enc_bytes_of TText u, enc_array_header 2 ++ enc_uint (ie_off e) ++ enc_uint (ie_len e))
      | _ => Err
      end
  end.

Fixpoint index_entries (v : bversion) (gs : list (bytes * list ientry)) : R (list (bytes * bytes)) :=
  match gs with
  | [] => Ok []
  | g :: t => let* e := index_entry v g in let* r := index_entries v t in Ok (e :: r)
  end.

(* indexSection.Finalize *)
Definition index_section (v : bversion) (es : list ientry) : R bytes :=
  let* ents := index_entries v (group_entries es) in
  enc_map ents.

Definition signatures_section (s : signatures) : R bytes :=
  let* auths := encode_all (sg_auth s) in
  let* vss :=
    (fix go (l : list vouched) : R bytes :=
       match l with
       | [] => Ok []
       | v :: t =>
           let* m := enc_map [(enc_bytes_of TText (s2b "authority"), enc_uint (vs_authority v));
                              (enc_bytes_of TText (s2b "sig"), enc_bytes (vs_sig v));
                              (enc_bytes_of TText (s2b "signed"), enc_bytes (vs_signed v))] in
           let* r := go t in Ok (m ++ r)
       end) (sg_vouched s) in
  Ok (enc_array_header 2 ++ enc_array_header (lenN (sg_auth s)) ++ auths
      ++ enc_array_header (lenN (sg_vouched s)) ++ vss).

Definition section_table (secs : list (bytes * bytes)) : bytes :=
  enc_bytes (enc_array_header (lenN secs * 2)
             ++ flat_map (fun s => enc_bytes_of TText (fst s) ++ enc_uint (lenN (snd s))) secs).

(* Bundle.WriteTo: all bytes handed to the destination when nothing fails.
   Every failure below happens before the first write. *)
Definition b_write (b : bundle) : R bytes :=
  let v := b_ver b in
  let n := lenN (b_exchanges b) in
  let* (resp, ients) := add_exchanges (b_exchanges b) (enc_array_header n) [] in
  let* idx := index_section v ients in
  let* prim_sec :=
    (match has_primary_in_header v, b_primary b with
     | false, Some u => if negb (fst (abs_url_ok u)) then Err else
                        let* t := enc_text u in Ok [(s2b "primary", t)]
     | _, _ => Ok []
     end) in
  let* man_sec :=
    (match b_manifest b with
     | Some u => if supports_manifest v
                 then (if negb (fst (abs_url_ok u)) then Err else let* t := enc_text u in Ok [(s2b "manifest", t)])
                 else Err
     | None => Ok []
     end) in
  let* sig_sec :=
    (match b_sigs b with
     | Some s => let* t := signatures_section s in Ok [(s2b "signatures", t)]
     | None => Ok []
     end) in
  let secs := [(s2b "index", idx)] ++ prim_sec ++ man_sec ++ sig_sec ++ [(s2b "responses", resp)] in
  let* prim_hdr :=
    (if has_primary_in_header v then
       match b_primary b with
       | Some u => if negb (fst (any_url_ok u)) then Err else enc_text u      (* must parse *)
       | None => Err                                    (* this version requires a primary URL *)
       end
     else Ok []) in
  let body := header_magic_bytes v ++ prim_hdr ++ section_table secs
              ++ enc_array_header (lenN secs) ++ flat_map snd secs in
  Ok (body ++ enc_bytes (be 8 (w64 (lenN body + 9)))).

(* the writer's URL tests are decided by the partial URL model: outside its class
   the answer of b_write is not trusted *)
Definition b_write_taint (b : bundle) : bool :=
  existsb (fun x => snd (index_url_ok (bx_url x))) (b_exchanges b)
  || (match has_primary_in_header (b_ver b), b_primary b with
      | false, Some u => snd (abs_url_ok u) | true, Some u => snd (any_url_ok u) | _, None => false end)
  || (match b_manifest b with Some u => snd (abs_url_ok u) | None => false end).

(* ======================= reader (decoder.go) ============================ *)
Definition parse_magic (bs : bytes) : R (bversion * bytes) :=
  let* (hm, r) := of_opt (splitN bs 10) in
  if negb (bytes_eqb hm hdr_magic_b1 || bytes_eqb hm hdr_magic_b2) then Err
  else
    let* (vm, r') := of_opt (splitN r 5) in
    if bytes_eqb vm ver_magic_b1 then (if bytes_eqb hm hdr_magic_b1 then Ok (BV1, r') else Err)
    else if bytes_eqb vm ver_magic_b2 then (if bytes_eqb hm hdr_magic_b2 then Ok (BV2, r') else Err)
    else Err.

Definition find_section (sos : list (bytes * N)) (name : bytes) : option (N * N) (* length, rel offset *) :=
  (fix go (l : list (bytes * N)) (off : N) : option (N * N) :=
     match l with
     | [] => None
     | (n, len) :: t => if bytes_eqb n name then Some (len, off) else go t (w64 (off + len))
     end) sos 0.

(* decodeSectionLengthsCBOR *)
Fixpoint dec_section_lengths (fuel : nat) (i n : N) (bs : bytes) (acc : list (bytes * N)) : R (list (bytes * N)) :=
  match fuel with
  | O => Fuel
  | S f =>
      if n <=? i then Ok acc
      else
        let* (name, r1) := decode_text bs in
        if existsb (fun s => bytes_eqb (fst s) name) acc then Err
        else
          let* (len, r2) := decode_uint r1 in
          dec_section_lengths f (w64 (i + 2)) n r2 (acc ++ [(name, len)])
  end.
Definition decode_section_lengths (bs : bytes) : R (list (bytes * N)) :=
  let* (n, r) := decode_array_header bs in
  dec_section_lengths (S (List.length r)) 0 n r [].


(* decodeCborHeaders: (headers, pseudos) *)
Fixpoint dec_cbor_headers (fuel : nat) (n : N) (bs : bytes) (h : headers) (ps : list (bytes * bytes))
  : R (headers * list (bytes * bytes) * bytes) :=
  match fuel with
  | O => Fuel
  | S f =>
      if n =? 0 then Ok (h, ps, bs)
      else
        let* (name, r1) := decode_bytes bs in
        let* (value, r2) := decode_bytes r1 in
        if negb (is_ascii_b name) then Err
        else if negb (is_ascii_b value) then Err
        else if negb (bytes_eqb (lower name) name) then Err
        else
          match name with
          | 58 :: _ =>
              if existsb (fun p => bytes_eqb (fst p) name) ps then Err
              else dec_cbor_headers f (n - 1) r2 h (ps ++ [(name, value)])
          | _ =>
              let k := canonical_key name in
              if existsb (fun nv => bytes_eqb (fst nv) k) h then Err
              else dec_cbor_headers f (n - 1) r2 (h ++ [(k, [value])]) ps
          end
  end.

Definition is_digit_n (c : N) : bool := (48 <=? c) && (c <=? 57).

(* loadResponse on bs[off : off+len] *)
Definition load_response (item : bytes) : R (Z * headers * bytes) :=
  match item with
  | [] => Err
  | b0 :: r =>
      if negb (b0 =? 130) then Err
      else
        let* (hc, r1) := decode_bytes r in
        let* (n, hr) := decode_map_header hc in
        let* (h, ps, _) := dec_cbor_headers (S (List.length hr)) n hr [] [] in
        match ps with
        | [(k, st)] =>
            if negb (bytes_eqb k (s2b ":status")) then Err
            else
              match st with
              | [a; b; c] =>
                  if is_digit_n a && is_digit_n b && is_digit_n c then
                    let* (body, r2) := decode_bytes r1 in
                    match r2 with
                    | [] => Ok (Z.of_N (digits_val st), h, body)
                    | _ => Err
                    end
                  else Err
              | _ => Err
              end
        | _ => Err
        end
  end.


Record loc := { l_url : bytes; l_off : N; l_len : N }.

(* makeRelativeToStream *)
Definition make_relative (resp_len resp_off : N) (offset length : N) : R (N * N) :=
  if (resp_len <? length) || (resp_len - length <? offset) then Err
  else Ok (w64 (resp_off + offset), length).

Fixpoint read_locs (fuel : nat) (k : N) (bs : bytes) (u : bytes) (resp_len resp_off : N) (acc : list loc)
  : R (list loc * bytes) :=
  match fuel with
  | O => Fuel
  | S f =>
      if k =? 0 then Ok (acc, bs)
      else
        let* (o, r1) := decode_uint bs in
        let* (l, r2) := decode_uint r1 in
        let* (o', l') := make_relative resp_len resp_off o l in
        read_locs f (k - 1) r2 u resp_len resp_off (acc ++ [{| l_url := u; l_off := o'; l_len := l' |}])
  end.

(* parseIndexSection / parseIndexSectionWithVariants *)
Fixpoint parse_index (fuel : nat) (v : bversion) (n : N) (bs : bytes) (resp_len resp_off : N)
         (acc : list loc) (taint : bool) : R (list loc * bool) :=
  match fuel with
  | O => Fuel
  | S f =>
      if n =? 0 then Ok (acc, taint)
      else
        let* (u, r1) := decode_text bs in
        let '(ok, t) := index_url_ok u in
        if negb ok then Err
        else
          let* (items, r2) := decode_array_header r1 in
          match v with
          | BV2 =>
              if negb (items =? 2) then Err
              else
                let* (ls, r3) := read_locs 2 1 r2 u resp_len resp_off [] in
                parse_index f v (n - 1) r3 resp_len resp_off (acc ++ ls) (taint || t)
          | BV1 =>
              if items =? 0 then Err
              else
                let* (vv, r3) := decode_bytes r2 in
                match vv with
                | [] =>
                    if negb (items =? 3) then Err
                    else
                      let* (ls, r4) := read_locs 2 1 r3 u resp_len resp_off [] in
                      parse_index f v (n - 1) r4 resp_len resp_off (acc ++ ls) (taint || t)
                | _ =>
                    let* vs := parse_list_of_string_lists vv in
                    let* nk := num_possible_keys vs in
                    if negb (items =? 2 * nk + 1) then Err
                    else
                      let* (ls, r4) := read_locs (S (N.to_nat nk)) nk r3 u resp_len resp_off [] in
                      parse_index f v (n - 1) r4 resp_len resp_off (acc ++ ls) (taint || t)
                end
          end
  end.

Section Read.
  Variable x509_ok : bytes -> bool.

  (* parseSignaturesSection *)
  Fixpoint dec_auths (fuel : nat) (n : N) (bs : bytes) (acc : list augcert) : R (list augcert * bytes) :=
    match fuel with
    | O => Fuel
    | S f =>
        if n =? 0 then Ok (acc, bs)
        else let* (a, r) := decode_augcert x509_ok bs in dec_auths f (n - 1) r (acc ++ [a])
    end.

  Fixpoint dec_vs_fields (k : nat) (bs : bytes) (v : vouched) : R (vouched * bytes) :=
    match k with
    | O => Ok (v, bs)
    | S k' =>
        let* (label, r) := decode_text bs in
        if bytes_eqb label (s2b "authority") then
          let* (a, r') := decode_uint r in
          dec_vs_fields k' r' {| vs_authority := a; vs_sig := vs_sig v; vs_signed := vs_signed v |}
        else if bytes_eqb label (s2b "sig") then
          let* (s, r') := decode_bytes r in
          dec_vs_fields k' r' {| vs_authority := vs_authority v; vs_sig := s; vs_signed := vs_signed v |}
        else if bytes_eqb label (s2b "signed") then
          let* (s, r') := decode_bytes r in
          dec_vs_fields k' r' {| vs_authority := vs_authority v; vs_sig := vs_sig v; vs_signed := s |}
        else Err
    end.

  Fixpoint dec_vouched (fuel : nat) (n : N) (bs : bytes) (acc : list vouched) : R (list vouched * bytes) :=
    match fuel with
    | O => Fuel
    | S f =>
        if n =? 0 then Ok (acc, bs)
        else
          let* (m, r) := decode_map_header bs in
          if negb (m =? 3) then Err
          else
            let* (v, r') := dec_vs_fields 3 r {| vs_authority := 0; vs_sig := []; vs_signed := [] |} in
            dec_vouched f (n - 1) r' (acc ++ [v])
    end.

  Definition parse_signatures (bs : bytes) : R signatures :=
    let fuel := S (List.length bs) in
    let* (two, r0) := decode_array_header bs in
    if negb (two =? 2) then Err
    else
      let* (na, r1) := decode_array_header r0 in
      let* (auths, r2) := dec_auths fuel na r1 [] in
      let* (nv, r3) := decode_array_header r2 in
      let* (vss, _) := dec_vouched fuel nv r3 [] in
      Ok {| sg_auth := auths; sg_vouched := vss |}.

  Record meta := { m_primary : option bytes; m_manifest : option bytes;
                   m_sigs : option signatures; m_locs : list loc; m_taint : bool }.

  (* the section loop of loadMetadata *)
  Fixpoint load_sections (v : bversion) (bs : bytes) (all sos : list (bytes * N)) (offset sections_start : N)
           (m : meta) : R meta :=
    match sos with
    | [] => Ok m
    | (name, len) :: t =>
        let known := existsb (bytes_eqb name)
                       (map s2b ["index"; "manifest"; "primary"; "signatures"; "responses"]%string) in
        if negb known then load_sections v bs all t (w64 (offset + len)) sections_start m
        else if bytes_eqb name (s2b "responses") then load_sections v bs all t offset sections_start m
        else if lenN bs <=? offset then Err
        else
          let e := w64 (offset + len) in
          if lenN bs <=? e then Err
          else
            match splitN bs offset with
            | None => Panic
            | Some (_, from) =>
                if e <? offset then Panic
                else match splitN from (e - offset) with
                | None => Panic
                | Some (contents, _) =>
                    let* m' :=
                      (if bytes_eqb name (s2b "index") then
                         match find_section all (s2b "responses") with
                         | None => Err
                         | Some (resp_len, rel) =>
                             let* (n, r) := decode_map_header contents in
                             let* (ls, tn) := parse_index (S (List.length r)) v n r resp_len
                                                (w64 (sections_start + rel)) [] (m_taint m) in
                             Ok {| m_primary := m_primary m; m_manifest := m_manifest m;
                                   m_sigs := m_sigs m; m_locs := ls; m_taint := tn |}
                         end
                       else if bytes_eqb name (s2b "primary") then
                         let* (u, _) := decode_text contents in
                         let '(ok, tn) := abs_url_ok u in
                         if ok then Ok {| m_primary := Some u; m_manifest := m_manifest m;
                                          m_sigs := m_sigs m; m_locs := m_locs m;
                                          m_taint := m_taint m || tn |}
                         else Err
                       else if bytes_eqb name (s2b "manifest") then
                         let* (u, _) := decode_text contents in
                         let '(ok, tn) := abs_url_ok u in
                         if ok then Ok {| m_primary := m_primary m; m_manifest := Some u;
                                          m_sigs := m_sigs m; m_locs := m_locs m;
                                          m_taint := m_taint m || tn |}
                         else Err
                       else
                         let* s := parse_signatures contents in
                         Ok {| m_primary := m_primary m; m_manifest := m_manifest m;
                               m_sigs := Some s; m_locs := m_locs m; m_taint := m_taint m |}) in
                    load_sections v bs all t e sections_start m'
                end
            end
    end.

  (* every section must fit in the file *)
  Fixpoint sections_fit (sos : list (bytes * N)) (e total : N) : bool :=
    match sos with
    | [] => true
    | (_, len) :: t => if total - e <? len then false else sections_fit t (e + len) total
    end.

  Definition load_metadata (bs : bytes) : R (bversion * meta) :=
    let* (v, r0) := parse_magic bs in
    let* (fallback, taint0, r1) :=
      (if has_primary_in_header v then
         let* (u, r) := decode_text r0 in
         let '(ok, tn) := any_url_ok u in
         if ok then Ok (Some u, tn, r) else Err
       else Ok (None, false, r0)) in
    let* (sl, r2) := decode_bytes r1 in
    if 8192 <=? lenN sl then Err
    else
      let* sos := decode_section_lengths sl in
      let* (ns, r3) := decode_array_header r2 in
      if negb (ns =? lenN sos) then Err
      else
        let sections_start := lenN bs - lenN r3 in
        match rev sos with
        | [] => Err
        | (last, _) :: _ =>
            if negb (bytes_eqb last (s2b "responses")) then Err
            else if negb (sections_fit sos sections_start (lenN bs)) then Err
            else
              let* m := load_sections v bs sos sos sections_start sections_start
                          {| m_primary := fallback; m_manifest := None; m_sigs := None;
                             m_locs := []; m_taint := taint0 |} in
              Ok (v, m)
        end.

  Fixpoint load_all (bs : bytes) (ls : list loc) (acc : list bexchange) : R (list bexchange) :=
    match ls with
    | [] => Ok (rev acc)
    | l :: t =>
        (* bs[req.Offset : req.Offset+req.Length] *)
        let hi := w64 (l_off l + l_len l) in
        if hi <? l_off l then Panic
        else match splitN bs (l_off l) with
        | None => Panic
        | Some (_, from) =>
            match splitN from (l_len l) with
            | None => Panic
            | Some (item, _) =>
                let* (st, h, body) := load_response item in
                load_all bs t ({| bx_url := l_url l; bx_status := st; bx_hdr := h; bx_body := body |} :: acc)
            end
        end
    end.

  (* bundle.Read *)
  Definition b_read (bs : bytes) : R bundle :=
    let* (v, m) := load_metadata bs in
    let* xs := load_all bs (m_locs m) [] in
    Ok {| b_ver := v; b_primary := m_primary m; b_manifest := m_manifest m; b_sigs := m_sigs m;
          b_exchanges := xs; b_taint := m_taint m |}.
End Read.

(* ======================= countingwriter.go ============================== *)
(* Destination: accepts at most [budget] further bytes, then fails.  A write
   of a chunk returns (accepted, failed?).  ErrOnly: a failing Write accepts
   nothing; ShortThenErr: it accepts what fits. *)
Inductive fmode := ErrOnly | ShortThenErr.
Record dest := { d_acc : bytes; d_budget : option N; d_mode : fmode }.

Definition dwrite (d : dest) (chunk : bytes) : dest * N * bool :=
  match d_budget d with
  | None => ({| d_acc := d_acc d ++ chunk; d_budget := None; d_mode := d_mode d |}, lenN chunk, true)
  | Some k =>
      if lenN chunk <=? k then
        ({| d_acc := d_acc d ++ chunk; d_budget := Some (k - lenN chunk); d_mode := d_mode d |},
         lenN chunk, true)
      else
        match d_mode d with
        | ErrOnly => (d, 0, false)
        | ShortThenErr =>
            match splitN chunk k with
            | Some (a, _) => ({| d_acc := d_acc d ++ a; d_budget := Some 0; d_mode := d_mode d |}, k, false)
            | None => (d, 0, false)
            end
        end
  end.

(* A third kind of destination: the Write that crosses the budget takes ALL its
   bytes and still reports an error (n = len(p), err != nil: a tee whose mirror
   filled up, a deferred error). *)
Definition dwrite_full (d : dest) (chunk : bytes) : dest * N * bool :=
  match d_budget d with
  | None => ({| d_acc := d_acc d ++ chunk; d_budget := None; d_mode := d_mode d |}, lenN chunk, true)
  | Some k =>
      if lenN chunk <=? k then
        ({| d_acc := d_acc d ++ chunk; d_budget := Some (k - lenN chunk); d_mode := d_mode d |},
         lenN chunk, true)
      else ({| d_acc := d_acc d ++ chunk; d_budget := Some 0; d_mode := d_mode d |}, lenN chunk, false)
  end.
Fixpoint run_writes_full (cs : list bytes) (d : dest) (count : N) : dest * N * bool :=
  match cs with
  | [] => (d, count, true)
  | c :: t =>
      let '(d', n, ok) := dwrite_full d c in
      if ok then run_writes_full t d' (count + n) else (d', count + n, false)
  end.

(* run a sequence of Write calls, stopping at the first failure:
   (destination, bytes counted, success) *)
Fixpoint run_writes (cs : list bytes) (d : dest) (count : N) : dest * N * bool :=
  match cs with
  | [] => (d, count, true)
  | c :: t =>
      let '(d', n, ok) := dwrite d c in
      if ok then run_writes t d' (count + n) else (d', count + n, false)
  end.
