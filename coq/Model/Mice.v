(* Model of go/signedexchange/mice/mice.go.  The hash is a parameter. *)
From WP Require Import Base.Prelude Base.Base64.
Open Scope N_scope.

Inductive draft := D02 | D03.

Definition content_encoding (d : draft) : bytes :=
  match d with D02 => s2b "mi-sha256-draft2" | D03 => s2b "mi-sha256-03" end.
Definition digest_header_name (d : draft) : bytes :=
  match d with D02 => s2b "MI-Draft2" | D03 => s2b "Digest" end.
Definition integrity_identifier (d : draft) : bytes :=
  match d with D02 => s2b "mi-draft2" | D03 => s2b "digest/mi-sha256-03" end.
(* base64Encoding: draft2 RawURLEncoding, 03 StdEncoding *)
Definition b64pad (d : draft) : bool := match d with D02 => false | D03 => true end.
Definition b64url (d : draft) : bool := match d with D02 => true | D03 => false end.

Definition format_digest_header (d : draft) (proof : bytes) : bytes :=
  content_encoding d ++ [61] ++ b64_encode (b64pad d) (b64url d) proof.

(* Go slice expressions buf[lo:hi] / buf[lo:] : panic unless lo <= hi <= len *)
Definition slice (buf : bytes) (lo hi : N) : R bytes :=
  if hi <? lo then Panic
  else match splitN buf lo with
       | None => Panic
       | Some (_, s) => match splitN s (hi - lo) with
                        | None => Panic
                        | Some (m, _) => Ok m
                        end
       end.
Definition slice_from (buf : bytes) (lo : N) : R bytes :=
  match splitN buf lo with None => Panic | Some (_, s) => Ok s end.

Section Mice.
  Variable H : bytes -> bytes.

  (* ---- Encode ---------------------------------------------------------- *)
  (* the proof loop: i runs from 0; acc = proofs[rec+1 ..] (head = proofs[rec+1]) *)
  Fixpoint proofs_loop (fuel : nat) (i n rs : N) (buf : bytes) (acc : list bytes)
    : R (list bytes) :=
    match fuel with
    | O => Fuel
    | S f =>
        if n <=? i then Ok acc
        else
          let rec := n - i - 1 in
          let* p :=
            (if i =? 0 then
               let* s := slice_from buf (rec * rs) in Ok (H (s ++ [0]))
             else
               let* s := slice buf (rec * rs) ((rec + 1) * rs) in
               match acc with
               | nxt :: _ => Ok (H (s ++ nxt ++ [1]))
               | [] => Panic
               end) in
          proofs_loop f (i + 1) n rs buf (p :: acc)
    end.

  (* the output loop over proofs *)
  Fixpoint out_loop (i rs : N) (buf : bytes) (proofs : list bytes) : R bytes :=
    match proofs with
    | [] => Ok []
    | p :: t =>
        let high := if lenN buf <? (i + 1) * rs then lenN buf else (i + 1) * rs in
        let* rec := slice buf (i * rs) high in
        let* rest := out_loop (i + 1) rs buf t in
        Ok ((if i =? 0 then [] else p) ++ rec ++ rest)
    end.

  (* Encode(w, buf, recordSize): (bytes written, digest header value). *)
  Definition encode (d : draft) (rs : N) (buf : bytes) : R (bytes * bytes) :=
    if rs =? 0 then Err                  (* recordSize <= 0: "mice: invalid record size" *)
    else
      let len := lenN buf in
      let n0 := (len + rs - 1) / rs in
      match d, (len =? 0) with
      | D03, true => Ok ([], format_digest_header d (H [0]))
      | _, e =>
          let n := if e then 1 else n0 in
          let* proofs := proofs_loop (S (N.to_nat n)) 0 n rs buf [] in
          let* body := out_loop 0 rs buf proofs in
          match proofs with
          | p0 :: _ => Ok (be 8 rs ++ body, format_digest_header d p0)
          | [] => Panic
          end
      end.

  (* ---- parseDigestHeader ---------------------------------------------- *)
  Fixpoint split_eq (s : bytes) (acc : bytes) : option (bytes * bytes) :=
    match s with
    | [] => None
    | c :: r => if c =? 61 then Some (rev acc, r) else split_eq r (c :: acc)
    end.

  Definition parse_digest_header (d : draft) (v : bytes) : R bytes :=
    match split_eq v [] with
    | None => Err
    | Some (alg, dig) =>
        if negb (bytes_eqb alg (content_encoding d)) then Err
        else match b64_decode (b64pad d) (b64url d) dig with
             | None => Err
             | Some proof => if lenN proof =? 32 then Ok proof else Err
             end
    end.

  (* ---- decoder --------------------------------------------------------- *)
  Record dec := { d_enc : draft; d_rs : N; d_r : bytes;
                  d_next : option bytes; d_out : bytes }.

  Definition validate_record (record proof : bytes) (last : bool) : bool :=
    bytes_eqb (H (record ++ [if last then 0 else 1])) proof.

  (* NewDecoder(r, digest, maxRecordSize) *)
  Definition new_decoder (d : draft) (stream digest : bytes) (maxrs : N) : R dec :=
    let* top := parse_digest_header d digest in
    match splitN stream 8 with
    | None =>
        (* binary.Read: io.EOF on empty input, ErrUnexpectedEOF on 1..7 bytes *)
        match stream, d with
        | [], D03 =>
            if validate_record [] top true
            then Ok {| d_enc := d; d_rs := 0; d_r := []; d_next := None; d_out := [] |}
            else Err
        | _, _ => Err
        end
    | Some (hd, rest) =>
        let rs := unbe hd in
        if (rs =? 0) || (maxrs <? rs) then Err
        else Ok {| d_enc := d; d_rs := rs; d_r := rest; d_next := Some top; d_out := [] |}
    end.

  Inductive rstat := ROk | REOF | RErr.

  (* readNextRecord; io.ReadFull(d.r, recordBuf) with |recordBuf| = rs + 32 *)
  Definition read_next_record (s : dec) (proof : bytes) : dec * rstat :=
    let want := d_rs s + 32 in
    match splitN (d_r s) want with
    | Some (buf, rest) =>
        if validate_record buf proof false then
          match splitN buf (d_rs s) with
          | Some (rec, np) =>
              ({| d_enc := d_enc s; d_rs := d_rs s; d_r := rest;
                  d_next := Some np; d_out := rec |}, ROk)
          | None => (s, RErr)
          end
        else ({| d_enc := d_enc s; d_rs := d_rs s; d_r := rest;
                 d_next := d_next s; d_out := d_out s |}, RErr)
    | None =>
        let got := d_r s in
        let consumed := {| d_enc := d_enc s; d_rs := d_rs s; d_r := [];
                           d_next := d_next s; d_out := d_out s |} in
        match got with
        | [] =>
            match d_enc s with
            | D02 =>
                if validate_record [] proof true
                then ({| d_enc := d_enc s; d_rs := d_rs s; d_r := [];
                         d_next := None; d_out := [] |}, REOF)
                else (consumed, RErr)
            | D03 => (consumed, RErr)
            end
        | _ =>
            if d_rs s <? lenN got then (consumed, RErr)
            else if validate_record got proof true
            then ({| d_enc := d_enc s; d_rs := d_rs s; d_r := [];
                     d_next := None; d_out := got |}, ROk)
            else (consumed, RErr)
        end
    end.

  (* Read(dst) with |dst| = k : (new state, bytes delivered, status) *)
  Definition read (s : dec) (k : N) : dec * bytes * rstat :=
    let deliver (s' : dec) :=
      match splitN (d_out s') k with
      | Some (a, b) =>
          ({| d_enc := d_enc s'; d_rs := d_rs s'; d_r := d_r s';
              d_next := d_next s'; d_out := b |}, a, ROk)
      | None =>
          ({| d_enc := d_enc s'; d_rs := d_rs s'; d_r := d_r s';
              d_next := d_next s'; d_out := [] |}, d_out s', ROk)
      end in
    match d_out s with
    | [] =>
        match d_next s with
        | None => (s, [], REOF)
        | Some proof =>
            let (s', st) := read_next_record s proof in
            match st with
            | ROk => deliver s'
            | _ => (s', [], st)
            end
        end
    | _ => deliver s
    end.

  (* A whole history of Read calls with the given destination sizes: output
     delivered so far and the status of the last call (stops at the first
     non-ROk status). *)
  Fixpoint read_trace (s : dec) (sizes : list N) (acc : bytes) : bytes * rstat :=
    match sizes with
    | [] => (acc, ROk)
    | k :: t =>
        let '(s', out, st) := read s k in
        match st with
        | ROk => read_trace s' t (acc ++ out)
        | _ => (acc ++ out, st)
        end
    end.

  (* ioutil.ReadAll-style loop: read with buffers of size k until EOF/err *)
  Fixpoint read_all (fuel : nat) (s : dec) (k : N) (acc : bytes) : bytes * rstat :=
    match fuel with
    | O => (acc, ROk)
    | S f =>
        let '(s', out, st) := read s k in
        match st with
        | ROk => read_all f s' k (acc ++ out)
        | _ => (acc ++ out, st)
        end
    end.

  Definition decode_all (d : draft) (stream digest : bytes) (maxrs k : N) : R (bytes * rstat) :=
    let* s := new_decoder d stream digest maxrs in
    Ok (read_all (S (S (List.length stream))) s k []).

  (* ---- a source that FAILS after delivering [stream] (an I/O error that is not
     io.EOF).  binary.Read / io.ReadFull then return that error instead of
     EOF / ErrUnexpectedEOF: NewDecoder fails on a short header, readNextRecord
     returns the error (mice.go: "if err != nil { return err }") instead of
     treating the bytes it got as the final record. ---- *)
  Definition new_decoder_f (d : draft) (stream digest : bytes) (maxrs : N) : R dec :=
    let* top := parse_digest_header d digest in
    match splitN stream 8 with
    | None => Err
    | Some _ => new_decoder d stream digest maxrs
    end.

  Definition read_next_record_f (s : dec) (proof : bytes) : dec * rstat :=
    match splitN (d_r s) (d_rs s + 32) with
    | Some _ => read_next_record s proof
    | None => ({| d_enc := d_enc s; d_rs := d_rs s; d_r := [];
                  d_next := d_next s; d_out := d_out s |}, RErr)
    end.

  Definition read_f (s : dec) (k : N) : dec * bytes * rstat :=
    match d_out s, d_next s with
    | [], Some proof =>
        match splitN (d_r s) (d_rs s + 32) with
        | Some _ => read s k
        | None => (fst (read_next_record_f s proof), [], RErr)
        end
    | _, _ => read s k
    end.

  Fixpoint read_trace_f (fuel : nat) (s : dec) (cur all : list N) (acc : bytes) : bytes * rstat :=
    match fuel with
    | O => (acc, ROk)
    | S f =>
        match cur with
        | [] => match all with [] => (acc, ROk) | _ => read_trace_f f s all all acc end
        | k :: t =>
            let '(s', out, st) := read_f s k in
            match st with
            | ROk => read_trace_f f s' t all (acc ++ out)
            | _ => (acc ++ out, st)
            end
        end
    end.
End Mice.
