(* Model of go/internal/cbor/deterministic.go (+ addinfo.go): the
   deterministic-CBOR check, with the slice/index arithmetic of the code.
   Each function receives the same sub-slice the Go function receives and
   returns the same length.  No proofs here. *)
From WP Require Import Base.Prelude Model.Cbor.
Open Scope N_scope.

(* getAdditionalInfoValueLowerLimit *)
Definition ai_limit (ai : N) : N :=
  if ai =? 24 then 24 else if ai =? 25 then 256 else if ai =? 26 then 65536
  else if ai =? 27 then 4294967296 else 0.

(* unsignedIntegerDeterministic: (lengthInBytes, value).  Reading the follow
   bytes of a truncated head is an index-out-of-range panic. *)
Definition uint_det (input : bytes) : R (N * N) :=
  match input with
  | [] => Panic
  | b :: r =>
      let ai := addinfo b in
      if 28 <=? ai then Err
      else if ai <? 24 then Ok (0, ai)
      else match splitN r (nfollow_of ai) with
           | None => Panic
           | Some (f, _) =>
               let v := unbe f in
               if v <? ai_limit ai then Err else Ok (nfollow_of ai, v)
           end
  end.

(* textOrByteStringDeterministic *)
Definition str_det (input : bytes) : R N :=
  let* (ul, sl) := uint_det input in
  if (lenN input <=? sl) || (lenN input <=? ul + sl) then Panic else Ok (ul + sl).

(* input[start:] ; out of range -> panic *)
Definition drop_from (input : bytes) (start : N) : R bytes :=
  match splitN input start with Some (_, s) => Ok s | None => Panic end.

Fixpoint det_rec (f : nat) (input : bytes) {struct f} : R N :=
  match f with
  | O => Fuel
  | S f' =>
      match input with
      | [] => Panic
      | b :: _ =>
          let mt := major b in
          if mt =? TPos then let* (l, _) := uint_det input in Ok (l + 1)
          else if (mt =? TBytes) || (mt =? TText) then let* l := str_det input in Ok (l + 1)
          else if mt =? TArray then
            let* (ln, num) := uint_det input in
            if lenN input <? num then Err else arr_loop f' num (1 + ln) input
          else if mt =? TMap then
            let* (ln, num) := uint_det input in
            if lenN input <? num then Err else map_loop f' 0 (num * 2) (1 + ln) [] input
          else Err
      end
  end
with arr_loop (f : nat) (cnt start : N) (input : bytes) {struct f} : R N :=
  match f with
  | O => Fuel
  | S f' =>
      if cnt =? 0 then Ok start
      else if lenN input <=? start then Panic
      else let* suffix := drop_from input start in
           let* l := det_rec f' suffix in
           arr_loop f' (cnt - 1) (start + l) input
  end
with map_loop (f : nat) (idx total start : N) (last : bytes) (input : bytes) {struct f} : R N :=
  match f with
  | O => Fuel
  | S f' =>
      if total <=? idx then Ok start
      else if lenN input <=? start then Panic
      else let* suffix := drop_from input start in
           let* l := det_rec f' suffix in
           if N.even idx then
             match splitN suffix l with
             | None => Panic
             | Some (key, _) =>
                 match bytes_cmp last key with
                 | Lt => map_loop f' (idx + 1) total (start + l) key input
                 | _ => Err
                 end
             end
           else map_loop f' (idx + 1) total (start + l) last input
  end.

(* Deterministic: the top-level loop over a CBOR sequence *)
Fixpoint det_top (f : nat) (index : N) (input : bytes) {struct f} : R unit :=
  match f with
  | O => Fuel
  | S f' =>
      if lenN input <=? index then Ok tt
      else let* suffix := drop_from input index in
           let* l := det_rec f' suffix in
           det_top f' (index + l) input
  end.

Definition det_fuel (input : bytes) : nat := S (S (2 * List.length input)).

Inductive verdict := Accept | Reject | Diverge.
(* an error and a panic are both "not accepted" *)
Definition det_check (input : bytes) : verdict :=
  match det_top (det_fuel input) 0 input with
  | Ok _ => Accept
  | Fuel => Diverge
  | _ => Reject
  end.
