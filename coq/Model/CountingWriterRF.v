(* Model of CountingWriter.ReadFrom (go/bundle/countingwriter.go), the branch taken
   when the destination is not itself an io.ReaderFrom:

     buf := make([]byte, 32*1024); n = 0
     for {
       nr, er := r.Read(buf)
       if nr > 0 {
         nw, ew := cw.w.Write(buf[:nr]); n += nw; cw.Written += nw
         if ew != nil { return n, ew }
         if nw < nr   { return n, io.ErrShortWrite }
       }
       if er == io.EOF { return n, nil }
       if er != nil    { return n, er }
     }

   Additive to Model/Bundle.v (section "countingwriter.go"): the destination is
   [dest] / [dwrite] from there.  n and cw.Written grow by the same amounts, so one
   counter stands for both.  No proofs here. *)
From Coq Require Import List NArith.
From WP Require Import Base.Prelude Model.Bundle.
Import ListNotations.
Open Scope N_scope.

(* ---- the source ---------------------------------------------------------- *)
(* How the source ends after its last chunk: io.EOF on a Read of its own, a
   non-EOF error on a Read of its own, or io.EOF together with the last data. *)
Inductive src_end := SrcEOF | SrcErr | SrcDataEOF.
(* did the source end with io.EOF? *)
Definition src_end_eof (e : src_end) : bool := match e with SrcErr => false | _ => true end.

(* len(buf) *)
Definition rf_buf : N := 32768.

(* A source chunk as the reads deliver it: consecutive pieces of len(buf) bytes,
   the last one shorter; an empty chunk causes no Read that carries data.  The
   fuel is (len c / 32768) + 1, a small nat. *)
Fixpoint pieces_fuel (fuel : nat) (c : bytes) : list bytes :=
  match c with
  | [] => []
  | _ :: _ =>
      match fuel with
      | O => [c]
      | S f =>
          match splitN c rf_buf with
          | Some (a, b) => a :: pieces_fuel f b
          | None => [c]
          end
      end
  end.
Definition pieces (c : bytes) : list bytes :=
  pieces_fuel (S (N.to_nat (lenN c / rf_buf))) c.

(* One r.Read(buf): the bytes buf[:nr] and the error er. *)
Inductive rerr := RNil | REOF | RFail.
Definition read_ev : Type := bytes * rerr.

(* data with EOF: every piece arrives with a nil error except the last, which
   arrives with io.EOF; a source without data says (0, io.EOF) *)
Fixpoint reads_data_eof (ps : list bytes) : list read_ev :=
  match ps with
  | [] => [([], REOF)]
  | p :: t =>
      match t with
      | [] => [(p, REOF)]
      | _ :: _ => (p, RNil) :: reads_data_eof t
      end
  end.

Definition reads_of (ps : list bytes) (e : src_end) : list read_ev :=
  match e with
  | SrcEOF => map (fun p => (p, RNil)) ps ++ [([], REOF)]
  | SrcErr => map (fun p => (p, RNil)) ps ++ [([], RFail)]
  | SrcDataEOF => reads_data_eof ps
  end.

(* ---- the destination ----------------------------------------------------- *)
(* What one cw.w.Write(p) says: nw = len(p) and no error / an error / a short
   count WITHOUT an error.  [silent] selects the third behaviour for a
   destination in mode ShortThenErr whose budget the chunk exceeds: the bytes
   that fit are accepted, the count is short, and no error is reported. *)
Inductive wres := WOk | WErr | WShort.

Definition dwrite3 (silent : bool) (d : dest) (chunk : bytes) : dest * N * wres :=
  let '(d', nw, ok) := dwrite d chunk in
  if ok then (d', nw, WOk)
  else match silent, d_mode d with
       | true, ShortThenErr => (d', nw, WShort)
       | _, _ => (d', nw, WErr)
       end.

(* ---- the loop ------------------------------------------------------------- *)
(* the error ReadFrom returns: nil / the Write's error ew / io.ErrShortWrite /
   the source's error er *)
Inductive rf_err := RfNil | RfWrite | RfShortWrite | RfSource.

(* The loop over the sequence of Read results, with the running count n.  A
   sequence that runs out (a source with nothing more to say) is treated as EOF;
   [reads_of] never produces one. *)
Fixpoint rf_loop (silent : bool) (rs : list read_ev) (d : dest) (n : N) : dest * N * rf_err :=
  match rs with
  | [] => (d, n, RfNil)
  | (p, er) :: t =>
      let '(d', n', w) :=
        match p with
        | [] => (d, n, WOk)                                  (* nr = 0: no Write *)
        | _ :: _ => let '(d1, nw, w) := dwrite3 silent d p in (d1, n + nw, w)
        end in
      match w with
      | WErr => (d', n', RfWrite)
      | WShort => (d', n', RfShortWrite)
      | WOk =>
          match er with
          | REOF => (d', n', RfNil)
          | RFail => (d', n', RfSource)
          | RNil => rf_loop silent t d' n'
          end
      end
  end.

(* ReadFrom from a source that delivers [chunks] and then ends as [e]:
   (final destination, n, returned error) *)
Definition read_from_err (silent : bool) (chunks : list bytes) (e : src_end) (d : dest)
  : dest * N * rf_err :=
  rf_loop silent (reads_of (flat_map pieces chunks) e) d 0.

Definition rf_err_nil (r : rf_err) : bool := match r with RfNil => true | _ => false end.

(* (final destination, n, err == nil) *)
Definition read_from (silent : bool) (chunks : list bytes) (e : src_end) (d : dest)
  : dest * N * bool :=
  let '(d', n, r) := read_from_err silent chunks e d in (d', n, rf_err_nil r).
