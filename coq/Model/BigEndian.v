(* go/signedexchange/internal/bigendian *)
From WP Require Import Base.Prelude.
Open Scope N_scope.

(* EncodeBytesUint(n int64, size int) *)
Definition be_encode (n : Z) (size : N) : R bytes :=
  if (n <? 0)%Z then Err
  else if (size <? 8) && (2 ^ (8 * size) <=? Z.to_N n) then Err
  else Ok (be (N.to_nat size) (Z.to_N n)).

(* Decode3BytesUint *)
Definition decode3 (b : bytes) : N := unbe b.
