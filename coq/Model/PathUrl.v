(* Model of gen-bundle's directory walk (go/bundle/cmd/gen-bundle/fromdir.go):
   file path -> URL (url.URL{Path: rel} resolved against the base URL, i.e.
   RFC 3986 path escaping as net/url does it), and which exchanges result.
   http.ServeFile is summarised by its contract for regular files. *)
From WP Require Import Base.Prelude Model.Url Model.Cbor.
Open Scope N_scope.

(* net/url shouldEscape(c, encodePath) = false *)
Definition path_safe (c : N) : bool :=
  is_alpha_u c || is_digit_u c ||
  existsb (N.eqb c) [45; 95; 46; 126; 36; 38; 43; 44; 47; 58; 59; 61; 64].

Definition hexd (v : N) : N := if v <? 10 then 48 + v else 55 + v.
Definition escape_path (p : bytes) : bytes :=
  flat_map (fun c => if path_safe c then [c] else [37; hexd (c / 16); hexd (c mod 16)]) p.

Definition unhex (c : N) : option N :=
  if is_digit_u c then Some (c - 48)
  else if (65 <=? c) && (c <=? 70) then Some (c - 55)
  else if (97 <=? c) && (c <=? 102) then Some (c - 87)
  else None.
Fixpoint unescape_path (p : bytes) : option bytes :=
  match p with
  | [] => Some []
  | 37 :: a :: b :: r =>
      match unhex a, unhex b, unescape_path r with
      | Some x, Some y, Some t => Some (x * 16 + y :: t)
      | _, _, _ => None
      end
  | 37 :: _ => None
  | c :: r => match unescape_path r with Some t => Some (c :: t) | None => None end
  end.

(* the directory part of a base URL of the decided class
   scheme "://" authority [path] : everything up to the last '/' of the path,
   or scheme://authority/ when the path is empty.  None = outside the class. *)
Fixpoint last_slash_prefix (s : bytes) (acc cur : bytes) : bytes :=
  (* acc: prefix up to and including the last '/', reversed; cur: since then, reversed *)
  match s with
  | [] => rev_append acc []
  | c :: r => if c =? 47 then last_slash_prefix r (c :: cur ++ acc) [] else last_slash_prefix r acc (c :: cur)
  end.

Definition plain_path_char (c : N) : bool :=
  is_alpha_u c || is_digit_u c || existsb (N.eqb c) [45; 95; 126; 47; 46].

(* does a path have a segment that is exactly "." or ".." (ResolveReference removes those) *)
Fixpoint has_dot_segment (p : bytes) (cur : bytes) : bool :=
  let is_dots (seg : bytes) := bytes_eqb seg [46] || bytes_eqb seg [46; 46] in
  match p with
  | [] => is_dots (rev_append cur [])
  | c :: r => if c =? 47 then is_dots (rev_append cur []) || has_dot_segment r [] else has_dot_segment r (c :: cur)
  end.

(* ResolveReference keeps neither the query nor the fragment of the base *)
Definition strip_query_fragment (base : bytes) : bytes :=
  fst (split_at (N.eqb 63) (fst (split_at (N.eqb 35) base [])) []).

Definition base_dir (base0 : bytes) : option bytes :=
  let base := strip_query_fragment base0 in
  match get_scheme base O [] base with
  | Some (sch, 47 :: 47 :: r) =>
      match sch with
      | [] => None
      | _ =>
          let '(auth, path) := split_at (N.eqb 47) r [] in
          if negb (authority_known auth) then None
          else match auth with
               | [] => None
               | _ =>
                   let p := match path with Some p => 47 :: p | None => [47] end in
                   if negb (forallb plain_path_char p) || has_dot_segment p [] then None
                   else Some (lower sch ++ [58; 47; 47] ++ auth ++ last_slash_prefix p [] [])
               end
      end
  | _ => None
  end.

(* a directory entry of the tree handed to gen-bundle *)
Record fentry := { f_rel : bytes;          (* path relative to the root, '/'-separated; [] = the root *)
                   f_dir : bool; f_content : bytes }.

Fixpoint basename (p : bytes) (cur : bytes) : bytes :=
  match p with
  | [] => rev_append cur []
  | c :: r => if c =? 47 then basename r [] else basename r (c :: cur)
  end.

Definition index_html : bytes := s2b "index.html".

(* does directory d (relative path) directly contain a regular file index.html? *)
Definition dir_index (tree : list fentry) (d : bytes) : option bytes :=
  let want := match d with [] => index_html | _ => d ++ [47] ++ index_html end in
  match find (fun f => negb (f_dir f) && bytes_eqb (f_rel f) want) tree with
  | Some f => Some (f_content f)
  | None => None
  end.

(* names that http.ServeFile refuses ("invalid URL path"): a ".." element
   delimited by '/' or '\' *)
Fixpoint has_dotdot_elem (p : bytes) (cur : bytes) : bool :=
  match p with
  | [] => bytes_eqb cur [46; 46]
  | c :: r =>
      if (c =? 47) || (c =? 92) then bytes_eqb cur [46; 46] || has_dotdot_elem r []
      else has_dotdot_elem r (cur ++ [c])
  end.

(* expected exchanges: (url, status, body) *)
Definition expected_exchanges (base : bytes) (tree : list fentry) : option (list (bytes * Z * bytes)) :=
  match base_dir base with
  | None => None
  | Some bd =>
      (* outside the decided domain: names http.ServeFile itself refuses (".."
         elements; names that are not valid UTF-8, which Go's http.Dir rejects) *)
      if existsb (fun f => has_dotdot_elem (f_rel f) [] || negb (utf8_valid (f_rel f))) tree then None
      else
        Some (flat_map
          (fun f =>
             if f_dir f then
               match dir_index tree (f_rel f) with
               | Some content =>
                   let u := match f_rel f with [] => bd | r => bd ++ escape_path r ++ [47] end in
                   [(u, 200%Z, content)]
               | None => []
               end
             else
               let u := bd ++ escape_path (f_rel f) in
               if bytes_eqb (basename (f_rel f) []) index_html then [(u, 301%Z, [])]
               else [(u, 200%Z, f_content f)])
          tree)
  end.
