(* Model of go/bundle/cmd/gen-bundle/fromhar.go (fromHar): which HAR entries become
   exchanges.  URLs are the strings of the capture; the harness only uses URLs that
   url.Parse / String() leave unchanged. *)
From WP Require Import Base.Prelude Base.Base64 Model.Http Model.Sxg Model.Bundle.
Open Scope N_scope.

Record hentry := { h_url : bytes; h_method : bytes; h_status : Z;
                   h_resh : list (bytes * bytes); h_text : bytes; h_b64 : bool }.

(* nvpToHeader: pseudo headers and banned headers are dropped, the rest is Add-ed *)
Definition nvp_to_header (banned : bytes -> bool) (l : list (bytes * bytes)) : headers :=
  fold_left (fun h nv =>
               if (match fst nv with 58 :: _ => true | _ => false end) || banned (fst nv) then h
               else hdr_add h (fst nv) (snd nv)) l [].

Definition content_to_body (e : hentry) : R bytes :=
  if h_b64 e then match b64_decode true false (h_text e) with Some b => Ok b | None => Err end
  else Ok (h_text e).

Fixpoint seen_lookup (seen : list (bytes * bool)) (u : bytes) : option bool :=
  match seen with
  | [] => None
  | (k, v) :: t => if bytes_eqb k u then Some v else seen_lookup t u
  end.

(* the loop of fromHar; [seen] is the map hasVariants (latest binding first) *)
Fixpoint from_har (es : list hentry) (seen : list (bytes * bool)) (acc : list bexchange) : R (list bexchange) :=
  match es with
  | [] => Ok (rev acc)
  | e :: t =>
      let resh := nvp_to_header is_uncached_header (h_resh e) in
      let* body := content_to_body e in
      if negb (bytes_eqb (h_method e) (s2b "GET")) then from_har t seen acc
      else if ((h_status e <? 100) || (999 <? h_status e))%Z then from_har t seen acc
      else
        let this_has := existsb (fun nv => bytes_eqb (fst nv) (s2b "Variants")) resh in
        match seen_lookup seen (h_url e) with
        | Some others =>
            if negb this_has || negb others then from_har t seen acc
            else from_har t ((h_url e, this_has) :: seen)
                          ({| bx_url := h_url e; bx_status := h_status e; bx_hdr := resh; bx_body := body |} :: acc)
        | None =>
            from_har t ((h_url e, this_has) :: seen)
                     ({| bx_url := h_url e; bx_status := h_status e; bx_hdr := resh; bx_body := body |} :: acc)
        end
  end.
