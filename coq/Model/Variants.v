(* Model of the Variants / Variant-Key handling in go/bundle/encoder.go. *)
From WP Require Import Base.Prelude Model.StructHdr.
Open Scope N_scope.

(* parseListOfStringLists: strings and tokens only *)
Fixpoint items_to_strings (l : list sh_item) : option (list bytes) :=
  match l with
  | [] => Some []
  | ShStr s :: t | ShTok s :: t =>
      match items_to_strings t with Some r => Some (s :: r) | None => None end
  | _ => None
  end.
Fixpoint lists_to_strings (ll : list (list sh_item)) : option (list (list bytes)) :=
  match ll with
  | [] => Some []
  | l :: t =>
      match items_to_strings l, lists_to_strings t with
      | Some a, Some r => Some (a :: r)
      | _, _ => None
      end
  end.
Definition parse_list_of_string_lists (s : bytes) : R (list (list bytes)) :=
  let* ll := parse_list_of_lists s in
  of_opt (lists_to_strings ll).

Definition variants := list (list bytes).   (* each: header-name :: possible values *)
Definition max_variants : N := 10000.

(* numberOfPossibleKeys *)
Fixpoint num_possible_keys_from (v : variants) (n : N) : R N :=
  match v with
  | [] => Ok n
  | vals :: t =>
      match vals with
      | [] | [_] => Err
      | _ :: poss =>
          let n' := n * lenN poss in
          if max_variants <? n' then Err else num_possible_keys_from t n'
      end
  end.
Definition num_possible_keys (v : variants) : R N := num_possible_keys_from v 1.

Fixpoint index_of (x : bytes) (l : list bytes) (i : N) : option N :=
  match l with
  | [] => None
  | y :: t => if bytes_eqb y x then Some i else index_of x t (i + 1)
  end.

(* indexInPossibleKeys: None = -1 *)
Fixpoint index_in_possible_keys_from (v : variants) (key : list bytes) (index : N) : option N :=
  match v, key with
  | [], [] => Some index
  | vals :: vt, k :: kt =>
      let poss := tl vals in
      match index_of k poss 0 with
      | Some i => index_in_possible_keys_from vt kt (index * lenN poss + i)
      | None => None
      end
  | _, _ => None
  end.
Definition index_in_possible_keys (v : variants) (key : list bytes) : option N :=
  index_in_possible_keys_from v key 0.

(* possibleKeyAt: from the last axis backwards; None when out of range *)
Fixpoint possible_key_at_rev (rv : variants) (index : N) (acc : list bytes) : option (list bytes) :=
  match rv with
  | [] => if index =? 0 then Some acc else None
  | vals :: t =>
      let poss := tl vals in
      let n := lenN poss in
      if n =? 0 then None
      else possible_key_at_rev t (index / n) (nth (N.to_nat (index mod n)) poss [] :: acc)
  end.
Definition possible_key_at (v : variants) (index : N) : option (list bytes) :=
  possible_key_at_rev (rev v) index [].

(* entriesInPossibleKeyOrder over entries (variants value, variant-key value, payload) *)
Section Order.
  Context {A : Type}.
  Definition ventry := (bytes * bytes * A)%type.

  Fixpoint set_nth (l : list (option A)) (i : nat) (x : A) : option (list (option A)) :=
    match l, i with
    | [], _ => None
    | None :: t, O => Some (Some x :: t)
    | Some _ :: _, O => None                      (* duplicated entry for this key *)
    | h :: t, S i' => match set_nth t i' x with Some t' => Some (h :: t') | None => None end
    end.

  Fixpoint place_keys (v : variants) (vks : list (list bytes)) (x : A) (res : list (option A))
    : R (list (option A)) :=
    match vks with
    | [] => Ok res
    | vk :: t =>
        match index_in_possible_keys v vk with
        | None => Err
        | Some i =>
            match set_nth res (N.to_nat i) x with
            | None => Err
            | Some res' => place_keys v t x res'
            end
        end
    end.

  Fixpoint place_entries (v : variants) (v0 : bytes) (es : list ventry) (res : list (option A))
    : R (list (option A)) :=
    match es with
    | [] => Ok res
    | (vv, vk, x) :: t =>
        if negb (bytes_eqb vv v0) then Err
        else
          let* vks := parse_list_of_string_lists vk in
          let* res' := place_keys v vks x res in
          place_entries v v0 t res'
    end.

  Fixpoint all_some (l : list (option A)) : option (list A) :=
    match l with
    | [] => Some []
    | Some x :: t => match all_some t with Some r => Some (x :: r) | None => None end
    | None :: _ => None
    end.

  Definition entries_in_possible_key_order (es : list ventry) : R (list A) :=
    match es with
    | [] => Panic                                    (* es[0] *)
    | (v0, _, _) :: _ =>
        match v0 with
        | [] => Err
        | _ =>
            let* v := parse_list_of_string_lists v0 in
            let* n := num_possible_keys v in
            let* res := place_entries v v0 es (repeat None (N.to_nat n)) in
            of_opt (all_some res)
        end
    end.
End Order.
