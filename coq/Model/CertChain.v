(* Model of go/signedexchange/certurl/{certchain,sct}.go.  x509.ParseCertificate
   is a parameter (only "does it parse" matters here; cert.Raw = the input). *)
From WP Require Import Base.Prelude Model.Cbor.
Open Scope N_scope.

Record augcert := { ac_cert : bytes; ac_ocsp : option bytes; ac_sct : option bytes }.

(* "\U0001F4DC⛓" in UTF-8 *)
Definition cc_magic : bytes := [240; 159; 147; 156; 226; 155; 147].

Fixpoint validate_tail (l : list augcert) : bool :=
  match l with
  | [] => true
  | a :: t => match ac_ocsp a with None => validate_tail t | Some _ => false end
  end.
Definition validate (c : list augcert) : bool :=
  match c with
  | [] => false
  | a :: t => match ac_ocsp a with Some _ => validate_tail t | None => false end
  end.

Definition opt_entry (k : string) (v : option bytes) : list (bytes * bytes) :=
  match v with
  | Some b => [(enc_bytes_of TText (s2b k), enc_bytes b)]
  | None => []
  end.

(* AugmentedCertificate.EncodeTo *)
Definition encode_augcert (a : augcert) : R bytes :=
  enc_map ([(enc_bytes_of TText (s2b "cert"), enc_bytes (ac_cert a))]
           ++ opt_entry "ocsp" (ac_ocsp a) ++ opt_entry "sct" (ac_sct a)).

Fixpoint encode_all (l : list augcert) : R bytes :=
  match l with
  | [] => Ok []
  | a :: t => let* x := encode_augcert a in let* y := encode_all t in Ok (x ++ y)
  end.

(* CertChain.Write *)
Definition cc_write (c : list augcert) : R bytes :=
  if negb (validate c) then Err
  else
    let* body := encode_all c in
    Ok (enc_array_header (lenN c + 1) ++ enc_bytes_of TText cc_magic ++ body).

Section Read.
  Variable x509_ok : bytes -> bool.

  (* the key/value loop of DecodeAugmentedCertificateFrom *)
  Fixpoint dec_entries (fuel : nat) (m : N) (bs : bytes)
           (cert ocsp sct : option bytes) : R (option bytes * option bytes * option bytes * bytes) :=
    match fuel with
    | O => Fuel
    | S f =>
        if m =? 0 then Ok (cert, ocsp, sct, bs)
        else
          let* (k, r1) := decode_text bs in
          let* (v, r2) := decode_bytes r1 in
          if bytes_eqb k (s2b "cert") then
            if x509_ok v then dec_entries f (m - 1) r2 (Some v) ocsp sct else Err
          else if bytes_eqb k (s2b "ocsp") then dec_entries f (m - 1) r2 cert (Some v) sct
          else if bytes_eqb k (s2b "sct") then dec_entries f (m - 1) r2 cert ocsp (Some v)
          else dec_entries f (m - 1) r2 cert ocsp sct
    end.

  Definition decode_augcert (bs : bytes) : R (augcert * bytes) :=
    let* (m, r) := decode_map_header bs in
    let* (c, o, s, r') := dec_entries (S (List.length r)) m r None None None in
    match c with
    | Some der => Ok ({| ac_cert := der; ac_ocsp := o; ac_sct := s |}, r')
    | None => Err
    end.

  Fixpoint dec_chain (fuel : nat) (n : N) (bs : bytes) (acc : list augcert) : R (list augcert * bytes) :=
    match fuel with
    | O => Fuel
    | S f =>
        if n =? 0 then Ok (rev acc, bs)
        else let* (a, r) := decode_augcert bs in dec_chain f (n - 1) r (a :: acc)
    end.

  (* ReadCertChain *)
  Definition cc_read (bs : bytes) : R (list augcert) :=
    let* (n, r) := decode_array_header bs in
    if n <? 2 then Err
    else
      let* (magic, r1) := decode_text r in
      if negb (bytes_eqb magic cc_magic) then Err
      else
        let* (c, _) := dec_chain (S (List.length r1)) (n - 1) r1 [] in
        if validate c then Ok c else Err.
End Read.

(* ---- sct.go: SerializeSCTList ------------------------------------------ *)
Definition sct_total (scts : list bytes) : N := fold_left (fun acc s => acc + lenN s + 2) scts 0.
Definition serialize_sct_list (scts : list bytes) : R bytes :=
  if existsb (fun s => 65535 <? lenN s) scts then Err
  else if 65535 <? sct_total scts then Err
  else Ok (be 2 (sct_total scts) ++ flat_map (fun s => be 2 (lenN s) ++ s) scts).
