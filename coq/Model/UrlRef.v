(* URL references as the bundle reader/writer meet them: url.Parse on index
   keys, primary and manifest URLs (relative references allowed), and a
   syntactic class of strings on which url.URL.String() gives the string back.
   Outside the decided class the answer is RUnknown. *)
From WP Require Import Base.Prelude Model.Url.
Open Scope N_scope.

Inductive ref_res :=
| RErr
| ROk (abs has_frag has_user : bool)      (* parses; IsAbs; Fragment != ""; User != nil *)
| RUnknown.

(* characters that String() leaves alone in path / query *)
Definition stable_char (c : N) : bool :=
  is_alpha_u c || is_digit_u c ||
  existsb (N.eqb c) [45; 46; 95; 126; 47; 37; 59; 44; 61; 64; 38; 33; 36; 39; 40; 41; 42; 43; 58].

Fixpoint first_segment_has_colon (s : bytes) : bool :=
  match s with
  | [] => false
  | c :: r => if c =? 47 then false else if c =? 58 then true else first_segment_has_colon r
  end.

Definition is_lower_scheme (s : bytes) : bool :=
  forallb (fun c => negb ((65 <=? c) && (c <=? 90))) s.

Definition url_ref (u : bytes) : ref_res :=
  if existsb is_ctl u then RErr
  else
    let '(main, frag) := split_at (N.eqb 35) u [] in
    let has_frag := match frag with Some (_ :: _) => true | _ => false end in
    let frag_known := match frag with
                      | Some [] => false                 (* "x#": String() drops the '#' *)
                      | Some f => forallb stable_char f && escapes_ok f
                      | None => true end in
    match get_scheme main O [] main with
    | None => RErr
    | Some (sch, rest) =>
        let '(hier, query) := split_at (N.eqb 63) rest [] in
        let q_known := match query with Some q => forallb (fun c => stable_char c || (c =? 63)) q | None => true end in
        if negb (forallb stable_char hier && q_known && frag_known && is_lower_scheme sch) then RUnknown
        else
          match sch, hier with
          | _ :: _, 47 :: 47 :: r2 =>
              let '(auth, path) := split_at (N.eqb 47) r2 [] in
              if negb (authority_known auth) then RUnknown
              else if negb (escapes_ok (match path with Some p => p | None => [] end)) then RErr
              else match auth, path with
                   | [], _ => RUnknown                   (* empty host: String() is not stable *)
                   | _, Some (47 :: _) => RUnknown       (* path starting with "//" *)
                   | _, _ => ROk true has_frag false
                   end
          | _ :: _, _ => RUnknown                        (* scheme without authority / opaque *)
          | [], 47 :: 47 :: _ => RUnknown                (* network-path reference *)
          | [], 47 :: p => if escapes_ok p then ROk false has_frag false else RErr
          | [], [] => RUnknown
          | [], p =>
              if first_segment_has_colon p then RErr
              else if escapes_ok p then ROk false has_frag false else RErr
          end
    end.
