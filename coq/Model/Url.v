(* A partial model of net/url.Parse: enough to decide "parses, scheme, host"
   for a syntactic class of URLs, and answering UUnknown outside that class
   (the correspondence run skips such cases and counts them).  *)
From WP Require Import Base.Prelude.
Open Scope N_scope.

Inductive url_res :=
| UErr                                   (* url.Parse returns an error *)
| UOk (scheme host : bytes) (has_frag has_user : bool)
| UUnknown.

Definition is_alpha_u (c : N) : bool := ((97 <=? c) && (c <=? 122)) || ((65 <=? c) && (c <=? 90)).
Definition is_digit_u (c : N) : bool := (48 <=? c) && (c <=? 57).
Definition is_hex_u (c : N) : bool :=
  is_digit_u c || ((97 <=? c) && (c <=? 102)) || ((65 <=? c) && (c <=? 70)).
Definition is_ctl (c : N) : bool := (c <? 32) || (c =? 127).

(* getScheme: Some (scheme, rest) / no scheme = Some ([], all) / None = error *)
Fixpoint get_scheme (s : bytes) (i : nat) (acc : bytes) (all : bytes) : option (bytes * bytes) :=
  match s with
  | [] => Some ([], all)
  | c :: r =>
      if is_alpha_u c then get_scheme r (S i) (acc ++ [c]) all
      else if is_digit_u c || (c =? 43) || (c =? 45) || (c =? 46) then
        match i with O => Some ([], all) | _ => get_scheme r (S i) (acc ++ [c]) all end
      else if c =? 58 then
        match i with O => None | _ => Some (acc, r) end
      else Some ([], all)
  end.

Fixpoint split_at (p : N -> bool) (s : bytes) (acc : bytes) : bytes * option bytes :=
  match s with
  | [] => (rev_append acc [], None)
  | c :: r => if p c then (rev_append acc [], Some r) else split_at p r (c :: acc)
  end.

(* every '%' is followed by two hex digits *)
Fixpoint escapes_ok (s : bytes) : bool :=
  match s with
  | [] => true
  | c :: r =>
      if c =? 37 then
        match r with
        | a :: b :: r' => is_hex_u a && is_hex_u b && escapes_ok r'
        | _ => false
        end
      else escapes_ok r
  end.

Definition host_char (c : N) : bool :=
  is_alpha_u c || is_digit_u c || (c =? 45) || (c =? 46) || (c =? 95) || (c =? 126).

(* authority of the known class: hostchars [":" digits] *)
Definition authority_known (a : bytes) : bool :=
  let '(h, p) := split_at (N.eqb 58) a [] in
  forallb host_char h &&
  match p with None => true | Some ds => forallb is_digit_u ds end.

Definition url_parse (u : bytes) : url_res :=
  if existsb is_ctl u then UErr
  else
    let '(main, frag) := split_at (N.eqb 35) u [] in
    match frag with
    | Some f => if negb (escapes_ok f) then UErr else
        (* fragment present: classify the rest the same way *)
        match get_scheme main O [] main with
        | None => UErr
        | Some (sch, rest) =>
            let '(hier, _) := split_at (N.eqb 63) rest [] in
            match sch, hier with
            | _ :: _, 47 :: 47 :: r2 =>
                let '(auth, path) := split_at (N.eqb 47) r2 [] in
                if negb (authority_known auth) then UUnknown
                else if negb (escapes_ok (match path with Some p => p | None => [] end)) then UErr
                else UOk (lower sch) auth true false
            | _, _ => UUnknown
            end
        end
    | None =>
        match get_scheme main O [] main with
        | None => UErr
        | Some (sch, rest) =>
            let '(hier, _) := split_at (N.eqb 63) rest [] in
            match sch with
            | [] =>
                (* relative reference: classified only in its simplest shape - an empty or single-slash
                   path over unreserved characters (no scheme, no host; url.Parse accepts it) *)
                match hier with
                | 47 :: 47 :: _ => UUnknown
                | _ => if forallb (fun c => host_char c || (c =? 47)) hier then UOk [] [] false false else UUnknown
                end
            | _ =>
                match hier with
                | 47 :: 47 :: r2 =>
                    let '(auth, path) := split_at (N.eqb 47) r2 [] in
                    if negb (authority_known auth) then UUnknown
                    else if negb (escapes_ok (match path with Some p => p | None => [] end)) then UErr
                    else UOk (lower sch) auth false false
                | 47 :: p => if escapes_ok p then UOk (lower sch) [] false false else UErr
                | _ => UOk (lower sch) [] false false        (* opaque: no validation *)
                end
            end
        end
    end.
