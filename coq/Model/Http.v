(* net/http.Header as the code uses it: canonical keys, Add/Get/Values.
   A header map is an association list (canonical name, values); its order
   stands for Go's arbitrary map iteration order. *)
From WP Require Import Base.Prelude.
Open Scope N_scope.

Definition is_digit_b (c : N) : bool := (48 <=? c) && (c <=? 57).
Definition is_lower_b (c : N) : bool := (97 <=? c) && (c <=? 122).
Definition is_upper_b (c : N) : bool := (65 <=? c) && (c <=? 90).
(* textproto validHeaderFieldByte: RFC 7230 token characters *)
Definition is_tchar (c : N) : bool :=
  is_digit_b c || is_lower_b c || is_upper_b c ||
  existsb (N.eqb c) [33; 35; 36; 37; 38; 39; 42; 43; 45; 46; 94; 95; 96; 124; 126].

Fixpoint canon_go (s : bytes) (upper : bool) : bytes :=
  match s with
  | [] => []
  | c :: r =>
      let c' := if upper && is_lower_b c then c - 32
                else if negb upper && is_upper_b c then c + 32 else c in
      c' :: canon_go r (c =? 45)
  end.
(* textproto.CanonicalMIMEHeaderKey *)
Definition canonical_key (s : bytes) : bytes :=
  if forallb is_tchar s then canon_go s true else s.

Definition headers := list (bytes * list bytes).

Fixpoint hdr_add_raw (h : headers) (k v : bytes) : headers :=
  match h with
  | [] => [(k, [v])]
  | (k', vs) :: t => if bytes_eqb k' k then (k', vs ++ [v]) :: t else (k', vs) :: hdr_add_raw t k v
  end.
Definition hdr_add (h : headers) (k v : bytes) : headers := hdr_add_raw h (canonical_key k) v.

Fixpoint hdr_lookup (h : headers) (k : bytes) : list bytes :=
  match h with
  | [] => []
  | (k', vs) :: t => if bytes_eqb k' k then vs else hdr_lookup t k
  end.
Definition hdr_values (h : headers) (k : bytes) : list bytes := hdr_lookup h (canonical_key k).
Definition hdr_get (h : headers) (k : bytes) : bytes :=
  match hdr_values h k with v :: _ => v | [] => [] end.

(* strings.Join(values, ",") *)
Fixpoint join_comma (vs : list bytes) : bytes :=
  match vs with
  | [] => []
  | [v] => v
  | v :: t => v ++ [44] ++ join_comma t
  end.
(* headerValue: the comma-joined list, as serialized and signed *)
Definition hdr_value (h : headers) (k : bytes) : bytes := join_comma (hdr_values h k).

(* verifier.go headerValue: the field is found whatever the letter case of its map
   key (all keys whose lower-case form equals the lower-cased name, in key order),
   values comma-joined. *)
Definition hdr_values_ci (h : headers) (k : bytes) : list bytes :=
  List.concat (map snd (isort (fun a b : bytes * list bytes => bytes_ltb (fst a) (fst b))
                              (filter (fun kv => bytes_eqb (lower (fst kv)) (lower k)) h))).
Definition hdr_value_ci (h : headers) (k : bytes) : bytes := join_comma (hdr_values_ci h k).

Definition hdr_of_pairs (l : list (bytes * bytes)) : headers :=
  fold_left (fun h kv => hdr_add h (fst kv) (snd kv)) l [].
