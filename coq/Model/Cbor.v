(* Model of go/internal/cbor/{encoder,decoder}.go — the code as it stands,
   written as total functions on byte lists.  No proofs here. *)
From WP Require Import Base.Prelude.
Open Scope N_scope.

(* ---- types.go ---------------------------------------------------------- *)
Definition TPos : N := 0.
Definition TNeg : N := 32.
Definition TBytes : N := 64.
Definition TText : N := 96.
Definition TArray : N := 128.
Definition TMap : N := 160.
Definition TTag : N := 192.
Definition TOther : N := 224.
Definition major (b : N) : N := (b / 32) * 32.      (* b & 0xe0 *)
Definition addinfo (b : N) : N := b mod 32.         (* b & 0x1f *)

(* ---- encoder.go -------------------------------------------------------- *)
(* Encoder.encodeTypedUint: one Write of 1+nfollow bytes.  n is a uint64. *)
Definition typed_uint (t n : N) : bytes :=
  if n <? 24 then [t + n]
  else if n <? 256 then (t + 24) :: be 1 n
  else if n <? 65536 then (t + 25) :: be 2 n
  else if n <? 4294967296 then (t + 26) :: be 4 n
  else (t + 27) :: be 8 n.

Definition enc_uint (n : N) : bytes := typed_uint TPos n.

(* EncodeInt(n int64): n >= 0 -> uint; else typed(NegInt, uint64(-n) - 1).
   For int64 n < 0, uint64(-n) = -n except n = MinInt64 where -n wraps to
   MinInt64 and uint64 of it is 2^63 = -n again; the subtraction cannot wrap. *)
Definition enc_int (z : Z) : bytes :=
  if (0 <=? z)%Z then typed_uint TPos (Z.to_N z)
  else typed_uint TNeg (w64 (w64 (Z.to_N (- z)) + two64 - 1)).

Definition enc_bytes_of (t : N) (bs : bytes) : bytes := typed_uint t (lenN bs) ++ bs.
Definition enc_bytes (bs : bytes) : bytes := enc_bytes_of TBytes bs.

(* unicode/utf8.Valid, as the table of well-formed byte sequences *)
Definition cont (b : N) : bool := (128 <=? b) && (b <=? 191).
Definition inr (lo hi b : N) : bool := (lo <=? b) && (b <=? hi).
Fixpoint utf8_valid (bs : bytes) : bool :=
  match bs with
  | [] => true
  | b0 :: r =>
      if b0 <? 128 then utf8_valid r
      else if inr 194 223 b0 then
        match r with b1 :: r1 => cont b1 && utf8_valid r1 | _ => false end
      else if inr 224 239 b0 then
        match r with
        | b1 :: b2 :: r2 =>
            (if b0 =? 224 then inr 160 191 b1
             else if b0 =? 237 then inr 128 159 b1 else cont b1)
            && cont b2 && utf8_valid r2
        | _ => false
        end
      else if inr 240 244 b0 then
        match r with
        | b1 :: b2 :: b3 :: r3 =>
            (if b0 =? 240 then inr 144 191 b1
             else if b0 =? 244 then inr 128 143 b1 else cont b1)
            && cont b2 && cont b3 && utf8_valid r3
        | _ => false
        end
      else false
  end.

Definition enc_text (bs : bytes) : R bytes :=
  if utf8_valid bs then Ok (enc_bytes_of TText bs) else Err.

Definition enc_array_header (n : N) : bytes := typed_uint TArray n.
Definition enc_map_header (n : N) : bytes := typed_uint TMap n.
Definition enc_bool (b : bool) : bytes := [TOther + (if b then 21 else 20)].

(* EncodeMap: header, then the entries sorted by bytes.Compare of the key
   bytes; two adjacent equal keys -> ErrDuplicatedKey.  (sort.Slice is not
   stable, but with no two equal keys the sorted order is unique.)         *)
Definition entry_lt (a b : bytes * bytes) : bool := bytes_ltb (fst a) (fst b).
Fixpoint adjacent_dup (l : list (bytes * bytes)) : bool :=
  match l with
  | a :: ((b :: _) as t) => bytes_eqb (fst a) (fst b) || adjacent_dup t
  | _ => false
  end.
Definition sort_entries (es : list (bytes * bytes)) := isort entry_lt es.
Definition enc_map (es : list (bytes * bytes)) : R bytes :=
  let s := sort_entries es in
  if adjacent_dup s then Err
  else Ok (enc_map_header (lenN es) ++ flat_map (fun e => fst e ++ snd e) s).

(* Encoder programs: any sequence of encoder calls, with maps built through
   MapEntryEncoder (key and value each an arbitrary call sequence).        *)
Inductive item : Type :=
| IUint (n : N) | IInt (z : Z) | IBytes (b : bytes) | IText (b : bytes)
| IArr (n : N) | IBool (b : bool)
| IMap (es : list (list item * list item)).

(* A failing call inside GenerateMapEntry's callback is the caller's business
   (the library's own callers panic on it); here any failure makes the whole
   program fail. *)
Fixpoint run_item (i : item) : R bytes :=
  match i with
  | IUint n => Ok (enc_uint n)
  | IInt z => Ok (enc_int z)
  | IBytes b => Ok (enc_bytes b)
  | IText b => enc_text b
  | IArr n => Ok (enc_array_header n)
  | IBool b => Ok (enc_bool b)
  | IMap es =>
      let run_items :=
        fix run_items (l : list item) : R bytes :=
          match l with
          | [] => Ok []
          | i :: t => let* a := run_item i in let* b := run_items t in Ok (a ++ b)
          end in
      let* ents :=
        (fix go (es : list (list item * list item)) : R (list (bytes * bytes)) :=
           match es with
           | [] => Ok []
           | (k, v) :: t =>
               let* kb := run_items k in
               let* vb := run_items v in
               let* r := go t in Ok ((kb, vb) :: r)
           end) es in
      enc_map ents
  end.
Fixpoint run_items (l : list item) : R bytes :=
  match l with
  | [] => Ok []
  | i :: t => let* a := run_item i in let* b := run_items t in Ok (a ++ b)
  end.

(* ---- decoder.go -------------------------------------------------------- *)
(* The reader is the list of bytes not yet consumed; every function returns
   the remaining input on success.                                         *)
Definition nfollow_of (ai : N) : N :=
  if ai =? 24 then 1 else if ai =? 25 then 2 else if ai =? 26 then 4
  else if ai =? 27 then 8 else 0.

Definition decode_typed_uint (bs : bytes) : R (N * N * bytes) :=
  match bs with
  | [] => Err
  | b :: r =>
      let t := major b in
      let ai := addinfo b in
      if ai <? 24 then Ok (t, ai, r)
      else if 27 <? ai then Err                 (* reserved / indefinite *)
      else match splitN r (nfollow_of ai) with
           | None => Err
           | Some (f, r') => Ok (t, unbe f, r')
           end
  end.

Definition decode_of_type (expected : N) (bs : bytes) : R (N * bytes) :=
  let* (t, n, r) := decode_typed_uint bs in
  if t =? expected then Ok (n, r) else Err.

Definition decode_uint := decode_of_type TPos.
Definition decode_array_header := decode_of_type TArray.
Definition decode_map_header := decode_of_type TMap.

(* decodeBytesOfType: io.CopyN(buf, r, int64(n)); a length above MaxInt64 is
   refused, a length above the remaining input is an error (EOF).          *)
Definition decode_bytes_of_type (expected : N) (bs : bytes) : R (bytes * bytes) :=
  let* (n, r) := decode_of_type expected bs in
  if two63 <=? n then Err
  else match splitN r n with
       | None => Err
       | Some (s, r') => Ok (s, r')
       end.

Definition decode_bytes := decode_bytes_of_type TBytes.
Definition decode_text (bs : bytes) : R (bytes * bytes) :=
  let* (s, r) := decode_bytes_of_type TText bs in
  if utf8_valid s then Ok (s, r) else Err.
