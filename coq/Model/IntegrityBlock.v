(* Model of go/integrityblock/{integrityblock,integrityblock-signer}.go,
   webbundleid/web-bundle-id.go and the signing flow of
   go/bundle/cmd/sign-bundle/integrityblock.go.  SHA-512, Ed25519 signing and
   verification are parameters. *)
From WP Require Import Base.Prelude Base.Base32 Model.Cbor Model.Det.
Open Scope N_scope.

Definition ib_magic : bytes := [240; 159; 150; 139; 240; 159; 147; 166].
Definition ib_version_b1 : bytes := [49; 98; 0; 0].
Definition pk_attr_name : bytes := s2b "ed25519PublicKey".

(* SignatureAttributesMap: Go map[string][]byte, here an association list *)
Definition attrs := list (bytes * bytes).
Record isig := { is_attrs : attrs; is_sig : bytes }.
Record iblock := { ib_stack : list isig }.     (* magic and version are the constants *)

(* SignatureAttributesMap.cborBytes; a key that is not valid UTF-8 makes the
   ignored EncodeTextString fail and leaves an empty key: outside the domain,
   the model answers Err. *)
Definition attrs_cbor (a : attrs) : R bytes :=
  if negb (forallb (fun kv => utf8_valid (fst kv)) a) then Err
  else enc_map (map (fun kv => (enc_bytes_of TText (fst kv), enc_bytes (snd kv))) a).

Fixpoint stack_cbor (l : list isig) : R bytes :=
  match l with
  | [] => Ok []
  | s :: t =>
      let* a := attrs_cbor (is_attrs s) in
      let* r := stack_cbor t in
      Ok (enc_array_header 2 ++ a ++ enc_bytes (is_sig s) ++ r)
  end.

(* IntegrityBlock.CborBytes *)
Definition block_cbor (b : iblock) : R bytes :=
  let* st := stack_cbor (ib_stack b) in
  Ok (enc_array_header 3 ++ enc_bytes ib_magic ++ enc_bytes ib_version_b1
      ++ enc_array_header (lenN (ib_stack b)) ++ st).

(* GenerateDataToBeSigned *)
Definition data_to_be_signed (hash block : bytes) (a : attrs) : R bytes :=
  let* ab := attrs_cbor a in
  Ok (be 8 (w64 (lenN hash)) ++ hash ++ be 8 (w64 (lenN block)) ++ block ++ be 8 (w64 (lenN ab)) ++ ab).

Definition of_i64w (z : Z) : N := Z.to_N (z mod Z.of_N two64)%Z.

(* ObtainIntegrityBlock on a file of the given size whose last 8 bytes are [trail]:
   Ok = a fresh empty block (offset 0) *)
Definition obtain (file : bytes) : R iblock :=
  let size := lenN file in
  if size <? 8 then Err                                 (* Seek(-8, End) fails *)
  else
    match splitN file (size - 8) with
    | Some (_, trail) =>
        let wl := to_i64 (unbe trail) in               (* int64(uint64) *)
        let d := to_i64 (of_i64w (Z.of_N size - wl)) in (* int64 subtraction wraps *)
        if (d <? 0)%Z then Err
        else if negb (d =? 0)%Z then Err
        else Ok {| ib_stack := [] |}
    | None => Panic
    end.


Section Sign.
  Variable H512 : bytes -> bytes.
  Variable strat_sign : bytes -> R bytes.      (* ISigningStrategy.Sign *)
  Variable ed_ok : bytes -> bytes -> bytes -> bool.   (* ed25519.Verify pk msg sig *)

  Definition det_accepts (bs : bytes) : bool :=
    match det_check bs with Accept => true | _ => false end.

  (* IntegrityBlockSigner.SignAndAddNewSignature *)
  Definition sign_and_add (hash : bytes) (b : iblock) (pk : bytes) (a : attrs) : R iblock :=
    (* the attributes must carry the key the signature is verified with *)
    if negb (bytes_eqb (match find (fun kv => bytes_eqb (fst kv) pk_attr_name) a with
                        | Some kv => snd kv | None => [] end) pk) then Err else
    let* blk := block_cbor b in
    if negb (det_accepts blk) then Err
    else
      let* dtbs := data_to_be_signed hash blk a in
      let* sg := strat_sign dtbs in
      if negb (lenN pk =? 32) then Err                 (* VerifyEd25519Signature: key length *)
      else if negb (ed_ok pk dtbs sg) then Err
      else Ok {| ib_stack := {| is_attrs := a; is_sig := sg |} :: ib_stack b |}.

  (* SignWithIntegrityBlock: the bytes written to the output file *)
  Definition sign_file (file : bytes) (pk : bytes) : R bytes :=
    let* b0 := obtain file in
    let hash := H512 file in
    let* b1 := sign_and_add hash b0 pk [(pk_attr_name, pk)] in
    let* out := block_cbor b1 in
    if negb (det_accepts out) then Err else Ok (out ++ file).
End Sign.

(* webbundleid.GetWebBundleId *)
Definition web_bundle_id (pk : bytes) : bytes := lower (b32_encode (pk ++ [0; 1; 2])).
