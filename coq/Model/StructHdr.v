(* Model of go/signedexchange/structuredheader/{parser,writer}.go. *)
From WP Require Import Base.Prelude Base.Base64 Base.Decimal.
Open Scope N_scope.

Inductive sh_item :=
| ShInt (z : Z) | ShStr (b : bytes) | ShTok (b : bytes) | ShBytes (b : bytes)
| ShBad.   (* an Item of a Go type the writer does not support *)

(* Parameters: a Go map; here an association list (for the writer: in the
   order map iteration happened to produce; for the parser: order of
   appearance).  None = key without value. *)
Definition sh_params := list (bytes * option sh_item).
Record pident := { pi_label : bytes; pi_params : sh_params }.

Definition is_lcalpha (c : N) : bool := (97 <=? c) && (c <=? 122).
Definition is_alpha (c : N) : bool := is_lcalpha c || ((65 <=? c) && (c <=? 90)).
Definition is_keychar (c : N) : bool := is_lcalpha c || is_digit c || (c =? 95) || (c =? 45).
Definition is_tokenchar (c : N) : bool :=
  is_alpha c || is_digit c || (c =? 95) || (c =? 45) || (c =? 46) || (c =? 58)
  || (c =? 37) || (c =? 42) || (c =? 47).

(* ---- parser ------------------------------------------------------------ *)
Fixpoint discard_ows (s : bytes) : bytes :=
  match s with c :: r => if (c =? 32) || (c =? 9) then discard_ows r else s | [] => [] end.

Fixpoint span (p : N -> bool) (s : bytes) : bytes * bytes :=
  match s with
  | c :: r => if p c then let (a, b) := span p r in (c :: a, b) else ([], s)
  | [] => ([], [])
  end.

Definition parse_key (s : bytes) : R (bytes * bytes) :=
  match s with
  | [] => Err
  | c :: _ => if is_lcalpha c then Ok (span is_keychar s) else Err
  end.

Definition parse_token (s : bytes) : R (bytes * bytes) :=
  match s with
  | [] => Err
  | c :: _ => if is_alpha c then Ok (span is_tokenchar s) else Err
  end.

(* strconv.ParseInt(s, 10, 64) for s = first char ('-' or digit) + digits *)
Definition parse_number (s : bytes) : R (Z * bytes) :=
  match s with
  | [] => Err
  | c :: r =>
      if (c =? 45) || is_digit c then
        let (ds, rest) := span is_digit r in
        if c =? 45 then
          match ds with
          | [] => Err
          | _ => let v := digits_val ds in
                 if v <=? two63 then Ok ((- Z.of_N v)%Z, rest) else Err
          end
        else
          let v := digits_val (c :: ds) in
          if v <? two63 then Ok (Z.of_N v, rest) else Err
      else Err
  end.

Fixpoint parse_string_body (s : bytes) (acc : bytes) : R (bytes * bytes) :=
  match s with
  | [] => Err                                     (* missing closing quote *)
  | c :: r =>
      if c =? 92 then
        match r with
        | [] => Err
        | c2 :: r2 => if (c2 =? 34) || (c2 =? 92) then parse_string_body r2 (c2 :: acc) else Err
        end
      else if c =? 34 then Ok (rev acc, r)
      else if (c <? 32) || (126 <? c) then Err
      else parse_string_body r (c :: acc)
  end.

Definition parse_string (s : bytes) : R (bytes * bytes) :=
  match s with
  | c :: r => if c =? 34 then parse_string_body r [] else Err
  | [] => Err
  end.

Definition is_b64char (c : N) : bool :=
  is_alpha c || is_digit c || (c =? 43) || (c =? 47) || (c =? 61).

Definition parse_byte_sequence (s : bytes) : R (bytes * bytes) :=
  match s with
  | c :: r =>
      if c =? 42 then
        let (body, rest) := span (fun x => negb (x =? 42)) r in
        match rest with
        | [] => Err                                (* missing closing '*' *)
        | _ :: rest' =>
            if negb (forallb is_b64char body) then Err
            else
              let pad := (lenN body) mod 4 =? 0 in
              match b64_decode pad false body with
              | Some data => Ok (data, rest')
              | None => Err
              end
        end
      else Err
  | [] => Err
  end.

Definition parse_item (s : bytes) : R (sh_item * bytes) :=
  match s with
  | [] => Err
  | c :: _ =>
      if (c =? 45) || is_digit c then let* (z, r) := parse_number s in Ok (ShInt z, r)
      else if c =? 34 then let* (b, r) := parse_string s in Ok (ShStr b, r)
      else if c =? 42 then let* (b, r) := parse_byte_sequence s in Ok (ShBytes b, r)
      else if is_alpha c then let* (b, r) := parse_token s in Ok (ShTok b, r)
      else Err
  end.

Definition has_key (k : bytes) (ps : sh_params) : bool :=
  existsb (fun p => bytes_eqb (fst p) k) ps.

(* the parameter loop of parseParameterisedIdentifier *)
Fixpoint parse_params (fuel : nat) (s : bytes) (acc : sh_params) : R (sh_params * bytes) :=
  match fuel with
  | O => Fuel
  | S f =>
      let s1 := discard_ows s in
      match s1 with
      | c :: r =>
          if c =? 59 then
            let s2 := discard_ows r in
            let* (k, s3) := parse_key s2 in
            if has_key k acc then Err
            else match s3 with
                 | c3 :: r3 =>
                     if c3 =? 61 then
                       let* (v, s4) := parse_item r3 in
                       parse_params f s4 (acc ++ [(k, Some v)])
                     else parse_params f s3 (acc ++ [(k, None)])
                 | [] => parse_params f s3 (acc ++ [(k, None)])
                 end
          else Ok (acc, s1)
      | [] => Ok (acc, s1)
      end
  end.

Definition parse_pi (s : bytes) : R (pident * bytes) :=
  let* (lbl, r) := parse_token s in
  let* (ps, r') := parse_params (S (List.length r)) r [] in
  Ok ({| pi_label := lbl; pi_params := ps |}, r').

Fixpoint parse_plist_loop (fuel : nat) (s : bytes) (acc : list pident) : R (list pident * bytes) :=
  match fuel with
  | O => Fuel
  | S f =>
      match s with
      | [] => Err
      | _ =>
          let* (it, r) := parse_pi s in
          let acc' := acc ++ [it] in
          let r1 := discard_ows r in
          match r1 with
          | [] => Ok (acc', r1)
          | c :: r2 => if c =? 44 then parse_plist_loop f (discard_ows r2) acc' else Err
          end
      end
  end.

Definition parse_parameterised_list (input : bytes) : R (list pident) :=
  let s := discard_ows input in
  let* (pl, r) := parse_plist_loop (S (List.length s)) s [] in
  match discard_ows r with [] => Ok pl | _ => Err end.

Fixpoint parse_lol_loop (fuel : nat) (s : bytes) (top : list (list sh_item)) (inner : list sh_item)
  : R (list (list sh_item) * bytes) :=
  match fuel with
  | O => Fuel
  | S f =>
      match s with
      | [] => Err
      | _ =>
          let* (it, r) := parse_item s in
          let inner' := inner ++ [it] in
          let r1 := discard_ows r in
          match r1 with
          | [] => Ok (top ++ [inner'], r1)
          | c :: r2 =>
              if c =? 44 then parse_lol_loop f (discard_ows r2) (top ++ [inner']) []
              else if c =? 59 then parse_lol_loop f (discard_ows r2) top inner'
              else Err
          end
      end
  end.

Definition parse_list_of_lists (input : bytes) : R (list (list sh_item)) :=
  let s := discard_ows input in
  let* (ll, r) := parse_lol_loop (S (List.length s)) s [] [] in
  match discard_ows r with [] => Ok ll | _ => Err end.

(* ---- writer ------------------------------------------------------------ *)
Definition is_valid_key (s : bytes) : bool :=
  match s with c :: _ => is_lcalpha c && forallb is_keychar s | [] => false end.
Definition is_valid_token (s : bytes) : bool :=
  match s with c :: _ => is_alpha c && forallb is_tokenchar s | [] => false end.

(* strconv.Quote on printable ASCII *)
Definition quote (s : bytes) : bytes :=
  [34] ++ flat_map (fun c => if (c =? 34) || (c =? 92) then [92; c] else [c]) s ++ [34].

Definition serialize_item (i : sh_item) : R bytes :=
  match i with
  | ShInt z => Ok (dec_of_Z z)
  | ShStr s => if forallb (fun c => (32 <=? c) && (c <=? 126)) s then Ok (quote s) else Err
  | ShTok t => if is_valid_token t then Ok t else Err
  | ShBytes b => Ok ([42] ++ b64_encode true false b ++ [42])
  | ShBad => Err
  end.

Definition param_lt (a b : bytes * option sh_item) : bool := bytes_ltb (fst a) (fst b).

Fixpoint serialize_params (ps : sh_params) : R bytes :=
  match ps with
  | [] => Ok []
  | (k, v) :: t =>
      if negb (is_valid_key k) then Err
      else
        let* vs := (match v with
                    | None => Ok []
                    | Some i => let* s := serialize_item i in Ok (61 :: s)
                    end) in
        let* rest := serialize_params t in
        Ok ([59] ++ k ++ vs ++ rest)
  end.

Definition serialize_pi (p : pident) : R bytes :=
  if negb (is_valid_token (pi_label p)) then Err
  else let* ps := serialize_params (isort param_lt (pi_params p)) in
       Ok (pi_label p ++ ps).

Fixpoint join_R (sep : bytes) (l : list (R bytes)) : R bytes :=
  match l with
  | [] => Ok []
  | [x] => x
  | x :: t => let* a := x in let* b := join_R sep t in Ok (a ++ sep ++ b)
  end.

Definition serialize_plist (pl : list pident) : R bytes :=
  match pl with
  | [] => Err
  | _ => join_R [44; 32] (map serialize_pi pl)
  end.

Definition serialize_lol (ll : list (list sh_item)) : R bytes :=
  match ll with
  | [] => Err
  | _ => join_R [44; 32]
           (map (fun inner => match inner with
                              | [] => Err
                              | _ => join_R [59; 32] (map serialize_item inner)
                              end) ll)
  end.
