(* Spec/BundleRead.v - what "reading a web bundle" means, written from the
   format description (draft-yasskin-wpack-bundled-exchanges "b1",
   draft-ietf-wpack-bundled-responses "b2") and NOT from the control flow of
   the reader.  Everything is a relation between the input byte string and the
   things an independent parser finds in it; all arithmetic is in N, without
   wrap-around.

   The only things taken from Model/ are record types (bundle, bexchange,
   bversion) in which the reader reports its result, the header association
   list type, and net/http's CanonicalHeaderKey (Model.Http.canonical_key),
   because the reader reports header names in that form.

   Layout of a bundle (CDDL of the drafts):

     b1: [ magic: h'F0 9F 8C 90 F0 9F 93 A6', version: h'62 31 00 00',
           primary-url: tstr, section-lengths: bstr .cbor [* (tstr, uint)],
           sections: [* any], length: bstr .size 8 ]
     b2: the same without primary-url, version h'62 32 00 00'.

   The n sections follow each other directly after the head of the `sections`
   array, in the order of the section-lengths table; section k starts at
   sections_start + (sum of the lengths of sections 0..k-1).

     index     b2: {* tstr => [offset: uint, length: uint]}
               b1: {* tstr => [variants-value: bstr, +(offset: uint, length: uint)]}
     responses [* [headers: bstr .cbor {* bstr => bstr}, payload: bstr]]

   offset/length in the index are relative to the start of the responses
   section and must lie inside it.

   Leniencies of this reference (each one makes the relation LARGER, so that
   "the reader's answer satisfies it" is a weaker claim only in these points;
   they are spelled out in Properties/C05.v as examples):
   - CBOR heads may use any of the five definite widths (no shortest-form rule);
   - bytes may follow the items inside the section-lengths string, inside the
     index section and inside the header string of a response (the [junk]
     variables below);
   - the count in the section-lengths array head may be odd (2k-1 for k pairs);
   - in b1 the number of locations of an entry is taken from the array head
     (items = 2k+1), not cross-checked against the Variants value here.       *)
From WP Require Import Base.Prelude Spec.Cbor Model.Http Model.Bundle.
Open Scope N_scope.

(* ---- sub-lists at a position ----------------------------------------------- *)
(* item = bs[o, o+l) : the l bytes found at offset o of bs *)
Definition sub_at (bs : bytes) (o l : N) (item : bytes) : Prop :=
  exists pre post, bs = pre ++ item ++ post /\ lenN pre = o /\ lenN item = l.

(* ---- CBOR pieces (RFC 8949 section 3, via Spec.Cbor.shead) ------------------ *)
(* bs starts with a head of major type mt and argument n; rest follows it *)
Definition head_at (mt n : N) (bs rest : bytes) : Prop :=
  exists w, shead bs = Some (mt, n, w, rest).
(* bs starts with the definite-length byte string s *)
Definition bstr_at (bs s rest : bytes) : Prop := head_at 2 (lenN s) bs (s ++ rest).
(* bs starts with the definite-length UTF-8 text string s *)
Definition tstr_at (bs s rest : bytes) : Prop :=
  head_at 3 (lenN s) bs (s ++ rest) /\ Utf8Valid s.

(* ---- magic -------------------------------------------------------------------- *)
(* array(6 or 5), bstr(8) "🌐📦", bstr(4) "b1\0\0" / "b2\0\0" *)
Definition magic_of (v : bversion) : bytes :=
  match v with
  | BV1 => [134; 72; 240; 159; 140; 144; 240; 159; 147; 166; 68; 98; 49; 0; 0]
  | BV2 => [133; 72; 240; 159; 140; 144; 240; 159; 147; 166; 68; 98; 50; 0; 0]
  end.

Definition sec_index : bytes := s2b "index".
Definition sec_responses : bytes := s2b "responses".

(* ---- the section table ----------------------------------------------------- *)
Fixpoint sum_lens (sos : list (bytes * N)) : N :=
  match sos with [] => 0 | (_, len) :: t => len + sum_lens t end.

(* (offset relative to the first section, length) of the first section called name *)
Fixpoint section_span (sos : list (bytes * N)) (name : bytes) : option (N * N) :=
  match sos with
  | [] => None
  | (n, len) :: t =>
      if bytes_eqb n name then Some (0, len)
      else match section_span t name with
           | Some (o, l) => Some (len + o, l)
           | None => None
           end
  end.

(* the same, declaratively *)
Definition SectionSpan (sos : list (bytes * N)) (name : bytes) (off len : N) : Prop :=
  exists before after, sos = before ++ (name, len) :: after /\
                       ~ In name (map fst before) /\ off = sum_lens before.

(* the (name, length) pairs written one after the other *)
Inductive TablePairs : bytes -> list (bytes * N) -> bytes -> Prop :=
| TP_nil : forall bs, TablePairs bs [] bs
| TP_cons : forall bs name r1 len r2 t rest,
    tstr_at bs name r1 -> head_at 0 len r1 r2 -> TablePairs r2 t rest ->
    TablePairs bs ((name, len) :: t) rest.

(* bs = magic, [primary URL], section-lengths, head of the sections array, and
   then (from offset sections_start on) the sections; every section, known or
   not, lies inside the file. *)
Definition SectionLayout (bs : bytes) (v : bversion) (primary_hdr : option bytes)
           (sections_start : N) (sos : list (bytes * N)) : Prop :=
  exists r0 r1 sl r2 n body junk r3 pre,
    bs = magic_of v ++ r0 /\
    match v with
    | BV1 => exists u, tstr_at r0 u r1 /\ primary_hdr = Some u
    | BV2 => r1 = r0 /\ primary_hdr = None
    end /\
    bstr_at r1 sl r2 /\ lenN sl < 8192 /\
    head_at 4 n sl body /\ TablePairs body sos junk /\
    (n = 2 * lenN sos \/ n + 1 = 2 * lenN sos) /\
    NoDup (map fst sos) /\
    head_at 4 (lenN sos) r2 r3 /\
    bs = pre ++ r3 /\ lenN pre = sections_start /\
    sections_start + sum_lens sos <= lenN bs.

(* ---- the index section ---------------------------------------------------------- *)
Inductive LocPairs : bytes -> list (N * N) -> bytes -> Prop :=
| LP_nil : forall bs, LocPairs bs [] bs
| LP_cons : forall bs o r1 l r2 t rest,
    head_at 0 o bs r1 -> head_at 0 l r1 r2 -> LocPairs r2 t rest ->
    LocPairs bs ((o, l) :: t) rest.

(* map entries: URL => locations (relative to the responses section) *)
Inductive IndexEntries (v : bversion) : bytes -> list (bytes * list (N * N)) -> bytes -> Prop :=
| IE_nil : forall bs, IndexEntries v bs [] bs
| IE_cons : forall bs url r1 items r2 r3 ls r4 t rest,
    tstr_at bs url r1 -> head_at 4 items r1 r2 ->
    match v with
    | BV2 => items = 2 /\ r3 = r2 /\ lenN ls = 1
    | BV1 => exists vv, bstr_at r2 vv r3 /\ items = 2 * lenN ls + 1 /\ (vv = [] -> lenN ls = 1)
    end ->
    LocPairs r3 ls r4 -> IndexEntries v r4 t rest ->
    IndexEntries v bs ((url, ls) :: t) rest.

Definition flatten_index (ents : list (bytes * list (N * N))) : list (bytes * N * N) :=
  flat_map (fun e => map (fun ol => (fst e, fst ol, snd ol)) (snd e)) ents.

(* the (url, relative offset, length) triples listed by the index section of the
   file, in file order; none when the file has no index section *)
Definition IndexLocations (bs : bytes) (v : bversion) (sections_start : N)
           (sos : list (bytes * N)) (locs : list (bytes * N * N)) : Prop :=
  match section_span sos sec_index with
  | None => locs = []
  | Some (io, il) =>
      exists contents n body ents junk,
        sub_at bs (sections_start + io) il contents /\
        head_at 5 n contents body /\ IndexEntries v body ents junk /\ n = lenN ents /\
        locs = flatten_index ents
  end.

(* ---- one response ----------------------------------------------------------------- *)
Inductive HeaderPairs : bytes -> list (bytes * bytes) -> bytes -> Prop :=
| HP_nil : forall bs, HeaderPairs bs [] bs
| HP_cons : forall bs name r1 value r2 t rest,
    bstr_at bs name r1 -> bstr_at r1 value r2 -> HeaderPairs r2 t rest ->
    HeaderPairs bs ((name, value) :: t) rest.

Definition is_pseudo (name : bytes) : bool :=
  match name with 58 :: _ => true | _ => false end.          (* starts with ':' *)
Definition ascii (s : bytes) : Prop := Forall (fun c => c < 128) s.
Definition lower_ascii (s : bytes) : Prop := Forall (fun c => c < 128 /\ ~ (65 <= c <= 90)) s.
Definition digit (c : N) : Prop := 48 <= c <= 57.

(* the header string hc of a response: a map {* bstr => bstr} with exactly one
   pseudo header, ":status" = three digits, every name lower-case ASCII, every
   value ASCII, names pairwise distinct; hdrs lists the non-pseudo entries in
   file order under their canonical names, which are again pairwise distinct *)
Definition HeaderMap (hc : bytes) (status : Z) (hdrs : headers) : Prop :=
  exists body pairs junk a b c,
    head_at 5 (lenN pairs) hc body /\ HeaderPairs body pairs junk /\
    Forall (fun nv => lower_ascii (fst nv) /\ ascii (snd nv)) pairs /\
    filter (fun nv => is_pseudo (fst nv)) pairs = [(s2b ":status", [a; b; c])] /\
    digit a /\ digit b /\ digit c /\
    status = Z.of_N (100 * (a - 48) + 10 * (b - 48) + (c - 48)) /\
    NoDup (map fst pairs) /\
    hdrs = map (fun nv => (canonical_key (fst nv), [snd nv]))
               (filter (fun nv => negb (is_pseudo (fst nv))) pairs) /\
    NoDup (map fst hdrs).

(* item is exactly array(2) [bstr header-map, bstr body], nothing after it *)
Definition ResponseItem (item : bytes) (status : Z) (hdrs : headers) (body : bytes) : Prop :=
  exists hc r0 r1,
    item = 130 :: r0 /\ bstr_at r0 hc r1 /\ bstr_at r1 body [] /\ HeaderMap hc status hdrs.

(* the l bytes at offset o of bs are inside bs and are such an item *)
Definition ResponseAt (bs : bytes) (o l : N) (status : Z) (hdrs : headers) (body : bytes) : Prop :=
  o + l <= lenN bs /\
  exists item, sub_at bs o l item /\ ResponseItem item status hdrs body.

(* ---- the whole file ----------------------------------------------------------------- *)
(* b is what an independent parser extracts from bs: version from the magic;
   "responses" is the last section, at [resp_start, resp_start + resp_len)
   inside the file; the exchanges are, in order, the locations listed in the
   index, each inside the responses section, with URL = the index key and
   status / headers / body = the response item found at the location.        *)
Definition Extracts (bs : bytes) (b : bundle) : Prop :=
  exists primary_hdr sections_start sos before resp_len,
    SectionLayout bs (b_ver b) primary_hdr sections_start sos /\
    sos = before ++ [(sec_responses, resp_len)] /\
    section_span sos sec_responses = Some (sum_lens before, resp_len) /\
    let resp_start := sections_start + sum_lens before in
    resp_start + resp_len <= lenN bs /\
    exists locs : list (bytes * N * N),
      IndexLocations bs (b_ver b) sections_start sos locs /\
      Forall2 (fun loc x =>
                 let '(u, o, l) := loc in
                 bx_url x = u /\ o + l <= resp_len /\
                 resp_start <= resp_start + o /\
                 (resp_start + o) + l <= resp_start + resp_len /\
                 ResponseAt bs (resp_start + o) l (bx_status x) (bx_hdr x) (bx_body x))
              locs (b_exchanges b).
