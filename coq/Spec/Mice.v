(* Declarative side of Merkle Integrity Content Encoding
   (draft-thomson-http-mice-02 and -03), written from the draft text:

     - the payload is split into records of rs bytes, the last one holding
       1..rs bytes;
     - proof(last) = H (record || 0x00),
       proof(i)    = H (record_i || proof(i+1) || 0x01);
     - the encoded stream is the 8-byte big-endian record size followed by
       every record, each one followed by the proof of its successor;
     - the integrity header carries proof(0);
     - empty payload: draft 02 has a single empty record, draft 03 encodes it
       as the empty message with integrity proof H (0x00).

   Nothing here uses record indices or offsets into the payload; the only
   things shared with the model are the type [draft] and Base/. *)
From WP Require Import Base.Prelude Base.Base64 Model.Mice.
Open Scope N_scope.

Section Spec.
  Variable H : bytes -> bytes.

  (* split a non-empty payload into records of n bytes (last: 1..n bytes);
     the fuel is the payload length, enough whenever n >= 1 *)
  Fixpoint chunks_fuel (fuel : nat) (n : nat) (p : bytes) : list bytes :=
    match fuel with
    | O => []
    | S f =>
        if Nat.leb (List.length p) n then [p]
        else firstn n p :: chunks_fuel f n (skipn n p)
    end.
  (* (rs is capped at the payload length before the conversion to nat, which
     changes nothing - a record never exceeds the payload - but keeps the
     function computable for astronomically large rs) *)
  Definition chunks (rs : N) (p : bytes) : list bytes :=
    chunks_fuel (List.length p) (N.to_nat (N.min rs (N.of_nat (List.length p)))) p.

  Definition records (d : draft) (rs : N) (p : bytes) : list bytes :=
    match p with
    | [] => match d with D02 => [[]] | D03 => [] end
    | _ => chunks rs p
    end.

  (* proofs of all records, first record first *)
  Fixpoint proof_chain (recs : list bytes) : list bytes :=
    match recs with
    | [] => []
    | r :: t =>
        match proof_chain t with
        | [] => [H (r ++ [0])]
        | nxt :: ps => H (r ++ nxt ++ [1]) :: nxt :: ps
        end
    end.

  (* every record followed by the proof of its successor *)
  Fixpoint body (recs : list bytes) : bytes :=
    match recs with
    | [] => []
    | r :: t => r ++ hd [] (proof_chain t) ++ body t
    end.

  Definition stream (d : draft) (rs : N) (p : bytes) : bytes :=
    match records d rs p with
    | [] => []
    | recs => be 8 rs ++ body recs
    end.

  Definition digest (d : draft) (rs : N) (p : bytes) : bytes :=
    match proof_chain (records d rs p) with
    | [] => H [0]
    | top :: _ => top
    end.

  (* "mi-sha256-draft2=" + unpadded base64url / "mi-sha256-03=" + padded base64 *)
  Definition header_prefix (d : draft) : bytes :=
    match d with D02 => s2b "mi-sha256-draft2=" | D03 => s2b "mi-sha256-03=" end.
  Definition digest_header (d : draft) (rs : N) (p : bytes) : bytes :=
    header_prefix d ++
    match d with
    | D02 => b64_encode false true (digest d rs p)
    | D03 => b64_encode true false (digest d rs p)
    end.

  (* [Commits dg recs]: dg is the integrity proof of the record list recs *)
  Inductive Commits : bytes -> list bytes -> Prop :=
  | CLast dg r : dg = H (r ++ [0]) -> Commits dg [r]
  | CMore dg r p rs :
      rs <> [] -> List.length p = 32%nat -> dg = H (r ++ p ++ [1]) ->
      Commits p rs -> Commits dg (r :: rs).

  Definition Collision : Prop := exists x y : bytes, x <> y /\ H x = H y.
End Spec.
