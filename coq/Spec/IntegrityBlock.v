(* Spec/IntegrityBlock.v - the integrity block of a signed web bundle, written
   from explainers/integrity-signature.md, the Signed Web Bundle ID section of
   the Isolated Web Apps scheme document, and RFC 4648 section 6 (base32).
   Nothing here mentions Model/IntegrityBlock.v or Base/Base32.v.

     integrity-block = [
       magic: bstr .size 8,              ; F0 9F 96 8B F0 9F 93 A6
       version: bstr .size 4,            ; "1b\0\0"
       signature-stack: [ * integrity-signature ]   ; newest first
     ]
     integrity-signature = [
       signature-attributes: { * tstr => bstr },    ; "ed25519PublicKey" => key
       signature: bstr
     ]

   in deterministic CBOR (RFC 8949 4.2.1: shortest heads, map keys ascending
   in the bytewise order of their encodings).  A signature is computed over
     len64(hash) hash len64(block) block len64(attrs) attrs
   where hash is the SHA-512 of the bundle, block the serialized integrity
   block WITHOUT the signature being made, attrs the serialized attributes of
   the signature being made, and len64 a 64-bit big-endian byte count.
   The signed web bundle is the block followed by the unsigned bundle.
   The Web Bundle ID of an Ed25519 key is the lower-case, unpadded base32 of
   the 32 key bytes followed by 00 01 02.                                   *)
From Coq Require Import Permutation Sorted.
From WP Require Import Base.Prelude Spec.Cbor.
Open Scope N_scope.

Definition magic : bytes := [240; 159; 150; 139; 240; 159; 147; 166].
Definition version_b1 : bytes := [49; 98; 0; 0].
Definition ed25519_attr : bytes := s2b "ed25519PublicKey".

Definition sattrs := list (bytes * bytes).          (* name, value *)
Definition ssig := (sattrs * bytes)%type.           (* attributes, signature *)

(* ---- token level description (tokens: Spec/Cbor.v) ------------------------ *)
Definition attr_tokens (a : sattrs) : list token :=
  TMap (lenN a) :: flat_map (fun kv => [TText (fst kv); TBytes (snd kv)]) a.
Definition sig_tokens (s : ssig) : list token :=
  TArr 2 :: attr_tokens (fst s) ++ [TBytes (snd s)].
Definition block_tokens (st : list ssig) : list token :=
  [TArr 3; TBytes magic; TBytes version_b1; TArr (lenN st)] ++ flat_map sig_tokens st.

(* entries in strictly ascending bytewise order of the encoded names *)
Definition key_sorted (a : sattrs) : Prop :=
  StronglySorted (fun x y => blt (senc_token (TText (fst x))) (senc_token (TText (fst y)))) a.

(* ab is THE deterministic encoding of the map a (a given in any order) *)
Definition AttrBytes (a : sattrs) (ab : bytes) : Prop :=
  exists a', Permutation a' a /\ key_sorted a' /\ ab = senc_tokens (attr_tokens a').

(* st' is st with every attributes map put in canonical order *)
Definition Canon (st st' : list ssig) : Prop :=
  Forall2 (fun s s' => Permutation (fst s') (fst s) /\ key_sorted (fst s') /\ snd s' = snd s) st st'.

Definition BlockBytes (st : list ssig) (bs : bytes) : Prop :=
  exists st', Canon st st' /\ bs = senc_tokens (block_tokens st').

(* ---- data to be signed ------------------------------------------------------ *)
Definition len64 (x : bytes) : bytes := sbe 8 (lenN x).
Definition dtbs (hash block attrs : bytes) : bytes :=
  len64 hash ++ hash ++ len64 block ++ block ++ len64 attrs ++ attrs.

(* ---- RFC 4648 section 6 ------------------------------------------------------ *)
(* "proceeding from left to right, a 40-bit input group is formed by
   concatenating 5 8-bit input groups. These 40 bits are then treated as 8
   concatenated 5-bit groups, each of which is translated into a single
   character in the base 32 alphabet. [...] When fewer than 40 input bits are
   available in an input group, bits with value zero are added (on the right)
   to form an integral number of 5-bit groups.  Padding at the end of the data
   is performed using the "=" character" up to a multiple of 8 characters.   *)
Definition bits8 (b : N) : list N :=
  [b / 128 mod 2; b / 64 mod 2; b / 32 mod 2; b / 16 mod 2;
   b / 8 mod 2; b / 4 mod 2; b / 2 mod 2; b mod 2].
Definition bits (bs : bytes) : list N := flat_map bits8 bs.
(* value of a bit string, most significant bit first *)
Definition bval (l : list N) : N := fold_left (fun acc b => 2 * acc + b) l 0.

Fixpoint quintets (l : list N) : list N :=
  match l with
  | [] => []
  | b0 :: b1 :: b2 :: b3 :: b4 :: t => bval [b0; b1; b2; b3; b4] :: quintets t
  | rest => [bval (firstn 5 (rest ++ [0; 0; 0; 0]))]
  end.

Definition b32_alphabet : bytes := s2b "ABCDEFGHIJKLMNOPQRSTUVWXYZ234567".
Definition b32_sym (v : N) : N := nth (N.to_nat v) b32_alphabet 61.

Definition sb32_nopad (bs : bytes) : bytes := map b32_sym (quintets (bits bs)).
Definition sb32 (bs : bytes) : bytes :=
  let s := sb32_nopad bs in
  s ++ repeat 61 ((8 - List.length s mod 8) mod 8)%nat.

Definition ascii_lower (c : N) : N := if (65 <=? c) && (c <=? 90) then c + 32 else c.

(* ---- Signed Web Bundle ID ------------------------------------------------------ *)
Definition bundle_id (pk : bytes) : bytes := map ascii_lower (sb32_nopad (pk ++ [0; 1; 2])).

(* RFC 4648 section 10 test vectors *)
Example rfc4648_vectors :
  map sb32 [s2b ""; s2b "f"; s2b "fo"; s2b "foo"; s2b "foob"; s2b "fooba"; s2b "foobar"] =
  [s2b ""; s2b "MY======"; s2b "MZXQ===="; s2b "MZXW6==="; s2b "MZXW6YQ="; s2b "MZXW6YTB";
   s2b "MZXW6YTBOI======"].
Proof. vm_compute. reflexivity. Qed.
