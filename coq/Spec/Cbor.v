(* Spec/Cbor.v - RFC 8949 (CBOR) definitions used by C11 / C12, written from
   the RFC text.  Nothing in this file mentions Model/Cbor.v.

   Section 3 of the RFC: an item starts with an initial byte whose high three
   bits are the major type and whose low five bits ("additional information",
   ai) say where the argument is: ai < 24 the argument is ai itself; ai = 24,
   25, 26, 27 the argument is in the following 1, 2, 4, 8 bytes in network
   byte order; 28..30 are reserved, 31 is indefinite length / break (not part
   of the definite-length subset).  Section 4.2.1 (core deterministic
   encoding): arguments are as short as possible, map keys are sorted in the
   bytewise lexicographic order of their deterministic encodings.          *)
From WP Require Import Base.Prelude.
Open Scope N_scope.

(* ---- big-endian numbers, spec side ------------------------------------- *)
(* value of a byte string read as an unsigned big-endian number            *)
Fixpoint be_val (bs : bytes) : N :=
  match bs with
  | [] => 0
  | b :: t => b * 256 ^ lenN t + be_val t
  end.
(* the k-byte big-endian representation (least significant byte last)      *)
Fixpoint sbe (k : nat) (n : N) : bytes :=
  match k with
  | O => []
  | S k' => sbe k' (n / 256) ++ [n mod 256]
  end.

(* ---- heads -------------------------------------------------------------- *)
(* shead bs = Some (major 0..7, argument, number of follow bytes, rest).
   Liberal: any of the five widths is accepted for any argument.           *)
Definition shead (bs : bytes) : option (N * N * N * bytes) :=
  match bs with
  | [] => None
  | b :: r =>
      if 256 <=? b then None else
      let mt := b / 32 in
      let ai := b mod 32 in
      if ai <? 24 then Some (mt, ai, 0, r)
      else if 27 <? ai then None
      else
        let w := 2 ^ (ai - 24) in
        match splitN r w with
        | Some (f, r') => Some (mt, be_val f, w, r')
        | None => None
        end
  end.

Definition min_width (arg : N) : N :=
  if arg <? 24 then 0
  else if arg <? 256 then 1
  else if arg <? 65536 then 2
  else if arg <? 4294967296 then 4
  else 8.
Definition shortest (arg w : N) : Prop := w = min_width arg.
Definition shortestb (arg w : N) : bool := w =? min_width arg.

(* shortest-form head of major type mt (0..7) and argument n (< 2^64)      *)
Definition senc_head (mt n : N) : bytes :=
  let w := min_width n in
  if w =? 0 then [32 * mt + n]
  else if w =? 1 then (32 * mt + 24) :: sbe 1 n
  else if w =? 2 then (32 * mt + 25) :: sbe 2 n
  else if w =? 4 then (32 * mt + 26) :: sbe 4 n
  else (32 * mt + 27) :: sbe 8 n.

(* the eight values the Go package uses as "Type": major type << 5          *)
Definition major_const (t : N) : Prop := t mod 32 = 0 /\ t < 256.

(* ---- UTF-8 (RFC 3629), declaratively ------------------------------------ *)
Definition scalar (c : N) : Prop := c < 55296 \/ (57344 <= c /\ c < 1114112).
Definition scalarb (c : N) : bool := (c <? 55296) || ((57344 <=? c) && (c <? 1114112)).

Definition utf8_enc (c : N) : bytes :=
  if c <? 128 then [c]
  else if c <? 2048 then [192 + c / 64; 128 + c mod 64]
  else if c <? 65536 then [224 + c / 4096; 128 + (c / 64) mod 64; 128 + c mod 64]
  else [240 + c / 262144; 128 + (c / 4096) mod 64; 128 + (c / 64) mod 64; 128 + c mod 64].

Definition Utf8Valid (bs : bytes) : Prop :=
  exists cps, Forall scalar cps /\ bs = flat_map utf8_enc cps.

(* An executable reference checker, valid by construction: guess the length
   from the lead byte, read the payload bits, and accept only if re-encoding
   the code point gives back exactly the bytes read.                        *)
Definition utf8_dec1 (bs : bytes) : option (N * bytes) :=
  match bs with
  | [] => None
  | b0 :: _ =>
      let k := if b0 <? 128 then 1%nat else if b0 <? 224 then 2%nat
               else if b0 <? 240 then 3%nat else 4%nat in
      let c := firstn k bs in
      let cp := match c with
                | [a] => a
                | [a; b] => (a mod 32) * 64 + b mod 64
                | [a; b; d] => (a mod 16) * 4096 + (b mod 64) * 64 + d mod 64
                | [a; b; d; e] =>
                    (a mod 8) * 262144 + (b mod 64) * 4096 + (d mod 64) * 64 + e mod 64
                | _ => 0
                end in
      if scalarb cp && bytes_eqb (utf8_enc cp) c then Some (cp, skipn k bs) else None
  end.
Fixpoint sutf8_fuel (fuel : nat) (bs : bytes) : bool :=
  match bs with
  | [] => true
  | _ :: _ =>
      match fuel with
      | O => false
      | S f => match utf8_dec1 bs with
               | Some (_, r) => sutf8_fuel f r
               | None => false
               end
      end
  end.
Definition sutf8_valid (bs : bytes) : bool := sutf8_fuel (List.length bs) bs.

(* ---- bytewise lexicographic order (RFC 8949 4.2.1) ---------------------- *)
Inductive blt : bytes -> bytes -> Prop :=
| blt_nil : forall y b, blt [] (y :: b)
| blt_head : forall x y a b, x < y -> blt (x :: a) (y :: b)
| blt_tail : forall x a b, blt a b -> blt (x :: a) (x :: b).

(* ---- token view of a CBOR byte stream ----------------------------------- *)
(* The Go Encoder API is token level (EncodeArrayHeader only writes a head),
   so the stream is described as a sequence of tokens.  Only the subset the
   package produces: tags (major 6) and major 7 other than false/true are
   not tokens of this view.                                                 *)
Inductive token : Type :=
| TUint (n : N)          (* major 0, value n            *)
| TNint (n : N)          (* major 1, value -1 - n       *)
| TBytes (b : bytes)     (* major 2, definite length    *)
| TText (b : bytes)      (* major 3, definite, UTF-8    *)
| TArr (n : N)           (* major 4 head, n items follow *)
| TMap (n : N)           (* major 5 head, n pairs follow *)
| TBool (b : bool).      (* 0xf4 / 0xf5                 *)

(* liberal tokeniser: returns each token with the width of its head        *)
Fixpoint stokens_fuel (fuel : nat) (bs : bytes) : option (list (token * N)) :=
  match bs with
  | [] => Some []
  | _ :: _ =>
      match fuel with
      | O => None
      | S f =>
          match shead bs with
          | None => None
          | Some (mt, arg, w, r) =>
              let k (t : token) (r' : bytes) :=
                match stokens_fuel f r' with
                | Some l => Some ((t, w) :: l)
                | None => None
                end in
              if mt =? 0 then k (TUint arg) r
              else if mt =? 1 then k (TNint arg) r
              else if mt =? 2 then
                match splitN r arg with
                | Some (s, r') => k (TBytes s) r'
                | None => None
                end
              else if mt =? 3 then
                match splitN r arg with
                | Some (s, r') => if sutf8_valid s then k (TText s) r' else None
                | None => None
                end
              else if mt =? 4 then k (TArr arg) r
              else if mt =? 5 then k (TMap arg) r
              else if (mt =? 7) && (w =? 0) && (arg =? 20) then k (TBool false) r
              else if (mt =? 7) && (w =? 0) && (arg =? 21) then k (TBool true) r
              else None
          end
      end
  end.
Definition stokens (bs : bytes) : option (list (token * N)) :=
  stokens_fuel (List.length bs) bs.

(* the argument carried by a token's head *)
Definition tok_arg (t : token) : N :=
  match t with
  | TUint n | TNint n | TArr n | TMap n => n
  | TBytes b | TText b => lenN b
  | TBool b => if b then 21 else 20
  end.
Definition tok_shortest (tw : token * N) : Prop := shortest (tok_arg (fst tw)) (snd tw).

(* integer value of a TUint / TNint token *)
Definition tok_int (t : token) : option Z :=
  match t with
  | TUint n => Some (Z.of_N n)
  | TNint n => Some (-1 - Z.of_N n)%Z
  | _ => None
  end.

(* shortest-form (deterministic) encoding of a token *)
Definition senc_token (t : token) : bytes :=
  match t with
  | TUint n => senc_head 0 n
  | TNint n => senc_head 1 n
  | TBytes b => senc_head 2 (lenN b) ++ b
  | TText b => senc_head 3 (lenN b) ++ b
  | TArr n => senc_head 4 n
  | TMap n => senc_head 5 n
  | TBool b => [if b then 245 else 244]
  end.
Definition senc_tokens (l : list token) : bytes := flat_map senc_token l.

(* a token that can be written: argument fits 64 bits, text is UTF-8 *)
Definition tok_wf (t : token) : Prop :=
  tok_arg t < two64 /\ match t with TText b => Utf8Valid b | _ => True end.
