(* RFC 8949 section 4.2.1 "Core Deterministic Encoding Requirements", for the
   subset of CBOR the checker covers: unsigned integers, byte strings, text
   strings, arrays, maps.  Declarative; written from the RFC text, not from
   the model's code.

   - Preferred serialization: the argument of every head is encoded in the
     shortest form (0..23 in the initial byte, then 1, 2, 4, 8 follow bytes,
     big-endian); no indefinite lengths.
   - Map keys: sorted in the bytewise lexicographic order of their
     deterministic encodings, no two keys equal.
   Text strings are NOT required to be valid UTF-8 here (the Go checker does
   not look at string contents).                                            *)
From Coq Require Import Sorting.Sorted.
From WP Require Import Base.Prelude.
Open Scope N_scope.

(* Head mt arg h : h is the shortest-form head for major type mt (0..7) and
   argument arg (< 2^64).  The initial byte is mt*32 + additional-info.     *)
Inductive Head (mt arg : N) : bytes -> Prop :=
| Head_direct : mt < 8 -> arg < 24 ->
    Head mt arg [mt * 32 + arg]
| Head_1 : mt < 8 -> 24 <= arg -> arg < 256 ->
    Head mt arg ((mt * 32 + 24) :: be 1 arg)
| Head_2 : mt < 8 -> 256 <= arg -> arg < 65536 ->
    Head mt arg ((mt * 32 + 25) :: be 2 arg)
| Head_4 : mt < 8 -> 65536 <= arg -> arg < 4294967296 ->
    Head mt arg ((mt * 32 + 26) :: be 4 arg)
| Head_8 : mt < 8 -> 4294967296 <= arg -> arg < 18446744073709551616 ->
    Head mt arg ((mt * 32 + 27) :: be 8 arg).

(* bytewise lexicographic order on encoded keys, strict *)
Definition key_lt (k1 k2 : bytes) : Prop := bytes_cmp k1 k2 = Lt.
(* adjacent keys strictly ascending (key_lt is transitive, so this is the same
   as all pairs ascending: Proofs/DetLemmas.bytes_cmp_lt_trans and
   Proofs/Det.KeysAscending_strongly)                                        *)
Definition KeysAscending (ks : list bytes) : Prop := Sorted key_lt ks.

Definition entry_bytes (kv : bytes * bytes) : bytes := fst kv ++ snd kv.

Inductive DetItem : bytes -> Prop :=
| DI_uint (n : N) (h : bytes) :
    Head 0 n h -> DetItem h
| DI_bytes (s h : bytes) :
    Head 2 (lenN s) h -> wfb s -> DetItem (h ++ s)
| DI_text (s h : bytes) :
    Head 3 (lenN s) h -> wfb s -> DetItem (h ++ s)
| DI_array (items : list bytes) (h : bytes) :
    Head 4 (lenN items) h ->
    Forall DetItem items ->
    DetItem (h ++ List.concat items)
| DI_map (pairs : list (bytes * bytes)) (h : bytes) :
    Head 5 (lenN pairs) h ->
    Forall (fun kv => DetItem (fst kv) /\ DetItem (snd kv)) pairs ->
    KeysAscending (map fst pairs) ->
    DetItem (h ++ List.concat (map entry_bytes pairs)).

(* a CBOR sequence of deterministic items *)
Definition DetSeq (bs : bytes) : Prop :=
  exists items, Forall DetItem items /\ bs = List.concat items.

(* Induction principle that also gives the hypothesis for the sub-items
   (the automatically generated one does not, because of the nested Forall). *)
Section DetItem_ind_nested.
  Variable P : bytes -> Prop.
  Hypothesis Huint : forall n h, Head 0 n h -> P h.
  Hypothesis Hbytes : forall s h, Head 2 (lenN s) h -> wfb s -> P (h ++ s).
  Hypothesis Htext : forall s h, Head 3 (lenN s) h -> wfb s -> P (h ++ s).
  Hypothesis Harray : forall items h,
    Head 4 (lenN items) h -> Forall DetItem items -> Forall P items ->
    P (h ++ List.concat items).
  Hypothesis Hmap : forall pairs h,
    Head 5 (lenN pairs) h ->
    Forall (fun kv => DetItem (fst kv) /\ DetItem (snd kv)) pairs ->
    Forall (fun kv => P (fst kv) /\ P (snd kv)) pairs ->
    KeysAscending (map fst pairs) ->
    P (h ++ List.concat (map entry_bytes pairs)).

  Fixpoint DetItem_ind_nested (b : bytes) (d : DetItem b) {struct d} : P b :=
    match d in DetItem b0 return P b0 with
    | DI_uint n h Hh => Huint n h Hh
    | DI_bytes s h Hh Hs => Hbytes s h Hh Hs
    | DI_text s h Hh Hs => Htext s h Hh Hs
    | DI_array items h Hh Hall =>
        Harray items h Hh Hall
          ((fix go (l : list bytes) (Hl : Forall DetItem l) {struct Hl} : Forall P l :=
              match Hl in Forall _ l0 return Forall P l0 with
              | Forall_nil _ => Forall_nil P
              | @Forall_cons _ _ x t Hx Ht =>
                  @Forall_cons _ P x t (DetItem_ind_nested x Hx) (go t Ht)
              end) items Hall)
    | DI_map pairs h Hh Hall Hs =>
        Hmap pairs h Hh Hall
          ((fix go (l : list (bytes * bytes))
                (Hl : Forall (fun kv => DetItem (fst kv) /\ DetItem (snd kv)) l) {struct Hl}
              : Forall (fun kv => P (fst kv) /\ P (snd kv)) l :=
              match Hl in Forall _ l0 return Forall (fun kv => P (fst kv) /\ P (snd kv)) l0 with
              | Forall_nil _ => Forall_nil _
              | @Forall_cons _ _ x t Hx Ht =>
                  @Forall_cons _ (fun kv => P (fst kv) /\ P (snd kv)) x t
                    (match Hx with
                     | conj Hk Hv => conj (DetItem_ind_nested (fst x) Hk) (DetItem_ind_nested (snd x) Hv)
                     end)
                    (go t Ht)
              end) pairs Hall)
          Hs
    end.
End DetItem_ind_nested.

(* ---- the spec is inhabited ---------------------------------------------- *)
Example head_ex1 : Head 0 23 [23].
Proof. apply (Head_direct 0 23); reflexivity. Qed.
Example head_ex2 : Head 0 500 [25; 1; 244].
Proof. apply (Head_2 0 500); [reflexivity| discriminate | reflexivity]. Qed.

(* [1, [2, 3], h''] *)
Example detitem_ex : DetItem [131; 1; 130; 2; 3; 64].
Proof.
  apply (DI_array [[1]; [130; 2; 3]; [64]] [131]).
  - apply (Head_direct 4 3); reflexivity.
  - repeat constructor.
    + apply (DI_uint 1). apply (Head_direct 0 1); reflexivity.
    + apply (DI_array [[2]; [3]] [130]).
      * apply (Head_direct 4 2); reflexivity.
      * repeat constructor.
        -- apply (DI_uint 2). apply (Head_direct 0 2); reflexivity.
        -- apply (DI_uint 3). apply (Head_direct 0 3); reflexivity.
    + apply (DI_bytes [] [64]); [apply (Head_direct 2 0); reflexivity | constructor].
Qed.

(* {1: 2, "a": h''} : keys 0x01 < 0x61 0x61 *)
Example detitem_map_ex : DetItem [162; 1; 2; 97; 97; 64].
Proof.
  apply (DI_map [([1], [2]); ([97; 97], [64])] [162]).
  - apply (Head_direct 5 2); reflexivity.
  - repeat constructor; cbn [fst snd].
    + apply (DI_uint 1). apply (Head_direct 0 1); reflexivity.
    + apply (DI_uint 2). apply (Head_direct 0 2); reflexivity.
    + apply (DI_text [97] [97]); [apply (Head_direct 3 1); reflexivity | repeat constructor].
    + apply (DI_bytes [] [64]); [apply (Head_direct 2 0); reflexivity | constructor].
  - repeat constructor.
Qed.
