(* Spec/CborProgram.v - what a sequence of encoder calls is expected to put on
   the wire, as a token list.  Only the *type* Model.Cbor.item (the syntax of
   encoder programs, i.e. the domain of quantification of C11) is taken from
   the model; nothing here looks at how the model computes.

   A map contributes its head followed by the tokens of its entries, the
   entries ordered by the bytewise lexicographic order (RFC 8949 4.2.1) of the
   deterministic encoding of their keys. *)
From WP Require Import Base.Prelude Spec.Cbor.
From WP Require Model.Cbor.
Open Scope N_scope.

Notation item := WP.Model.Cbor.item.
Notation IUint := WP.Model.Cbor.IUint.
Notation IInt := WP.Model.Cbor.IInt.
Notation IBytes := WP.Model.Cbor.IBytes.
Notation IText := WP.Model.Cbor.IText.
Notation IArr := WP.Model.Cbor.IArr.
Notation IBool := WP.Model.Cbor.IBool.
Notation IMap := WP.Model.Cbor.IMap.

Definition tok_entry_lt (a b : list token * list token) : bool :=
  bytes_ltb (senc_tokens (fst a)) (senc_tokens (fst b)).
Definition tok_key_lt (a b : list token * list token) : Prop :=
  blt (senc_tokens (fst a)) (senc_tokens (fst b)).

Definition tokens_of_int (z : Z) : token :=
  if (0 <=? z)%Z then TUint (Z.to_N z) else TNint (Z.to_N (-1 - z)).

Fixpoint tokens_of_item (i : item) : list token :=
  match i with
  | IUint n => [TUint n]
  | IInt z => [tokens_of_int z]
  | IBytes b => [TBytes b]
  | IText b => [TText b]
  | IArr n => [TArr n]
  | IBool b => [TBool b]
  | IMap es =>
      TMap (lenN es) ::
      flat_map (fun e => fst e ++ snd e)
        (isort tok_entry_lt
           (map (fun kv => (flat_map tokens_of_item (fst kv),
                            flat_map tokens_of_item (snd kv))) es))
  end.
Definition tokens_of (p : list item) : list token := flat_map tokens_of_item p.
Definition tok_entry (kv : list item * list item) : list token * list token :=
  (tokens_of (fst kv), tokens_of (snd kv)).

(* Arguments the Go API can express: EncodeUint takes a uint64, EncodeInt an
   int64, slices and strings have a length < 2^63 (a Go int), array and map
   sizes are non-negative ints, and byte slices hold bytes. *)
Inductive wf_item : item -> Prop :=
| WUint : forall n, n < two64 -> wf_item (IUint n)
| WInt : forall z, (- Z.of_N two63 <= z < Z.of_N two63)%Z -> wf_item (IInt z)
| WBytes : forall b, wfb b -> lenN b < two63 -> wf_item (IBytes b)
| WText : forall b, wfb b -> lenN b < two63 -> wf_item (IText b)
| WArr : forall n, n < two63 -> wf_item (IArr n)
| WBool : forall b, wf_item (IBool b)
| WMap : forall es, lenN es < two63 ->
    Forall (fun kv => Forall wf_item (fst kv) /\ Forall wf_item (snd kv)) es ->
    wf_item (IMap es).
Definition wf_program (p : list item) : Prop := Forall wf_item p.
