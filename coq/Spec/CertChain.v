(* Spec/CertChain.v - application/cert-chain+cbor (draft-yasskin-http-origin-
   signed-responses, section 3.3 "cert-chain format") and the RFC 6962 section
   3.3 SignedCertificateTimestampList, written from the texts.

     cert-chain = [ "\U0001F4DC⛓", + augmented-certificate ]
     augmented-certificate = { cert: bytes, ? ocsp: bytes, ? sct: bytes }
     "The first item in the CBOR array MUST have an ocsp value; the other items
      MUST NOT have an ocsp value."  The whole thing is canonical CBOR.

     opaque SerializedSCT<1..2^16-1>;
     struct { SerializedSCT sct_list <1..2^16-1>; } SignedCertificateTimestampList;
   A TLS vector <..2^16-1> is a 2-byte big-endian byte count followed by that
   many bytes; sct_list is the concatenation of the (2-byte length, bytes)
   encodings of its elements.

   Only the record type Model.CertChain.augcert (the domain of quantification)
   is taken from the model; nothing here looks at how the model computes.    *)
From WP Require Import Base.Prelude Spec.Cbor.
From WP Require Model.CertChain.
Open Scope N_scope.

Notation augcert := WP.Model.CertChain.augcert.
Notation ac_cert := WP.Model.CertChain.ac_cert.
Notation ac_ocsp := WP.Model.CertChain.ac_ocsp.
Notation ac_sct := WP.Model.CertChain.ac_sct.
Notation mk_augcert := WP.Model.CertChain.Build_augcert.

(* ---- the magic string: U+1F4DC (scroll) U+26D3 (chains), in UTF-8 --------- *)
Definition magic : bytes := utf8_enc 128220 ++ utf8_enc 9939.

(* ---- (a) the written form, as a token sequence ----------------------------- *)
Definition key (s : string) : token := TText (s2b s).
Definition field (k : string) (v : option bytes) : list token :=
  match v with Some b => [key k; TBytes b] | None => [] end.
Definition present (v : option bytes) : N := match v with Some _ => 1 | None => 0 end.

(* One augmented-certificate: a map head counting the entries present, then the
   entries in the bytewise order of their encoded keys.  The encoded keys are
   63 73 63 74 ("sct") < 64 63 65 72 74 ("cert") < 64 6f 63 73 70 ("ocsp"):
   a shorter text string has a smaller initial byte, and 'c' < 'o'.          *)
Definition cert_tokens (a : augcert) : list token :=
  TMap (1 + present (ac_ocsp a) + present (ac_sct a))
  :: field "sct" (ac_sct a) ++ [key "cert"; TBytes (ac_cert a)] ++ field "ocsp" (ac_ocsp a).

Definition chain_tokens (c : list augcert) : list token :=
  TArr (lenN c + 1) :: TText magic :: flat_map cert_tokens c.

(* bs is THE canonical encoding: every head in shortest form (senc_tokens) *)
Definition Form (bs : bytes) (c : list augcert) : Prop :=
  bs = senc_tokens (chain_tokens c).

(* the OCSP placement rule *)
Definition OcspFirstOnly (c : list augcert) : Prop :=
  exists a t, c = a :: t /\ ac_ocsp a <> None /\ Forall (fun x => ac_ocsp x = None) t.

(* ---- what a liberal reader may accept -------------------------------------- *)
(* a head of major type mt and argument n, in any of the permitted widths *)
Definition is_head (mt n : N) (bs rest : bytes) : Prop :=
  exists w, shead bs = Some (mt, n, w, rest).
(* a definite-length string item of major type mt with content s *)
Definition is_string (mt : N) (s bs rest : bytes) : Prop :=
  exists w, shead bs = Some (mt, lenN s, w, s ++ rest).

(* m (text key, byte-string value) pairs, then rest *)
Inductive Entries : N -> bytes -> list (bytes * bytes) -> bytes -> Prop :=
| Entries_nil : forall bs, Entries 0 bs [] bs
| Entries_cons : forall m bs k v r1 r2 es rest,
    m <> 0 -> is_string 3 k bs r1 -> Utf8Valid k -> is_string 2 v r1 r2 ->
    Entries (m - 1) r2 es rest -> Entries m bs ((k, v) :: es) rest.

(* n maps of such pairs, then rest *)
Inductive Maps : N -> bytes -> list (list (bytes * bytes)) -> bytes -> Prop :=
| Maps_nil : forall bs, Maps 0 bs [] bs
| Maps_cons : forall n bs m r es r' ms rest,
    n <> 0 -> is_head 5 m bs r -> Entries m r es r' ->
    Maps (n - 1) r' ms rest -> Maps n bs (es :: ms) rest.

(* the value of the LAST entry whose key is k (later duplicates win) *)
Fixpoint last_val (k : bytes) (es : list (bytes * bytes)) : option bytes :=
  match es with
  | [] => None
  | (k', v) :: t =>
      match last_val k t with
      | Some x => Some x
      | None => if bytes_eqb k' k then Some v else None
      end
  end.

Definition map_gives (es : list (bytes * bytes)) (a : augcert) : Prop :=
  last_val (s2b "cert") es = Some (ac_cert a) /\
  last_val (s2b "ocsp") es = ac_ocsp a /\
  last_val (s2b "sct") es = ac_sct a.

(* bs starts with an array head n >= 2, the magic text, then n-1 maps whose
   last "cert" / "ocsp" / "sct" values are the components; unknown keys are
   skipped; whatever follows the last map is not looked at. *)
Definition ReadForm (bs : bytes) (c : list augcert) : Prop :=
  exists n r r1 ms rest,
    is_head 4 n bs r /\ 2 <= n /\ is_string 3 magic r r1 /\
    Maps (n - 1) r1 ms rest /\ Forall2 map_gives ms c.

(* ---- (b) RFC 6962 section 3.3 ---------------------------------------------- *)
Fixpoint sct_sum (scts : list bytes) : N :=
  match scts with
  | [] => 0
  | s :: t => lenN s + 2 + sct_sum t
  end.

Definition sct_body (scts : list bytes) : bytes :=
  List.concat (map (fun s => sbe 2 (lenN s) ++ s) scts).

Definition SctVector (bs : bytes) (scts : list bytes) : Prop :=
  Forall (fun s => lenN s <= 65535) scts /\
  sct_sum scts <= 65535 /\
  bs = sbe 2 (sct_sum scts) ++ sct_body scts.

(* RFC 6962's vectors also have a FLOOR of 1: "SerializedSCT<1..2^16-1>" (an
   SCT is never empty) and "sct_list<1..2^16-1>" (the list is never empty). *)
Definition SctVectorRfc (bs : bytes) (scts : list bytes) : Prop :=
  SctVector bs scts /\ scts <> [] /\ Forall (fun s => 1 <= lenN s) scts.

(* an independent parser: 2-byte total, which must equal what remains; then
   2-byte length + that many bytes, until nothing remains *)
Fixpoint sct_items (fuel : nat) (bs : bytes) : option (list bytes) :=
  match bs with
  | [] => Some []
  | _ :: _ =>
      match fuel with
      | O => None
      | S f =>
          match splitN bs 2 with
          | None => None
          | Some (h, r) =>
              match splitN r (be_val h) with
              | None => None
              | Some (s, r') =>
                  match sct_items f r' with
                  | Some l => Some (s :: l)
                  | None => None
                  end
              end
          end
      end
  end.

Definition sct_parse (bs : bytes) : option (list bytes) :=
  match splitN bs 2 with
  | None => None
  | Some (h, r) =>
      if be_val h =? lenN r then sct_items (List.length r) r else None
  end.
