(* Spec/Bundle.v - the Web Bundle container format (draft-yasskin-wpack-bundled-
   exchanges, versions "b1" and "b2"), written from the format description:

     webbundle = [ magic: h'F0 9F 8C 90 F0 9F 93 A6', version: bytes .size 4,
                   (b1 only) primary-url: tstr,
                   section-lengths: bytes .cbor [* (name: tstr, length: uint)],
                   sections: [* any ],
                   length: bytes .size 8 ]          ; big-endian total size
     index (b2)     = {* tstr => [offset: uint, length: uint] }
     index (b1)     = {* tstr => [variants-value: bstr, +(offset: uint, length: uint)] }
     responses      = [* [headers: bstr .cbor {* bstr => bstr}, payload: bstr] ]
     primary, manifest = tstr

   Everything is deterministic CBOR (RFC 8949 4.2.1): every head in shortest
   form, map keys strictly ascending in the bytewise order of their encodings.
   The only thing taken from the model is the two-valued type of versions
   (the domain of quantification); nothing here looks at how the writer
   computes.  The opaque sections (signatures) are judged by Spec.Det.DetItem. *)
From Coq Require Import Sorting.Sorted.
From WP Require Import Base.Prelude Spec.Cbor Spec.Det.
From WP Require Model.Bundle Model.Det.
Open Scope N_scope.

Notation bversion := WP.Model.Bundle.bversion.
Notation BV1 := WP.Model.Bundle.BV1.
Notation BV2 := WP.Model.Bundle.BV2.

(* ---- shortest-form items ---------------------------------------------------- *)
Definition text_item (s : bytes) : bytes := senc_token (TText s).
Definition bstr_item (s : bytes) : bytes := senc_token (TBytes s).
Definition uint_item (n : N) : bytes := senc_head 0 n.
Definition arr_head (n : N) : bytes := senc_head 4 n.
Definition map_head (n : N) : bytes := senc_head 5 n.

(* array head (6 items for b1, 5 for b2), then the byte strings U+1F310 U+1F4E6
   and "b1\0\0" / "b2\0\0" *)
Definition magic (v : bversion) : bytes :=
  arr_head (match v with BV1 => 6 | BV2 => 5 end)
  ++ bstr_item (utf8_enc 127760 ++ utf8_enc 128230)
  ++ bstr_item [98; match v with BV1 => 49 | BV2 => 50 end; 0; 0].

(* ---- what a bundle file denotes ---------------------------------------------- *)
Record rsp := { r_fields : list (bytes * bytes);      (* header map, in file order *)
                r_payload : bytes }.
Record parsed := {
  p_primary : option bytes;                           (* b1: the URL in the header *)
  p_sections : list (bytes * bytes);                  (* (name, body) in file order *)
  p_index : list (bytes * bytes * list (N * N));      (* (url, variants value, locations) *)
  p_responses : list rsp
}.
Definition ix_url (e : bytes * bytes * list (N * N)) : bytes := fst (fst e).
Definition ix_vv (e : bytes * bytes * list (N * N)) : bytes := snd (fst e).
Definition ix_locs (e : bytes * bytes * list (N * N)) : list (N * N) := snd e.

(* the section-length table: the listed length of a section IS the length of
   its body, so the bodies tile the file between the section array head and
   the footer *)
Definition table_body (secs : list (bytes * bytes)) : bytes :=
  arr_head (2 * lenN secs)
  ++ flat_map (fun s => text_item (fst s) ++ uint_item (lenN (snd s))) secs.

Definition file_body (v : bversion) (p : parsed) : bytes :=
  magic v
  ++ (match p_primary p with Some u => text_item u | None => [] end)
  ++ bstr_item (table_body (p_sections p))
  ++ arr_head (lenN (p_sections p))
  ++ List.concat (map snd (p_sections p)).

(* index *)
Definition loc_bytes (l : N * N) : bytes := uint_item (fst l) ++ uint_item (snd l).
Definition index_key (e : bytes * bytes * list (N * N)) : bytes := text_item (ix_url e).
Definition index_val (v : bversion) (e : bytes * bytes * list (N * N)) : bytes :=
  match v with
  | BV2 => arr_head (2 * lenN (ix_locs e)) ++ flat_map loc_bytes (ix_locs e)
  | BV1 => arr_head (1 + 2 * lenN (ix_locs e)) ++ bstr_item (ix_vv e)
           ++ flat_map loc_bytes (ix_locs e)
  end.
Definition index_body (v : bversion) (idx : list (bytes * bytes * list (N * N))) : bytes :=
  map_head (lenN idx) ++ flat_map (fun e => index_key e ++ index_val v e) idx.

(* responses *)
Definition field_key (f : bytes * bytes) : bytes := bstr_item (fst f).
Definition field_bytes (f : bytes * bytes) : bytes := bstr_item (fst f) ++ bstr_item (snd f).
Definition hmap_bytes (fs : list (bytes * bytes)) : bytes :=
  map_head (lenN fs) ++ flat_map field_bytes fs.
Definition rsp_bytes (r : rsp) : bytes :=
  arr_head 2 ++ bstr_item (hmap_bytes (r_fields r)) ++ bstr_item (r_payload r).
Definition responses_body (rs : list rsp) : bytes :=
  arr_head (lenN rs) ++ flat_map rsp_bytes rs.

Definition status_name : bytes := s2b ":status".
Definition n_index : bytes := s2b "index".
Definition n_responses : bytes := s2b "responses".
Definition n_primary : bytes := s2b "primary".
Definition n_manifest : bytes := s2b "manifest".

(* a header map: keys strictly ascending by encoded key (so no duplicates),
   and the :status pseudo header is there *)
Definition RspOK (r : rsp) : Prop :=
  StronglySorted (fun a b => blt (field_key a) (field_key b)) (r_fields r)
  /\ In status_name (map fst (r_fields r)).

(* (offset, length) is exactly the extent of the i-th response item inside the
   responses section body *)
Definition Delimits (rs : list rsp) (l : N * N) : Prop :=
  exists i r, nth_error rs i = Some r
    /\ fst l = lenN (arr_head (lenN rs)) + lenN (flat_map rsp_bytes (firstn i rs))
    /\ snd l = lenN (rsp_bytes r).

Definition EntryOK (v : bversion) (rs : list rsp) (e : bytes * bytes * list (N * N)) : Prop :=
  Utf8Valid (ix_url e) /\ ix_locs e <> [] /\ Forall (Delimits rs) (ix_locs e)
  /\ match v with
     | BV2 => lenN (ix_locs e) = 1 /\ ix_vv e = []
     | BV1 => ix_vv e = [] -> lenN (ix_locs e) = 1
     end.

Definition IndexOK (v : bversion) (p : parsed) : Prop :=
  StronglySorted (fun a b => blt (index_key a) (index_key b)) (p_index p)
  /\ Forall (EntryOK v (p_responses p)) (p_index p)
  /\ Forall RspOK (p_responses p).

Definition SectionOK (v : bversion) (p : parsed) (s : bytes * bytes) : Prop :=
  Utf8Valid (fst s) /\
  if bytes_eqb (fst s) n_index then snd s = index_body v (p_index p)
  else if bytes_eqb (fst s) n_responses then snd s = responses_body (p_responses p)
  else if bytes_eqb (fst s) n_primary || bytes_eqb (fst s) n_manifest
       then exists u, Utf8Valid u /\ snd s = text_item u
  else DetItem (snd s).

Definition WF (v : bversion) (bs : bytes) (p : parsed) : Prop :=
  wfb bs /\ lenN bs < two64
  /\ bs = file_body v p ++ bstr_item (sbe 8 (lenN bs))        (* trailing length = size *)
  /\ (match v, p_primary p with
      | BV1, Some u => Utf8Valid u | BV2, None => True | _, _ => False end)
  /\ NoDup (map fst (p_sections p))
  /\ (exists front rb, p_sections p = front ++ [(n_responses, rb)])
  /\ In n_index (map fst (p_sections p))
  /\ Forall (SectionOK v p) (p_sections p)
  /\ IndexOK v p.

(* ================= an executable judge ======================================== *)
(* -- part 1: a decision procedure for WF v bs p ------------------------------- *)
Fixpoint nodupb (l : list bytes) : bool :=
  match l with
  | [] => true
  | x :: t => negb (existsb (bytes_eqb x) t) && nodupb t
  end.

Fixpoint ascb {A} (key : A -> bytes) (l : list A) : bool :=
  match l with
  | a :: ((b :: _) as t) => bytes_ltb (key a) (key b) && ascb key t
  | _ => true
  end.

Definition rsp_okb (r : rsp) : bool :=
  ascb field_key (r_fields r) && existsb (bytes_eqb status_name) (map fst (r_fields r)).

Definition delimitsb (rs : list rsp) (l : N * N) : bool :=
  existsb (fun i =>
    match nth_error rs i with
    | Some r => (fst l =? lenN (arr_head (lenN rs)) + lenN (flat_map rsp_bytes (firstn i rs)))
                && (snd l =? lenN (rsp_bytes r))
    | None => false
    end) (seq 0 (List.length rs)).

Definition entry_okb (v : bversion) (rs : list rsp) (e : bytes * bytes * list (N * N)) : bool :=
  sutf8_valid (ix_url e)
  && match ix_locs e with [] => false | _ => true end
  && forallb (delimitsb rs) (ix_locs e)
  && match v with
     | BV2 => (lenN (ix_locs e) =? 1) && match ix_vv e with [] => true | _ => false end
     | BV1 => match ix_vv e with [] => lenN (ix_locs e) =? 1 | _ => true end
     end.

Definition index_okb (v : bversion) (p : parsed) : bool :=
  ascb index_key (p_index p)
  && forallb (entry_okb v (p_responses p)) (p_index p)
  && forallb rsp_okb (p_responses p).

(* exactly one deterministic item: the Go package's own Deterministic walker
   (Model/Det.v, proved equivalent to Spec.Det in Proofs/Det*.v) must consume
   the whole body as one item *)
Definition det_itemb (body : bytes) : bool :=
  match WP.Model.Det.det_rec (S (S (2 * List.length body))) body with
  | Ok l => l =? lenN body
  | _ => false
  end.

Definition text_item_ofb (body : bytes) : bool :=
  match shead body with
  | Some (3, n, _, u) => sutf8_valid u && bytes_eqb body (text_item u)
  | _ => false
  end.

Definition section_okb (v : bversion) (p : parsed) (s : bytes * bytes) : bool :=
  sutf8_valid (fst s) &&
  if bytes_eqb (fst s) n_index then bytes_eqb (snd s) (index_body v (p_index p))
  else if bytes_eqb (fst s) n_responses then bytes_eqb (snd s) (responses_body (p_responses p))
  else if bytes_eqb (fst s) n_primary || bytes_eqb (fst s) n_manifest then text_item_ofb (snd s)
  else det_itemb (snd s).

Definition wf_check (v : bversion) (bs : bytes) (p : parsed) : bool :=
  wfbb bs && (lenN bs <? two64)
  && bytes_eqb bs (file_body v p ++ bstr_item (sbe 8 (lenN bs)))
  && (match v, p_primary p with
      | BV1, Some u => sutf8_valid u | BV2, None => true | _, _ => false end)
  && nodupb (map fst (p_sections p))
  && (match rev (p_sections p) with (n, _) :: _ => bytes_eqb n n_responses | [] => false end)
  && existsb (bytes_eqb n_index) (map fst (p_sections p))
  && forallb (section_okb v p) (p_sections p)
  && index_okb v p.

(* -- part 2: a liberal reader that proposes p; wf_check then judges ----------- *)
(* one definite-length string of major type mt: (content, rest) *)
Definition take_string (mt : N) (bs : bytes) : option (bytes * bytes) :=
  match shead bs with
  | Some (m, n, _, r) => if m =? mt then splitN r n else None
  | None => None
  end.
Definition take_head (mt : N) (bs : bytes) : option (N * bytes) :=
  match shead bs with
  | Some (m, n, _, r) => if m =? mt then Some (n, r) else None
  | None => None
  end.

Fixpoint take_table (fuel : nat) (bs : bytes) : list (bytes * N) :=
  match fuel with
  | O => []
  | S f =>
      match take_string 3 bs with
      | Some (name, r1) =>
          match take_head 0 r1 with
          | Some (len, r2) => (name, len) :: take_table f r2
          | None => []
          end
      | None => []
      end
  end.

Fixpoint cut_sections (tbl : list (bytes * N)) (bs : bytes) : list (bytes * bytes) :=
  match tbl with
  | [] => []
  | (name, len) :: t =>
      match splitN bs len with
      | Some (body, r) => (name, body) :: cut_sections t r
      | None => []
      end
  end.

Fixpoint take_locs (fuel : nat) (bs : bytes) : list (N * N) * bytes :=
  match fuel with
  | O => ([], bs)
  | S f =>
      match take_head 0 bs with
      | Some (o, r1) =>
          match take_head 0 r1 with
          | Some (l, r2) => let (ls, r3) := take_locs f r2 in ((o, l) :: ls, r3)
          | None => ([], bs)
          end
      | None => ([], bs)
      end
  end.

Fixpoint take_index (fuel : nat) (v : bversion) (bs : bytes) : list (bytes * bytes * list (N * N)) :=
  match fuel with
  | O => []
  | S f =>
      match take_string 3 bs with
      | Some (u, r1) =>
          match take_head 4 r1 with
          | Some (_, r2) =>
              match v with
              | BV2 => let (ls, r3) := take_locs 1 r2 in (u, [], ls) :: take_index f v r3
              | BV1 =>
                  match take_string 2 r2 with
                  | Some (vv, r3) =>
                      let (ls, r4) := take_locs (List.length r3) r3 in
                      (u, vv, ls) :: take_index f v r4
                  | None => []
                  end
              end
          | None => []
          end
      | None => []
      end
  end.

Fixpoint take_fields (fuel : nat) (bs : bytes) : list (bytes * bytes) :=
  match fuel with
  | O => []
  | S f =>
      match take_string 2 bs with
      | Some (k, r1) =>
          match take_string 2 r1 with
          | Some (x, r2) => (k, x) :: take_fields f r2
          | None => []
          end
      | None => []
      end
  end.

Fixpoint take_responses (fuel : nat) (bs : bytes) : list rsp :=
  match fuel with
  | O => []
  | S f =>
      match take_head 4 bs with
      | Some (_, r0) =>
          match take_string 2 r0 with
          | Some (hm, r1) =>
              match take_string 2 r1 with
              | Some (pl, r2) =>
                  let fs := match take_head 5 hm with
                            | Some (_, hr) => take_fields (List.length hr) hr
                            | None => [] end in
                  {| r_fields := fs; r_payload := pl |} :: take_responses f r2
              | None => []
              end
          | None => []
          end
      | None => []
      end
  end.

Definition lookup_section (secs : list (bytes * bytes)) (name : bytes) : bytes :=
  match find (fun s => bytes_eqb (fst s) name) secs with Some s => snd s | None => [] end.

Definition propose (v : bversion) (bs : bytes) : option parsed :=
  match splitN bs 15 with
  | None => None
  | Some (_, r0) =>
      let pr := match v with
                | BV1 => match take_string 3 r0 with
                         | Some (u, r) => Some (Some u, r) | None => None end
                | BV2 => Some (None, r0)
                end in
      match pr with
      | None => None
      | Some (prim, r1) =>
          match take_string 2 r1 with
          | None => None
          | Some (tb, r2) =>
              match take_head 4 tb, take_head 4 r2 with
              | Some (_, tr), Some (_, r3) =>
                  let secs := cut_sections (take_table (List.length tr) tr) r3 in
                  let ib := lookup_section secs n_index in
                  let rb := lookup_section secs n_responses in
                  Some {| p_primary := prim; p_sections := secs;
                          p_index := match take_head 5 ib with
                                     | Some (_, r) => take_index (List.length r) v r
                                     | None => [] end;
                          p_responses := match take_head 4 rb with
                                         | Some (_, r) => take_responses (List.length r) r
                                         | None => [] end |}
              | _, _ => None
              end
          end
      end
  end.

(* the independent parser: Some p only if bs is a well-formed bundle of version
   v denoting p (Proofs/BundleWriteSpec.wf_parse_sound) *)
Definition wf_parse (v : bversion) (bs : bytes) : option parsed :=
  match propose v bs with
  | Some p => if wf_check v bs p then Some p else None
  | None => None
  end.

(* ---- the spec is inhabited: the smallest b2 bundle -------------------------- *)
Example magic_b2_bytes :
  magic BV2 = [133; 72; 240; 159; 140; 144; 240; 159; 147; 166; 68; 98; 50; 0; 0].
Proof. vm_compute. reflexivity. Qed.
Example magic_b1_bytes :
  magic BV1 = [134; 72; 240; 159; 140; 144; 240; 159; 147; 166; 68; 98; 49; 0; 0].
Proof. vm_compute. reflexivity. Qed.

Definition empty_b2 : bytes :=
  magic BV2
  ++ [83; 132; 101; 105; 110; 100; 101; 120; 1;
      105; 114; 101; 115; 112; 111; 110; 115; 101; 115; 1]
  ++ [130] ++ [160] ++ [128] ++ [72; 0; 0; 0; 0; 0; 0; 0; 47].
Example empty_b2_parses :
  wf_parse BV2 empty_b2 =
  Some {| p_primary := None; p_sections := [(n_index, [160]); (n_responses, [128])];
          p_index := []; p_responses := [] |}.
Proof. vm_compute. reflexivity. Qed.
