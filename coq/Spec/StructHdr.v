(* Spec/StructHdr.v - declarative side of C16 (HTTP Structured Headers,
   draft-ietf-httpbis-header-structure-09, the subset implemented by
   go/signedexchange/structuredheader): integers, strings, tokens, byte
   sequences; parameterised lists and lists of lists.

   Only the *data types* (sh_item, sh_params, pident) are taken from the model;
   character classes, validity and the grammar are written from the draft
   (sections 3.x for the data model, 4.2.x parsing algorithms read as a
   grammar) and RFC 5234 core rules, not from the model's functions. *)
From Coq Require Import Permutation.
From WP Require Import Base.Prelude Model.StructHdr.
Open Scope N_scope.

(* ---- character classes -------------------------------------------------- *)
Definition DIGIT (c : N) : Prop := 48 <= c <= 57.                 (* "0".."9" *)
Definition LCALPHA (c : N) : Prop := 97 <= c <= 122.              (* "a".."z" *)
Definition UCALPHA (c : N) : Prop := 65 <= c <= 90.               (* "A".."Z" *)
Definition ALPHA (c : N) : Prop := LCALPHA c \/ UCALPHA c.
Definition WS (c : N) : Prop := c = 32 \/ c = 9.                  (* SP / HTAB *)
(* token chars after the first: ALPHA / DIGIT / "_" / "-" / "." / ":" / "%" / "*" / "/" *)
Definition TCHAR (c : N) : Prop :=
  ALPHA c \/ DIGIT c \/ c = 95 \/ c = 45 \/ c = 46 \/ c = 58 \/ c = 37 \/ c = 42 \/ c = 47.
(* key chars after the first: lcalpha / DIGIT / "_" / "-" *)
Definition KCHAR (c : N) : Prop := LCALPHA c \/ DIGIT c \/ c = 95 \/ c = 45.
Definition PRINTABLE (c : N) : Prop := 32 <= c <= 126.            (* %x20-7E *)
(* unescaped = %x20-21 / %x23-5B / %x5D-7E *)
Definition UNESCAPED (c : N) : Prop := 32 <= c <= 33 \/ 35 <= c <= 91 \/ 93 <= c <= 126.

Definition OWS (s : bytes) : Prop := Forall WS s.                 (* *( SP / HTAB ) *)
Definition Token (t : bytes) : Prop :=
  match t with [] => False | c :: r => ALPHA c /\ Forall TCHAR r end.
Definition Key (k : bytes) : Prop :=
  match k with [] => False | c :: r => LCALPHA c /\ Forall KCHAR r end.

Definition int64_range (z : Z) : Prop :=
  (-9223372036854775808 <= z < 9223372036854775808)%Z.

(* ---- validity of values (what the serializer must accept) --------------- *)
Definition valid_item (i : sh_item) : Prop :=
  match i with
  | ShInt z => int64_range z
  | ShStr s => Forall PRINTABLE s
  | ShTok t => Token t
  | ShBytes b => wfb b
  | ShBad => False
  end.
Definition valid_value (v : option sh_item) : Prop :=
  match v with None => True | Some i => valid_item i end.
Definition keys (ps : sh_params) : list bytes := map fst ps.
Definition valid_params (ps : sh_params) : Prop :=
  Forall Key (keys ps) /\ NoDup (keys ps) /\ Forall valid_value (map snd ps).
Definition valid_pi (p : pident) : Prop :=
  Token (pi_label p) /\ valid_params (pi_params p).
Definition valid_plist (pl : list pident) : Prop := pl <> [] /\ Forall valid_pi pl.
Definition valid_inner (l : list sh_item) : Prop := l <> [] /\ Forall valid_item l.
Definition valid_lol (ll : list (list sh_item)) : Prop := ll <> [] /\ Forall valid_inner ll.

(* the same, as booleans *)
Definition digit_b (c : N) : bool := (48 <=? c) && (c <=? 57).
Definition lcalpha_b (c : N) : bool := (97 <=? c) && (c <=? 122).
Definition alpha_b (c : N) : bool := lcalpha_b c || ((65 <=? c) && (c <=? 90)).
Definition tchar_b (c : N) : bool :=
  alpha_b c || digit_b c || existsb (N.eqb c) [95; 45; 46; 58; 37; 42; 47].
Definition kchar_b (c : N) : bool := lcalpha_b c || digit_b c || existsb (N.eqb c) [95; 45].
Definition printable_b (c : N) : bool := (32 <=? c) && (c <=? 126).
Definition token_b (t : bytes) : bool :=
  match t with [] => false | c :: r => alpha_b c && forallb tchar_b r end.
Definition key_b (k : bytes) : bool :=
  match k with [] => false | c :: r => lcalpha_b c && forallb kchar_b r end.
Definition int64_range_b (z : Z) : bool :=
  ((-9223372036854775808 <=? z) && (z <? 9223372036854775808))%Z.
Fixpoint nodup_b (l : list bytes) : bool :=
  match l with [] => true | x :: t => negb (existsb (bytes_eqb x) t) && nodup_b t end.

Definition valid_item_b (i : sh_item) : bool :=
  match i with
  | ShInt z => int64_range_b z
  | ShStr s => forallb printable_b s
  | ShTok t => token_b t
  | ShBytes b => wfbb b
  | ShBad => false
  end.
Definition valid_value_b (v : option sh_item) : bool :=
  match v with None => true | Some i => valid_item_b i end.
Definition valid_params_b (ps : sh_params) : bool :=
  forallb key_b (keys ps) && nodup_b (keys ps) && forallb valid_value_b (map snd ps).
Definition valid_pi_b (p : pident) : bool :=
  token_b (pi_label p) && valid_params_b (pi_params p).
Definition valid_plist_b (pl : list pident) : bool :=
  match pl with [] => false | _ => forallb valid_pi_b pl end.
Definition valid_inner_b (l : list sh_item) : bool :=
  match l with [] => false | _ => forallb valid_item_b l end.
Definition valid_lol_b (ll : list (list sh_item)) : bool :=
  match ll with [] => false | _ => forallb valid_inner_b ll end.

(* The domain of the Go types: an int64 is in range, a []byte holds bytes, a
   map has no duplicate keys.  (The model's sh_item/sh_params are wider.) *)
Definition dom_item (i : sh_item) : Prop :=
  match i with ShInt z => int64_range z | ShBytes b => wfb b | _ => True end.
Definition dom_value (v : option sh_item) : Prop :=
  match v with None => True | Some i => dom_item i end.
Definition dom_pi (p : pident) : Prop :=
  NoDup (keys (pi_params p)) /\ Forall dom_value (map snd (pi_params p)).

(* ---- parameters are a finite map --------------------------------------- *)
Definition pi_equiv (p q : pident) : Prop :=
  pi_label p = pi_label q /\ Permutation (pi_params p) (pi_params q).

(* canonical representative: parameters sorted by key (bytewise) *)
Definition key_lt (a b : bytes * option sh_item) : bool := bytes_ltb (fst a) (fst b).
Definition canon_pi (p : pident) : pident :=
  {| pi_label := pi_label p; pi_params := isort key_lt (pi_params p) |}.

(* ---- grammar ------------------------------------------------------------ *)
(* 1*DIGIT and its value *)
Inductive DecVal : bytes -> N -> Prop :=
| DV_one c : DIGIT c -> DecVal [c] (c - 48)
| DV_snoc ds n c : DecVal ds n -> DIGIT c -> DecVal (ds ++ [c]) (10 * n + (c - 48)).

(* *( unescaped / "\" ( DQUOTE / "\" ) ) and the string it denotes *)
Inductive StrBody : bytes -> bytes -> Prop :=
| SB_nil : StrBody [] []
| SB_plain c s v : UNESCAPED c -> StrBody s v -> StrBody (c :: s) (c :: v)
| SB_esc c s v : c = 34 \/ c = 92 -> StrBody s v -> StrBody (92 :: c :: s) (c :: v).

(* value of a character of the standard base64 alphabet (RFC 4648 table 1) *)
Definition B64Idx (c v : N) : Prop :=
  (65 <= c <= 90 /\ v = c - 65) \/ (97 <= c <= 122 /\ v = c - 71) \/
  (48 <= c <= 57 /\ v = c + 4) \/ (c = 43 /\ v = 62) \/ (c = 47 /\ v = 63).

(* base64 text (padded, or unpadded when the length is not a multiple of 4)
   and the bytes it denotes.  As in the Go decoder, the unused low bits of the
   last character of a partial quantum are not required to be zero. *)
Inductive B64 : bytes -> bytes -> Prop :=
| B64_nil : B64 [] []
| B64_quad c1 c2 c3 c4 v1 v2 v3 v4 r d :
    B64Idx c1 v1 -> B64Idx c2 v2 -> B64Idx c3 v3 -> B64Idx c4 v4 -> B64 r d ->
    B64 (c1 :: c2 :: c3 :: c4 :: r)
        (v1 * 4 + v2 / 16 :: (v2 mod 16) * 16 + v3 / 4 :: (v3 mod 4) * 64 + v4 :: d)
| B64_2pad c1 c2 v1 v2 :
    B64Idx c1 v1 -> B64Idx c2 v2 -> B64 [c1; c2; 61; 61] [v1 * 4 + v2 / 16]
| B64_3pad c1 c2 c3 v1 v2 v3 :
    B64Idx c1 v1 -> B64Idx c2 v2 -> B64Idx c3 v3 ->
    B64 [c1; c2; c3; 61] [v1 * 4 + v2 / 16; (v2 mod 16) * 16 + v3 / 4]
| B64_2raw c1 c2 v1 v2 :
    B64Idx c1 v1 -> B64Idx c2 v2 -> B64 [c1; c2] [v1 * 4 + v2 / 16]
| B64_3raw c1 c2 c3 v1 v2 v3 :
    B64Idx c1 v1 -> B64Idx c2 v2 -> B64Idx c3 v3 ->
    B64 [c1; c2; c3] [v1 * 4 + v2 / 16; (v2 mod 16) * 16 + v3 / 4].

(* item = number / string / token / byte-sequence   (4.2.7 - 4.2.11) *)
Inductive Derives_item : bytes -> sh_item -> Prop :=
| DI_pos ds n : DecVal ds n -> int64_range (Z.of_N n) ->
    Derives_item ds (ShInt (Z.of_N n))
| DI_neg ds n : DecVal ds n -> int64_range (- Z.of_N n) ->
    Derives_item (45 :: ds) (ShInt (- Z.of_N n))
| DI_str body v : StrBody body v -> Derives_item (34 :: body ++ [34]) (ShStr v)
| DI_tok t : Token t -> Derives_item t (ShTok t)
| DI_bytes body data : B64 body data -> Derives_item (42 :: body ++ [42]) (ShBytes data).

(* *( OWS ";" OWS key [ "=" item ] )   (4.2.6), in order of appearance *)
Inductive Derives_params : bytes -> sh_params -> Prop :=
| DPs_nil : Derives_params [] []
| DPs_flag w1 w2 k r ps :
    OWS w1 -> OWS w2 -> Key k -> Derives_params r ps ->
    Derives_params (w1 ++ 59 :: w2 ++ k ++ r) ((k, None) :: ps)
| DPs_val w1 w2 k i v r ps :
    OWS w1 -> OWS w2 -> Key k -> Derives_item i v -> Derives_params r ps ->
    Derives_params (w1 ++ 59 :: w2 ++ k ++ 61 :: i ++ r) ((k, Some v) :: ps).

(* parameterised identifier = token param-list, duplicate keys forbidden *)
Inductive Derives_pi : bytes -> pident -> Prop :=
| DPi t r ps : Token t -> Derives_params r ps -> NoDup (keys ps) ->
    Derives_pi (t ++ r) {| pi_label := t; pi_params := ps |}.

(* *( OWS "," OWS pi ) *)
Inductive Derives_plist_tail : bytes -> list pident -> Prop :=
| DPT_nil : Derives_plist_tail [] []
| DPT_cons w1 w2 p x r xs :
    OWS w1 -> OWS w2 -> Derives_pi p x -> Derives_plist_tail r xs ->
    Derives_plist_tail (w1 ++ 44 :: w2 ++ p ++ r) (x :: xs).

(* parameterised list = OWS pi *( OWS "," OWS pi ) OWS   (4.2.5 + 4.2 top level) *)
Inductive Derives_plist : bytes -> list pident -> Prop :=
| DPL w0 p x r xs w1 :
    OWS w0 -> Derives_pi p x -> Derives_plist_tail r xs -> OWS w1 ->
    Derives_plist (w0 ++ p ++ r ++ w1) (x :: xs).

(* *( OWS ";" OWS item ) *)
Inductive Derives_inner_tail : bytes -> list sh_item -> Prop :=
| DIT_nil : Derives_inner_tail [] []
| DIT_cons w1 w2 i x r xs :
    OWS w1 -> OWS w2 -> Derives_item i x -> Derives_inner_tail r xs ->
    Derives_inner_tail (w1 ++ 59 :: w2 ++ i ++ r) (x :: xs).

(* inner list = item *( OWS ";" OWS item ) *)
Inductive Derives_inner : bytes -> list sh_item -> Prop :=
| DIn i x r xs : Derives_item i x -> Derives_inner_tail r xs ->
    Derives_inner (i ++ r) (x :: xs).

(* *( OWS "," OWS inner ) *)
Inductive Derives_lol_tail : bytes -> list (list sh_item) -> Prop :=
| DLT_nil : Derives_lol_tail [] []
| DLT_cons w1 w2 s l r ls :
    OWS w1 -> OWS w2 -> Derives_inner s l -> Derives_lol_tail r ls ->
    Derives_lol_tail (w1 ++ 44 :: w2 ++ s ++ r) (l :: ls).

(* list of lists = OWS inner *( OWS "," OWS inner ) OWS   (4.2.4 + 4.2 top level) *)
Inductive Derives_lol : bytes -> list (list sh_item) -> Prop :=
| DLL w0 s l r ls w1 :
    OWS w0 -> Derives_inner s l -> Derives_lol_tail r ls -> OWS w1 ->
    Derives_lol (w0 ++ s ++ r ++ w1) (l :: ls).
