(* Spec/SxgPolicy.v - when is a signed exchange acceptable?  Declarative side of
   C09 (and of the "what verification establishes" half of C01).

   Transcribed from
     draft-yasskin-http-origin-signed-responses   3.5 (signature validity),
                                                  4   (cross-origin trust),
                                                  4.1 (uncached / stateful headers),
     draft-yasskin-httpbis-origin-signed-exchanges-impl-02  4 (b1/b2: request
                                                  method, stateful request headers),
     RFC 7234 section 3 (storing responses in caches), RFC 7231 6.1.
   as ONE flat conjunction [Accepts]; nothing here follows the order or the
   control flow of verifier.go.  Shared with the model are only data types
   (exchange, signature, version, headers) and the leaf functions the conditions
   talk about: URL parsing, certificate-chain parsing, the signed-message
   serialisation, header lookup (hdr_value_ci: header field names are
   case-insensitive, RFC 7230 3.2 - the field is found whatever the letter case
   of its map key), and the MICE decoder (whose meaning is the subject of
   C14/C15).  Cryptography and I/O are parameters.                              *)
From WP Require Import Base.Prelude Model.Url Model.Http Model.Mice Model.CertChain
                       Model.StructHdr Model.Sxg.
Open Scope N_scope.

(* ---- 4.1 / impl-02 4.1: header names that must not be signed --------------- *)
(* "Header fields defined as hop-by-hop" + "Stateful header fields" *)
Definition hop_by_hop_names : list bytes :=
  map s2b ["connection"; "keep-alive"; "proxy-connection"; "trailer"; "transfer-encoding";
           "upgrade"]%string.
Definition stateful_response_names : list bytes :=
  map s2b ["authentication-control"; "authentication-info"; "clear-site-data";
           "optional-www-authenticate"; "proxy-authenticate"; "proxy-authentication-info";
           "public-key-pins"; "sec-websocket-accept"; "set-cookie"; "set-cookie2"; "setprofile";
           "strict-transport-security"; "www-authenticate"]%string.
Definition uncached_names : list bytes := hop_by_hop_names ++ stateful_response_names.
(* impl-02: "A stateful request header field includes but is not limited to" *)
Definition stateful_request_names : list bytes :=
  map s2b ["authorization"; "cookie"; "cookie2"; "proxy-authorization"; "sec-websocket-key"]%string.

(* header field names are case-insensitive (RFC 7230 3.2) *)
Definition names_match (n m : bytes) : Prop := lower n = lower m.
Definition banned_in (names : list bytes) (n : bytes) : Prop := exists m, In m names /\ names_match n m.
Definition NoBanned (names : list bytes) (h : headers) : Prop :=
  forall nv, In nv h -> ~ banned_in names (fst nv).

(* ---- RFC 7234 5.2: Cache-Control directive names ------------------------------ *)
(* Cache-Control = 1#cache-directive, cache-directive = token [ "=" ... ];
   "TODO: correctly handle quoted-string arguments" in the Go source: a comma
   inside a quoted argument splits.  White space: what strings.TrimSpace
   removes among ASCII (HT LF VT FF CR SP); RFC 7230 OWS is SP / HTAB only. *)
Definition white (c : N) : bool := existsb (N.eqb c) [9; 10; 11; 12; 13; 32].
Fixpoint drop_white (s : bytes) : bytes :=
  match s with c :: r => if white c then drop_white r else s | [] => [] end.
Definition trim (s : bytes) : bytes := rev (drop_white (rev (drop_white s))).
(* the members of a comma-separated list *)
Fixpoint members (s : bytes) : list bytes :=
  match s with
  | [] => [[]]
  | c :: r =>
      if c =? 44 then [] :: members r
      else match members r with m :: ms => (c :: m) :: ms | [] => [[c]] end
  end.
(* the part before the first "=" *)
Fixpoint before_eq (s : bytes) : bytes :=
  match s with [] => [] | c :: r => if c =? 61 then [] else c :: before_eq r end.
Definition directive_names (cc : bytes) : list bytes :=
  map (fun m => lower (before_eq (trim m))) (members cc).
Definition has_dir (cc : bytes) (d : string) : Prop := In (s2b d) (directive_names cc).

(* RFC 7231 6.1: status codes cacheable by default *)
Definition default_cacheable : list Z := [200; 203; 204; 206; 300; 301; 404; 405; 410; 414; 501]%Z.

Definition integrity_of (v : version) : bytes :=
  match v with V1b1 => s2b "mi-draft2" | _ => s2b "digest/mi-sha256-03" end.
Definition digest_field_of (v : version) : bytes :=
  match v with V1b1 => s2b "MI-Draft2" | _ => s2b "Digest" end.
Definition mice_draft_of (v : version) : draft := match v with V1b1 => D02 | _ => D03 end.

Section Policy.
  Variable H256 : bytes -> bytes.
  Variable x509_key : bytes -> option (option N).
  Variable sig_ok : N -> bytes -> bytes -> bool.
  Variable status_known : Z -> bool.
  Variable fetch : bytes -> R bytes.

  (* 4 step 1: validity-url same-origin with the request URL (as the Go code
     compares: scheme and host[:port] strings) *)
  Definition SameOrigin (a b : bytes) : Prop :=
    exists sch host fa ua fb ub,
      url_parse a = UOk sch host fa ua /\ url_parse b = UOk sch host fb ub.

  (* 3.5 steps 3, 4: lifetime at most 7 days, date <= now <= expires; the
     current time is tsec seconds + tnsec nanoseconds *)
  Definition nano : Z := 1000000000.
  Definition InWindow (date expires tsec tnsec : Z) : Prop :=
    (expires - date <= 604800 /\
     date * nano <= tsec * nano + tnsec /\ tsec * nano + tnsec <= expires * nano)%Z.

  (* 3.5 steps 2, 5, 6, 7: the chain at cert-url loads, its first certificate
     has a usable key and the announced SHA-256, and the signature over the
     reconstructed message verifies under that key *)
  Definition KeySigned (e : exchange) (s : signature) : Prop :=
    exists chain main rest kid m,
      fetch (s_cert_url s) = Ok chain /\
      cc_read (fun der => match x509_key der with Some _ => true | None => false end) chain
        = Ok (main :: rest) /\
      x509_key (ac_cert main) = Some (Some kid) /\
      s_cert_sha s = H256 (ac_cert main) /\
      signed_message e (Some (s_cert_sha s)) (s_validity s) (s_date s) (s_expires s) = Ok m /\
      sig_ok kid m (s_sig s) = true.

  (* 3.5 step 9: integrity names the version's scheme, the header is there, and
     the payload checks against it (records of at most 16384 bytes) *)
  Definition PayloadOk (e : exchange) (s : signature) (p : bytes) : Prop :=
    s_integrity s = integrity_of (e_ver e) /\
    hdr_value_ci (e_resph e) (digest_field_of (e_ver e)) <> [] /\
    decode_all H256 (mice_draft_of (e_ver e)) (e_payload e)
               (hdr_value_ci (e_resph e) (digest_field_of (e_ver e))) 16384 512 = Ok (p, REOF).

  (* impl-02 4 step 4 (b1/b2): safe, cacheable method, no stateful request header *)
  Definition RequestOk (e : exchange) : Prop :=
    has_request (e_ver e) = true ->
    (e_method e = s2b "GET" \/ e_method e = s2b "HEAD") /\
    NoBanned stateful_request_names (e_reqh e).

  (* RFC 7234 section 3, for a shared cache, no request *)
  Definition StorableShared (e : exchange) : Prop :=
    let cc := hdr_value_ci (e_resph e) (s2b "Cache-Control") in
    status_known (e_status e) = true /\
    ~ has_dir cc "no-store" /\
    ~ has_dir cc "private" /\
    (hdr_value_ci (e_resph e) (s2b "Expires") <> [] \/
     has_dir cc "max-age" \/ has_dir cc "s-maxage" \/
     In (e_status e) default_cacheable \/
     has_dir cc "public").

  (* 3.5 step 8 and 4 step 4 (b3) *)
  Definition ResponseOk (e : exchange) : Prop :=
    has_request (e_ver e) = false ->
    hdr_value_ci (e_resph e) (s2b "Content-Type") <> [] /\ StorableShared e.

  Definition Accepts (e : exchange) (tsec tnsec : Z) (s : signature) (p : bytes) : Prop :=
    SameOrigin (s_validity s) (e_uri e) /\
    KeySigned e s /\
    InWindow (s_date s) (s_expires s) tsec tnsec /\
    PayloadOk e s p /\
    RequestOk e /\
    ResponseOk e /\
    NoBanned uncached_names (e_resph e).
End Policy.
