(* Spec/BundleSig.v - the signatures section of a bundle, written from
   draft-ietf-wpack-bundled-responses (signatures section, removed in later
   drafts) and WICG/webpackage issue 472 (the signed message).  Nothing here
   mentions Model/BundleSig.v.

     signatures = [ authorities: [*augmented-certificate],
                    vouched-subsets: [*{ authority: index-in-authorities,
                                         sig: bstr, signed: bstr }] ]
     signed-subset = {
       validity-url: whatwg-url, auth-sha256: bstr, date: uint, expires: uint,
       subset-hashes: { + whatwg-url =>
                          [variants-value, +resource-integrity] } }
     resource-integrity = (header-sha256: bstr, payload-integrity-header: tstr)

   "signed" is the deterministic CBOR encoding of a signed-subset; "sig" is a
   signature, by the key of authorities[authority], over
     64 x 0x20 || "Web Package 1 b1"/"... b2" || 0x00 || signed.
   A vouched subset is to be trusted at time t only if auth-sha256 is the
   SHA-256 of that certificate, date <= t <= expires and expires - date is at
   most 7 days.                                                              *)
From Coq Require Import Permutation Sorted ZArith.
From WP Require Import Base.Prelude Spec.Cbor.
Open Scope N_scope.

Definition srint := (bytes * bytes)%type.          (* header-sha256, payload-integrity-header *)
Definition sresp := (bytes * list srint)%type.     (* variants-value, resource-integrity + *)
Definition sentry := (bytes * sresp)%type.         (* URL => response hashes *)
Record ssubset := { v_validity : bytes; v_auth : bytes; v_date : N; v_expires : N;
                    v_hashes : list sentry }.

Definition key (k : string) : token := TText (s2b k).
Definition rint_tokens (r : srint) : list token := [TBytes (fst r); TText (snd r)].
Definition entry_tokens (e : sentry) : list token :=
  TText (fst e) :: TArr (1 + 2 * lenN (snd (snd e))) :: TBytes (fst (snd e))
  :: flat_map rint_tokens (snd (snd e)).

(* keys in deterministic order: shorter encodings first, then bytewise *)
Definition subset_tokens (s : ssubset) : list token :=
  [TMap 5; key "date"; TUint (v_date s); key "expires"; TUint (v_expires s);
   key "auth-sha256"; TBytes (v_auth s); key "validity-url"; TText (v_validity s);
   key "subset-hashes"; TMap (lenN (v_hashes s))]
  ++ flat_map entry_tokens (v_hashes s).

Definition hashes_sorted (l : list sentry) : Prop :=
  StronglySorted (fun a b => blt (senc_token (TText (fst a))) (senc_token (TText (fst b)))) l.

Definition with_entries (s : ssubset) (l : list sentry) : ssubset :=
  {| v_validity := v_validity s; v_auth := v_auth s; v_date := v_date s;
     v_expires := v_expires s; v_hashes := l |}.

(* bs is THE deterministic encoding of the signed-subset s (hashes in any order) *)
Definition SubsetBytes (s : ssubset) (bs : bytes) : Prop :=
  exists sh, Permutation sh (v_hashes s) /\ hashes_sorted sh /\
             bs = senc_tokens (subset_tokens (with_entries s sh)).

Definition context_string (b2 : bool) : bytes :=
  if b2 then s2b "Web Package 1 b2" else s2b "Web Package 1 b1".
Definition signed_message (b2 : bool) (signed : bytes) : bytes :=
  repeat 32 64 ++ context_string b2 ++ 0 :: signed.

(* the validity window, verification time = (seconds, nanoseconds) *)
Definition Window (date expires tsec tnsec : Z) : Prop :=
  (expires - date <= 604800 /\
   date * 1000000000 <= tsec * 1000000000 + tnsec /\
   tsec * 1000000000 + tnsec <= expires * 1000000000)%Z.

(* the five keys are in ascending bytewise order of their encodings *)
Example keys_in_order :
  map senc_token [key "date"; key "expires"; key "auth-sha256"; key "validity-url"; key "subset-hashes"]
  = [100 :: s2b "date"; 103 :: s2b "expires"; 107 :: s2b "auth-sha256"; 108 :: s2b "validity-url";
     109 :: s2b "subset-hashes"].
Proof. reflexivity. Qed.
