(* Spec/Sxg.v - signed exchanges as the drafts prescribe them, transcribed from
   draft-yasskin-http-origin-signed-responses (sections 3.1 Signature header,
   3.2/3.4 CBOR representation, 3.4/3.5 canonical CBOR, 3.5/3.6 signature
   validity step "Let message be ...", 5.3 application/signed-exchange) and the
   snapshot draft-yasskin-httpbis-origin-signed-exchanges-impl (b1/b2/b3).

   Only *types* are taken from the model (the record [exchange], [version],
   [headers], [sh_item]); nothing here follows how the model computes.  The
   shared Base/ library supplies decimal rendering, base64 and [lower]; the
   structured-header *item* syntax (integer / string / byte sequence) is the
   one of Model.StructHdr.serialize_item, which C16 ties to the grammar.

   Everything is an executable reference function returning [option]: [None]
   means "the drafts give no serialization for this input" (a length that does
   not fit its field, a map with two equal keys, a date outside 0..2^63-1 for
   the 8-byte encodings, ...). *)
From WP Require Import Base.Prelude Base.Base64 Base.Decimal Spec.Cbor.
From WP Require Model.Http Model.StructHdr Model.Sxg.
Open Scope N_scope.

Notation headers := WP.Model.Http.headers.
Notation exchange := WP.Model.Sxg.exchange.
Notation version := WP.Model.Sxg.version.
Notation V1b1 := WP.Model.Sxg.V1b1.
Notation V1b2 := WP.Model.Sxg.V1b2.
Notation V1b3 := WP.Model.Sxg.V1b3.
Notation e_ver := WP.Model.Sxg.e_ver.
Notation e_uri := WP.Model.Sxg.e_uri.
Notation e_method := WP.Model.Sxg.e_method.
Notation e_reqh := WP.Model.Sxg.e_reqh.
Notation e_status := WP.Model.Sxg.e_status.
Notation e_resph := WP.Model.Sxg.e_resph.
Notation e_sig := WP.Model.Sxg.e_sig.
Notation e_payload := WP.Model.Sxg.e_payload.
Notation sh_item := WP.Model.StructHdr.sh_item.
Notation ShInt := WP.Model.StructHdr.ShInt.
Notation ShStr := WP.Model.StructHdr.ShStr.
Notation ShBytes := WP.Model.StructHdr.ShBytes.

(* ---- the CBOR data model (the subset the drafts use) ---------------------- *)
Inductive cval : Type :=
| CBytes (b : bytes)                  (* major 2 *)
| CText (b : bytes)                   (* major 3, UTF-8 *)
| CInt (z : Z)                        (* major 0 / 1 *)
| CArray (l : list cval)              (* major 4 *)
| CMap (l : list (cval * cval)).      (* major 5 *)

(* "Integers and the lengths of arrays, maps, and strings MUST use the smallest
   possible encoding": the shortest head; an argument needs to fit 64 bits.  *)
Definition chead (mt n : N) : option bytes :=
  if n <? two64 then Some (senc_head mt n) else None.

Fixpoint distinct (l : list bytes) : bool :=
  match l with
  | [] => true
  | x :: t => negb (existsb (bytes_eqb x) t) && distinct t
  end.

(* "The keys in every map MUST be sorted in the bytewise lexicographic order of
   their canonical encodings"; a map has no two equal keys.                  *)
Definition by_key (a b : bytes * bytes) : bool := bytes_ltb (fst a) (fst b).
Definition cmap_bytes (n : N) (ents : list (bytes * bytes)) : option bytes :=
  if distinct (map fst ents) then
    match chead 5 n with
    | Some h => Some (h ++ flat_map (fun kv => fst kv ++ snd kv) (isort by_key ents))
    | None => None
    end
  else None.

Fixpoint canon (v : cval) : option bytes :=
  match v with
  | CBytes b => match chead 2 (lenN b) with Some h => Some (h ++ b) | None => None end
  | CText b =>
      if sutf8_valid b
      then match chead 3 (lenN b) with Some h => Some (h ++ b) | None => None end
      else None
  | CInt z => if (0 <=? z)%Z then chead 0 (Z.to_N z) else chead 1 (Z.to_N (-1 - z))
  | CArray l =>
      match chead 4 (lenN l),
            (fix items (l : list cval) : option bytes :=
               match l with
               | [] => Some []
               | x :: t => match canon x, items t with
                           | Some a, Some b => Some (a ++ b)
                           | _, _ => None
                           end
               end) l with
      | Some h, Some body => Some (h ++ body)
      | _, _ => None
      end
  | CMap l =>
      match (fix ents (l : list (cval * cval)) : option (list (bytes * bytes)) :=
               match l with
               | [] => Some []
               | (k, x) :: t => match canon k, canon x, ents t with
                                | Some a, Some b, Some r => Some ((a, b) :: r)
                                | _, _, _ => None
                                end
               end) l with
      | Some es => cmap_bytes (lenN l) es
      | None => None
      end
  end.

(* ---- 3.2 / 3.4  CBOR representation of exchange headers -------------------- *)
(* "appending each subsequent field-value to the first, each separated by a
   comma" (RFC 7230 3.2.2) *)
Definition comma_joined (vs : list bytes) : bytes :=
  match vs with
  | [] => []
  | v :: t => v ++ flat_map (fun x => 44 :: x) t
  end.

Definition bstr (s : string) : cval := CBytes (s2b s).

(* "For each ... header field, the header field's lowercase name as a byte
   string to the header field's value as a byte string." *)
Definition field_pairs (h : headers) : list (cval * cval) :=
  map (fun nv => (CBytes (lower (fst nv)), CBytes (comma_joined (snd nv)))) h.

(* b1: "The byte string ':method' to the byte string containing the request's
   method; the byte string ':url' to the byte string containing the request's
   effective request URI"; b2 moved the URL out of the map. *)
Definition request_value (e : exchange) : cval :=
  CMap ((bstr ":method", CBytes (e_method e))
        :: match e_ver e with
           | V1b1 => [(bstr ":url", CBytes (e_uri e))]
           | _ => []
           end
        ++ field_pairs (e_reqh e)).

(* "The byte string ':status' to the byte string containing the response's
   3-digit status code" *)
Definition response_value (e : exchange) : cval :=
  CMap ((bstr ":status", CBytes (dec_of_Z (e_status e))) :: field_pairs (e_resph e)).

(* b1/b2: "the CBOR array [request map, response map]"; b3: the response map *)
Definition headers_value (e : exchange) : cval :=
  match e_ver e with
  | V1b3 => response_value e
  | _ => CArray [request_value e; response_value e]
  end.

Definition spec_headers_cbor (e : exchange) : option bytes := canon (headers_value e).

(* ---- 3.5 signature validity: the message that gets signed ---------------- *)
Definition context_of (v : version) : bytes :=
  match v with
  | V1b1 => s2b "HTTP Exchange 1 b1"
  | V1b2 => s2b "HTTP Exchange 1 b2"
  | V1b3 => s2b "HTTP Exchange 1 b3"
  end.

(* items 1-3: 64 x 0x20, the context string, a 0 byte *)
Definition message_prefix (v : version) : bytes := repeat 32 64 ++ context_of v ++ [0].

(* b1 item 4: "The bytes of the canonical CBOR serialization of a CBOR map
   mapping: if cert-sha256 is set, the text string "cert-sha256" to the byte
   string cert-sha256; "validity-url" to the byte string validity-url; "date"
   to the integer date; "expires" to the integer expires; "headers" to the CBOR
   representation of exchange's headers." *)
Definition spec_message_b1 (e : exchange) (cert_sha : option bytes) (validity : bytes)
           (date expires : Z) : option bytes :=
  match canon (CMap ((match cert_sha with
                      | Some c => [(CText (s2b "cert-sha256"), CBytes c)]
                      | None => []
                      end)
                     ++ [(CText (s2b "validity-url"), CBytes validity);
                         (CText (s2b "date"), CInt date);
                         (CText (s2b "expires"), CInt expires);
                         (CText (s2b "headers"), headers_value e)])) with
  | Some m => Some (message_prefix V1b1 ++ m)
  | None => None
  end.

(* 8-byte big-endian fields *)
Definition len8 (n : N) : option bytes := if n <? two64 then Some (sbe 8 n) else None.
(* a Unix time as an unsigned 8-byte field: defined for 0 <= t < 2^63 *)
Definition time8 (t : Z) : option bytes :=
  if ((0 <=? t) && (t <? 9223372036854775808))%Z then Some (sbe 8 (Z.to_N t)) else None.

(* b2/b3 items 4-9.  Item 4: "If cert-sha256 is set, a byte holding the value
   32 followed by the 32 bytes of the value of cert-sha256. Otherwise a 0
   byte." *)
Definition spec_message_b2b3 (e : exchange) (cert_sha : option bytes) (validity : bytes)
           (date expires : Z) : option bytes :=
  match len8 (lenN validity), time8 date, time8 expires, len8 (lenN (e_uri e)),
        spec_headers_cbor e with
  | Some vl, Some d, Some x, Some ul, Some hdr =>
      match len8 (lenN hdr) with
      | Some hl =>
          Some (message_prefix (e_ver e)
                ++ (match cert_sha with Some c => 32 :: c | None => [0] end)
                ++ vl ++ validity ++ d ++ x ++ ul ++ e_uri e ++ hl ++ hdr)
      | None => None
      end
  | _, _, _, _, _ => None
  end.

(* ---- 5.3 application/signed-exchange ------------------------------------------ *)
Definition magic_of (v : version) : bytes :=
  match v with
  | V1b1 => s2b "sxg1-b1" ++ [0]
  | V1b2 => s2b "sxg1-b2" ++ [0]
  | V1b3 => s2b "sxg1-b3" ++ [0]
  end.

(* "k bytes storing a big-endian integer" *)
Definition field (k : nat) (n : N) : option bytes :=
  if n <? 256 ^ N.of_nat k then Some (sbe k n) else None.

Definition spec_file (e : exchange) : option bytes :=
  match spec_headers_cbor e with
  | None => None
  | Some hdr =>
      match e_ver e with
      | V1b1 =>
          (* magic, 3-byte sigLength, 3-byte headerLength, signature, headers, payload *)
          match field 3 (lenN (e_sig e)), field 3 (lenN hdr) with
          | Some sl, Some hl =>
              Some (magic_of V1b1 ++ sl ++ hl ++ e_sig e ++ hdr ++ e_payload e)
          | _, _ => None
          end
      | v =>
          (* magic, 2-byte fallbackUrlLength, fallbackUrl, sigLength (<= 16384),
             headerLength (<= 524288), signature, signedHeaders, payload *)
          match field 2 (lenN (e_uri e)), field 3 (lenN (e_sig e)), field 3 (lenN hdr) with
          | Some ul, Some sl, Some hl =>
              if (lenN (e_sig e) <=? 16384) && (lenN hdr <=? 524288)
              then Some (magic_of v ++ ul ++ e_uri e ++ sl ++ hl ++ e_sig e ++ hdr ++ e_payload e)
              else None
          | _, _, _ => None
          end
      end
  end.

(* ---- header integrity ("sha256-" + base64 of SHA-256 of signedHeaders) ----- *)
Definition spec_header_integrity (H : bytes -> bytes) (e : exchange) : option bytes :=
  match spec_headers_cbor e with
  | Some hdr => Some (s2b "sha256-" ++ b64_encode true false (H hdr))
  | None => None
  end.

(* ---- 3.1 the Signature header ------------------------------------------------ *)
(* integrity: b1 "mi-draft2"; b2/b3 "digest/mi-sha256-03" *)
Definition integrity_of (v : version) : bytes :=
  match v with V1b1 => s2b "mi-draft2" | _ => s2b "digest/mi-sha256-03" end.

(* ";" key "=" item *)
Definition sh_param (k : string) (i : sh_item) : option bytes :=
  match WP.Model.StructHdr.serialize_item i with
  | Ok s => Some ([59] ++ s2b k ++ [61] ++ s)
  | _ => None
  end.

(* A parameterised identifier "label" with the seven parameters of 3.1, in
   the sorted key order the structured-header serializer emits:
   cert-sha256 < cert-url < date < expires < integrity < sig < validity-url.
   cert-sha256 is "the SHA-256 hash of the first certificate found at
   cert-url": undefined without a certificate. *)
Definition spec_signature_header (H : bytes -> bytes) (v : version) (certs : list bytes)
           (cert_url validity : bytes) (date expires : Z) (sig : bytes) : option bytes :=
  match certs with
  | [] => None
  | c0 :: _ =>
      match sh_param "cert-sha256" (ShBytes (H c0)), sh_param "cert-url" (ShStr cert_url),
            sh_param "date" (ShInt date), sh_param "expires" (ShInt expires),
            sh_param "integrity" (ShStr (integrity_of v)), sh_param "sig" (ShBytes sig),
            sh_param "validity-url" (ShStr validity) with
      | Some p1, Some p2, Some p3, Some p4, Some p5, Some p6, Some p7 =>
          Some (s2b "label" ++ p1 ++ p2 ++ p3 ++ p4 ++ p5 ++ p6 ++ p7)
      | _, _, _, _, _, _, _ => None
      end
  end.

(* ---- the domain of Go values ---------------------------------------------- *)
(* A Go string / slice / map has a length that is an int (< 2^63); the Coq
   lists of the model are unbounded, so theorems that need it say so. *)
Definition go_len {A} (l : list A) : Prop := lenN l < two63.
Definition go_headers (h : headers) : Prop :=
  go_len h /\ Forall (fun nv => go_len (fst nv) /\ go_len (comma_joined (snd nv))) h.
Definition go_exchange (e : exchange) : Prop :=
  go_len (e_uri e) /\ go_len (e_method e) /\ go_headers (e_reqh e) /\ go_headers (e_resph e).
Definition int64 (z : Z) : Prop := (-9223372036854775808 <= z < 9223372036854775808)%Z.
