From WP Require Import Base.Prelude Run.Sx Model.StructHdr.
Open Scope N_scope.

Definition item_sx (i : sh_item) : sx :=
  match i with
  | ShInt z => SL [sym "i"; SZ z]
  | ShStr b => SL [sym "s"; SB b]
  | ShTok b => SL [sym "t"; SB b]
  | ShBytes b => SL [sym "b"; SB b]
  | ShBad => SL [sym "bad"]
  end.

Definition sh_item_of_sx (s : sx) : option sh_item :=
  match s with
  | SL [t; SZ z] => if tag_is t "i" then Some (ShInt z) else None
  | SL [t; SB b] =>
      if tag_is t "s" then Some (ShStr b) else if tag_is t "t" then Some (ShTok b)
      else if tag_is t "b" then Some (ShBytes b) else None
  | SL [t] => if tag_is t "bad" then Some ShBad else None
  | _ => None
  end.

Definition param_sx (p : bytes * option sh_item) : sx :=
  match snd p with
  | Some i => SL [SB (fst p); item_sx i]
  | None => SL [SB (fst p)]
  end.
Definition param_of_sx (s : sx) : option (bytes * option sh_item) :=
  match s with
  | SL [SB k; v] => let? i := sh_item_of_sx v in Some (k, Some i)
  | SL [SB k] => Some (k, None)
  | _ => None
  end.

(* parameters are a map: print sorted by key *)
Definition pi_sx (p : pident) : sx :=
  SL [SB (pi_label p); SL (map param_sx (isort param_lt (pi_params p)))].
Definition pi_of_sx (s : sx) : option pident :=
  match s with
  | SL [SB l; SL ps] => let? ps' := omap param_of_sx ps in Some {| pi_label := l; pi_params := ps' |}
  | _ => None
  end.

Definition op_sh_parse_pl (args : list sx) : sx :=
  match args with
  | [SB input] => sx_of_R (fun pl => SL (map pi_sx pl)) (parse_parameterised_list input)
  | _ => bad_args
  end.
Definition op_sh_parse_lol (args : list sx) : sx :=
  match args with
  | [SB input] => sx_of_R (fun ll => SL (map (fun l => SL (map item_sx l)) ll)) (parse_list_of_lists input)
  | _ => bad_args
  end.
Definition op_sh_ser_pl (args : list sx) : sx :=
  match omap pi_of_sx args with
  | Some pl => sx_bytes_R (serialize_plist pl)
  | None => bad_args
  end.
(* sh_ser_pi_seq pi... : one String() call per identifier, each on its own *)
Definition op_sh_ser_pi_seq (args : list sx) : sx :=
  match omap pi_of_sx args with
  | Some pl => SL (map (fun pi => sx_bytes_R (serialize_plist [pi])) pl)
  | None => bad_args
  end.
Definition op_sh_ser_lol (args : list sx) : sx :=
  match omap (fun s => match s with SL l => omap sh_item_of_sx l | _ => None end) args with
  | Some ll => sx_bytes_R (serialize_lol ll)
  | None => bad_args
  end.

(* batches of header strings: one verdict sexp per string *)
Definition op_sh_parse_batch (args : list sx) : sx :=
  match args with
  | [SL l] => SL (map (fun s => SL [op_sh_parse_pl [s]; op_sh_parse_lol [s]]) l)
  | _ => bad_args
  end.

Definition dispatch_sh (op : bytes) (args : list sx) : option sx :=
  if bytes_eqb op (s2b "sh_parse_pl") then Some (op_sh_parse_pl args)
  else if bytes_eqb op (s2b "sh_parse_lol") then Some (op_sh_parse_lol args)
  else if bytes_eqb op (s2b "sh_ser_pl") then Some (op_sh_ser_pl args)
  else if bytes_eqb op (s2b "sh_ser_lol") then Some (op_sh_ser_lol args)
  else if bytes_eqb op (s2b "sh_ser_pi_seq") then Some (op_sh_ser_pi_seq args)
  else if bytes_eqb op (s2b "sh_parse_batch") then Some (op_sh_parse_batch args)
  else None.
