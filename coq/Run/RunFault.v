(* C19: write faults at every byte position.  The model computes the fault-free
   output of the serializer; the judge is the property itself. *)
From WP Require Import Base.Prelude Base.Sha256 Run.Sx Run.RunCbor Run.RunMice Run.RunSxg Run.RunCC Run.RunBundle.
From WP Require Import Model.Cbor Model.Mice Model.Sxg Model.CertChain Model.Bundle.
Open Scope N_scope.

(* fault kind (artifact args...) k mode : fault-free output of the serializer *)
Definition fault_output (kind : sx) (a : list sx) : option (R bytes) :=
  if tag_is kind "bundle" then
    match a with b :: _ => let? b' := bundle_of_sx b in Some (b_write b') | _ => None end
  else if tag_is kind "sxg" then
    match a with [e] => let? e' := exchange_of_sx e in Some (write e') | _ => None end
  else if tag_is kind "sxg_headers" then
    match a with [e] => let? e' := exchange_of_sx e in Some (encode_exchange_headers e') | _ => None end
  else if tag_is kind "sxg_message" then
    match a with
    | [e; SL certs; SB validity; SZ date; SZ expires] =>
        let? e' := exchange_of_sx e in let? cs := omap as_b certs in
        Some (signed_message e' (cert_sha256 sha256 cs) validity date expires)
    | _ => None
    end
  else if tag_is kind "certchain" then
    let? c := omap augcert_of_sx a in Some (cc_write c)
  else if tag_is kind "mi" then
    match a with
    | [d; SZ rs; SB payload] =>
        let? d' := draft_of d in
        Some (let* p := encode sha256 d' (Z.to_N rs) payload in Ok (fst p))
    | _ => None
    end
  else if tag_is kind "cbor" then
    let? items := omap (item_of_sx 64) a in Some (run_items items)
  else None.

(* the writers' URL tests are decided by the partial URL model *)
Definition fault_taint (kind : sx) (a : list sx) : bool :=
  if tag_is kind "bundle" then
    match a with b :: _ => match bundle_of_sx b with Some b' => b_write_taint b' | None => false end | _ => false end
  else if tag_is kind "sxg" then
    match a with [e] => match exchange_of_sx e with Some e' => write_taint e' | None => false end | _ => false end
  else false.

Definition op_fault (args : list sx) : sx :=
  match args with
  | kind :: SL a :: _ =>
      if fault_taint kind a then unknown_sx else
      match fault_output kind a with
      | Some r => sx_bytes_R r
      | None => bad_args
      end
  | _ => bad_args
  end.

(* impl observation: (accepted err? count|-1).  The property:
   - what was accepted is a prefix of the fault-free output, at most k bytes;
   - k < |output|  ->  an error is reported;   k >= |output| -> success with the whole output;
   - a returned count equals the number of bytes accepted. *)
Definition judge_fault (args : list sx) (impl : sx) : bool :=
  match args, impl with
  | kind :: SL a :: SZ k :: mode :: _, SL [SB acc; SZ err; SZ cnt] =>
      if fault_taint kind a then false else
      match fault_output kind a with
      | Some (Ok out) =>
          let kN := Z.to_N k in
          (* mode 2: the Write that crosses the budget, and every later one, takes all its bytes and still
             reports an error: more than k bytes arrive, and the error must surface all the same *)
          let full := match mode with SZ 2%Z => true | _ => false end in
          is_prefix acc out && (if full then (if kN <? lenN out then kN <? lenN acc else true) else (lenN acc <=? kN))
          && (if kN <? lenN out then negb (err =? 0)%Z
              else (err =? 0)%Z && bytes_eqb acc out)
          && ((cnt =? -1)%Z || (cnt =? Z.of_N (lenN acc))%Z)
      | _ => false
      end
  | _, _ => false
  end.

Definition dispatch_fault (op : bytes) (args : list sx) : option sx :=
  if bytes_eqb op (s2b "fault") then Some (op_fault args) else None.
