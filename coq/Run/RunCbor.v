(* Line-protocol operations for the CBOR encoder / decoder models. *)
From WP Require Import Base.Prelude Run.Sx Model.Cbor.
Open Scope N_scope.

Fixpoint item_of_sx (fuel : nat) (s : sx) : option item :=
  match fuel with
  | O => None
  | S fuel' =>
      match s with
      | SL [t; a] =>
          if tag_is t "u" then let? n := as_n a in Some (IUint n)
          else if tag_is t "i" then let? z := as_z a in Some (IInt z)
          else if tag_is t "b" then let? b := as_b a in Some (IBytes b)
          else if tag_is t "t" then let? b := as_b a in Some (IText b)
          else if tag_is t "a" then let? n := as_n a in Some (IArr n)
          else if tag_is t "o" then let? b := as_bool a in Some (IBool b)
          else if tag_is t "m" then
            let? es := as_l a in
            let? ents := omap (fun e =>
              match e with
              | SL [SL k; SL v] =>
                  let? k' := omap (item_of_sx fuel') k in
                  let? v' := omap (item_of_sx fuel') v in Some [(k', v')]
              | SL [SL k; SL v; _] =>                      (* the same entry object passed twice *)
                  let? k' := omap (item_of_sx fuel') k in
                  let? v' := omap (item_of_sx fuel') v in Some [(k', v'); (k', v')]
              | _ => None
              end) es in
            Some (IMap (List.concat ents))
          else None
      | _ => None
      end
  end.

Definition op_cbor_prog (args : list sx) : sx :=
  match omap (item_of_sx 64) args with
  | Some items => sx_bytes_R (run_items items)
  | None => bad_args
  end.

(* cbor_dec (kinds) input : decode a sequence of items from one reader *)
Definition dec_one (kind : sx) (bs : bytes) : R (sx * bytes) :=
  if tag_is kind "uint" then let* (n, r) := decode_uint bs in Ok (sN n, r)
  else if tag_is kind "arr" then let* (n, r) := decode_array_header bs in Ok (sN n, r)
  else if tag_is kind "map" then let* (n, r) := decode_map_header bs in Ok (sN n, r)
  else if tag_is kind "bytes" then let* (s, r) := decode_bytes bs in Ok (SB s, r)
  else if tag_is kind "text" then let* (s, r) := decode_text bs in Ok (SB s, r)
  else Panic.

Fixpoint dec_seq (kinds : list sx) (bs : bytes) (acc : list sx) : sx :=
  match kinds with
  | [] => SL [sym "ok"; SL (rev acc); sN (lenN bs)]
  | k :: t =>
      match dec_one k bs with
      | Ok (v, r) => dec_seq t r (v :: acc)
      | Err => SL [sym "err"; SL (rev acc)]
      | Panic => SL [sym "panic"]
      | Fuel => SL [sym "fuel"]
      end
  end.

Definition op_cbor_dec (args : list sx) : sx :=
  match args with
  | [SL kinds; SB input] => dec_seq kinds input []
  | [SL kinds; SB input; _] => dec_seq kinds input []      (* reader without Len(): same answers *)
  | _ => bad_args
  end.

Definition op_cbor_text_batch (args : list sx) : sx :=
  match args with
  | [SL l] => SL (map (fun s => match s with SB b => sbool (utf8_valid b) | _ => SZ (-1) end) l)
  | _ => bad_args
  end.

(* cbor_dec_segments ((kinds) x..)...: ONE decoder on a reader that is fed segment by
   segment (it reports EOF at the end of each segment).  A decode that fails at
   the end of a segment has consumed what was there; the harness stops at the first failing call of a
   segment and drains it, so the next segment starts fresh ON THE SAME DECODER. *)
Fixpoint dec_seq_cont (kinds : list sx) (bs : bytes) (acc : list sx) : list sx :=
  match kinds with
  | [] => rev acc
  | k :: t =>
      match dec_one k bs with
      | Ok (v, r) => dec_seq_cont t r (SL [sym "ok"; v] :: acc)
      | _ => rev (SL [sym "err"] :: acc)       (* the harness drains the segment after an error *)
      end
  end.
Definition op_cbor_dec_segments (args : list sx) : sx :=
  SL (map (fun s => match s with
                    | SL [SL kinds; SB seg] => SL (dec_seq_cont kinds seg [])
                    | _ => bad_args end) args).

(* cbor_map_twice entries... : the same entry objects handed to EncodeMap twice: same bytes twice *)
Definition op_cbor_map_twice (args : list sx) : sx :=
  match item_of_sx 64 (SL [sym "m"; SL args]) with
  | Some it => let r := sx_bytes_R (run_items [it]) in SL [r; r]
  | None => bad_args
  end.

(* cbor_prog_cont items... : each call on its own; a refused call contributes nothing *)
Definition op_cbor_prog_cont (args : list sx) : sx :=
  match omap (item_of_sx 64) args with
  | Some items =>
      let rs := map (fun it => run_items [it]) items in
      SL [SB (flat_map (fun r => match r with Ok b => b | _ => [] end) rs);
          SL (map (fun r => match r with Ok _ => SZ 1 | _ => SZ 0 end) rs)]
  | None => bad_args
  end.

Definition dispatch_cbor (op : bytes) (args : list sx) : option sx :=
  if bytes_eqb op (s2b "cbor_prog") then Some (op_cbor_prog args)
  else if bytes_eqb op (s2b "cbor_dec") then Some (op_cbor_dec args)
  else if bytes_eqb op (s2b "cbor_text_batch") then Some (op_cbor_text_batch args)
  else if bytes_eqb op (s2b "cbor_dec_segments") then Some (op_cbor_dec_segments args)
  else if bytes_eqb op (s2b "cbor_map_twice") then Some (op_cbor_map_twice args)
  else if bytes_eqb op (s2b "cbor_prog_cont") then Some (op_cbor_prog_cont args)
  else None.
