(* Helpers to take apart the s-expressions of the line protocol. *)
From WP Require Import Base.Prelude.
Open Scope N_scope.

Definition as_b (s : sx) : option bytes := match s with SB b => Some b | _ => None end.
Definition as_z (s : sx) : option Z := match s with SZ z => Some z | _ => None end.
Definition as_n (s : sx) : option N :=
  match s with SZ z => if (0 <=? z)%Z then Some (Z.to_N z) else None | _ => None end.
Definition as_l (s : sx) : option (list sx) := match s with SL l => Some l | _ => None end.
Definition as_bool (s : sx) : option bool :=
  match s with SZ z => Some (negb (z =? 0)%Z) | _ => None end.

Definition tag_is (s : sx) (name : string) : bool :=
  match s with SB b => bytes_eqb b (s2b name) | _ => false end.

Definition obind {A B} (o : option A) (f : A -> option B) : option B :=
  match o with Some a => f a | None => None end.
Notation "'let?' x ':=' c 'in' k" := (obind c (fun x => k))
  (at level 200, x pattern, c at level 100, k at level 200, right associativity).

Fixpoint omap {A B} (f : A -> option B) (l : list A) : option (list B) :=
  match l with
  | [] => Some []
  | a :: t => let? b := f a in let? r := omap f t in Some (b :: r)
  end.

Definition bad_args : sx := SL [sym "badargs"].
Definition sx_bytes_R (r : R bytes) : sx := sx_of_R SB r.
Definition sx_list {A} (f : A -> sx) (l : list A) : sx := SL (map f l).
Definition sx_opt {A} (f : A -> sx) (o : option A) : sx :=
  match o with Some a => SL [sym "some"; f a] | None => SL [sym "none"] end.
