From WP Require Import Base.Prelude Base.Sha256 Run.Sx.
From WP Require Import Model.Http Model.Url Model.Mice Model.StructHdr Model.CertChain Model.BigEndian Model.Sxg.
Open Scope N_scope.

Definition version_of (s : sx) : option version :=
  if tag_is s "b1" then Some V1b1 else if tag_is s "b2" then Some V1b2
  else if tag_is s "b3" then Some V1b3 else None.
Definition version_sx (v : version) : sx :=
  match v with V1b1 => sym "b1" | V1b2 => sym "b2" | V1b3 => sym "b3" end.

(* (name value): http.Header.Add (canonicalises the key);
   (name value raw): h[name] = append(h[name], value) - a caller-built map with a verbatim key *)
Definition pair_of_sx (s : sx) : option (bytes * bytes * bool) :=
  match s with
  | SL [SB k; SB v] => Some (k, v, false)
  | SL [SB k; SB v; _] => Some (k, v, true)
  | _ => None
  end.
Definition headers_of_sx (s : sx) : option headers :=
  match s with
  | SL l =>
      let? ps := omap pair_of_sx l in
      Some (fold_left (fun (h : headers) (p : bytes * bytes * bool) =>
                         if snd p then hdr_add_raw h (fst (fst p)) (snd (fst p))
                         else hdr_add h (fst (fst p)) (snd (fst p))) ps [])
  | _ => None
  end.

Definition hdr_lt (a b : bytes * list bytes) : bool := bytes_ltb (fst a) (fst b).
Definition headers_sx (h : headers) : sx :=
  SL (map (fun nv => SL [SB (fst nv); SL (map SB (snd nv))]) (isort hdr_lt h)).

(* exchange: (ver uri method ((k v)...) status ((k v)...) sig payload) *)
Definition exchange_of_sx (s : sx) : option exchange :=
  match s with
  | SL [v; SB uri; SB meth; rq; SZ st; rs; SB sg; SB pl] =>
      let? v' := version_of v in
      let? rq' := headers_of_sx rq in
      let? rs' := headers_of_sx rs in
      Some {| e_ver := v'; e_uri := uri; e_method := meth; e_reqh := rq'; e_status := st;
              e_resph := rs'; e_sig := sg; e_payload := pl; e_taint := false |}
  | _ => None
  end.
Definition exchange_sx (e : exchange) : sx :=
  SL [version_sx (e_ver e); SB (e_uri e); SB (e_method e); headers_sx (e_reqh e);
      SZ (e_status e); headers_sx (e_resph e); SB (e_sig e); SB (e_payload e)].

Definition unknown_sx : sx := SL [sym "undecided"].
Definition sx_exchange_R (r : R exchange) : sx :=
  match r with
  | Ok e => if e_taint e then unknown_sx else SL [sym "ok"; exchange_sx e]
  | _ => sx_of_R exchange_sx r
  end.

Definition op_sxg_headers (args : list sx) : sx :=
  match args with
  | [e] => match exchange_of_sx e with
           | Some e => sx_bytes_R (encode_exchange_headers e)
           | None => bad_args end
  | _ => bad_args
  end.
Definition op_sxg_header_integrity (args : list sx) : sx :=
  match args with
  | [e] => match exchange_of_sx e with
           | Some e => sx_bytes_R (header_integrity sha256 e)
           | None => bad_args end
  | _ => bad_args
  end.
Definition op_sxg_write (args : list sx) : sx :=
  match args with
  | [e] => match exchange_of_sx e with
           | Some e => if write_taint e then unknown_sx else sx_bytes_R (write e)
           | None => bad_args end
  | _ => bad_args
  end.
Definition op_sxg_read (args : list sx) : sx :=
  match args with
  | [SB bs] => sx_exchange_R (read bs)
  | _ => bad_args
  end.
Definition op_sxg_mi_encode (args : list sx) : sx :=
  match args with
  | [e; SZ rs] => match exchange_of_sx e with
                  | Some e => sx_exchange_R (mi_encode_payload sha256 e (Z.to_N rs))
                  | None => bad_args end
  | _ => bad_args
  end.

(* sxg_signed_message exch (certs...) validity date expires *)
Definition op_sxg_signed_message (args : list sx) : sx :=
  match args with
  | [e; SL certs; SB validity; SZ date; SZ expires] =>
      match exchange_of_sx e, omap as_b certs with
      | Some e, Some cs => sx_bytes_R (signed_message e (cert_sha256 sha256 cs) validity date expires)
      | _, _ => bad_args
      end
  | _ => bad_args
  end.

(* sxg_sigheader exch (certs) certurl validity date expires : with the mock
   signing algorithm (signature = SHA-256 of the message) *)
Definition op_sxg_sigheader (args : list sx) : sx :=
  match args with
  | [e; SL certs; SB certurl; SB validity; SZ date; SZ expires] =>
      match exchange_of_sx e, omap as_b certs with
      | Some e, Some cs =>
          match url_parse certurl with
          | UUnknown => unknown_sx
          | UErr => bad_args
          | UOk sch _ _ _ =>
              if negb (bytes_eqb sch (s2b "https") || bytes_eqb sch (s2b "data")) then SL [sym "err"]
              else
                sx_bytes_R
                  (let* msg := signed_message e (cert_sha256 sha256 cs) validity date expires in
                   signature_header_value sha256 e cs certurl validity date expires (sha256 msg))
          end
      | _, _ => bad_args
      end
  | _ => bad_args
  end.

(* tables: fetch ((url (ok bytes))|(url (err))...), x509 ((der keyid)|(der -1)...), sig ((keyid msg sig)...) *)
Definition fetch_of (tab : list sx) (u : bytes) : R bytes :=
  match find (fun s => match s with SL (SB u' :: _) => bytes_eqb u u' | _ => false end) tab with
  | Some (SL [_; SB b]) => Ok b
  | _ => Err
  end.
Definition x509_of (tab : list sx) (der : bytes) : option (option N) :=
  match find (fun s => match s with SL (SB d :: _) => bytes_eqb d der | _ => false end) tab with
  | Some (SL [_; SZ k]) => if (k <? 0)%Z then Some None else Some (Some (Z.to_N k))
  | _ => None
  end.
Definition sig_of (tab : list sx) (kid : N) (msg sg : bytes) : bool :=
  existsb (fun s => match s with
                    | SL [SZ k; SB m; SB g] => (Z.of_N kid =? k)%Z && bytes_eqb m msg && bytes_eqb g sg
                    | _ => false end) tab.

Definition verdict_sx (v : verdict) : sx :=
  match v with
  | Valid p => SL [sym "valid"; SB p]
  | Invalid => SL [sym "invalid"]
  | Undecided => unknown_sx
  end.

(* sxg_verify exch tsec tnsec statusknown fetchtab x509tab sigtab *)
Definition op_sxg_verify (args : list sx) : sx :=
  match args with
  | [e; SZ tsec; SZ tnsec; SZ sk; SL ft; SL xt; SL st] =>
      match exchange_of_sx e with
      | Some e =>
          verdict_sx (verify sha256 (x509_of xt) (sig_of st) (fun _ => negb (sk =? 0)%Z) (fetch_of ft) e tsec tnsec)
      | None => bad_args
      end
  | _ => bad_args
  end.

(* sxg_verdict_roundtrip e tsec tnsec statusknown fetchtab x509tab sigtab : C02's last clause
   evaluated on the implementation itself: Verify in memory, Write, ReadExchange, Verify
   again.  Output (written? verdict-before verdict-after). *)
Definition op_sxg_verdict_roundtrip (args : list sx) : sx :=
  match args with
  | [e; SZ tsec; SZ tnsec; SZ sk; SL ft; SL xt; SL st] =>
      match exchange_of_sx e with
      | Some e =>
          let vf := fun x => verify sha256 (x509_of xt) (sig_of st) (fun _ => negb (sk =? 0)%Z) (fetch_of ft) x tsec tnsec in
          let v1 := verdict_sx (vf e) in
          if write_taint e || sx_eqb v1 unknown_sx then unknown_sx else
          match write e with
          | Ok bs =>
              match read bs with
              | Ok e' => if e_taint e' then unknown_sx else
                         let v2 := verdict_sx (vf e') in
                         if sx_eqb v2 unknown_sx then unknown_sx else SL [sym "written"; v1; v2]
              | _ => SL [sym "unreadable"; v1]
              end
          | _ => SL [sym "refused"; v1]
          end
      | None => bad_args
      end
  | _ => bad_args
  end.
(* the property-level judge: the implementation agrees with the model AND the two verdicts agree *)
Definition judge_verdict_roundtrip (args : list sx) (impl : sx) : bool :=
  sx_eqb (op_sxg_verdict_roundtrip args) impl
  && match impl with
     | SL [t; v1; v2] => sx_eqb v1 v2
     | SL [t; v1] => tag_is t "refused"
     | _ => false
     end.

(* sxg_read_verify bytes tsec tnsec statusknown-list((code 0/1)...) fetchtab x509tab sigtab *)
Definition op_sxg_read_verify (args : list sx) : sx :=
  match args with
  | [SB bs; SZ tsec; SZ tnsec; SL sk; SL ft; SL xt; SL st] =>
      match read bs with
      | Ok e =>
          let known := fun code => existsb (fun s => match s with SL [SZ c; SZ b] => (c =? code)%Z && negb (b =? 0)%Z | _ => false end) sk in
          verdict_sx (verify sha256 (x509_of xt) (sig_of st) known (fetch_of ft) e tsec tnsec)
      | _ => SL [sym "invalid"]
      end
  | _ => bad_args
  end.

(* an edit of a parsed, in-memory exchange *)
Definition apply_edit (e : exchange) (ed : sx) : option exchange :=
  match ed with
  | SL [t; SZ st] =>
      if tag_is t "status" then
        Some {| e_ver := e_ver e; e_uri := e_uri e; e_method := e_method e; e_reqh := e_reqh e; e_status := st;
                e_resph := e_resph e; e_sig := e_sig e; e_payload := e_payload e; e_taint := e_taint e |}
      else None
  | SL [t; SB k; SB v] =>
      if tag_is t "addresp" then
        Some {| e_ver := e_ver e; e_uri := e_uri e; e_method := e_method e; e_reqh := e_reqh e; e_status := e_status e;
                e_resph := hdr_add (e_resph e) k v; e_sig := e_sig e; e_payload := e_payload e; e_taint := e_taint e |}
      else if tag_is t "addreq" then
        Some {| e_ver := e_ver e; e_uri := e_uri e; e_method := e_method e; e_reqh := hdr_add (e_reqh e) k v;
                e_status := e_status e; e_resph := e_resph e; e_sig := e_sig e; e_payload := e_payload e; e_taint := e_taint e |}
      else None
  | SL [t; SB v] =>
      if tag_is t "method" then
        Some {| e_ver := e_ver e; e_uri := e_uri e; e_method := v; e_reqh := e_reqh e; e_status := e_status e;
                e_resph := e_resph e; e_sig := e_sig e; e_payload := e_payload e; e_taint := e_taint e |}
      else if tag_is t "payload" then
        Some {| e_ver := e_ver e; e_uri := e_uri e; e_method := e_method e; e_reqh := e_reqh e; e_status := e_status e;
                e_resph := e_resph e; e_sig := e_sig e; e_payload := v; e_taint := e_taint e |}
      else None
  | _ => None
  end.

(* sxg_read_edit_verify bytes (edits) tsec tnsec statustab fetchtab x509tab sigtab:
   ReadExchange, then edit the parsed exchange, then Verify *)
Definition op_sxg_read_edit_verify (args : list sx) : sx :=
  match args with
  | [SB bs; SL eds; SZ tsec; SZ tnsec; SL sk; SL ft; SL xt; SL st] =>
      match read bs with
      | Ok e0 =>
          match fold_left (fun acc ed => match acc with Some e => apply_edit e ed | None => None end) eds (Some e0) with
          | Some e =>
              let known := fun code => existsb (fun s => match s with SL [SZ c; SZ b] => (c =? code)%Z && negb (b =? 0)%Z | _ => false end) sk in
              verdict_sx (verify sha256 (x509_of xt) (sig_of st) known (fetch_of ft) e tsec tnsec)
          | None => bad_args
          end
      | _ => SL [sym "invalid"]
      end
  | _ => bad_args
  end.

(* sxg_history exch (actions...) : a sequence of calls on ONE in-memory exchange;
   every observing action appends its result.  Actions: (integrity) (headers)
   (write) (miencode rs) and the edits of apply_edit. *)
Fixpoint run_history (fuel : nat) (e : exchange) (acts : list sx) (acc : list sx) : sx :=
  match fuel with
  | O => SL (rev acc)
  | S f =>
      match acts with
      | [] => SL (rev acc)
      | a :: t =>
          match a with
          | SL [tg] =>
              if tag_is tg "integrity" then run_history f e t (sx_bytes_R (header_integrity sha256 e) :: acc)
              else if tag_is tg "headers" then run_history f e t (sx_bytes_R (encode_exchange_headers e) :: acc)
              else if tag_is tg "write" then run_history f e t (sx_bytes_R (write e) :: acc)
              else bad_args
          | SL [tg; SZ rs] =>
              if tag_is tg "miencode" then
                match mi_encode_payload sha256 e (Z.to_N rs) with
                | Ok e' => run_history f e' t (SL [sym "ok"] :: acc)
                | _ => run_history f e t (SL [sym "err"] :: acc)
                end
              else match apply_edit e a with Some e' => run_history f e' t acc | None => bad_args end
          | _ => match apply_edit e a with Some e' => run_history f e' t acc | None => bad_args end
          end
      end
  end.

Definition op_sxg_history (args : list sx) : sx :=
  match args with
  | [e; SL acts] =>
      match exchange_of_sx e with
      | Some e' => if write_taint e' then unknown_sx else run_history (S (List.length acts)) e' acts []
      | None => bad_args
      end
  | _ => bad_args
  end.

Definition is_undecided (m : sx) : bool := sx_eqb m unknown_sx.
(* sxg_read_verify_seq bytes tsec tnsec statustab (fetchtab...) x509tab sigtab : one exchange
   verified with a sequence of fetchers; every verdict depends on its own fetch only *)
Definition op_sxg_read_verify_seq (args : list sx) : sx :=
  match args with
  | [SB bs; SZ tsec; SZ tnsec; SL sk; SL fts; SL xt; SL st] =>
      match read bs with
      | Ok e =>
          let known := fun code => existsb (fun s => match s with SL [SZ c; SZ b] => (c =? code)%Z && negb (b =? 0)%Z | _ => false end) sk in
          if e_taint e then unknown_sx else
          SL (map (fun ft => match ft with
                             | SL f => verdict_sx (verify sha256 (x509_of xt) (sig_of st) known (fetch_of f) e tsec tnsec)
                             | _ => bad_args end) fts)
      | _ => SL [sym "invalid"]
      end
  | _ => bad_args
  end.

(* sxg_read_verify_history bytes tsec tnsec statustab fetchtab x509tab sigtab:
   ReadExchange, Verify, Verify again, Write.  Verify must not change the exchange. *)
Definition op_sxg_read_verify_history (args : list sx) : sx :=
  match args with
  | [SB bs; SZ tsec; SZ tnsec; SL sk; SL ft; SL xt; SL st] =>
      match read bs with
      | Ok e =>
          let known := fun code => existsb (fun s => match s with SL [SZ c; SZ b] => (c =? code)%Z && negb (b =? 0)%Z | _ => false end) sk in
          let v := verdict_sx (verify sha256 (x509_of xt) (sig_of st) known (fetch_of ft) e tsec tnsec) in
          if e_taint e || is_undecided v then unknown_sx else SL [v; v; sx_bytes_R (write e)]
      | _ => SL [sym "invalid"]
      end
  | _ => bad_args
  end.

Definition op_bigendian (args : list sx) : sx :=
  match args with
  | [SZ n; SZ size] => sx_bytes_R (be_encode n (Z.to_N size))
  | _ => bad_args
  end.

Definition op_url (args : list sx) : sx :=
  match args with
  | [SB u] => match url_parse u with
              | UErr => SL [sym "err"]
              | UOk s h _ _ => SL [sym "ok"; SB s; SB h]
              | UUnknown => unknown_sx
              end
  | _ => bad_args
  end.

(* (undecided) on the model side: the case is outside the model's decided domain *)

Definition dispatch_sxg (op : bytes) (args : list sx) : option sx :=
  if bytes_eqb op (s2b "sxg_headers") then Some (op_sxg_headers args)
  else if bytes_eqb op (s2b "sxg_header_integrity") then Some (op_sxg_header_integrity args)
  else if bytes_eqb op (s2b "sxg_write") then Some (op_sxg_write args)
  else if bytes_eqb op (s2b "sxg_read") then Some (op_sxg_read args)
  else if bytes_eqb op (s2b "sxg_mi_encode") then Some (op_sxg_mi_encode args)
  else if bytes_eqb op (s2b "sxg_signed_message") then Some (op_sxg_signed_message args)
  else if bytes_eqb op (s2b "sxg_sigheader") then Some (op_sxg_sigheader args)
  else if bytes_eqb op (s2b "sxg_verify") then Some (op_sxg_verify args)
  else if bytes_eqb op (s2b "sxg_read_verify") then Some (op_sxg_read_verify args)
  else if bytes_eqb op (s2b "sxg_read_edit_verify") then Some (op_sxg_read_edit_verify args)
  else if bytes_eqb op (s2b "sxg_history") then Some (op_sxg_history args)
  else if bytes_eqb op (s2b "sxg_read_verify_seq") then Some (op_sxg_read_verify_seq args)
  else if bytes_eqb op (s2b "sxg_verdict_roundtrip") then Some (op_sxg_verdict_roundtrip args)
  else if bytes_eqb op (s2b "sxg_read_verify_history") then Some (op_sxg_read_verify_history args)
  else if bytes_eqb op (s2b "bigendian") then Some (op_bigendian args)
  else if bytes_eqb op (s2b "url") then Some (op_url args)
  else None.
