From WP Require Import Base.Prelude Base.Sha256 Base.Sha512 Run.Sx Run.RunCC Run.RunSxg Run.RunBundle.
From WP Require Import Model.Http Model.CertChain Model.Bundle Model.Sxg Model.BundleSig Model.IntegrityBlock Model.Det.
Open Scope N_scope.

(* ---- bundle signatures -------------------------------------------------- *)
Definition ri_of_sx (s : sx) : option res_integrity :=
  match s with SL [SB h; SB i] => Some {| ri_hsha := h; ri_integ := i |} | _ => None end.
Definition ri_sx (r : res_integrity) : sx := SL [SB (ri_hsha r); SB (ri_integ r)].
Definition rh_of_sx (s : sx) : option (bytes * resp_hashes) :=
  match s with
  | SL [SB u; SB vv; SL hs] => let? l := omap ri_of_sx hs in Some (u, {| rh_variants := vv; rh_hashes := l |})
  | _ => None
  end.
Definition subset_of_sx (s : sx) : option signed_subset :=
  match s with
  | SL [SB v; SB a; SZ d; SZ x; SL hs] =>
      let? l := omap rh_of_sx hs in
      Some {| ss_validity := v; ss_auth := a; ss_date := d; ss_expires := x; ss_hashes := l |}
  | _ => None
  end.

Definition op_bsig_encode (args : list sx) : sx :=
  match args with
  | [s] => match subset_of_sx s with Some ss => sx_bytes_R (encode_subset ss) | None => bad_args end
  | _ => bad_args
  end.

Definition op_bsig_add_integrity (args : list sx) : sx :=
  match args with
  | [x; SZ rs] =>
      match bexchange_of_sx x with
      | Some x' => sx_of_R (fun p => SL [bexchange_sx (fst p); SB (snd p)]) (add_payload_integrity sha256 x' (Z.to_N rs))
      | None => bad_args
      end
  | _ => bad_args
  end.

Definition vx_sx (r : vx_result) : sx :=
  match r with
  | VxUnsigned => SL [sym "unsigned"]
  | VxErr => SL [sym "err"]
  | VxOk p a => SL [sym "ok"; SB p; SB a]
  | VxUndecided => unknown_sx
  end.

(* bsig_verify sigs tsec tnsec ver (exchanges...) x509tab sigtab *)
Definition op_bsig_verify (args : list sx) : sx :=
  match args with
  | [sg; SZ tsec; SZ tnsec; v; SL xs; SL xt; SL st] =>
      match sigs_of_sx sg, bversion_of v, omap bexchange_of_sx xs with
      | Some (Some sigs), Some ver, Some xs' =>
          match new_verifier sha256 (x509_of xt) (sig_of st) sigs tsec tnsec ver with
          | Ok vss => SL [sym "verifier"; SL (map (fun x => vx_sx (verify_exchange sha256 vss x)) xs')]
          | Panic => SL [sym "panic"]
          | _ => SL [sym "newerr"]
          end
      | _, _, _ => bad_args
      end
  | _ => bad_args
  end.

(* bsig_sign_flow ver sigs certs validity date duration ((exchange covered)...) rs :
   NewSigner; for covered exchanges AddPayloadIntegrity + AddExchange;
   UpdateSignatures with the mock algorithm (signature = SHA-256 of the message) *)
Fixpoint sign_exchanges (ss : signed_subset) (xs : list (bexchange * bool)) (rs : N) (acc : list bexchange)
  : R (signed_subset * list bexchange) :=
  match xs with
  | [] => Ok (ss, rev acc)
  | (x, false) :: t => sign_exchanges ss t rs (x :: acc)
  | (x, true) :: t =>
      let* (x', integ) := add_payload_integrity sha256 x rs in
      let* ss' := add_exchange sha256 ss x' integ in
      sign_exchanges ss' t rs (x' :: acc)
  end.

Definition op_bsig_sign_flow (args : list sx) : sx :=
  match args with
  | [v; sg; SL certs; SB validity; SZ date; SZ dur; SL xs; SZ rs] =>
      match bversion_of v, sigs_of_sx sg, omap augcert_of_sx certs,
            omap (fun s => match s with SL [x; SZ c] => let? x' := bexchange_of_sx x in Some (x', negb (c =? 0)%Z) | _ => None end) xs with
      | Some ver, Some sigs, Some cs, Some xs' =>
          sx_of_R (fun p => SL [sigs_sx (Some (fst p)); SL (map bexchange_sx (snd p))])
            (let* ss0 := new_signer sha256 cs validity date dur in
             let* (ss, xs'') := sign_exchanges ss0 xs' (Z.to_N rs) [] in
             let* signed := encode_subset ss in
             Ok (update_signatures sigs cs signed (sha256 (generate_signed_message signed ver)), xs''))
      | _, _, _, _ => bad_args
      end
  | _ => bad_args
  end.

(* ---- integrity block ---------------------------------------------------- *)
Definition attr_of_sx (s : sx) : option (bytes * bytes) :=
  match s with SL [SB k; SB v] => Some (k, v) | _ => None end.
Definition isig_of_sx (s : sx) : option isig :=
  match s with
  | SL [SL a; SB sg] => let? a' := omap attr_of_sx a in Some {| is_attrs := a'; is_sig := sg |}
  | _ => None
  end.
Definition attr_lt (a b : bytes * bytes) : bool := bytes_ltb (fst a) (fst b).
Definition isig_sx (s : isig) : sx :=
  SL [SL (map (fun kv => SL [SB (fst kv); SB (snd kv)]) (isort attr_lt (is_attrs s))); SB (is_sig s)].

Definition op_ib_block_cbor (args : list sx) : sx :=
  match omap isig_of_sx args with
  | Some st => sx_bytes_R (block_cbor {| ib_stack := st |})
  | None => bad_args
  end.

Definition op_ib_dtbs (args : list sx) : sx :=
  match args with
  | [SB h; SB blk; SL a] =>
      match omap attr_of_sx a with Some a' => sx_bytes_R (data_to_be_signed h blk a') | None => bad_args end
  | _ => bad_args
  end.

Definition op_ib_obtain (args : list sx) : sx :=
  match args with
  | [SB file] => sx_of_R (fun _ => SL []) (obtain file)
  | _ => bad_args
  end.

(* oracle tables: sign ((msg sig)...), verify ((pk msg sig 0/1)...) *)
Definition strat_of (tab : list sx) (msg : bytes) : R bytes :=
  match find (fun s => match s with SL [SB m; SB _] => bytes_eqb m msg | _ => false end) tab with
  | Some (SL [_; SB sg]) => Ok sg
  | _ => Err
  end.
Definition edok_of (tab : list sx) (pk msg sg : bytes) : bool :=
  existsb (fun s => match s with
                    | SL [SB p; SB m; SB g; SZ ok] => bytes_eqb p pk && bytes_eqb m msg && bytes_eqb g sg && negb (ok =? 0)%Z
                    | _ => false end) tab.

(* ib_sign_and_add hash (stack) pk (attrs) signtab verifytab *)
Definition op_ib_sign_and_add (args : list sx) : sx :=
  match args with
  | SB h :: SL st :: SB pk :: SL a :: SL stab :: SL vtab :: _ =>
      match omap isig_of_sx st, omap attr_of_sx a with
      | Some st', Some a' =>
          sx_of_R (fun b => SL (map isig_sx (ib_stack b)))
                  (sign_and_add (strat_of stab) (edok_of vtab) h {| ib_stack := st' |} pk a')
      | _, _ => bad_args
      end
  | _ => bad_args
  end.

(* ib_sign_file file pk signtab verifytab *)
(* ib_sign_attempts hash (stack) ((pk (attrs) signtab verifytab)...): several calls of
   SignAndAddNewSignature on ONE signer; after every call the stack is reported
   (a failing call must leave it unchanged). *)
Fixpoint sign_attempts (h : bytes) (b : iblock) (atts : list sx) (acc : list sx) : sx :=
  match atts with
  | [] => SL (rev acc)
  | SL (SB pk :: SL a :: SL stab :: SL vtab :: _) :: t =>
      match omap attr_of_sx a with
      | Some a' =>
          match sign_and_add (strat_of stab) (edok_of vtab) h b pk a' with
          | Ok b' => sign_attempts h b' t (SL [sym "ok"; SL (map isig_sx (ib_stack b'))] :: acc)
          | _ => sign_attempts h b t (SL [sym "err"; SL (map isig_sx (ib_stack b))] :: acc)
          end
      | None => bad_args
      end
  | _ => bad_args
  end.
Definition op_ib_sign_attempts (args : list sx) : sx :=
  match args with
  | [SB h; SL st; SL atts] =>
      match omap isig_of_sx st with
      | Some st' => sign_attempts h {| ib_stack := st' |} atts []
      | None => bad_args
      end
  | _ => bad_args
  end.

Definition op_ib_sign_file (args : list sx) : sx :=
  match args with
  | SB file :: SB pk :: SL stab :: SL vtab :: _ =>
      sx_bytes_R (sign_file sha512 (strat_of stab) (edok_of vtab) file pk)
  | _ => bad_args
  end.

Definition op_ib_id (args : list sx) : sx :=
  match args with [SB pk] => SB (web_bundle_id pk) | _ => bad_args end.

Definition op_sha512 (args : list sx) : sx :=
  match args with [SB m] => SB (sha512 m) | _ => bad_args end.

Definition dispatch_sig (op : bytes) (args : list sx) : option sx :=
  if bytes_eqb op (s2b "bsig_encode") then Some (op_bsig_encode args)
  else if bytes_eqb op (s2b "bsig_add_integrity") then Some (op_bsig_add_integrity args)
  else if bytes_eqb op (s2b "bsig_verify") then Some (op_bsig_verify args)
  else if bytes_eqb op (s2b "bsig_sign_flow") then Some (op_bsig_sign_flow args)
  else if bytes_eqb op (s2b "ib_block_cbor") then Some (op_ib_block_cbor args)
  else if bytes_eqb op (s2b "ib_dtbs") then Some (op_ib_dtbs args)
  else if bytes_eqb op (s2b "ib_obtain") then Some (op_ib_obtain args)
  else if bytes_eqb op (s2b "ib_sign_and_add") then Some (op_ib_sign_and_add args)
  else if bytes_eqb op (s2b "ib_sign_file") then Some (op_ib_sign_file args)
  else if bytes_eqb op (s2b "ib_sign_attempts") then Some (op_ib_sign_attempts args)
  (* two signer objects on one block: the block is the only state, so the answer is that of one signer *)
  else if bytes_eqb op (s2b "ib_sign_shared") then Some (op_ib_sign_attempts args)
  (* CanSignForURL against the standard library's hostname matching: the harness compares *)
  else if bytes_eqb op (s2b "bsig_can_sign") then Some (SL [sym "same"])
  (* a chain object shared by the first signer of two bundles: both bundles verify afterwards *)
  else if bytes_eqb op (s2b "bsig_two_bundles") then Some (SL [SZ 1; SZ 1])
  (* add ok, add refused, repaired add ok, both exchanges verify *)
  (* one signer, window moved a week on between two signatures: each verifies in its own window only *)
  else if bytes_eqb op (s2b "bsig_resign") then Some (SL [SZ 1; SZ 0; SZ 1; SZ 0])
  else if bytes_eqb op (s2b "bsig_add_retry") then Some (SL [SZ 1; SZ 0; SZ 1; SZ 1; SZ 1])
  (* one Signer re-keyed between signatures: every exchange verifies against the certificate it names *)
  else if bytes_eqb op (s2b "sxg_signer_rekey") then Some (SL [SZ 1; SZ 1; SZ 1])
  else if bytes_eqb op (s2b "ib_id") then Some (op_ib_id args)
  else if bytes_eqb op (s2b "sha512") then Some (op_sha512 args)
  else None.
