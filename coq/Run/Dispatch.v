(* Entry points of the extracted runner: [dispatch] evaluates the model on a
   case, [judge] compares with what the implementation did. *)
From WP Require Import Base.Prelude Run.Sx Run.RunCbor Run.RunDet Run.RunMice Run.RunSH Run.RunSxg Run.RunCC Run.RunBundle Run.RunSig Run.RunFault Run.RunConc Run.RunMem Run.RunCli.
Open Scope N_scope.

Definition first_some {A} (l : list (option A)) : option A :=
  fold_right (fun o acc => match o with Some a => Some a | None => acc end) None l.

Definition dispatch1 (op : bytes) (args : list sx) : option sx :=
  first_some [dispatch_cbor op args; dispatch_det op args; dispatch_mice op args; dispatch_sh op args; dispatch_sxg op args; dispatch_cc op args; dispatch_bundle op args; dispatch_sig op args; dispatch_fault op args; dispatch_mem op args; dispatch_cli op args].

Definition dispatch_base (op : bytes) (args : list sx) : sx :=
  match dispatch1 op args with Some r => r | None => SL [sym "unknown_op"] end.

Definition dispatch (op : bytes) (args : list sx) : sx :=
  match dispatch1 op args with
  | Some r => r
  | None =>
      match dispatch_conc dispatch_base op args with
      | Some r => r
      | None => SL [sym "unknown_op"]
      end
  end.

(* an answer that contains (undecided) anywhere (e.g. inside the per-goroutine results of a
   concurrency case) is outside the decided class of the model *)
Fixpoint has_undecided (fuel : nat) (m : sx) : bool :=
  match fuel with
  | O => false
  | S f => is_undecided m || match m with SL l => existsb (has_undecided f) l | _ => false end
  end.

(* verdict: (ok) or (diff expected) *)
Definition judge (op : bytes) (args : list sx) (impl : sx) : sx :=
  let m := dispatch op args in
  let same :=
    if bytes_eqb op (s2b "mi_dec") then judge_mi_dec args impl
    else if bytes_eqb op (s2b "fault") then judge_fault args impl
    else if bytes_eqb op (s2b "mem") then judge_mem args impl
    else if bytes_eqb op (s2b "sxg_verdict_roundtrip") then judge_verdict_roundtrip args impl
    else sx_eqb m impl in
  (* an undecided model answer leaves every RESULT open, but not a run-time panic, a hang or a dead
     process: none of the undecided classes (URLs outside the URL model) is one where the code panics
     on purpose *)
  let abnormal :=
    sx_eqb impl (SL [sym "panic"]) || sx_eqb impl (SL [sym "timeout"]) || sx_eqb impl (SL [sym "crashed"]) in
  if same then SL [sym "ok"]
  else if has_undecided 6 m && negb abnormal then SL [sym "skip"]
  else SL [sym "diff"; m].
