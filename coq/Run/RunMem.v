(* C10: resource observation.  impl = (status alloc-bytes); the judge is the
   property: a value or an error (no panic, no timeout) and allocation within
   a constant plus a small multiple of the input size. *)
From WP Require Import Base.Prelude Run.Sx.
Open Scope N_scope.

(* the constant covers the two 3-byte prologue lengths of a signed exchange
   (2 * 2^24), the MI record buffer and Go runtime noise *)
Definition mem_const : N := 48 * 1024 * 1024.
Definition mem_factor : N := 24.

Fixpoint sx_size (fuel : nat) (s : sx) : N :=
  match fuel with
  | O => 0
  | S f =>
      match s with
      | SZ _ => 8
      | SB b => lenN b
      | SL l => fold_left (fun acc x => acc + sx_size f x) l 0
      end
  end.

Definition judge_mem (args : list sx) (impl : sx) : bool :=
  match args, impl with
  | _ :: input, SL [st; SZ alloc] =>
      (tag_is st "ok" || tag_is st "err")
      && (Z.to_N alloc <=? mem_const + mem_factor * sx_size 8 (SL input))
  | _, _ => false
  end.

Definition op_mem (args : list sx) : sx := SL [sym "bounded"].

(* read_fault kind file p : a parser whose source delivers the first p < |file| bytes of a VALID file and then
   fails with an I/O error (not end-of-file) must answer with an error - never a value, never a panic *)
Definition dispatch_mem (op : bytes) (args : list sx) : option sx :=
  if bytes_eqb op (s2b "mem") then Some (op_mem args)
  else if bytes_eqb op (s2b "read_fault") then Some (SL [sym "err"])
  else None.
