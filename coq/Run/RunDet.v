From WP Require Import Base.Prelude Run.Sx Model.Cbor Model.Det.
Open Scope N_scope.

Definition sx_verdict (v : verdict) : sx :=
  match v with Accept => SL [sym "accept"] | Reject => SL [sym "reject"] | Diverge => SL [sym "diverge"] end.

Definition op_det (args : list sx) : sx :=
  match args with
  | [SB input] => sx_verdict (det_check input)
  | _ => bad_args
  end.

(* det_batch: many inputs in one case (exhaustive small domains) *)
Definition op_det_batch (args : list sx) : sx :=
  match args with
  | [SL l] => SL (map (fun s => match s with
                                | SB b => match det_check b with Accept => SZ 1 | Reject => SZ 0 | Diverge => SZ 2 end
                                | _ => SZ (-1) end) l)
  | _ => bad_args
  end.

Definition dispatch_det (op : bytes) (args : list sx) : option sx :=
  if bytes_eqb op (s2b "det") then Some (op_det args)
  else if bytes_eqb op (s2b "det_batch") then Some (op_det_batch args)
  else None.
