From WP Require Import Base.Prelude Run.Sx Run.RunSxg Model.PathUrl.
Open Scope N_scope.

Definition fentry_of_sx (s : sx) : option fentry :=
  match s with
  | SL [SB rel; SZ d; SB content] => Some {| f_rel := rel; f_dir := negb (d =? 0)%Z; f_content := content |}
  | _ => None
  end.

Definition ex_lt (a b : bytes * Z * bytes) : bool := bytes_ltb (fst (fst a)) (fst (fst b)).

(* cli_gen_dir ver base (tree...) : exchanges of the produced bundle, sorted by URL,
   and "accepted by dump-bundle" *)
Definition op_cli_gen_dir (args : list sx) : sx :=
  match args with
  | [_; SB base; SL tree] =>
      match omap fentry_of_sx tree with
      | Some t =>
          match expected_exchanges base t with
          | Some xs => SL [sym "ok"; SZ 1;
                           SL (map (fun x => SL [SB (fst (fst x)); SZ (snd (fst x)); SB (snd x)]) (isort ex_lt xs))]
          | None => unknown_sx
          end
      | None => bad_args
      end
  | _ => bad_args
  end.

(* tool chains whose expected outcome is "accepted downstream" *)
Definition op_cli_chain (args : list sx) : sx := SL [sym "ok"].

Definition op_escape (args : list sx) : sx :=
  match args with [SB p] => SB (escape_path p) | _ => bad_args end.

Definition dispatch_cli (op : bytes) (args : list sx) : option sx :=
  if bytes_eqb op (s2b "cli_gen_dir") then Some (op_cli_gen_dir args)
  else if bytes_eqb op (s2b "cli_chain") then Some (op_cli_chain args)
  else if bytes_eqb op (s2b "escape_path") then Some (op_escape args)
  else None.
