From WP Require Import Base.Prelude Run.Sx Run.RunSxg Run.RunCC Run.RunBundle Model.PathUrl Model.Http Model.Bundle Model.Har.
Open Scope N_scope.

Definition fentry_of_sx (s : sx) : option fentry :=
  match s with
  | SL [SB rel; SZ d; SB content] => Some {| f_rel := rel; f_dir := negb (d =? 0)%Z; f_content := content |}
  | _ => None
  end.

Definition ex_lt (a b : bytes * Z * bytes) : bool := bytes_ltb (fst (fst a)) (fst (fst b)).

(* cli_gen_dir ver base (tree...) : exchanges of the produced bundle, sorted by URL,
   and "accepted by dump-bundle" *)
Definition op_cli_gen_dir (args : list sx) : sx :=
  match args with
  | _ :: SB base :: SL tree :: _ =>              (* optional 4th argument: how -dir was spelled (no influence) *)
      match omap fentry_of_sx tree with
      | Some t =>
          match expected_exchanges base t with
          | Some xs => SL [sym "ok"; SZ 1;
                           SL (map (fun x => SL [SB (fst (fst x)); SZ (snd (fst x)); SB (snd x)]) (isort ex_lt xs))]
          | None => unknown_sx
          end
      | None => bad_args
      end
  | _ => bad_args
  end.

(* tool chains whose expected outcome is "accepted downstream" *)
Definition op_cli_chain (args : list sx) : sx := SL [sym "ok"].

Definition op_escape (args : list sx) : sx :=
  (* URL.EscapedPath returns a Path that is exactly "*" unescaped (net/url's special case for "OPTIONS *");
     every other path, also one that merely contains '*', is escaped as the model says *)
  match args with
  | [SB p] => if bytes_eqb p [42] then SB [42] else SB (escape_path p)
  | _ => bad_args
  end.

(* cli_gen_har ver primary|() ((url method status ((name value)...) text b64)...) :
   gen-bundle -har, then bundle.Read and dump-bundle on the artifact.  Either the tool refuses
   the capture, or what it writes reads back as the exchanges fromHar keeps. *)
Definition hentry_of_sx (s : sx) : option hentry :=
  match s with
  | SL [SB u; SB m; SZ st; SL hs; SB txt; SZ b64] =>
      let? hs' := omap (fun h => match h with SL [SB k; SB v] => Some (k, v) | _ => None end) hs in
      Some {| h_url := u; h_method := m; h_status := st; h_resh := hs'; h_text := txt; h_b64 := negb (b64 =? 0)%Z |}
  | _ => None
  end.
Definition op_cli_gen_har (args : list sx) : sx :=
  match args with
  | [v; p; SL es] =>
      match bversion_of v, optb_of_sx p, omap hentry_of_sx es with
      | Some v', Some p', Some es' =>
          match from_har es' [] [] with
          | Ok xs =>
              let b := {| b_ver := v'; b_primary := p'; b_manifest := None; b_sigs := None; b_exchanges := xs; b_taint := false |} in
              if b_write_taint b then unknown_sx else
              match b_write b with
              | Ok bs =>
                  match b_read (fun _ => true) bs with
                  | Ok b' => if b_taint b' then unknown_sx else
                      SL [sym "ok"; SZ 1;
                          SL (map bexchange_sx
                                  (isort (fun a c => bytes_ltb (bx_url a) (bx_url c)) (b_exchanges b')))]
                  | _ => SL [sym "artifact_unreadable"]
                  end
              | _ => SL [sym "refused"]
              end
          | _ => SL [sym "refused"]
          end
      | _, _, _ => bad_args
      end
  | _ => bad_args
  end.

(* cli_gen_primary ver primary tree : Bundle.Validate = "some exchange has exactly the primary URL" *)
Definition op_cli_gen_primary (args : list sx) : sx :=
  match args with
  | [_; SB pu; SL tree] =>
      match omap fentry_of_sx tree with
      | Some t =>
          match expected_exchanges (s2b "https://example.com/site/") t with
          | Some xs => if existsb (fun x => bytes_eqb (fst (fst x)) pu) xs then SL [sym "ok"] else SL [sym "refused"]
          | None => unknown_sx
          end
      | None => bad_args
      end
  | _ => bad_args
  end.

Definition dispatch_cli (op : bytes) (args : list sx) : option sx :=
  if bytes_eqb op (s2b "cli_gen_dir") then Some (op_cli_gen_dir args)
  else if bytes_eqb op (s2b "cli_chain") then Some (op_cli_chain args)
  else if bytes_eqb op (s2b "cli_gen_har") then Some (op_cli_gen_har args)
  (* inconsistent key / record size / pre-existing Digest: the tool must refuse *)
  else if bytes_eqb op (s2b "cli_sign_refuse") then Some (SL [sym "refused"])
  else if bytes_eqb op (s2b "cli_gen_primary") then Some (op_cli_gen_primary args)
  else if bytes_eqb op (s2b "escape_path") then Some (op_escape args)
  else None.
