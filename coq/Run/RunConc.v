(* C18: the same logical input gives the same bytes however and however often
   the serializer is called.  The model has one answer per input; the
   implementation is run repeatedly, with permuted map insertion orders,
   interleaved and concurrently, and must give that answer every time. *)
From WP Require Import Base.Prelude Run.Sx Run.RunSxg Run.RunFault.
Open Scope N_scope.

Section Conc.
  Variable dispatch : bytes -> list sx -> sx.

  (* conc op (args...) n : (all-equal? output) *)
  Definition op_conc (args : list sx) : sx :=
    match args with
    | SB op :: SL a :: _ => SL [SZ 1; dispatch op a]
    | _ => bad_args
    end.

  (* conc_shared kind (artifact...) n : one shared object, many goroutines *)
  Definition op_conc_shared (args : list sx) : sx :=
    match args with
    | kind :: SL a :: _ =>
        if fault_taint kind a then unknown_sx else      (* URL outside the decided class *)
        match fault_output kind a with
        | Some r => SL [SZ 1; sx_bytes_R r]
        | None => bad_args
        end
    | _ => bad_args
    end.

  Definition dispatch_conc (op : bytes) (args : list sx) : option sx :=
    if bytes_eqb op (s2b "conc") then Some (op_conc args)
    else if bytes_eqb op (s2b "conc_shared") then Some (op_conc_shared args)
    (* one shared Signer, n goroutines: every signed copy must verify *)
    else if bytes_eqb op (s2b "conc_signer") then Some (SL [SZ 1])
    (* one shared bundle signature.Signer (mock algorithm), n goroutines calling UpdateSignatures: same section every time *)
    else if bytes_eqb op (s2b "conc_bsig_signer") then Some (SL [SZ 1; SZ 1])
    (* first library calls of a fresh process made from 16 goroutines at once: same answers, no race *)
    else if bytes_eqb op (s2b "conc_first_use") then Some (SL [sym "same"])
    else None.
End Conc.
